(* C19 -- proofs about the model in Model.C19_FindWire. *)
From Lib Require Import Bytes Varint.
From Model Require Import C19_FindWire.
From Coq Require Import Lia ZifyN ZifyNat ZifyBool.
Open Scope N_scope.

(* ================================================================ *)
(* 1. JSON trees: unmarshal after marshal                            *)

Lemma map_res_addrs l :
  forallb a_ok l = true -> map_res dec_addr (map JAddr l) = Ok l.
Proof.
  induction l as [|a l IH]; cbn; intro H; [reflexivity|].
  apply andb_prop in H as [Ha Hl]. rewrite Ha. cbn. rewrite (IH Hl). reflexivity.
Qed.

Lemma dec_enc_pinfo p : wf_pinfo p = true -> dec_pinfo (enc_pinfo p) = Ok p.
Proof.
  destruct p as [i ok addrs]. unfold wf_pinfo; cbn [pi_ok pi_addrs].
  intro H. apply andb_prop in H as [Hok Ha]. subst ok.
  unfold enc_pinfo, dec_pinfo. cbn [pi_id pi_ok pi_addrs].
  cbn [lookup field_eqb field_code N.eqb Pos.eqb].
  rewrite (map_res_addrs _ Ha). reflexivity.
Qed.

Lemma dec_enc_result r : wf_result r = true -> dec_result (enc_result r) = Ok (canon r).
Proof.
  destruct r as [ctx md prov]. unfold wf_result, canon, enc_result; cbn [r_ctx r_md r_prov].
  intro Hwf.
  destruct prov as [p|].
  - pose proof (dec_enc_pinfo p Hwf) as Hp.
    destruct ctx as [[|c0 ctx]|]; destruct md as [[|m0 md]|];
      cbn [mlen mcontent length Nat.eqb negb opt_field app dec_result lookup field_eqb field_code
           N.eqb Pos.eqb dec_bytes bind norm];
      rewrite Hp; reflexivity.
  - destruct ctx as [[|c0 ctx]|]; destruct md as [[|m0 md]|]; reflexivity.
Qed.

Lemma map_res_results rs :
  forallb wf_result rs = true -> map_res dec_result (map enc_result rs) = Ok (map canon rs).
Proof.
  induction rs as [|r rs IH]; cbn [forallb map map_res]; intro H; [reflexivity|].
  apply andb_prop in H as [Hr Hrs]. rewrite (dec_enc_result r Hr). cbn [bind].
  rewrite (IH Hrs). reflexivity.
Qed.

Lemma dec_enc_findresp mh rs :
  forallb wf_result rs = true ->
  dec_findresp (enc_findresp [(mh, Some rs)]) = Ok [(mh, map canon rs)].
Proof.
  intro H. unfold enc_findresp, dec_findresp, enc_mhresult, dec_mhresult.
  cbn [is_nil negb opt_field map fst snd lookup field_eqb field_code N.eqb Pos.eqb map_res
       dec_bytes bind mcontent].
  rewrite (map_res_results rs H). reflexivity.
Qed.

Lemma bytes_eqb_refl b : bytes_eqb b b = true.
Proof. apply bytes_eqb_eq. reflexivity. Qed.

Lemma list_eqb_refl {A} (eqb : A -> A -> bool) (l : list A) :
  (forall x, eqb x x = true) -> list_eqb eqb l l = true.
Proof. intro H. induction l; cbn; [reflexivity|]. rewrite H, IHl. reflexivity. Qed.

Lemma addr_eqb_refl a : addr_eqb a a = true.
Proof. unfold addr_eqb. rewrite N.eqb_refl, Bool.eqb_reflx. reflexivity. Qed.

Lemma pinfo_eqb_refl p : pinfo_eqb p p = true.
Proof.
  unfold pinfo_eqb. rewrite N.eqb_refl, Bool.eqb_reflx, (list_eqb_refl _ _ addr_eqb_refl). reflexivity.
Qed.

(* the results that come back are the written ones: same provider, same bytes (nil = empty) *)
Lemma canon_eqv r : presult_eqv r (canon r) = true.
Proof.
  destruct r as [ctx md prov]. unfold presult_eqv, canon; cbn [r_ctx r_md r_prov].
  assert (Hn : forall m, bytes_eqb (mcontent m) (mcontent (norm m)) = true).
  { intros [[|x l]|]; cbn [norm mcontent]; apply bytes_eqb_refl. }
  rewrite !Hn. destruct prov; cbn; [apply pinfo_eqb_refl|reflexivity].
Qed.

Lemma canon_list_eqv rs : list_eqb presult_eqv rs (map canon rs) = true.
Proof. induction rs; cbn; [reflexivity|]. rewrite canon_eqv, IHrs. reflexivity. Qed.

(* canon changes nothing but empty-to-nil *)
Lemma canon_idem r : canon (canon r) = canon r.
Proof.
  destruct r as [[[|x l]|] [[|y m]|] p]; reflexivity.
Qed.

(* ================================================================ *)
(* 2. The writer state machine                                       *)

Lemma write_w s r : pw_w (pw_write s r) = pw_w s.
Proof. unfold pw_write. destruct (w_mode (pw_w s)); reflexivity. Qed.

Lemma write_mode s r : w_mode (pw_w (pw_write s r)) = w_mode (pw_w s).
Proof. rewrite write_w. reflexivity. Qed.

Lemma fold_w rs : forall s, pw_w (fold_left pw_write rs s) = pw_w s.
Proof. induction rs; cbn; intro s; [reflexivity|]. rewrite IHrs. apply write_w. Qed.

Lemma fold_count rs : forall s, pw_count (fold_left pw_write rs s) = (pw_count s + length rs)%nat.
Proof.
  induction rs as [|r rs IH]; cbn [fold_left length]; intro s; [lia|].
  rewrite IH. unfold pw_write. destruct (w_mode (pw_w s)); cbn [pw_count]; lia.
Qed.

Lemma fold_nd rs : forall s, w_mode (pw_w s) = ND ->
  pw_wire (fold_left pw_write rs s) = pw_wire s ++ map enc_result rs /\
  pw_buf (fold_left pw_write rs s) = pw_buf s.
Proof.
  induction rs as [|r rs IH]; cbn [fold_left map]; intros s H.
  - rewrite app_nil_r. split; reflexivity.
  - destruct (IH (pw_write s r)) as [H1 H2]. { rewrite write_mode. exact H. }
    rewrite H1, H2. unfold pw_write. rewrite H. cbn [pw_wire pw_buf].
    rewrite <- app_assoc. split; reflexivity.
Qed.

Lemma fold_js rs : forall s, w_mode (pw_w s) = JS ->
  pw_buf (fold_left pw_write rs s) = pw_buf s ++ rs /\
  pw_wire (fold_left pw_write rs s) = pw_wire s.
Proof.
  induction rs as [|r rs IH]; cbn [fold_left]; intros s H.
  - rewrite app_nil_r. split; reflexivity.
  - destruct (IH (pw_write s r)) as [H1 H2]. { rewrite write_mode. exact H. }
    rewrite H1, H2. unfold pw_write. rewrite H. cbn [pw_wire pw_buf].
    rewrite <- app_assoc. split; reflexivity.
Qed.

(* what is on the wire after writing rs and closing *)
Lemma close_after_writes w rs :
  pw_close (fold_left pw_write rs (PW w 0 [] [])) =
  match rs with
  | [] => Err ENotFound
  | _ => match w_mode w with
         | ND => Ok (BLines (map enc_result rs))
         | JS => Ok (BDoc (enc_findresp [(w_mh w, Some rs)]))
         end
  end.
Proof.
  unfold pw_close. rewrite fold_count, fold_w. cbn [pw_count pw_w plus].
  destruct rs as [|r rs]; [reflexivity|]. cbn [length].
  destruct (w_mode w) eqn:Hm.
  - destruct (fold_nd (r :: rs) (PW w 0 [] [])) as [H1 _]; [exact Hm|]. rewrite H1. reflexivity.
  - destruct (fold_js (r :: rs) (PW w 0 [] [])) as [H1 _]; [exact Hm|]. rewrite H1. reflexivity.
Qed.

Lemma handler_with_ok nw q w rs :
  nw q = Ok w ->
  handler_with nw q rs =
  match rs with
  | [] => Responded (RESP 404 CtText (BErr ENotFound))
  | _ => Responded (RESP 200 (mode_ctype (w_mode w))
           match w_mode w with
           | ND => BLines (map enc_result rs)
           | JS => BDoc (enc_findresp [(w_mh w, Some rs)])
           end)
  end.
Proof.
  intro H. unfold handler_with. rewrite H. cbn [new_pw]. rewrite close_after_writes.
  destruct rs; [reflexivity|]. destruct (w_mode w); reflexivity.
Qed.

Lemma handler_with_err nw q c rs :
  nw q = Err c -> handler_with nw q rs = Responded (RESP 400 CtText (BErr c)).
Proof. intro H. unfold handler_with. rewrite H. reflexivity. Qed.

(* ================================================================ *)
(* 3. rwriter.New never panics in the model                          *)

Lemma negotiate_with_no_panic scan prefer a : is_panic (negotiate_with scan prefer a) = false.
Proof.
  unfold negotiate_with. destruct (scan_values scan false false a) as [[nd ok]|]; [|reflexivity].
  destruct (is_nil a); [destruct prefer; reflexivity|].
  destruct (negb ok && negb nd); reflexivity.
Qed.

Lemma mh_decode_no_panic b : is_panic (mh_decode b) = false.
Proof.
  unfold mh_decode. destruct (length b <? 2)%nat; [reflexivity|].
  destruct (dec_rest b) as [[code r1]| |]; try reflexivity.
  destruct (dec_rest r1) as [[len r2]| |]; try reflexivity.
  destruct (max_int32 <? len); [reflexivity|].
  destruct (N.of_nat (length r2) <? len); [reflexivity|].
  destruct (negb (N.of_nat (length r2) =? len)); reflexivity.
Qed.

Lemma classify_no_panic a b p : is_panic (classify_type a b p) = false.
Proof.
  unfold classify_type. destruct (is_nil _); [reflexivity|].
  destruct (bytes_eqb _ a); [reflexivity|]. destruct (bytes_eqb _ b); reflexivity.
Qed.

Lemma key_bytes_no_panic t k : is_panic (key_bytes t k) = false.
Proof.
  unfold key_bytes. destruct t.
  - destruct (k_b58 k) as [b|]; [destruct (mh_valid b)|]; try reflexivity;
      destruct (k_hex k); reflexivity.
  - destruct (k_cid k); reflexivity.
Qed.

Lemma key_bytes_v0_no_panic t k : is_panic (key_bytes_v0 t k) = false.
Proof.
  unfold key_bytes_v0. destruct t.
  - destruct (k_b58 k); [reflexivity|]. destruct (k_hex k); reflexivity.
  - destruct (k_cid k); reflexivity.
Qed.

Lemma parse_key_with_no_panic kb a b p k :
  (forall t k, is_panic (kb t k) = false) -> is_panic (parse_key_with kb a b p k) = false.
Proof.
  intro H. unfold parse_key_with.
  pose proof (classify_no_panic a b p). destruct (classify_type a b p) as [t| |]; try discriminate; [|reflexivity].
  cbn [bind]. pose proof (H t k). destruct (kb t k) as [x| |]; try discriminate; [|reflexivity].
  cbn [bind]. pose proof (mh_decode_no_panic x). destruct (mh_decode x); try discriminate; reflexivity.
Qed.

Lemma new_writer_with_no_panic neg pk q :
  (forall p a, is_panic (neg p a) = false) ->
  (forall a b p k, is_panic (pk a b p k) = false) ->
  is_panic (new_writer_with neg pk q) = false.
Proof.
  intros Hn Hp. unfold new_writer_with.
  pose proof (Hn (q_prefer q) (q_accepts q)) as H1.
  destruct (neg (q_prefer q) (q_accepts q)); try discriminate; [|reflexivity].
  cbn [bind]. pose proof (Hp (q_mhtype q) (q_cidtype q) (q_path q) (q_key q)) as H2.
  destruct (pk _ _ _ _) as [[[t b] c]| |]; try discriminate; reflexivity.
Qed.

Lemma new_writer_no_panic q : is_panic (new_writer q) = false.
Proof.
  apply new_writer_with_no_panic.
  - intros. apply negotiate_with_no_panic.
  - intros. apply parse_key_with_no_panic. apply key_bytes_no_panic.
Qed.

Lemma new_writer_v0_no_panic q : is_panic (new_writer_v0 q) = false.
Proof.
  apply new_writer_with_no_panic.
  - intros. apply negotiate_with_no_panic.
  - intros. apply parse_key_with_no_panic. apply key_bytes_v0_no_panic.
Qed.

(* ================================================================ *)
(* 4. Content negotiation, characterised                             *)

(* once satisfied, the rest of a value is only checked for malformed elements *)
Lemma scan_sat prefer nd ok l :
  scan_elems prefer nd ok true l = if existsb is_mterr l then None else Some (nd, ok).
Proof.
  induction l as [|e l IH]; [reflexivity|].
  destruct e; cbn [scan_elems existsb is_mterr orb]; try exact IH. reflexivity.
Qed.

Ltac fin_imp H3 :=
  let H := fresh in let A := fresh in
  intro H; destruct (H3 H) as [A|A];
  [first [left; exact A | right; reflexivity] | right; rewrite A; apply orb_true_r].

(* the repaired scan: None iff an element is malformed; otherwise the flags satisfy
   (nd' || ok') = (nd || ok || some element supported), provided sat -> nd && ok *)
Lemma scan_elems_spec prefer l : forall nd ok sat,
  (sat = true -> nd && ok = true) ->
  if existsb is_mterr l then scan_elems prefer nd ok sat l = None
  else exists nd' ok', scan_elems prefer nd ok sat l = Some (nd', ok') /\
       (nd' || ok') = (nd || ok || existsb supported l) /\
       (nd' = true -> nd = true \/ existsb admits_nd l = true) /\
       (ok' = true -> ok = true \/ existsb admits_json l = true).
Proof.
  induction l as [|e l IH]; intros nd ok sat Hs.
  - cbn. exists nd, ok. rewrite orb_false_r. repeat split; auto.
  - destruct sat.
    + rewrite scan_sat. specialize (Hs eq_refl). apply andb_prop in Hs as [-> ->].
      destruct (existsb is_mterr (e :: l)); [reflexivity|].
      exists true, true. repeat split; auto.
    + destruct e; cbn [scan_elems existsb is_mterr orb upd]; try reflexivity.
      * (* MTNd *)
        specialize (IH true ok (true && ok)).
        destruct (existsb is_mterr l); [apply IH; auto|].
        destruct IH as (nd' & ok' & H1 & H2 & H3 & H4); [auto|].
        exists nd', ok'. split; [exact H1|]. split; [|split].
        -- rewrite H2. destruct nd, ok; reflexivity.
        -- fin_imp H3.
        -- fin_imp H4.
      * (* MTJson *)
        specialize (IH nd true (nd && true)).
        destruct (existsb is_mterr l); [apply IH; auto|].
        destruct IH as (nd' & ok' & H1 & H2 & H3 & H4); [auto|].
        exists nd', ok'. split; [exact H1|]. split; [|split].
        -- rewrite H2. destruct nd, ok; reflexivity.
        -- fin_imp H3.
        -- fin_imp H4.
      * (* MTAny *)
        specialize (IH (negb prefer) true (negb prefer && true)).
        destruct (existsb is_mterr l); [apply IH; auto|].
        destruct IH as (nd' & ok' & H1 & H2 & H3 & H4); [auto|].
        exists nd', ok'. split; [exact H1|]. split; [|split].
        -- rewrite H2. destruct nd, ok, prefer; reflexivity.
        -- fin_imp H3.
        -- fin_imp H4.
      * (* MTOther *)
        specialize (IH nd ok (nd && ok)).
        destruct (existsb is_mterr l); [apply IH; auto|].
        destruct IH as (nd' & ok' & H1 & H2 & H3 & H4); [auto|].
        exists nd', ok'. split; [exact H1|]. split; [|split].
        -- rewrite H2. destruct nd, ok; reflexivity.
        -- fin_imp H3.
        -- fin_imp H4.
Qed.

Lemma scan_values_spec prefer a : forall nd ok,
  if has_malformed a
  then scan_values (fun nd ok => scan_elems prefer nd ok false) nd ok a = None
  else exists nd' ok',
       scan_values (fun nd ok => scan_elems prefer nd ok false) nd ok a = Some (nd', ok') /\
       (nd' || ok') = (nd || ok || has_supported a) /\
       (nd' = true -> nd = true \/ existsb (existsb admits_nd) a = true) /\
       (ok' = true -> ok = true \/ existsb (existsb admits_json) a = true).
Proof.
  unfold has_malformed, has_supported.
  induction a as [|v a IH]; intros nd ok.
  - cbn. exists nd, ok. rewrite orb_false_r. repeat split; auto.
  - cbn [existsb scan_values].
    pose proof (scan_elems_spec prefer v nd ok false) as Hv.
    destruct (existsb is_mterr v).
    + cbn [orb]. rewrite Hv; [reflexivity|discriminate].
    + cbn [orb]. destruct Hv as (nd1 & ok1 & E1 & O1 & N1 & J1); [discriminate|].
      rewrite E1. specialize (IH nd1 ok1).
      destruct (existsb (existsb is_mterr) a); [exact IH|].
      destruct IH as (nd2 & ok2 & E2 & O2 & N2 & J2).
      exists nd2, ok2. repeat split; auto.
      * rewrite O2, O1. rewrite <- !orb_assoc. reflexivity.
      * intro H. destruct (N2 H) as [H'|H']; [destruct (N1 H') as [?|Hx]; [left; auto|right; rewrite Hx; reflexivity]|right; rewrite H'; apply orb_true_r].
      * intro H. destruct (J2 H) as [H'|H']; [destruct (J1 H') as [?|Hx]; [left; auto|right; rewrite Hx; reflexivity]|right; rewrite H'; apply orb_true_r].
Qed.

(* the complete table of rwriter.New's negotiation (repaired code) *)
Lemma negotiate_spec prefer a :
  negotiate prefer a =
  if has_malformed a then Err EInvalidAccept
  else if is_nil a then (if prefer then Ok JS else Err EAcceptMissing)
  else if negb (has_supported a) then Err EUnsupportedMedia
  else negotiate prefer a.
Proof.
  unfold negotiate, negotiate_with.
  pose proof (scan_values_spec prefer a false false) as H.
  destruct (has_malformed a).
  - rewrite H. reflexivity.
  - destruct H as (nd & ok & E & O & _ & _). rewrite E.
    destruct (is_nil a); [reflexivity|].
    cbn [orb] in O. destruct (has_supported a); cbn [negb].
    + reflexivity.
    + destruct nd, ok; try discriminate. reflexivity.
Qed.

Lemma negotiate_ok_iff prefer a :
  is_ok (negotiate prefer a) = negb (has_malformed a) && (if is_nil a then prefer else has_supported a).
Proof.
  unfold negotiate, negotiate_with.
  pose proof (scan_values_spec prefer a false false) as H.
  destruct (has_malformed a).
  - rewrite H. reflexivity.
  - destruct H as (nd & ok & E & O & _ & _). rewrite E. cbn [negb andb].
    destruct (is_nil a); [destruct prefer; reflexivity|].
    cbn [orb] in O. rewrite <- O. destruct nd, ok; reflexivity.
Qed.

Lemma negotiate_table prefer a :
  (has_malformed a = true -> negotiate prefer a = Err EInvalidAccept) /\
  (has_malformed a = false -> a = [] ->
     negotiate prefer a = if prefer then Ok JS else Err EAcceptMissing) /\
  (has_malformed a = false -> a <> [] -> has_supported a = false ->
     negotiate prefer a = Err EUnsupportedMedia) /\
  (has_malformed a = false -> a <> [] -> has_supported a = true ->
     exists m, negotiate prefer a = Ok m).
Proof.
  pose proof (negotiate_spec prefer a) as S. pose proof (negotiate_ok_iff prefer a) as I.
  repeat split.
  - intro H. rewrite H in S. exact S.
  - intros H ->. rewrite S. reflexivity.
  - intros H Hn Hs. rewrite H, Hs in S. destruct a; [contradiction|]. exact S.
  - intros H Hn Hs. rewrite H, Hs in I. destruct a; [contradiction|]. cbn in I.
    destruct (negotiate prefer (l :: a)); try discriminate. eauto.
Qed.

(* the answer is a media type the header admits *)
Lemma negotiate_mode_acceptable prefer a m :
  negotiate prefer a = Ok m ->
  match m with
  | ND => existsb (existsb admits_nd) a = true
  | JS => a = [] \/ existsb (existsb admits_json) a = true
  end.
Proof.
  unfold negotiate, negotiate_with.
  pose proof (scan_values_spec prefer a false false) as H.
  destruct (has_malformed a).
  - rewrite H. discriminate.
  - destruct H as (nd & ok & E & O & Hn & Hj). rewrite E.
    destruct a as [|v a].
    + cbn [is_nil]. destruct prefer; intro X; inversion X. left. reflexivity.
    + cbn [is_nil]. destruct (negb ok && negb nd) eqn:B; [discriminate|].
      intro X. inversion X. destruct nd.
      * destruct (Hn eq_refl) as [?|?]; [discriminate|assumption].
      * destruct ok; [|discriminate]. right. destruct (Hj eq_refl) as [?|?]; [discriminate|assumption].
Qed.

(* the old code: identical on headers without malformed elements ... *)
Lemma scan_v0_agrees prefer l : forall nd ok,
  existsb is_mterr l = false ->
  scan_elems_v0 prefer nd ok l = scan_elems prefer nd ok false l.
Proof.
  induction l as [|e l IH]; intros nd ok H; [reflexivity|].
  cbn [existsb] in H. apply orb_false_elim in H as [He Hl].
  destruct e; try discriminate; cbn [scan_elems_v0 scan_elems upd].
  - destruct (true && ok) eqn:B.
    + rewrite scan_sat, Hl. reflexivity.
    + apply IH. exact Hl.
  - destruct (nd && true) eqn:B.
    + rewrite scan_sat, Hl. reflexivity.
    + apply IH. exact Hl.
  - destruct (negb prefer && true) eqn:B.
    + rewrite scan_sat, Hl. reflexivity.
    + apply IH. exact Hl.
  - destruct (nd && ok) eqn:B.
    + rewrite scan_sat, Hl. reflexivity.
    + apply IH. exact Hl.
Qed.

Lemma scan_values_v0_agrees prefer a : forall nd ok,
  has_malformed a = false ->
  scan_values (scan_elems_v0 prefer) nd ok a =
  scan_values (fun nd ok => scan_elems prefer nd ok false) nd ok a.
Proof.
  unfold has_malformed. induction a as [|v a IH]; intros nd ok H; [reflexivity|].
  cbn [existsb] in H. apply orb_false_elim in H as [Hv Ha].
  cbn [scan_values]. rewrite (scan_v0_agrees prefer v nd ok Hv).
  destruct (scan_elems prefer nd ok false v) as [[nd' ok']|]; [|reflexivity].
  apply IH. exact Ha.
Qed.

Lemma negotiate_fix_conservative prefer a :
  has_malformed a = false -> negotiate prefer a = negotiate_v0 prefer a.
Proof.
  intro H. unfold negotiate, negotiate_v0, negotiate_with.
  rewrite (scan_values_v0_agrees prefer a false false H). reflexivity.
Qed.

(* ... and it let a malformed element pass once both types had been seen *)
Lemma negotiate_v0_accepts_malformed :
  negotiate_v0 false [[MTAny; MTErr]] = Ok ND /\ has_malformed [[MTAny; MTErr]] = true.
Proof. split; reflexivity. Qed.

(* ================================================================ *)
(* 5. Paths                                                          *)

Lemma split_slash_nonempty p : split_slash p <> [].
Proof.
  destruct p as [|c r]; cbn; [discriminate|].
  destruct (c =? 47); [discriminate|]. destruct (split_slash r); discriminate.
Qed.

Lemma split_slash_app a b : split_slash (a ++ 47 :: b) = split_slash a ++ split_slash b.
Proof.
  induction a as [|c a IH]; [reflexivity|].
  cbn [app split_slash]. destruct (c =? 47).
  - rewrite IH. reflexivity.
  - rewrite IH. pose proof (split_slash_nonempty a).
    destruct (split_slash a) as [|s t]; [contradiction|]. reflexivity.
Qed.

Lemma split_slash_plain l : no_slash l = true -> split_slash l = [l].
Proof.
  unfold no_slash. induction l as [|c l IH]; [reflexivity|].
  cbn [existsb]. intro H. apply negb_true_iff in H. apply orb_false_elim in H as [Hc Hl].
  cbn [split_slash]. rewrite Hc. rewrite IH; [reflexivity|]. rewrite Hl. reflexivity.
Qed.

Lemma last_nonempty_some l s : last_nonempty l = Some s -> s <> [].
Proof.
  revert s. induction l as [|x l IH]; intros s; cbn; [discriminate|].
  destruct (last_nonempty l) as [y|].
  - intro H. inversion H; subst. apply IH. reflexivity.
  - destruct x; cbn; [discriminate|]. intro H. inversion H. discriminate.
Qed.

(* path.Base never returns the empty string: the "missing resource type" branch of
   rwriter.New is dead *)
Lemma path_base_nonempty p : path_base p <> [].
Proof.
  unfold path_base. destruct (is_nil p); [discriminate|].
  destruct (last_nonempty (split_slash p)) eqn:E; [|discriminate].
  eapply last_nonempty_some. exact E.
Qed.

Lemma classify_never_missing a b p : classify_type a b p <> Err EMissingType.
Proof.
  unfold classify_type. pose proof (path_base_nonempty (path_dir p)).
  destruct (path_base (path_dir p)); [contradiction|]. cbn [is_nil].
  destruct (bytes_eqb _ a); [discriminate|]. destruct (bytes_eqb _ b); discriminate.
Qed.

Lemma trim_plain kt : plain_key kt = true -> trim_space kt = kt.
Proof.
  unfold plain_key, trim_space. intro H.
  apply andb_prop in H as [H H3]. apply andb_prop in H as [_ H2].
  destruct kt as [|c kt]; [discriminate|]. apply negb_true_iff in H2.
  cbn [drop_ws]. rewrite H2.
  destruct (rev (c :: kt)) as [|d r] eqn:E; [discriminate|]. apply negb_true_iff in H3.
  cbn [drop_ws]. rewrite H3. rewrite <- E. apply rev_involutive.
Qed.

Lemma client_path_split kt :
  plain_key kt = true -> split_slash (client_path kt) = [[]; mh_type; kt].
Proof.
  intro H. unfold plain_key in H. apply andb_prop in H as [H _]. apply andb_prop in H as [H _].
  unfold client_path.
  change (47 :: mh_type ++ 47 :: kt) with ((47 :: mh_type) ++ 47 :: kt).
  rewrite split_slash_app, (split_slash_plain kt H). reflexivity.
Qed.

Lemma client_path_base kt : plain_key kt = true -> path_base (client_path kt) = kt.
Proof.
  intro H. unfold path_base. rewrite (client_path_split kt H).
  unfold client_path. cbn [is_nil].
  unfold plain_key in H. apply andb_prop in H as [H _]. apply andb_prop in H as [_ H].
  destruct kt as [|c kt]; [discriminate|]. reflexivity.
Qed.

Lemma client_path_type kt :
  plain_key kt = true -> path_base (path_dir (client_path kt)) = mh_type.
Proof.
  intro H. unfold path_dir, dir_part. rewrite (client_path_split kt H). reflexivity.
Qed.

Lemma client_key_text kt : plain_key kt = true -> key_text (client_path kt) = kt.
Proof. intro H. unfold key_text. rewrite (client_path_base kt H). apply trim_plain. exact H. Qed.

(* ================================================================ *)
(* 6. Keys                                                           *)

Lemma mh_valid_decode b : mh_valid b = true -> exists code, mh_decode b = Ok code.
Proof. unfold mh_valid. destruct (mh_decode b); try discriminate. eauto. Qed.

(* repaired code: which multihash a key is read as *)
Lemma key_bytes_b58 k m :
  k_b58 k = Some m -> mh_valid m = true -> key_bytes PMh k = Ok m.
Proof. intros H1 H2. unfold key_bytes. rewrite H1, H2. reflexivity. Qed.

Lemma key_bytes_hex k m :
  k_hex k = Some m ->
  match k_b58 k with None => true | Some b => negb (mh_valid b) end = true ->
  key_bytes PMh k = Ok m.
Proof.
  intros H1 H2. unfold key_bytes. rewrite H1.
  destruct (k_b58 k) as [b|]; [|reflexivity].
  apply negb_true_iff in H2. rewrite H2. reflexivity.
Qed.

Lemma key_bytes_cid k m : k_cid k = Some m -> key_bytes PCid k = Ok m.
Proof. intro H. unfold key_bytes. rewrite H. reflexivity. Qed.

Lemma key_ok_iff t k :
  is_ok (b <- key_bytes t k ;; code <- mh_decode b ;; Ok (t, b, code)) = good_key t k.
Proof.
  unfold good_key, key_bytes. destruct t.
  - destruct (k_b58 k) as [b|].
    + destruct (mh_valid b) eqn:V.
      * cbn [bind orb]. destruct (mh_valid_decode b V) as [c ->]. reflexivity.
      * cbn [orb]. destruct (k_hex k) as [h|]; [|reflexivity].
        cbn [bind]. unfold mh_valid. destruct (mh_decode h); reflexivity.
    + cbn [orb]. destruct (k_hex k) as [h|]; [|reflexivity].
      cbn [bind]. unfold mh_valid. destruct (mh_decode h); reflexivity.
  - destruct (k_cid k) as [c|]; [|reflexivity].
    cbn [bind]. unfold mh_valid. destruct (mh_decode c); reflexivity.
Qed.

Lemma classify_spec a b p :
  classify_type a b p =
  if bytes_eqb (path_base (path_dir p)) a then Ok PMh
  else if bytes_eqb (path_base (path_dir p)) b then Ok PCid
  else Err EUnsupportedType.
Proof.
  unfold classify_type. pose proof (path_base_nonempty (path_dir p)).
  destruct (path_base (path_dir p)); [contradiction|]. reflexivity.
Qed.

Lemma parse_key_ok_iff a b p k :
  is_ok (parse_key a b p k) = good_type a b p && good_key (type_of a b p) k.
Proof.
  unfold parse_key, parse_key_with, good_type, type_of. rewrite classify_spec.
  destruct (bytes_eqb (path_base (path_dir p)) a).
  - cbn [bind orb andb]. apply key_ok_iff.
  - destruct (bytes_eqb (path_base (path_dir p)) b).
    + cbn [bind orb andb]. apply key_ok_iff.
    + reflexivity.
Qed.

(* whatever the old code accepted the repaired code reads identically *)
Lemma key_fix_conservative a b p k x :
  parse_key_v0 a b p k = Ok x -> parse_key a b p k = Ok x.
Proof.
  unfold parse_key_v0, parse_key, parse_key_with.
  destruct (classify_type a b p) as [t| |]; try discriminate. cbn [bind].
  destruct t; [|exact (fun H => H)].
  unfold key_bytes_v0, key_bytes.
  destruct (k_b58 k) as [m|]; [|exact (fun H => H)].
  cbn [bind]. destruct (mh_decode m) eqn:E; try discriminate.
  unfold mh_valid. rewrite E. cbn [is_ok bind]. rewrite E. exact (fun H => H).
Qed.

(* ================================================================ *)
(* 7. The 400 answers, characterised                                 *)

Lemma new_writer_ok_iff q : is_ok (new_writer q) = good_request q.
Proof.
  unfold new_writer, new_writer_with, good_request, good_accept.
  rewrite <- negotiate_ok_iff.
  destruct (negotiate (q_prefer q) (q_accepts q)); cbn [bind is_ok andb]; try reflexivity.
  rewrite <- parse_key_ok_iff.
  destruct (parse_key _ _ _ _) as [[[t b] c]| |]; reflexivity.
Qed.

(* the error classes rwriter.New can answer with *)
Lemma mh_decode_err b c : mh_decode b = Err c -> c = EMhDecode.
Proof.
  unfold mh_decode. destruct (length b <? 2)%nat; [intro H; inversion H; reflexivity|].
  destruct (dec_rest b) as [[code r1]| |]; try (intro H; inversion H; reflexivity).
  destruct (dec_rest r1) as [[len r2]| |]; try (intro H; inversion H; reflexivity).
  destruct (max_int32 <? len); [intro H; inversion H; reflexivity|].
  destruct (N.of_nat (length r2) <? len); [intro H; inversion H; reflexivity|].
  destruct (negb (N.of_nat (length r2) =? len)); intro H; inversion H; reflexivity.
Qed.

Lemma negotiate_err prefer a c :
  negotiate prefer a = Err c -> c = EInvalidAccept \/ c = EAcceptMissing \/ c = EUnsupportedMedia.
Proof.
  unfold negotiate, negotiate_with.
  destruct (scan_values _ false false a) as [[nd ok]|]; [|intro H; inversion H; auto].
  destruct (is_nil a); [destruct prefer; intro H; inversion H; auto|].
  destruct (negb ok && negb nd); intro H; inversion H; auto.
Qed.

Lemma key_bytes_err t k c :
  key_bytes t k = Err c -> c = EInvalidMultihash \/ c = ECidDecode.
Proof.
  unfold key_bytes. destruct t.
  - destruct (match k_b58 k with Some b => if mh_valid b then Some b else None | None => None end);
      [discriminate|]. destruct (k_hex k); [discriminate|]. intro H; inversion H; auto.
  - destruct (k_cid k); [discriminate|]. intro H; inversion H; auto.
Qed.

Lemma new_writer_err_not_missing q c : new_writer q = Err c -> c <> EMissingType.
Proof.
  unfold new_writer, new_writer_with, parse_key, parse_key_with.
  destruct (negotiate (q_prefer q) (q_accepts q)) as [m|c'|c'] eqn:N; cbn [bind]; [| |discriminate].
  - pose proof (classify_never_missing (q_mhtype q) (q_cidtype q) (q_path q)) as Hc.
    destruct (classify_type _ _ _) as [t|c'|c']; cbn [bind]; [| |discriminate].
    + destruct (key_bytes t (q_key q)) as [b|c'|c'] eqn:K; cbn [bind]; [| |discriminate].
      * destruct (mh_decode b) as [code|c'|c'] eqn:D; cbn [bind]; try discriminate.
        intro H; inversion H; subst. rewrite (mh_decode_err b c D). discriminate.
      * intro H; inversion H; subst. destruct (key_bytes_err _ _ _ K) as [->| ->]; discriminate.
    + intro H; inversion H; subst. intros ->. apply Hc. reflexivity.
  - intro H; inversion H; subst.
    destruct (negotiate_err _ _ _ N) as [->|[->| ->]]; discriminate.
Qed.

(* ================================================================ *)
(* 8. Property theorems (stated again in props/Properties_C19.v)     *)

Theorem client_reads_what_writer_wrote_proved :
  forall q w rs,
    new_writer q = Ok w -> rs <> [] -> forallb wf_result rs = true ->
    exists resp,
      handler q rs = Responded resp /\ s_status resp = 200 /\
      match w_mode w with
      | JS => s_ctype resp = CtJson /\ client_read resp = Ok [(w_mh w, map canon rs)]
      | ND => s_ctype resp = CtNd /\ nd_read resp = Ok (map canon rs)
      end /\
      list_eqb presult_eqv rs (map canon rs) = true.
Proof.
  intros q w rs Hw Hne Hwf. unfold handler. rewrite (handler_with_ok _ q w rs Hw).
  destruct rs as [|r rs]; [contradiction|].
  eexists. split; [reflexivity|]. split; [reflexivity|]. split; [|apply canon_list_eqv].
  destruct (w_mode w); cbn [mode_ctype].
  - split; [reflexivity|]. unfold nd_read. cbn [s_status s_body N.eqb Pos.eqb negb].
    apply map_res_results. exact Hwf.
  - split; [reflexivity|]. unfold client_read. cbn [s_status s_body N.eqb Pos.eqb negb].
    apply dec_enc_findresp. exact Hwf.
Qed.

Theorem writer_answers_for_requested_key_proved :
  forall q w, new_writer q = Ok w ->
    (w_ptype w = PMh ->
       (forall m, k_b58 (q_key q) = Some m -> mh_valid m = true -> w_mh w = m) /\
       (forall m, k_hex (q_key q) = Some m ->
          match k_b58 (q_key q) with None => true | Some b => negb (mh_valid b) end = true ->
          w_mh w = m)) /\
    (w_ptype w = PCid -> k_cid (q_key q) = Some (w_mh w)) /\
    mh_decode (w_mh w) = Ok (w_code w).
Proof.
  intros q w. unfold new_writer, new_writer_with, parse_key, parse_key_with.
  destruct (negotiate _ _); try discriminate. cbn [bind].
  destruct (classify_type _ _ _) as [t| |]; try discriminate. cbn [bind].
  destruct (key_bytes t (q_key q)) as [b| |] eqn:K; try discriminate. cbn [bind].
  destruct (mh_decode b) as [c| |] eqn:D; try discriminate. cbn [bind].
  intro H. inversion H; subst; clear H. cbn [w_ptype w_mh w_code].
  split; [|split].
  - intros ->. split.
    + intros m H1 H2. rewrite (key_bytes_b58 _ m H1 H2) in K. inversion K. reflexivity.
    + intros m H1 H2. rewrite (key_bytes_hex _ m H1 H2) in K. inversion K. reflexivity.
  - intros ->. unfold key_bytes in K. destruct (k_cid (q_key q)); [|discriminate].
    inversion K. reflexivity.
  - exact D.
Qed.

(* the repaired client's request is always accepted, in JSON mode, for its multihash *)
Lemma client_request_writer prefer kt m hexv cidv :
  plain_key kt = true -> mh_valid m = true ->
  exists code, new_writer (client_request prefer kt m hexv cidv) = Ok (W JS PMh m code).
Proof.
  intros Hk Hm. destruct (mh_valid_decode m Hm) as [code Hd]. exists code.
  unfold new_writer, new_writer_with, client_request.
  cbn [q_prefer q_accepts q_mhtype q_cidtype q_path q_key].
  assert (Hn : negotiate prefer [[MTJson]] = Ok JS) by (destruct prefer; reflexivity).
  rewrite Hn. cbn [bind].
  unfold parse_key, parse_key_with, classify_type. rewrite (client_path_type kt Hk).
  change (is_nil mh_type) with false. cbn iota. rewrite bytes_eqb_refl. cbn [bind].
  rewrite (key_bytes_b58 (KV (Some m) hexv cidv) m eq_refl Hm). cbn [bind]. rewrite Hd. reflexivity.
Qed.

Theorem find_client_end_to_end_proved :
  forall prefer kt m hexv cidv rs,
    plain_key kt = true -> mh_valid m = true -> forallb wf_result rs = true ->
    outcome_read (handler (client_request prefer kt m hexv cidv) rs) =
    Ok (if is_nil rs then [] else [(m, map canon rs)]).
Proof.
  intros prefer kt m hexv cidv rs Hk Hm Hwf.
  destruct (client_request_writer prefer kt m hexv cidv Hk Hm) as [code Hw].
  unfold handler. rewrite (handler_with_ok _ _ _ rs Hw).
  destruct rs as [|r rs]; [reflexivity|].
  cbn [w_mode w_mh mode_ctype outcome_read is_nil].
  unfold client_read. cbn [s_status s_body N.eqb Pos.eqb negb].
  apply dec_enc_findresp. exact Hwf.
Qed.

(* the client before the fix sent no Accept header: a server that does not prefer JSON
   (rwriter's default) answers 400 to every Find, whatever was written *)
Theorem find_client_v0_fails_proved :
  forall kt m hexv cidv rs,
    outcome_read (handler_v0 (client_request_v0 false kt m hexv cidv) rs) = Err EStatus /\
    outcome_read (handler (client_request_v0 false kt m hexv cidv) rs) = Err EStatus.
Proof. intros. split; reflexivity. Qed.

(* ... while it did work against a server configured WithPreferJson(true) *)
Theorem find_client_v0_prefer_json_proved :
  forall kt m hexv cidv rs,
    plain_key kt = true -> mh_valid m = true -> forallb wf_result rs = true ->
    outcome_read (handler_v0 (client_request_v0 true kt m hexv cidv) rs) =
    Ok (if is_nil rs then [] else [(m, map canon rs)]).
Proof.
  intros kt m hexv cidv rs Hk Hm Hwf.
  destruct (mh_valid_decode m Hm) as [code Hd].
  assert (Hw : new_writer_v0 (client_request_v0 true kt m hexv cidv) = Ok (W JS PMh m code)).
  { unfold new_writer_v0, new_writer_with, client_request_v0.
    cbn [q_prefer q_accepts q_mhtype q_cidtype q_path q_key].
    change (negotiate_v0 true []) with (Ok JS : res mode). cbn [bind].
    unfold parse_key_v0, parse_key_with, classify_type. rewrite (client_path_type kt Hk).
    change (is_nil mh_type) with false. cbn iota. rewrite bytes_eqb_refl. cbn [bind].
    cbn [key_bytes_v0 k_b58 bind]. rewrite Hd. reflexivity. }
  unfold handler_v0. rewrite (handler_with_ok _ _ _ rs Hw).
  destruct rs as [|r rs]; [reflexivity|].
  cbn [w_mode w_mh mode_ctype outcome_read is_nil].
  unfold client_read. cbn [s_status s_body N.eqb Pos.eqb negb].
  apply dec_enc_findresp. exact Hwf.
Qed.

(* FindBatch: per multihash what was written, in request order; not-found skipped *)
Theorem find_batch_proved :
  forall prefer items, forallb item_ok items = true ->
    batch_model (map (item_request prefer) items) = Ok (flat_map item_expected items).
Proof.
  intros prefer items. induction items as [|[[kt m] rs] items IH]; intro H; [reflexivity|].
  cbn [forallb] in H. apply andb_prop in H as [Hi Hr].
  unfold item_ok in Hi. apply andb_prop in Hi as [Hi Hwf]. apply andb_prop in Hi as [Hk Hm].
  cbn [map item_request batch_model flat_map item_expected].
  rewrite (find_client_end_to_end_proved prefer kt m None None rs Hk Hm Hwf). cbn [bind].
  rewrite (IH Hr). reflexivity.
Qed.

Theorem ndjson_one_result_per_line_proved :
  forall w rs, w_mode w = ND ->
    let s := fold_left pw_write rs (PW w 0 [] []) in
    pw_wire s = map enc_result rs /\
    length (pw_wire s) = length rs /\
    (forall i r, nth_error rs i = Some r ->
       nth_error (pw_wire s) i = Some (enc_result r) /\
       (wf_result r = true -> dec_result (enc_result r) = Ok (canon r))) /\
    (forall rs1 rs2, rs = rs1 ++ rs2 ->
       pw_wire s = pw_wire (fold_left pw_write rs1 (PW w 0 [] [])) ++ map enc_result rs2).
Proof.
  intros w rs Hm s.
  destruct (fold_nd rs (PW w 0 [] [])) as [H1 _]; [exact Hm|]. cbn [pw_wire app] in H1.
  subst s. rewrite H1. split; [reflexivity|]. split; [apply map_length|]. split.
  - intros i r Hi. split; [apply map_nth_error; exact Hi|apply dec_enc_result].
  - intros rs1 rs2 ->. destruct (fold_nd rs1 (PW w 0 [] [])) as [H2 _]; [exact Hm|].
    cbn [pw_wire app] in H2. rewrite H2. apply map_app.
Qed.

Theorem empty_is_404_and_empty_resp_proved :
  forall q w, new_writer q = Ok w ->
    handler q [] = Responded (RESP 404 CtText (BErr ENotFound)) /\
    outcome_read (handler q []) = Ok [] /\
    (forall rs resp, handler q rs = Responded resp -> s_status resp = 404 -> rs = []).
Proof.
  intros q w Hw. unfold handler. split; [|split].
  - rewrite (handler_with_ok _ q w [] Hw). reflexivity.
  - rewrite (handler_with_ok _ q w [] Hw). reflexivity.
  - intros rs resp. rewrite (handler_with_ok _ q w rs Hw).
    destruct rs; [reflexivity|]. intro H. inversion H; subst. cbn. discriminate.
Qed.

Theorem bad_negotiation_is_4xx_never_panic_proved :
  forall q rs, exists resp,
    handler q rs = Responded resp /\
    (s_status resp = 200 \/ s_status resp = 404 \/ s_status resp = 400) /\
    (s_status resp = 400 <-> good_request q = false) /\
    (s_status resp = 400 -> s_ctype resp = CtText /\ exists c, s_body resp = BErr c /\ c <> EMissingType).
Proof.
  intros q rs. pose proof (new_writer_no_panic q) as Hp. pose proof (new_writer_ok_iff q) as Hi.
  unfold handler. destruct (new_writer q) as [w|c|c] eqn:E; try discriminate.
  - rewrite (handler_with_ok _ q w rs E). cbn [is_ok] in Hi.
    destruct rs as [|r rs]; eexists; (split; [reflexivity|]); cbn [s_status s_ctype s_body].
    + split; [auto|]. split; [split; [discriminate|congruence]|discriminate].
    + split; [auto|]. split; [split; [discriminate|congruence]|discriminate].
  - rewrite (handler_with_err _ q c rs E). cbn [is_ok] in Hi.
    eexists; (split; [reflexivity|]); cbn [s_status s_ctype s_body].
    split; [auto|]. split; [split; auto|]. intros _. split; [reflexivity|].
    exists c. split; [reflexivity|]. eapply new_writer_err_not_missing. exact E.
Qed.

(* ---- MarshalFindResponse / UnmarshalFindResponse for any FindResponse ---- *)

Definition wf_mhresult (x : bytes * option (list presult)) : bool :=
  match snd x with Some rs => forallb wf_result rs | None => true end.
Definition canon_mhresult (x : bytes * option (list presult)) : bytes * list presult :=
  (fst x, match snd x with Some rs => map canon rs | None => [] end).

Lemma dec_enc_mhresult x :
  wf_mhresult x = true -> dec_mhresult (enc_mhresult (fst x) (snd x)) = Ok (canon_mhresult x).
Proof.
  destruct x as [mh [rs|]]; unfold wf_mhresult, canon_mhresult, enc_mhresult, dec_mhresult; cbn [fst snd];
    cbn [lookup field_eqb field_code N.eqb Pos.eqb dec_bytes bind mcontent]; intro H.
  - rewrite (map_res_results rs H). reflexivity.
  - reflexivity.
Qed.

Theorem marshal_find_response_roundtrip_proved :
  forall l, forallb wf_mhresult l = true ->
    dec_findresp (enc_findresp l) = Ok (map canon_mhresult l).
Proof.
  intros l H. unfold enc_findresp, dec_findresp. destruct l as [|x l]; [reflexivity|].
  cbn [is_nil negb opt_field lookup field_eqb field_code N.eqb Pos.eqb].
  revert H. generalize (x :: l). clear x l. induction l as [|x l IH]; intro H; [reflexivity|].
  cbn [forallb] in H. apply andb_prop in H as [Hx Hl]. cbn [map map_res].
  change (fun x0 : bytes * option (list presult) => enc_mhresult (fst x0) (snd x0)) with (fun x0 : bytes * option (list presult) => enc_mhresult (fst x0) (snd x0)).
  rewrite (dec_enc_mhresult x Hx). cbn [bind]. rewrite (IH Hl). reflexivity.
Qed.

(* ---- the ResponseWriter wrapper and MatchQueryParam ---- *)

(* used as the handlers use it -- at most one status written -- StatusCode() is the status on
   the wire *)
Theorem status_code_is_wire_status_proved :
  rw_status_after [] = wire_status_after [] /\
  (forall c, rw_status_after [c] = wire_status_after [c]) /\
  (forall c calls, forallb (fun x => (x =? 200) || (x =? c)) calls = true ->
     rw_status_after calls = wire_status_after calls).
Proof.
  split; [reflexivity|]. split.
  - intro c. unfold rw_status_after, wire_status_after. cbn [fold_left filter]. destruct (c =? 200); reflexivity.
  - intros c calls H. unfold rw_status_after, wire_status_after.
    assert (G : forall st, (st = 200 \/ st = c) ->
      fold_left (fun st0 c0 => if c0 =? 200 then st0 else c0) calls st =
      match filter (fun c0 => negb (c0 =? 200)) calls with [] => st | c0 :: _ => c0 end).
    { induction calls as [|x r IH]; intros st Hst; [reflexivity|].
      cbn [forallb] in H. apply andb_prop in H as [Hx Hr]. cbn [fold_left filter].
      destruct (x =? 200) eqn:E; cbn [negb].
      - apply IH; assumption.
      - cbn [orb] in Hx. apply N.eqb_eq in Hx. subst x.
        rewrite (IH Hr c (or_intror eq_refl)).
        destruct (filter (fun c0 => negb (c0 =? 200)) r) as [|y t] eqn:F; [reflexivity|].
        assert (In y (filter (fun c0 => negb (c0 =? 200)) r)) by (rewrite F; left; reflexivity).
        apply filter_In in H as [Hy Hn]. rewrite forallb_forall in Hr. specialize (Hr y Hy).
        apply negb_true_iff in Hn. rewrite Hn in Hr. cbn in Hr. apply N.eqb_eq in Hr. congruence. }
    apply G. left. reflexivity.
Qed.

Theorem match_query_table_proved :
  forall labels value,
    match_query labels value =
    match labels with
    | None => (false, false)
    | Some ls => (true, if existsb (bytes_eqb value) ls then true else false)
    end /\
    (forall ls, labels = Some ls -> (snd (match_query labels value) = true <-> In value ls)).
Proof.
  intros labels value. split.
  - destruct labels as [ls|]; cbn; [destruct (existsb _ ls); reflexivity|reflexivity].
  - intros ls ->. cbn. rewrite existsb_exists. split.
    + intros [x [Hx E]]. apply bytes_eqb_eq in E. subst. exact Hx.
    + intro H. exists value. split; [exact H|apply bytes_eqb_eq; reflexivity].
Qed.

(* ---- client histories ---- *)

(* a healthy Find of the repaired client returns what the server holds for that multihash
   wherever it stands in a history of calls, whatever the other calls met (cut bodies,
   5xx, not-found, other multihashes) *)
Theorem healthy_find_in_any_history_proved :
  forall (before after : list (list served)) prefer kt m hexv cidv rs,
    plain_key kt = true -> mh_valid m = true -> forallb wf_result rs = true ->
    nth_error (hist_results (before ++ [(client_request prefer kt m hexv cidv, rs, HNoFault)] :: after))
              (List.length before) =
    Some (Ok (if is_nil rs then [] else [(m, map canon rs)])).
Proof.
  intros before after prefer kt m hexv cidv rs Hk Hm Hwf.
  unfold hist_results. rewrite map_app. rewrite nth_error_app2; rewrite map_length; [|apply Nat.le_refl].
  rewrite Nat.sub_diag. cbn [map nth_error call_read served_read].
  rewrite (find_client_end_to_end_proved prefer kt m hexv cidv rs Hk Hm Hwf). cbn [bind].
  rewrite app_nil_r. reflexivity.
Qed.

(* the results of a history are those of its calls taken one by one *)
Lemma hist_results_app h1 h2 : hist_results (h1 ++ h2) = (hist_results h1 ++ hist_results h2)%list.
Proof. apply map_app. Qed.

(* ================================================================ *)
(* 9. API errors                                                     *)

Theorem apierror_roundtrip_proved :
  forall e : option aerr,
    exists e', decode_error (encode_error e) = Ok e' /\
      match e, e' with
      | None, None => True
      | Some x, Some y => ae_msg y = ae_msg x /\ status_of y = status_of x /\
                          (ae_status y = None <-> status_of x = 0%Z)
      | _, _ => False
      end.
Proof.
  intros [[msg st]|]; [|exists None; split; [reflexivity|exact I]].
  unfold encode_error, decode_error, status_of; cbn [ae_msg ae_status].
  set (s := match st with Some s => s | None => 0%Z end).
  destruct msg as [|c msg]; destruct (Z.eqb s 0) eqn:Z0;
    cbn [is_nil negb opt_field app lookup field_eqb field_code N.eqb Pos.eqb bind];
    try rewrite Z0; eexists; (split; [reflexivity|]); cbn [ae_msg ae_status];
    apply Z.eqb_eq in Z0 || apply Z.eqb_neq in Z0;
    (split; [reflexivity|]); split; try (symmetry; assumption); try reflexivity;
    split; intro H; try reflexivity; try assumption; try discriminate; try contradiction.
Qed.

Theorem http_error_roundtrip_proved :
  forall msg status, plain_msg msg = true -> status <> 0%Z ->
    from_response status (http_error_body msg) = Some (Some msg, status).
Proof.
  intros msg status H Hs. unfold plain_msg in H. apply andb_prop in H as [H1 H2].
  unfold from_response, http_error_body, trim_space.
  destruct msg as [|c msg]; [discriminate|]. apply negb_true_iff in H1.
  cbn [app drop_ws]. rewrite H1.
  change (c :: msg ++ [10]) with ((c :: msg) ++ [10]). rewrite rev_app_distr. cbn [rev app drop_ws is_ws].
  change (is_ws 10) with true. cbn iota.
  destruct (rev msg ++ [c]) as [|d r] eqn:E.
  { destruct (rev msg); discriminate. }
  cbn [rev] in H2. rewrite E in H2. apply negb_true_iff in H2. cbn [drop_ws]. rewrite H2.
  rewrite <- E. rewrite rev_app_distr, rev_involutive. cbn [rev app is_nil].
  apply Z.eqb_neq in Hs. rewrite Hs. reflexivity.
Qed.

(* ================================================================ *)
(* 10. Non-vacuity: inputs that meet the hypotheses                  *)

Definition ex_mh : bytes := 18 :: 32 :: repeat 7 32.          (* sha2-256 *)
Definition ex_kt : bytes := [81; 109; 88].                     (* "QmX" *)
Definition ex_results : list presult :=
  [PR None None None;
   PR (Some []) (Some [0; 255]) (Some (PI 1 true []));
   PR (Some [1]) None (Some (PI 2 true [A 1 true; A 2 true]))].

Example ex_mh_valid : mh_valid ex_mh = true.
Proof. vm_compute. reflexivity. Qed.
Example ex_plain : plain_key ex_kt = true.
Proof. reflexivity. Qed.
Example ex_wf : forallb wf_result ex_results = true.
Proof. reflexivity. Qed.
Example ex_item_ok : forallb item_ok [(ex_kt, ex_mh, ex_results); (ex_kt, ex_mh, [])] = true.
Proof. vm_compute. reflexivity. Qed.

Example ex_find_json :
  outcome_read (handler (client_request false ex_kt ex_mh None None) ex_results) =
  Ok [(ex_mh, map canon ex_results)].
Proof. vm_compute. reflexivity. Qed.

Example ex_good_request_nd :
  exists w, new_writer (REQ false mh_type cid_type [[MTNd]] (client_path ex_kt) (KV (Some ex_mh) None None)) = Ok w
            /\ w_mode w = ND.
Proof. eexists. split; vm_compute; reflexivity. Qed.

(* the old key parsing: a valid hex key whose text is also base58 was rejected, or read
   as another multihash *)
Example ex_key_v0_rejects_hex :
  let k := KV (Some [0; 0; 1; 2]) (Some ex_mh) None in
  mh_valid ex_mh = true /\
  is_ok (parse_key_v0 mh_type cid_type (client_path ex_kt) k) = false /\
  parse_key mh_type cid_type (client_path ex_kt) k = Ok (PMh, ex_mh, 18).
Proof. vm_compute. repeat split; reflexivity. Qed.

(* still open after the fix: when BOTH readings of a text are multihashes the base58 one
   wins; a hex key can be read as another multihash *)
Example ex_key_ambiguous :
  let other := [0; 1; 9] in
  let k := KV (Some other) (Some ex_mh) None in
  mh_valid other = true /\ mh_valid ex_mh = true /\
  parse_key mh_type cid_type (client_path ex_kt) k = Ok (PMh, other, 0).
Proof. vm_compute. repeat split; reflexivity. Qed.

Example ex_plain_msg : plain_msg [110; 111; 32; 120] = true.
Proof. reflexivity. Qed.

(* a provider the decoder rejects (zero peer ID) makes the whole JSON response unreadable,
   but only its own line of a streaming response *)
Example ex_unreadable_provider :
  let bad := PR None None (Some (PI 0 false [])) in
  let good := PR (Some [1]) None None in
  wf_result bad = false /\
  client_read (RESP 200 CtJson (BDoc (enc_findresp [(ex_mh, Some [good; bad])]))) = Err EPeerText /\
  dec_result (enc_result good) = Ok good.
Proof. vm_compute. repeat split; reflexivity. Qed.
