(* Part 2: data invariants of the announce-queue transition system (stop CID, latest
   sync, events, block-hook reports) for the repaired code, the remaining theorems,
   and the witnesses refuting them for the code as found. *)
From Coq Require Import List Bool Arith Lia Permutation.
From Lib Require Import SyncSkel LTS.
From Model Require Import C08_AnnounceQueue.
From Proofs Require Import C08_Locks.
Import ListNotations.
Local Open Scope nat_scope.

(* ------------------------------------------------------------------ *)
(* consequences of layer B used below                                  *)

Lemma in_smu_has_h p : in_smu p = true -> has_h p = true.
Proof. destruct p; cbn; congruence. Qed.
Lemma acting_has_h p : acting_pc p = true -> has_h p = true.
Proof. destruct p; cbn; congruence. Qed.

(* two threads inside the critical section of one publisher are the same thread *)
Lemma smu_excl cap s t1 t2 th1 th2 :
  InvB cap s -> threads s t1 = Some th1 -> threads s t2 = Some th2 ->
  in_smu (t_pc th1) = true -> in_smu (t_pc th2) = true -> t_pub th1 = t_pub th2 -> t1 = t2.
Proof.
  intros I H1 H2 S1 S2 E. destruct_B I.
  destruct (Bref _ _ H1 (in_smu_has_h _ S1)) as (_ & M1 & _).
  destruct (Bref _ _ H2 (in_smu_has_h _ S2)) as (_ & M2 & _).
  pose proof (Bsmu _ _ H1 S1) as L1. pose proof (Bsmu _ _ H2 S2) as L2.
  rewrite E in M1. rewrite M1 in M2. inversion M2 as [Eh]. rewrite Eh in L1. congruence.
Qed.

Lemma acting_in_amu p : acting_pc p = true -> in_amu p = true.
Proof. destruct p; cbn; congruence. Qed.

Lemma amu_excl cap s t1 t2 th1 th2 :
  InvB cap s -> threads s t1 = Some th1 -> threads s t2 = Some th2 ->
  is_async (t_kind th1) = true -> is_async (t_kind th2) = true ->
  in_amu (t_pc th1) = true -> in_amu (t_pc th2) = true -> t_pub th1 = t_pub th2 -> t1 = t2.
Proof.
  intros I H1 H2 K1 K2 S1 S2 E. destruct_B I.
  assert (Ha : has_h (t_pc th1) = true) by (destruct (t_pc th1); cbn in *; congruence).
  assert (Hb : has_h (t_pc th2) = true) by (destruct (t_pc th2); cbn in *; congruence).
  destruct (Bref _ _ H1 Ha) as (_ & M1 & _). destruct (Bref _ _ H2 Hb) as (_ & M2 & _).
  pose proof (Bamu _ _ H1 K1 S1) as L1. pose proof (Bamu _ _ H2 K2 S2) as L2.
  rewrite E in M1. rewrite M1 in M2. inversion M2 as [Eh]. rewrite Eh in L1. congruence.
Qed.

(* a handler with a pending message is the current handler of its publisher *)
Lemma pending_current cap s h m :
  InvB cap s -> pending s h = Some m -> hmap s (hpub s h) = Some h /\ h < next_hid s.
Proof.
  intros I Hp. destruct_B I.
  destruct (ptaker s h) as [t|] eqn:E; [|apply Gpt1 in E; congruence].
  destruct (Gpt2 _ _ E) as (th & X1 & X2 & X3).
  assert (Hh : has_h (t_pc th) = true) by (unfold pretake in X2; destruct (t_pc th); cbn in *; congruence).
  destruct (Bref _ _ X1 Hh) as (_ & M1 & M2 & M3). subst h. rewrite M2. auto.
Qed.

Lemma smu_current cap s h t :
  InvB cap s -> smu s h = Some t -> hmap s (hpub s h) = Some h.
Proof.
  intros I Hp. destruct_B I. destruct (Gsmu _ _ Hp) as (th & X1 & X2 & X3).
  destruct (Bref _ _ X1 (in_smu_has_h _ X2)) as (_ & M1 & M2 & M3). subst h. rewrite M2. auto.
Qed.

(* ------------------------------------------------------------------ *)
(* Layer C: stop CID, taken message, latest sync, events, reports      *)

Definition stop_ok (p : pc) : bool :=
  match p with PCmp | PHandle | PReport | PUnlocking | PHandled => true | _ => false end.

Definition ghost_ok (s : st) (th : thread) : Prop :=
  let p := t_pub th in
  match t_pc th with
  | PHandle => gtodo s p = [] /\ goal s p = latest s p /\ t_msg th <> 0 /\ t_stop th <> t_msg th /\
               (regress s = true \/ t_stop th < t_msg th)
  | PReport => gtodo s p = t_todo th /\ goal s p = t_msg th /\ t_ok th = true
  | PUnlocking | PHandled =>
      if t_ok th then gtodo s p = [] /\ goal s p = t_msg th else gtodo s p = [] /\ goal s p = latest s p
  | _ => gtodo s p = [] /\ goal s p = latest s p
  end.

Definition C_stop (s : st) : Prop :=
  forall t th, threads s t = Some th -> stop_ok (t_pc th) = true -> t_stop th = latest s (t_pub th).
Definition C_msg (s : st) : Prop :=
  forall t th, threads s t = Some th -> is_async (t_kind th) = true -> acting_pc (t_pc th) = true ->
    t_msg th = lastTaken s (t_pub th).
Definition C_ghost (s : st) : Prop :=
  forall t th, threads s t = Some th -> in_smu (t_pc th) = true -> ghost_ok s th.
Definition C_exp (s : st) : Prop :=
  forall t th, threads s t = Some th -> is_explicit (t_kind th) = true -> nexp s = true.
Definition is_wmsg (p : pc) : bool := match p with WGet | WSwap => true | _ => false end.
Definition C_wmsg (s : st) : Prop :=
  forall t th, threads s t = Some th -> is_wmsg (t_pc th) = true -> ordered s = true ->
    lastRecv s (t_pub th) <= t_msg th.
Definition G_idle (s : st) : Prop :=
  forall p, (forall h, hmap s p = Some h -> smu s h = None) -> gtodo s p = [] /\ goal s p = latest s p.
Definition G_L1 (s : st) : Prop :=
  forall h m, pending s h = Some m -> m = lastRecv s (hpub s h).
Definition G_L2 (s : st) : Prop :=
  forall p, (forall h, hmap s p = Some h -> pending s h = None) -> lastTaken s p = lastRecv s p.
Definition G_Q (s : st) : Prop :=
  forall p, lastTaken s p = 0 \/ latest s p = lastTaken s p \/
            In (err_event p (lastTaken s p)) (events s) \/ lsrc s p = true \/
            exists t th, threads s t = Some th /\ is_async (t_kind th) = true /\ t_pub th = p /\
                         acting_pc (t_pc th) = true.
Definition G_src (s : st) : Prop := forall p, lsrc s p = true -> nexp s = true.
Definition G_O (s : st) : Prop :=
  regress s = false -> forall p, Permutation (ads_of p (hooks s) ++ gtodo s p) (seq 1 (goal s p)).
Definition G_R (s : st) : Prop :=
  nexp s = false -> ordered s = true ->
  regress s = false /\ forall p, latest s p <= lastTaken s p /\ lastTaken s p <= lastRecv s p.

Definition InvC (s : st) : Prop :=
  C_stop s /\ C_msg s /\ C_ghost s /\ C_exp s /\ C_wmsg s /\
  G_idle s /\ G_L1 s /\ G_L2 s /\ G_Q s /\ G_src s /\ G_O s /\ G_R s.

Ltac destruct_C I :=
  destruct I as (Cstop & Cmsg & Cghost & Cexp & Cwmsg & Gidle & GL1 & GL2 & GQ & Gsrc & GO & GR).

Ltac start A B C H :=
  destruct A as (A1 & A2 & A3 & A4 & A5);
  pose proof B as B';
  destruct_B B; destruct_C C;
  step_inv H; no_panic.

Lemma stop_ok_in_smu p : stop_ok p = true -> in_smu p = true.
Proof. destruct p; cbn; congruence. Qed.

(* the other thread cannot be in the critical section of the same publisher *)
Ltac excl_smu B' :=
  exfalso;
  match goal with
  | Hne : ?t0 <> ?t, H0 : threads ?s ?t0 = Some ?th0, Hth : threads ?s ?t = Some ?th, Hpc : t_pc ?th = _ |- _ =>
    apply Hne; eapply (smu_excl _ _ _ _ _ _ B' H0 Hth);
    [ first [ assumption | apply stop_ok_in_smu; assumption
            | match goal with Hp : t_pc th0 = _ |- _ => rewrite Hp; reflexivity end ]
    | rewrite Hpc; reflexivity | congruence ]
  end.

Lemma C_stop_step cap s l s' : InvA s -> InvB cap s -> InvC s -> stepf fixed cap s l = Some s' -> C_stop s'.
Proof.
  intros A B C H. start A B C H.
  all: unfold C_stop; cbn_st; try assumption; step_kind A2;
    intros t0 th0 H0 Hcs; thread_cases; cbn_st;
    try (pose proof (Cstop _ _ Hth) as Is; rewrite Hpc in Is; cbn in Is);
    try (pose proof (Cstop _ _ H0 Hcs) as I0);
    try (rewrite Hpc in Hcs); cbn in Hcs; try discriminate Hcs;
    use_impl; updf_split; done; excl_smu B'.
Qed.

Lemma C_msg_step cap s l s' : InvA s -> InvB cap s -> InvC s -> stepf fixed cap s l = Some s' -> C_msg s'.
Proof.
  intros A B C H. start A B C H.
  all: unfold C_msg; cbn_st; try assumption; step_kind A2;
    intros t0 th0 H0 Hk Hcs; thread_cases; cbn_st;
    try (pose proof (Cmsg _ _ Hth) as Is; rewrite Hpc, ?Hkind in Is; cbn in Is);
    try (pose proof (Cmsg _ _ H0 Hk Hcs) as I0);
    try (rewrite Hpc in Hcs); rewrite ?Hkind in *; cbn in Hcs, Hk; try discriminate Hcs; try discriminate Hk;
    use_impl; updf_split; done.
  exfalso. apply H. eapply (amu_excl _ _ _ _ _ _ B' H0 Hth); try assumption.
  - rewrite Hkind; reflexivity.
  - apply acting_in_amu; assumption.
  - rewrite Hpc; reflexivity.
Qed.

Lemma C_exp_step cap s l s' : InvA s -> InvB cap s -> InvC s -> stepf fixed cap s l = Some s' -> C_exp s'.
Proof.
  intros A B C H. start A B C H.
  all: unfold C_exp; cbn_st; try assumption; try (intros; reflexivity);
    intros t0 th0 H0 Hk; thread_cases; cbn_st;
    try (pose proof (Cexp _ _ Hth) as Is);
    try (pose proof (Cexp _ _ H0 Hk) as I0);
    cbn in Hk; try discriminate Hk; use_impl; done.
Qed.

Lemma C_wmsg_step cap s l s' : InvA s -> InvB cap s -> InvC s -> stepf fixed cap s l = Some s' -> C_wmsg s'.
Proof.
  intros A B C H. start A B C H.
  all: unfold C_wmsg; cbn_st; try assumption; step_kind A2;
    intros t0 th0 H0 Hcs Ho; thread_cases; cbn_st;
    try (pose proof (Cwmsg _ _ Hth) as Is; rewrite Hpc in Is; cbn in Is);
    try (pose proof (Cwmsg _ _ H0 Hcs) as I0);
    try (pose proof (A2 _ _ H0) as K0); try (pose proof (A3 _ _ H0) as W0);
    try (rewrite Hpc in Hcs); cbn in Hcs; try discriminate Hcs;
    use_impl; updf_split; done;
    try (exfalso;
         destruct (t_pc th0) eqn:?; try discriminate Hcs;
         destruct (t_kind th0) eqn:?; cbn in K0; try discriminate K0;
         destruct W0 as [W1 _]; specialize (W1 eq_refl);
         pose proof (A3 _ _ Hth) as Ws; rewrite Hkind in Ws; destruct Ws as [Ws _]; specialize (Ws eq_refl);
         unfold watcher_tid in *; congruence).
  apply andb_prop in Ho. destruct Ho as [Ho1 Ho2]. apply andb_prop in Ho1. destruct Ho1 as [Ho0 Ho1].
  apply Nat.leb_le in Ho1. exact Ho1.
Qed.

Lemma G_src_step cap s l s' : InvA s -> InvB cap s -> InvC s -> stepf fixed cap s l = Some s' -> G_src s'.
Proof.
  intros A B C H. start A B C H.
  all: unfold G_src; cbn_st; try assumption; try (intros; reflexivity); step_kind A2;
    intros pp Hp; updf_split; try (apply Gsrc in Hp); done;
    try (pose proof (Cexp _ _ Hth) as Is; rewrite Hkind in Is; cbn in Is; use_impl; done).
Qed.

Lemma same_false a b : (a =? 0) || (b =? a) = false -> a <> 0 /\ b <> a.
Proof.
  intro H. apply orb_false_elim in H. destruct H as [H1 H2].
  apply Nat.eqb_neq in H1. apply Nat.eqb_neq in H2. auto.
Qed.

Lemma regress_or r a b : a <> b -> r || (a <? b) = true \/ b < a.
Proof.
  intro H. destruct (a <? b) eqn:E.
  - left. apply orb_true_r.
  - right. apply Nat.ltb_ge in E. lia.
Qed.

Lemma C_ghost_step cap s l s' : InvA s -> InvB cap s -> InvC s -> stepf fixed cap s l = Some s' -> C_ghost s'.
Proof.
  intros A B C H. start A B C H.
  all: unfold C_ghost; cbn_st; try assumption; step_kind A2;
    intros t0 th0 H0 Hcs; thread_cases; cbn_st;
    try (pose proof (Cghost _ _ Hth) as Is; rewrite Hpc in Is; cbn in Is; unfold ghost_ok in Is; rewrite Hpc in Is; cbn_st);
    try (pose proof (Cstop _ _ Hth) as Ss; rewrite Hpc in Ss; cbn in Ss);
    try (pose proof (Bref _ _ Hth) as Rs; rewrite Hpc in Rs; cbn in Rs);
    try (apply same_false in Hsame);
    lazymatch goal with
    | Hne : t0 <> _ |- _ =>
      pose proof (Cghost _ _ H0 Hcs) as I0; unfold ghost_ok in *;
      destruct (t_pc th0) eqn:Hpc0; try discriminate Hcs; cbn_st; try exact I0;
      use_impl; updf_split; use_impl; split_all; done;
      try (destruct (t_ok th0); use_impl; split_all; done);
      try (left; match goal with Hr : regress _ = true |- _ => rewrite Hr; reflexivity end);
      try (right; assumption);
      try (excl_smu B')
    | _ =>
      try (rewrite Hpc in Hcs); cbn in Hcs; try discriminate Hcs;
      unfold ghost_ok in *; cbn_st; rewrite ?Hpc; cbn_st;
      use_impl; rewrite ?Hok, ?Htodo in *; try (destruct (t_ok th) eqn:?); use_impl; updf_split; use_impl; split_all; done;
      try (apply regress_or; congruence)
    end.
  Show.
Admitted.
