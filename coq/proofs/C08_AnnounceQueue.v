(* Part 2: data invariants of the announce-queue transition system (stop CID, latest
   sync, events, block-hook reports) for the repaired code, the remaining theorems,
   and the witnesses refuting them for the code as found. *)
From Coq Require Import List Bool Arith Lia Permutation.
From Lib Require Import SyncSkel LTS.
From Model Require Import C08_AnnounceQueue.
From Proofs Require Import C08_Locks.
Import ListNotations.
Local Open Scope nat_scope.

(* ------------------------------------------------------------------ *)
(* consequences of layer B used below                                  *)

Lemma in_smu_has_h p : in_smu p = true -> has_h p = true.
Proof. destruct p; cbn; congruence. Qed.
Lemma acting_has_h p : acting_pc p = true -> has_h p = true.
Proof. destruct p; cbn; congruence. Qed.

(* two threads inside the critical section of one publisher are the same thread *)
Lemma smu_excl cap s t1 t2 th1 th2 :
  InvB cap s -> threads s t1 = Some th1 -> threads s t2 = Some th2 ->
  in_smu (t_pc th1) = true -> in_smu (t_pc th2) = true -> t_pub th1 = t_pub th2 -> t1 = t2.
Proof.
  intros I H1 H2 S1 S2 E. destruct_B I.
  destruct (Bref _ _ H1 (in_smu_has_h _ S1)) as (_ & M1 & _).
  destruct (Bref _ _ H2 (in_smu_has_h _ S2)) as (_ & M2 & _).
  pose proof (Bsmu _ _ H1 S1) as L1. pose proof (Bsmu _ _ H2 S2) as L2.
  rewrite E in M1. rewrite M1 in M2. inversion M2 as [Eh]. rewrite Eh in L1. congruence.
Qed.

Lemma acting_in_amu p : acting_pc p = true -> in_amu p = true.
Proof. destruct p; cbn; congruence. Qed.

Lemma amu_excl cap s t1 t2 th1 th2 :
  InvB cap s -> threads s t1 = Some th1 -> threads s t2 = Some th2 ->
  is_async (t_kind th1) = true -> is_async (t_kind th2) = true ->
  in_amu (t_pc th1) = true -> in_amu (t_pc th2) = true -> t_pub th1 = t_pub th2 -> t1 = t2.
Proof.
  intros I H1 H2 K1 K2 S1 S2 E. destruct_B I.
  assert (Ha : has_h (t_pc th1) = true) by (destruct (t_pc th1); cbn in *; congruence).
  assert (Hb : has_h (t_pc th2) = true) by (destruct (t_pc th2); cbn in *; congruence).
  destruct (Bref _ _ H1 Ha) as (_ & M1 & _). destruct (Bref _ _ H2 Hb) as (_ & M2 & _).
  pose proof (Bamu _ _ H1 K1 S1) as L1. pose proof (Bamu _ _ H2 K2 S2) as L2.
  rewrite E in M1. rewrite M1 in M2. inversion M2 as [Eh]. rewrite Eh in L1. congruence.
Qed.

(* a handler with a pending message is the current handler of its publisher *)
Lemma pending_current cap s h m :
  InvB cap s -> pending s h = Some m -> hmap s (hpub s h) = Some h /\ h < next_hid s.
Proof.
  intros I Hp. destruct_B I.
  destruct (ptaker s h) as [t|] eqn:E; [|apply Gpt1 in E; congruence].
  destruct (Gpt2 _ _ E) as (th & X1 & X2 & X3).
  assert (Hh : has_h (t_pc th) = true) by (unfold pretake in X2; destruct (t_pc th); cbn in *; congruence).
  destruct (Bref _ _ X1 Hh) as (_ & M1 & M2 & M3). subst h. rewrite M2. auto.
Qed.

Lemma smu_current cap s h t :
  InvB cap s -> smu s h = Some t -> hmap s (hpub s h) = Some h.
Proof.
  intros I Hp. destruct_B I. destruct (Gsmu _ _ Hp) as (th & X1 & X2 & X3).
  destruct (Bref _ _ X1 (in_smu_has_h _ X2)) as (_ & M1 & M2 & M3). subst h. rewrite M2. auto.
Qed.

(* ------------------------------------------------------------------ *)
(* Layer C: stop CID, taken message, latest sync, events, reports      *)

Definition stop_ok (p : pc) : bool :=
  match p with PCmp | PHandle | PReport | PUnlocking | PHandled => true | _ => false end.

Definition ghost_ok (s : st) (th : thread) : Prop :=
  let p := t_pub th in
  if is_entries (t_kind th) then gtodo s p = [] /\ goal s p = latest s p else
  match t_pc th with
  | PHandle => gtodo s p = [] /\ goal s p = latest s p /\ t_msg th <> 0 /\ t_stop th <> t_msg th /\
               (regress s = true \/ t_stop th < t_msg th)
  | PReport => gtodo s p = t_todo th /\ goal s p = t_msg th /\ t_ok th = true
  | PUnlocking | PHandled =>
      if t_ok th then gtodo s p = [] /\ goal s p = t_msg th else gtodo s p = [] /\ goal s p = latest s p
  | _ => gtodo s p = [] /\ goal s p = latest s p
  end.

Definition C_stop (s : st) : Prop :=
  forall t th, threads s t = Some th -> is_entries (t_kind th) = false -> stop_ok (t_pc th) = true ->
    t_stop th = latest s (t_pub th).
Definition C_msg (s : st) : Prop :=
  forall t th, threads s t = Some th -> is_async (t_kind th) = true -> acting_pc (t_pc th) = true ->
    t_msg th = lastTaken s (t_pub th).
Definition C_ghost (s : st) : Prop :=
  forall t th, threads s t = Some th -> in_smu (t_pc th) = true -> ghost_ok s th.
Definition C_exp (s : st) : Prop :=
  forall t th, threads s t = Some th -> is_explicit (t_kind th) = true -> nexp s = true.
Definition is_wmsg (p : pc) : bool := match p with WGet | WSwap => true | _ => false end.
Definition C_wmsg (s : st) : Prop :=
  forall t th, threads s t = Some th -> is_wmsg (t_pc th) = true -> ordered s = true ->
    lastRecv s (t_pub th) <= t_msg th.
Definition G_idle (s : st) : Prop :=
  forall p, (forall h, hmap s p = Some h -> smu s h = None) -> gtodo s p = [] /\ goal s p = latest s p.
Definition G_L1 (s : st) : Prop :=
  forall h m, pending s h = Some m -> m = lastRecv s (hpub s h).
Definition G_L2 (s : st) : Prop :=
  forall p, (forall h, hmap s p = Some h -> pending s h = None) -> lastTaken s p = lastRecv s p.
Definition G_Q (s : st) : Prop :=
  forall p, lastTaken s p = 0 \/ latest s p = lastTaken s p \/
            In (err_event p (lastTaken s p)) (events s) \/ lsrc s p = true \/
            exists t th, threads s t = Some th /\ is_async (t_kind th) = true /\ t_pub th = p /\
                         acting_pc (t_pc th) = true.
Definition G_src (s : st) : Prop := forall p, lsrc s p = true -> nexp s = true.
Definition G_O (s : st) : Prop :=
  regress s = false -> forall p, Permutation (ads_of p (hooks s) ++ gtodo s p) (seq 1 (goal s p)).
Definition G_R (s : st) : Prop :=
  nexp s = false -> ordered s = true ->
  regress s = false /\ forall p, latest s p <= lastTaken s p /\ lastTaken s p <= lastRecv s p.

Definition InvC (s : st) : Prop :=
  C_stop s /\ C_msg s /\ C_ghost s /\ C_exp s /\ C_wmsg s /\
  G_idle s /\ G_L1 s /\ G_L2 s /\ G_Q s /\ G_src s /\ G_O s /\ G_R s.

Ltac destruct_C I :=
  destruct I as (Cstop & Cmsg & Cghost & Cexp & Cwmsg & Gidle & GL1 & GL2 & GQ & Gsrc & GO & GR).

Ltac start A B C H :=
  destruct A as (A1 & A2 & A3 & A4 & A5);
  pose proof B as B';
  destruct_B B; destruct_C C;
  step_inv H; no_panic.

Lemma stop_ok_in_smu p : stop_ok p = true -> in_smu p = true.
Proof. destruct p; cbn; congruence. Qed.

(* the other thread cannot be in the critical section of the same publisher *)
Ltac excl_smu B' :=
  exfalso;
  match goal with
  | Hne : ?t0 <> ?t, H0 : threads ?s ?t0 = Some ?th0, Hth : threads ?s ?t = Some ?th, Hpc : t_pc ?th = _ |- _ =>
    apply Hne; eapply (smu_excl _ _ _ _ _ _ B' H0 Hth);
    [ first [ assumption | apply stop_ok_in_smu; assumption
            | match goal with Hp : t_pc th0 = _ |- _ => rewrite Hp; reflexivity end ]
    | rewrite Hpc; reflexivity | congruence ]
  end.

Lemma C_stop_step cap s l s' : InvA s -> InvB cap s -> InvC s -> stepf fixed cap s l = Some s' -> C_stop s'.
Proof.
  intros A B C H. start A B C H.
  all: unfold C_stop; cbn_st; try assumption; step_kind A2;
    intros t0 th0 H0 Hk Hcs; thread_cases; cbn_st;
    try (pose proof (Cstop _ _ Hth) as Is; rewrite Hpc, ?Hkind in Is; cbn in Is; try specialize (Is eq_refl));
    try (pose proof (Cstop _ _ H0 Hk Hcs) as I0);
    try (rewrite Hpc in Hcs); rewrite ?Hkind in *; cbn in Hcs, Hk; try discriminate Hcs; try discriminate Hk;
    use_impl; updf_split; done; excl_smu B'.
Qed.

Lemma C_msg_step cap s l s' : InvA s -> InvB cap s -> InvC s -> stepf fixed cap s l = Some s' -> C_msg s'.
Proof.
  intros A B C H. start A B C H.
  all: unfold C_msg; cbn_st; try assumption; step_kind A2;
    intros t0 th0 H0 Hk Hcs; thread_cases; cbn_st;
    try (pose proof (Cmsg _ _ Hth) as Is; rewrite Hpc, ?Hkind in Is; cbn in Is);
    try (pose proof (Cmsg _ _ H0 Hk Hcs) as I0);
    try (rewrite Hpc in Hcs); rewrite ?Hkind in *; cbn in Hcs, Hk; try discriminate Hcs; try discriminate Hk;
    use_impl; updf_split; done.
  exfalso. apply H. eapply (amu_excl _ _ _ _ _ _ B' H0 Hth); try assumption.
  - rewrite Hkind; reflexivity.
  - apply acting_in_amu; assumption.
  - rewrite Hpc; reflexivity.
Qed.

Lemma C_exp_step cap s l s' : InvA s -> InvB cap s -> InvC s -> stepf fixed cap s l = Some s' -> C_exp s'.
Proof.
  intros A B C H. start A B C H.
  all: unfold C_exp; cbn_st; try assumption; try (intros; reflexivity);
    intros t0 th0 H0 Hk; thread_cases; cbn_st;
    try (pose proof (Cexp _ _ Hth) as Is);
    try (pose proof (Cexp _ _ H0 Hk) as I0);
    cbn in Hk; try discriminate Hk; use_impl; done.
Qed.

Lemma C_wmsg_step cap s l s' : InvA s -> InvB cap s -> InvC s -> stepf fixed cap s l = Some s' -> C_wmsg s'.
Proof.
  intros A B C H. start A B C H.
  all: unfold C_wmsg; cbn_st; try assumption; step_kind A2;
    intros t0 th0 H0 Hcs Ho; thread_cases; cbn_st;
    try (pose proof (Cwmsg _ _ Hth) as Is; rewrite Hpc in Is; cbn in Is);
    try (pose proof (Cwmsg _ _ H0 Hcs) as I0);
    try (pose proof (A2 _ _ H0) as K0); try (pose proof (A3 _ _ H0) as W0);
    try (rewrite Hpc in Hcs); cbn in Hcs; try discriminate Hcs;
    use_impl; updf_split; done;
    try (exfalso;
         destruct (t_pc th0) eqn:?; try discriminate Hcs;
         destruct (t_kind th0) eqn:?; cbn in K0; try discriminate K0;
         destruct W0 as [W1 _]; specialize (W1 eq_refl);
         pose proof (A3 _ _ Hth) as Ws; rewrite Hkind in Ws; destruct Ws as [Ws _]; specialize (Ws eq_refl);
         unfold watcher_tid in *; congruence).
  apply andb_prop in Ho. destruct Ho as [Ho1 Ho2]. apply andb_prop in Ho1. destruct Ho1 as [Ho0 Ho1].
  apply Nat.leb_le in Ho1. exact Ho1.
Qed.

Lemma G_src_step cap s l s' : InvA s -> InvB cap s -> InvC s -> stepf fixed cap s l = Some s' -> G_src s'.
Proof.
  intros A B C H. start A B C H.
  all: unfold G_src; cbn_st; try assumption; try (intros; reflexivity); step_kind A2;
    intros pp Hp; updf_split; try (apply Gsrc in Hp); done;
    try (pose proof (Cexp _ _ Hth) as Is; rewrite Hkind in Is; cbn in Is; use_impl; done).
Qed.

Lemma same_false a b : (a =? 0) || (b =? a) = false -> a <> 0 /\ b <> a.
Proof.
  intro H. apply orb_false_elim in H. destruct H as [H1 H2].
  apply Nat.eqb_neq in H1. apply Nat.eqb_neq in H2. auto.
Qed.

Lemma regress_or r a b : a <> b -> r || (a <? b) = true \/ b < a.
Proof.
  intro H. destruct (a <? b) eqn:E.
  - left. apply orb_true_r.
  - right. apply Nat.ltb_ge in E. lia.
Qed.

Lemma C_ghost_step cap s l s' : InvA s -> InvB cap s -> InvC s -> stepf fixed cap s l = Some s' -> C_ghost s'.
Proof.
  intros A B C H. start A B C H.
  all: unfold C_ghost; cbn_st; try assumption; step_kind A2;
    intros t0 th0 H0 Hcs; thread_cases; cbn_st;
    try (pose proof (Cghost _ _ Hth) as Is; rewrite Hpc in Is; cbn in Is; unfold ghost_ok in Is; rewrite Hpc, ?Hkind in Is; cbn_st);
    try (pose proof (Cstop _ _ Hth) as Ss; rewrite Hpc, ?Hkind in Ss; cbn in Ss; try specialize (Ss eq_refl));
    try (pose proof (Bref _ _ Hth) as Rs; rewrite Hpc in Rs; cbn in Rs);
    try (apply same_false in Hsame);
    lazymatch goal with
    | Hne : t0 <> _ |- _ =>
      pose proof (Cghost _ _ H0 Hcs) as I0; unfold ghost_ok in *;
      destruct (is_entries (t_kind th0)) eqn:Hent0;
      destruct (t_pc th0) eqn:Hpc0; try discriminate Hcs; cbn_st; try exact I0;
      use_impl; updf_split; use_impl; split_all; done;
      try (destruct (t_ok th0); use_impl; split_all; done);
      try (left; match goal with Hr : regress _ = true |- _ => rewrite Hr; reflexivity end);
      try (right; assumption);
      try (match goal with Hd : regress _ = true \/ _ |- _ =>
             destruct Hd as [Hr|Hr]; [left; rewrite Hr; reflexivity|right; exact Hr] end);
      try (excl_smu B')
    | _ =>
      try (rewrite Hpc in Hcs); cbn in Hcs; try discriminate Hcs;
      unfold ghost_ok in *; cbn_st; rewrite ?Hpc, ?Hkind; cbn_st;
      use_impl; rewrite ?Hok, ?Htodo in *; try (destruct (t_ok th) eqn:?); use_impl; updf_split; use_impl; split_all; done;
      try (apply regress_or; congruence);
      try (match goal with Hs : smu _ (t_h ?th) = None, Hm : hmap _ (t_pub ?th) = Some (t_h ?th) |- _ =>
             destruct (Gidle (t_pub th)) as [Gi1 Gi2];
             [intros hx Hx; rewrite Hm in Hx; inversion Hx; subst; exact Hs | done] end)
    end.
Qed.

Lemma G_idle_step cap s l s' : InvA s -> InvB cap s -> InvC s -> stepf fixed cap s l = Some s' -> G_idle s'.
Proof.
  intros A B C H. start A B C H.
  all: unfold G_idle; cbn_st; try assumption; step_kind A2;
    intros pp Hall;
    try (pose proof (Bref _ _ Hth) as Rs; rewrite Hpc in Rs; cbn in Rs);
    try (pose proof (Bsmu _ _ Hth) as Ls; rewrite Hpc in Ls; cbn in Ls);
    try (pose proof (Cghost _ _ Hth) as Is; rewrite Hpc in Is; cbn in Is; unfold ghost_ok in Is; rewrite Hpc, ?Hkind in Is; cbn_st);
    use_impl;
    try (apply Gidle; intros hx Hx; specialize (Hall hx); updf_split; use_impl; done; fail);
    try (match goal with Hm : hmap _ (t_pub ?th) = Some (t_h ?th) |- _ =>
           destruct (Nat.eq_dec pp (t_pub th)) as [E|E];
           [ exfalso; subst pp; specialize (Hall _ Hm); congruence
           | rewrite ?(updf_other _ _ _ _ E); apply Gidle; exact Hall ] end; fail).
  - (* Remove *)
    destruct (Nat.eq_dec pp p) as [E|E].
    + subst pp. apply Gidle. intros hx Hx. rewrite Hhm in Hx. inversion Hx; subst hx.
      destruct (smu s h) as [t1|] eqn:Es; [|reflexivity]. exfalso.
      destruct (Gsmu _ _ Es) as (th1 & X1 & X2 & X3).
      destruct (Bref _ _ X1 (in_smu_has_h _ X2)) as (Hin & _). rewrite X3, Hrefs in Hin. destruct Hin.
    + rewrite (updf_other _ _ _ _ E) in Hall. apply Gidle. exact Hall.
  (* PUnlockS: async, explicit, entries *)
  - destruct (Nat.eq_dec pp (t_pub th)) as [E|E]; [subst pp; split; assumption|].
    apply Gidle. intros hx Hx. specialize (Hall hx Hx). revert Hall. updf_split; intro Hall; done.
    exfalso. destruct (Gmap _ _ Hx) as [G1 _]. congruence.
  - destruct (Nat.eq_dec pp (t_pub th)) as [E|E]; [subst pp; split; assumption|].
    apply Gidle. intros hx Hx. specialize (Hall hx Hx). revert Hall. updf_split; intro Hall; done.
    exfalso. destruct (Gmap _ _ Hx) as [G1 _]. congruence.
  - destruct (Nat.eq_dec pp (t_pub th)) as [E|E]; [subst pp; split; assumption|].
    apply Gidle. intros hx Hx. specialize (Hall hx Hx). revert Hall. updf_split; intro Hall; done.
    exfalso. destruct (Gmap _ _ Hx) as [G1 _]. congruence.
Qed.

Lemma G_L1_step cap s l s' : InvA s -> InvB cap s -> InvC s -> stepf fixed cap s l = Some s' -> G_L1 s'.
Proof.
  intros A B C H. start A B C H.
  all: unfold G_L1; cbn_st; try assumption; step_kind A2;
    intros hh mm Hp;
    try (pose proof (Bref _ _ Hth) as Rs; rewrite Hpc in Rs; cbn in Rs);
    use_impl; revert Hp; updf_split; intro Hp; inv_some; done;
    try (pose proof (GL1 _ _ Hp) as I1); try (destruct (pending_current _ _ _ _ B' Hp) as [P1 P2]); done.
Qed.

Lemma G_L2_step cap s l s' : InvA s -> InvB cap s -> InvC s -> stepf fixed cap s l = Some s' -> G_L2 s'.
Proof.
  intros A B C H. start A B C H.
  all: unfold G_L2; cbn_st; try assumption; step_kind A2;
    intros pp Hall;
    try (pose proof (Bref _ _ Hth) as Rs; rewrite Hpc in Rs; cbn in Rs);
    use_impl;
    try (apply GL2; intros hx Hx; specialize (Hall hx); updf_split; use_impl; done; fail).
  - (* Remove *)
    destruct (Nat.eq_dec pp p) as [E|E].
    + subst pp. apply GL2. intros hx Hx. rewrite Hhm in Hx. inversion Hx; subst hx.
      destruct (pending s h) as [m1|] eqn:Ep; [|reflexivity]. exfalso.
      destruct (ptaker s h) as [t1|] eqn:Et; [|apply Gpt1 in Et; congruence].
      destruct (Gpt2 _ _ Et) as (th1 & X1 & X2 & X3).
      assert (Hh : has_h (t_pc th1) = true) by (unfold pretake in X2; destruct (t_pc th1); cbn in *; congruence).
      destruct (Bref _ _ X1 Hh) as (Hin & _). rewrite X3, Hrefs in Hin. destruct Hin.
    + rewrite (updf_other _ _ _ _ E) in Hall. apply GL2. exact Hall.
  - (* WSwap, slot was empty *)
    destruct (Nat.eq_dec pp (t_pub th)) as [E|E].
    + exfalso. subst pp. specialize (Hall _ H0). rewrite updf_same in Hall. discriminate.
    + rewrite (updf_other _ _ _ _ E). apply GL2. intros hx Hx. specialize (Hall hx Hx).
      revert Hall. updf_split; intro Hall; done.
  - destruct (Nat.eq_dec pp (t_pub th)) as [E|E].
    + exfalso. subst pp. specialize (Hall _ H0). rewrite updf_same in Hall. discriminate.
    + rewrite (updf_other _ _ _ _ E). apply GL2. intros hx Hx. specialize (Hall hx Hx).
      revert Hall. updf_split; intro Hall; done.
  - (* GTake *)
    destruct (Nat.eq_dec pp (t_pub th)) as [E|E].
    + subst pp. rewrite updf_same. pose proof (GL1 _ _ Hpend). congruence.
    + rewrite (updf_other _ _ _ _ E). apply GL2. intros hx Hx. specialize (Hall hx Hx).
      revert Hall. updf_split; intro Hall; done.
      exfalso. destruct (Gmap _ _ Hx) as [G1 _]. congruence.
Qed.

(* the witness of the fifth disjunct of G_Q in the new thread map *)
Ltac q_witness A1 :=
  match goal with
  | Q1 : threads ?s ?tq = Some ?thq |- exists t th, updf _ _ _ t = Some th /\ _ =>
    pose proof (A1 _ _ Q1);
    exists tq, thq; split; [repeat (rewrite updf_other by (first [assumption | congruence | lia])); exact Q1|]
  | Q1 : threads ?s ?tq = Some ?thq |- exists t th, threads ?s t = Some th /\ _ =>
    exists tq, thq; split; [exact Q1|]
  | |- exists t th, updf ?f ?u (Some ?n) t = Some th /\ _ =>
    exists u, n; split; [apply updf_same|]
  end.

Lemma G_Q_step cap s l s' : InvA s -> InvB cap s -> InvC s -> stepf fixed cap s l = Some s' -> G_Q s'.
Proof.
  intros A B C H. start A B C H.
  all: unfold G_Q; cbn_st; try assumption; step_kind A2;
    intros pp; pose proof (GQ pp) as Q;
    try (pose proof (Cmsg _ _ Hth) as Ms; rewrite Hpc, ?Hkind in Ms; cbn in Ms);
    try (pose proof (Cstop _ _ Hth) as Ss; rewrite Hpc, ?Hkind in Ss; cbn in Ss; try specialize (Ss eq_refl));
    try (apply orb_prop in Hsame; rewrite !Nat.eqb_eq in Hsame);
    try (apply same_false in Hsame);
    use_impl; updf_split;
    destruct Q as [Q|[Q|[Q|[Q|(tq & thq & Q1 & Q2 & Q3 & Q4)]]]];
    try (destruct (Nat.eq_dec tq t) as [Et|Et]; [subst tq; same_thread|]);
    rewrite ?Hpc, ?Hkind in *; cbn in *;
    first
      [ solve [left; done]
      | solve [right; left; done]
      | solve [right; right; left; first [assumption | right; assumption | left; unfold err_event; congruence]]
      | solve [right; right; right; left; done]
      | solve [right; right; right; right; q_witness A1; cbn_st; rewrite ?Hpc, ?Hkind; split_all; done]
      | idtac ].
  - destruct (Nat.eq_dec tq watcher_tid) as [Et|Et].
    + exfalso. subst tq. same_thread. rewrite Hpc in Q4. discriminate.
    + right; right; right; right. exists tq, thq. split_all; try assumption.
      rewrite updf_other by assumption. exact Q1.
  - subst pp. destruct Hsame as [Hz|Hz]; [left; congruence|right; left; congruence].
  - subst pp. destruct Hsame as [Hz|Hz]; [left; congruence|right; left; congruence].
Qed.

(* ---- reports: every ad up to the goal is reported or owed, once ---- *)

Lemma desc_perm m k : k <= m -> Permutation (desc m k) (seq (S (m - k)) k).
Proof.
  revert m. induction k as [|k IH]; intros m Hk; cbn [desc seq]; [constructor|].
  destruct m as [|m]; [lia|].
  replace (S m - 1) with m by lia.
  assert (Hk' : k <= m) by lia. specialize (IH m Hk').
  replace (S m - S k) with (m - k) by lia.
  (* seq (S (m-k)) (S k) = seq (S (m-k)) k ++ [S m] *)
  replace (S (m - k) :: seq (S (S (m - k))) k) with (seq (S (m - k)) (S k)) by reflexivity.
  rewrite seq_S. replace (S (m - k) + k) with (S m) by lia.
  apply Permutation_cons_app. rewrite app_nil_r. exact IH.
Qed.

Lemma walk_perm stop head l :
  stop < head -> Permutation l (seq 1 stop) ->
  Permutation (l ++ walk stop head) (seq 1 head).
Proof.
  intros Hlt Hp. unfold walk. apply Nat.ltb_lt in Hlt. rewrite Hlt. apply Nat.ltb_lt in Hlt.
  replace head with (stop + (head - stop)) at 3 by lia. rewrite seq_app.
  apply Permutation_app; [exact Hp|].
  replace (1 + stop) with (S (head - (head - stop))) by lia.
  apply desc_perm. lia.
Qed.

Lemma ads_of_cons_same t p a l : ads_of p ((t, p, a) :: l) = a :: ads_of p l.
Proof. unfold ads_of. cbn. rewrite Nat.eqb_refl. reflexivity. Qed.
Lemma ads_of_cons_other t p q a l : q <> p -> ads_of q ((t, p, a) :: l) = ads_of q l.
Proof. intro H. unfold ads_of. cbn. destruct (Nat.eqb_spec p q); [congruence|reflexivity]. Qed.

Lemma G_O_step cap s l s' : InvA s -> InvB cap s -> InvC s -> stepf fixed cap s l = Some s' -> G_O s'.
Proof.
  intros A B C H. start A B C H.
  all: unfold G_O; cbn_st; try assumption; step_kind A2;
    intros Hr pp;
    try (apply orb_false_elim in Hr; destruct Hr as [Hr Hr']);
    pose proof (GO Hr pp) as Ip;
    try (pose proof (Cghost _ _ Hth) as Is; rewrite Hpc in Is; cbn in Is; unfold ghost_ok in Is; rewrite Hpc, ?Hkind in Is; cbn_st);
    try (pose proof (Cstop _ _ Hth) as Ss; rewrite Hpc, ?Hkind in Ss; cbn in Ss; try specialize (Ss eq_refl));
    use_impl; try exact Ip.
  - destruct (Nat.eq_dec pp (t_pub th)) as [E|E].
    + subst pp. rewrite !updf_same. destruct H3 as [H3|H3]; [congruence|].
      apply walk_perm; [exact H3|]. rewrite H, app_nil_r in Ip. rewrite H0, <- Ss in Ip. exact Ip.
    + rewrite !(updf_other _ _ _ _ E). exact Ip.
  - destruct (Nat.eq_dec pp (t_pub th)) as [E|E].
    + subst pp. rewrite !updf_same. destruct H3 as [H3|H3]; [congruence|].
      apply walk_perm; [exact H3|]. rewrite H, app_nil_r in Ip. rewrite H0, <- Ss in Ip. exact Ip.
    + rewrite !(updf_other _ _ _ _ E). exact Ip.
  - destruct (Nat.eq_dec pp (t_pub th)) as [E|E].
    + subst pp. rewrite updf_same, ads_of_cons_same. rewrite H, Htodo in Ip.
      cbn [app]. eapply Permutation_trans; [|exact Ip]. apply Permutation_middle.
    + rewrite (updf_other _ _ _ _ E), (ads_of_cons_other _ _ _ _ _ E). exact Ip.
  - destruct (Nat.eq_dec pp (t_pub th)) as [E|E].
    + subst pp. rewrite updf_same, ads_of_cons_same. rewrite H, Htodo in Ip.
      cbn [app]. eapply Permutation_trans; [|exact Ip]. apply Permutation_middle.
    + rewrite (updf_other _ _ _ _ E), (ads_of_cons_other _ _ _ _ _ E). exact Ip.
Qed.

Lemma G_R_step cap s l s' : InvA s -> InvB cap s -> InvC s -> stepf fixed cap s l = Some s' -> G_R s'.
Proof.
  intros A B C H. start A B C H.
  all: unfold G_R; cbn_st; try assumption; try (intros; discriminate); step_kind A2;
    intros Hn Ho;
    try (apply andb_prop in Ho; destruct Ho as [Ho Ho2]; apply andb_prop in Ho; destruct Ho as [Ho Ho1]);
    try (pose proof (Cexp _ _ Hth) as Es; rewrite Hkind in Es; cbn in Es; specialize (Es eq_refl); congruence);
    destruct (GR Hn Ho) as [R1 R2];
    try (pose proof (Cmsg _ _ Hth) as Ms; rewrite Hpc, ?Hkind in Ms; cbn in Ms);
    try (pose proof (Cstop _ _ Hth) as Ss; rewrite Hpc, ?Hkind in Ss; cbn in Ss; try specialize (Ss eq_refl));
    try (pose proof (Cwmsg _ _ Hth) as Ws; rewrite Hpc in Ws; cbn in Ws);
    try (pose proof (Bref _ _ Hth) as Rs; rewrite Hpc in Rs; cbn in Rs);
    try (pose proof (GL1 _ _ Hpend) as L1);
    use_impl;
    (split; [ try assumption | intro pp; pose proof (R2 pp) as Rp; pose proof (R2 (t_pub th)) as Rt; updf_split; done;
                               try (rewrite ?H1 in *; subst pp; lia) ]).
  cbn. rewrite R1. cbn. apply Nat.ltb_ge. pose proof (R2 (t_pub th)). lia.
Qed.

Lemma invC_init : InvC init.
Proof.
  unfold InvC. split_all.
  - intros t th H Hc. apply init_thread in H. destruct H; subst. discriminate.
  - intros t th H Hk. apply init_thread in H. destruct H; subst. discriminate.
  - intros t th H Hc. apply init_thread in H. destruct H; subst. discriminate.
  - intros t th H Hk. apply init_thread in H. destruct H; subst. discriminate.
  - intros t th H Hc. apply init_thread in H. destruct H; subst. discriminate.
  - intros p _. cbn. auto.
  - intros h m H. discriminate.
  - intros p _. reflexivity.
  - intro p. left. reflexivity.
  - intros p H. discriminate.
  - intros _ p. cbn. constructor.
  - intros _ _. cbn. split; [reflexivity|]. intro p. lia.
Qed.

Lemma invC_step cap s l s' : InvA s -> InvB cap s -> InvC s -> stepf fixed cap s l = Some s' -> InvC s'.
Proof.
  intros A B C H. unfold InvC. split_all.
  - eapply C_stop_step; eauto.
  - eapply C_msg_step; eauto.
  - eapply C_ghost_step; eauto.
  - eapply C_exp_step; eauto.
  - eapply C_wmsg_step; eauto.
  - eapply G_idle_step; eauto.
  - eapply G_L1_step; eauto.
  - eapply G_L2_step; eauto.
  - eapply G_Q_step; eauto.
  - eapply G_src_step; eauto.
  - eapply G_O_step; eauto.
  - eapply G_R_step; eauto.
Qed.

Theorem invC_reach cap s : reach fixed cap s -> InvC s.
Proof.
  apply (invariant_reachable2 (stepf fixed cap) (fun s => InvA s /\ InvB cap s) InvC).
  - intros s0 R. split; [eapply invA_reach|eapply invB_reach]; exact R.
  - apply invC_init.
  - intros s0 l s1 [A B] C H. eapply invC_step; eauto.
Qed.

(* ------------------------------------------------------------------ *)
(* Theorems from layer C                                               *)

Lemma quiescent_no_pretake s t th : quiescent s -> threads s t = Some th -> pretake th = false.
Proof.
  intros Q H. specialize (Q _ _ H). unfold pretake. destruct (t_pc th); cbn in *; congruence.
Qed.

(* when activity ceases no announcement is left in a slot, and the last message taken
   for each publisher is the last one the watcher received *)
Theorem last_announcement_acted_on cap s :
  reach fixed cap s -> quiescent s ->
  (forall h, pending s h = None) /\ (forall p, lastTaken s p = lastRecv s p) /\ panicked s = false.
Proof.
  intros R Q. pose proof (invB_reach _ _ R) as B. pose proof (invC_reach _ _ R) as C.
  destruct_B B. destruct_C C.
  assert (P : forall h, pending s h = None).
  { intro h. destruct (pending s h) as [m|] eqn:E; [|reflexivity]. exfalso.
    destruct (ptaker s h) as [t|] eqn:Et; [|apply Gpt1 in Et; congruence].
    destruct (Gpt2 _ _ Et) as (th & X1 & X2 & X3).
    rewrite (quiescent_no_pretake _ _ _ Q X1) in X2. discriminate. }
  split_all; [exact P| |exact Gpan].
  intro p. apply GL2. intros h _. apply P.
Qed.

(* ... and that message was acted on: latest sync is the last announced head, or an
   error event for it was emitted, or an explicit sync has recorded a latest sync since *)
Theorem quiescent_latest cap s p :
  reach fixed cap s -> quiescent s ->
  lastRecv s p = 0 \/ latest s p = lastRecv s p \/ In (err_event p (lastRecv s p)) (events s) \/
  (lsrc s p = true /\ nexp s = true).
Proof.
  intros R Q. destruct (last_announcement_acted_on _ _ R Q) as (_ & L & _).
  pose proof (invC_reach _ _ R) as C. destruct_C C.
  rewrite <- (L p).
  destruct (GQ p) as [G|[G|[G|[G|(t & th & X1 & X2 & X3 & X4)]]]]; auto.
  - right; right; right. split; [exact G|apply (Gsrc p G)].
  - exfalso. specialize (Q _ _ X1). destruct (t_pc th); cbn in *; congruence.
Qed.

(* announce-only histories: latest = last announced head, or an error event for it *)
Corollary quiescent_latest_announce_only cap s p :
  reach fixed cap s -> quiescent s -> nexp s = false ->
  lastRecv s p = 0 \/ latest s p = lastRecv s p \/ In (err_event p (lastRecv s p)) (events s).
Proof.
  intros R Q N. destruct (quiescent_latest _ _ p R Q) as [H|[H|[H|[_ H]]]]; auto. congruence.
Qed.

Lemma quiescent_smu_free cap s h : reach fixed cap s -> quiescent s -> smu s h = None.
Proof.
  intros R Q. pose proof (invB_reach _ _ R) as B. destruct_B B.
  destruct (smu s h) as [t|] eqn:E; [|reflexivity]. exfalso.
  destruct (Gsmu _ _ E) as (th & X1 & X2 & X3). specialize (Q _ _ X1).
  destruct (t_pc th); cbn in *; congruence.
Qed.

(* every advertisement up to the latest sync was reported to the block hook exactly
   once, provided no sync was given a stop CID beyond its head *)
Theorem each_ad_reported_once cap s p :
  reach fixed cap s -> quiescent s -> regress s = false ->
  Permutation (ads_of p (hooks s)) (seq 1 (latest s p)).
Proof.
  intros R Q Hr. pose proof (invC_reach _ _ R) as C. destruct_C C.
  destruct (Gidle p) as [G1 G2]; [intros h _; eapply quiescent_smu_free; eauto|].
  pose proof (GO Hr p) as P. rewrite G1, app_nil_r, G2 in P. exact P.
Qed.

Corollary each_ad_reported_once_nodup cap s p :
  reach fixed cap s -> quiescent s -> regress s = false ->
  NoDup (ads_of p (hooks s)) /\ (forall a, In a (ads_of p (hooks s)) <-> 1 <= a <= latest s p).
Proof.
  intros R Q Hr. pose proof (each_ad_reported_once _ _ p R Q Hr) as P. split.
  - eapply Permutation_NoDup; [apply Permutation_sym; exact P|apply seq_NoDup].
  - intro a. split; intro H.
    + apply (Permutation_in _ P) in H. apply in_seq in H. lia.
    + apply (Permutation_in _ (Permutation_sym P)). apply in_seq. lia.
Qed.

(* announce-only histories with heads announced in chain order never give a sync a stop
   beyond its head *)
Theorem announce_only_no_regress cap s :
  reach fixed cap s -> nexp s = false -> ordered s = true ->
  regress s = false /\ forall p, latest s p <= lastTaken s p <= lastRecv s p.
Proof.
  intros R N O. pose proof (invC_reach _ _ R) as C. destruct_C C. apply GR; assumption.
Qed.

Corollary each_ad_reported_once_announce_only cap s p :
  reach fixed cap s -> quiescent s -> nexp s = false -> ordered s = true ->
  Permutation (ads_of p (hooks s)) (seq 1 (latest s p)).
Proof.
  intros R Q N O. apply (each_ad_reported_once cap); auto.
  apply (announce_only_no_regress cap); auto.
Qed.

(* while a sync is running: reported ++ still owed = 1..goal, goal = head being synced *)
Theorem reports_in_progress cap s p :
  reach fixed cap s -> regress s = false ->
  Permutation (ads_of p (hooks s) ++ gtodo s p) (seq 1 (goal s p)).
Proof. intros R Hr. pose proof (invC_reach _ _ R) as C. destruct_C C. apply GO; assumption. Qed.

(* the stop CID a sync works with is the latest sync at that moment (it cannot go stale
   while the sync waits or runs) *)
Theorem stop_is_current cap s t th :
  reach fixed cap s -> threads s t = Some th -> is_entries (t_kind th) = false -> stop_ok (t_pc th) = true ->
  t_stop th = latest s (t_pub th).
Proof. intros R H K S. pose proof (invC_reach _ _ R) as C. destruct_C C. eapply Cstop; eauto. Qed.

(* An announcement the receiver's allow filter rejects is not an event of this system at
   all: whatever the variant and the state, it is enabled and changes nothing (in
   particular neither lastRecv, the "last announced head" of quiescent_latest, nor the
   receiver's duplicate filter: a later announcement of the same head that passes the
   filter is an ordinary Recv).  That the real receiver behaves so is what the
   allow-filter schedules of harness/cmd/c08 (and C09's own check) test. *)
Theorem rejected_announcements_are_noops v cap s p c :
  stepf v cap s (AnnRejected p c) = Some s.
Proof. reflexivity. Qed.

Corollary rejected_announcements_keep_reachability v cap s p c :
  reach v cap s -> forall s', stepf v cap s (AnnRejected p c) = Some s' -> s' = s /\ reach v cap s'.
Proof.
  intros R s' H. rewrite rejected_announcements_are_noops in H. inversion H; subst. auto.
Qed.

(* ------------------------------------------------------------------ *)
(* Witnesses: the code as found (v0) violates the statements; the       *)
(* repaired code still re-reports after a stale announcement.           *)
(* The schedules are the traces the harness recorded on the real code.  *)

Definition st_of (o : option st) : st := match o with Some s => s | None => init end.
Definition is_some {A} (o : option A) : bool := match o with Some _ => true | None => false end.

Lemma run_reach v cap ls :
  is_some (run (stepf v cap) init ls) = true -> reach v cap (st_of (run (stepf v cap) init ls)).
Proof.
  intro H. exists ls. destruct (run (stepf v cap) init ls); [reflexivity|discriminate].
Qed.

Fixpoint steps (t n : nat) : list label :=
  match n with O => [] | S k => Step t true :: steps t k end.

(* RemoveHandler while an announce-triggered sync is inside handler.handle, then a new
   announcement: a second handler runs a second sync of the same publisher *)
Definition sched_remove_busy : list label :=
  [Publish 0; Recv 0 1] ++ steps 0 3 ++ steps 1 6 ++ [Remove 0 true; Publish 0; Recv 0 2] ++ steps 0 3 ++ steps 2 6.

Theorem one_sync_per_publisher_refuted :
  exists s t1 t2 th1 th2, reach v0 0 s /\
    threads s t1 = Some th1 /\ threads s t2 = Some th2 /\
    in_session (t_pc th1) = true /\ in_session (t_pc th2) = true /\
    t_pub th1 = t_pub th2 /\ t1 <> t2.
Proof.
  exists (st_of (run (stepf v0 0) init sched_remove_busy)), 1, 2. do 2 eexists.
  split; [apply run_reach; vm_compute; reflexivity|].
  split; [vm_compute; reflexivity|]. split; [vm_compute; reflexivity|].
  cbn. split_all; try reflexivity. lia.
Qed.

(* quiescence of a concrete state: the thread map is a finite nest of updates *)
Tactic Notation "quiesce" integer(n) :=
  intros t th H;
  do n (destruct t as [|t]; [vm_compute in H; inversion H; reflexivity|]);
  vm_compute in H; discriminate H.

(* two SyncAdChain calls of one publisher both read the latest sync before either takes
   the sync lock: both report the whole chain *)
Definition sched_two_explicit : list label :=
  [Publish 0; Publish 0; Publish 0; Spawn 0] ++ steps 1 2 ++ [Spawn 0] ++ steps 2 2 ++ steps 1 11 ++ steps 2 11.

Theorem each_ad_reported_once_refuted :
  exists s, reach v0 0 s /\ quiescent s /\ regress s = false /\ ordered s = true /\
    ~ Permutation (ads_of 0 (hooks s)) (seq 1 (latest s 0)).
Proof.
  exists (st_of (run (stepf v0 0) init sched_two_explicit)).
  split; [apply run_reach; vm_compute; reflexivity|].
  split; [quiesce 4|]. split; [vm_compute; reflexivity|]. split; [vm_compute; reflexivity|].
  intro P. apply Permutation_length in P. vm_compute in P. discriminate.
Qed.

(* RemoveHandler while an announcement is pending: the old handler's goroutine syncs
   the older head after the newer one: latest sync ends below the last announced head,
   with no error event *)
Definition sched_remove_pending : list label :=
  [Publish 0; Recv 0 1] ++ steps 0 3 ++ [Remove 0 true; Publish 0; Recv 0 2] ++ steps 0 3 ++
  steps 2 6 ++ steps 1 6 ++ steps 2 10 ++ steps 1 9.

Theorem quiescent_latest_refuted :
  exists s p, reach v0 0 s /\ quiescent s /\ nexp s = false /\ ordered s = true /\
    ~ (lastRecv s p = 0 \/ latest s p = lastRecv s p \/ In (err_event p (lastRecv s p)) (events s)).
Proof.
  exists (st_of (run (stepf v0 0) init sched_remove_pending)), 0.
  split; [apply run_reach; vm_compute; reflexivity|].
  split; [quiesce 4|]. split; [vm_compute; reflexivity|]. split; [vm_compute; reflexivity|].
  vm_compute. intros [H|[H|H]]; try discriminate.
  repeat (destruct H as [H|H]; [discriminate|]). exact H.
Qed.

(* the repaired code: an announcement of head 3 is still pending when an explicit sync
   records head 4; the goroutine then syncs head 3 with stop 4 and reports 3,2,1 again *)
Definition sched_stale_announce : list label :=
  [Publish 0; Publish 0; Publish 0; Recv 0 3] ++ steps 0 3 ++ [Publish 0; Spawn 0] ++ steps 2 15 ++
  steps 1 18 ++ [Recv 0 4] ++ steps 0 3 ++ steps 3 16.

Theorem each_ad_reported_once_mixed_refuted :
  exists s, reach fixed 0 s /\ quiescent s /\ ordered s = true /\ nexp s = true /\
    latest s 0 = lastRecv s 0 /\
    ~ Permutation (ads_of 0 (hooks s)) (seq 1 (latest s 0)).
Proof.
  exists (st_of (run (stepf fixed 0) init sched_stale_announce)).
  split; [apply run_reach; vm_compute; reflexivity|].
  split; [quiesce 5|]. split; [vm_compute; reflexivity|]. split; [vm_compute; reflexivity|].
  split; [vm_compute; reflexivity|].
  intro P. apply Permutation_length in P. vm_compute in P. discriminate.
Qed.

(* ---- non-vacuity: reachable, quiescent states meeting the hypotheses ---- *)

(* three announcements arrive while a sync is inside handler.handle: one goroutine waits,
   the middle announcement is replaced; at the end latest = 4 and every ad reported once *)
Definition sched_burst : list label :=
  [Publish 0; Recv 0 1] ++ steps 0 3 ++ steps 1 6 ++ [Publish 0; Recv 0 2] ++ steps 0 3 ++
  [Publish 0; Recv 0 3] ++ steps 0 3 ++ [Publish 0; Recv 0 4] ++ steps 0 3 ++ steps 1 10 ++ steps 2 18.

Example burst_is_nontrivial :
  let s := st_of (run (stepf fixed 0) init sched_burst) in
  reach fixed 0 s /\ quiescent s /\ nexp s = false /\ ordered s = true /\ regress s = false /\
  lastRecv s 0 = 4 /\ latest s 0 = 4 /\ rev (ads_of 0 (hooks s)) = [1; 4; 3; 2] /\
  List.length (events s) = 2.
Proof.
  cbv zeta. split; [apply run_reach; vm_compute; reflexivity|].
  split; [quiesce 4|]. repeat split; vm_compute; reflexivity.
Qed.

(* a non-quiescent state with a goroutine waiting for asyncMutex and one inside the session *)
Example waiting_state_has_enabled_step :
  let s := st_of (run (stepf fixed 1) init
                    ([Publish 0; Recv 0 1] ++ steps 0 3 ++ steps 1 6 ++ [Publish 0; Recv 0 2] ++ steps 0 3)) in
  reach fixed 1 s /\ ~ quiescent s /\ pending s 0 = Some 2 /\ amu s 0 = Some 1 /\ smu s 0 = Some 1 /\ sem s = [1].
Proof.
  cbv zeta. split; [apply run_reach; vm_compute; reflexivity|].
  split; [|repeat split; vm_compute; reflexivity].
  intro Q. specialize (Q 2). vm_compute in Q. specialize (Q _ eq_refl). discriminate.
Qed.
