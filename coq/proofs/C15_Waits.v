(* Invariant G3 of the Subscriber shutdown model (model/C15_Shutdown.v): the waits of doClose,
   the watcher, the core flags against the stage counter, late calls. *)
From Coq Require Import List NArith Bool Arith Lia.
From Lib Require Import SyncSkel LTS.
From Model Require Import C14_Events C15_Shutdown.
From Proofs Require Import C14_Events C15_Invariants.
Import ListNotations.
Local Close Scope string_scope.
Local Open Scope list_scope.
Local Open Scope nat_scope.
Local Arguments Nat.leb : simpl never.
Local Arguments Nat.ltb : simpl never.

(* ================================================================== *)
(* G3: the waits of doClose, the watcher, the core flags, late calls   *)

Definition late_ok (hr : bool) (k : kind) (p : pc) : bool :=
  match k with
  | KExp _ _ => match p with ELock | ECheck | ERefuse | Fin RShutdown => true | _ => false end
  | KAnn _ => match p with NCheck => true | Fin RErrClosed => hr | Fin RNil => negb hr | _ => false end
  | KClose => match p with COnce | Fin RNil => true | _ => false end
  | KAsync _ => false
  end.

Definition tinv3 (s : st) (t : nat) (th : thread) : bool :=
  implb (6 <=? stage s) (negb (exp_active th)) &&
  implb (9 <=? stage s) (negb (async_active th)) &&
  implb (t_late th) (close_returned s && late_ok (has_recv s) (t_kind th) (t_pc th)).

Definition w_exiting (p : wpc) : bool := match p with WCancel | WCloseDone | WEnd => true | _ => false end.

Definition Inv3 (fx : bool) (s : st) : Prop :=
  (forall t th, threads s t = Some th -> tinv3 s t th = true) /\
  (7 <= stage s -> has_recv s = true -> recv_closed s = true) /\
  (8 <= stage s -> has_recv s = true -> watch_done s = true) /\
  (watch_done s = true <-> w_pc s = WEnd) /\
  (w_pc s = WCloseDone \/ w_pc s = WEnd -> ctx_cancelled s = true) /\
  (w_exiting (w_pc s) = true -> recv_closed s = true) /\
  (closing (co s) = true <-> 2 <= stage s) /\
  (in_closed (co s) = true <-> 10 <= stage s) /\
  p_env (co s) = false /\
  (fx = true -> 11 <= stage s -> d_pc (co s) = DDone) /\
  (fx = true -> 12 <= stage s -> ic_pc s = ICEnd).

Lemma inv3_init fx r cap : Inv3 fx (init r cap).
Proof.
  unfold Inv3, init; cbn. repeat split; intros; try discriminate; try lia.
  destruct H; discriminate.
Qed.

Lemma ddone_stable c lb c' : d_pc c = DDone -> cstep c lb = Some c' -> d_pc c' = DDone.
Proof.
  intros Hd H. destruct lb as [e| | | |l|l|l|l|]; cbn [cstep] in H; rewrite ?Hd in H.
  - destruct (in_closed c); [|destruct (in_ev c)]; inv_some; auto.
  - destruct (in_closed c); inv_some; auto.
  - destruct (closing c); inv_some; auto.
  - inv_some. auto.
  - discriminate.
  - destruct (lst c l); [|discriminate]. destruct (l_reg l0 || l_in_closed l0 || negb (closing c)); inv_some; auto.
  - discriminate.
  - destruct (lst c l); [|discriminate]. destruct (l_q l0); [destruct (l_in_closed l0 && negb (l_out_closed l0))|]; inv_some; auto.
  - discriminate.
Qed.

Lemma label_ok_14 fx lb : C15_Shutdown.core_label_ok fx lb = true -> C14_Events.core_label_ok lb = true.
Proof. destruct lb; cbn; auto. Qed.

Lemma none_active_spec s f :
  none_active s f = true -> forall t th, threads s t = Some th -> t < next_tid s -> f th = false.
Proof.
  unfold none_active. intros H t th Ht Hlt. rewrite forallb_forall in H.
  specialize (H t). rewrite Ht in H. apply negb_true_iff. apply H. apply in_seq. lia.
Qed.

Ltac split10 := split; [|split; [|split; [|split; [|split; [|split; [|split; [|split; [|split; [|split]]]]]]]]].

(* compute comparisons between numerals *)
Ltac leb_compute :=
  repeat match goal with
  | |- context [Nat.leb ?a ?b] =>
    lazymatch a with S _ => idtac | O => idtac end;
    lazymatch b with S _ => idtac | O => idtac end;
    let v := eval compute in (Nat.leb a b) in change (Nat.leb a b) with v
  | H : context [Nat.leb ?a ?b] |- _ =>
    lazymatch a with S _ => idtac | O => idtac end;
    lazymatch b with S _ => idtac | O => idtac end;
    let v := eval compute in (Nat.leb a b) in change (Nat.leb a b) with v in H
  end.

Ltac th3_self K1 Hth Hpc :=
  let Tt := fresh "Tt" in
  pose proof (K1 _ _ Hth) as Tt;
  unfold tinv3, exp_active, async_active, late_ok, close_returned in *; asimp; rewrite Hpc in Tt;
  match type of Hth with
  | threads ?s _ = Some ?th =>
    destruct (6 <=? stage s); destruct (9 <=? stage s); destruct (t_late th);
    destruct (once s); destruct (t_kind th); destruct (has_recv s);
    cbn in *; try reflexivity; try discriminate
  end.

Lemma inv3_step fx s l s' : Inv1 s -> Inv2 s -> Inv3 fx s -> stepf fx s l = Some s' -> Inv3 fx s'.
Proof.
  intros (I1 & I2 & I3) (J1 & J2 & J3) (K1 & K2 & K3 & K4 & K5 & K6 & K7 & K8 & K9 & K10 & K11) H.
  step_inv H; unfold Inv3; asimp; split10.
  all: try assumption.
  (* threads, for steps that leave stage / once / has_recv alone *)
  all: try (intros t0 th0 Ht0; first
       [ apply updt_cases in Ht0; destruct Ht0 as [[-> ->]|[Hne Ht0]];
         [ th3_self K1 Hth Hpc | exact (K1 _ _ Ht0) ]
       | exact (K1 _ _ Ht0) ]; fail).
  (* runner steps: the old stage is known *)
  all: try (destruct (runner_once _ _ _ (I2 _ _ Hth)) as [Ho Hs]; [rewrite Hpc; reflexivity|];
            rewrite Hpc in Hs; cbn [stage_of] in Hs).
  (* arithmetic side conditions *)
  all: try (intros; first
       [ lia | congruence | reflexivity
       | apply K2; [lia|assumption] | apply K3; [lia|assumption]
       | apply K10; [assumption|lia] | apply K11; [assumption|lia] ]; fail).
  all: try (split; intro Hx; first [lia | apply K7; lia | (apply K7 in Hx; lia) | apply K8; lia | (apply K8 in Hx; lia)]; fail).
  (* runner steps, thread part *)
  all: try (intros t0 th0 Ht0; apply updt_cases in Ht0; destruct Ht0 as [[-> ->]|[Hne Ht0]];
    [ pose proof (K1 _ _ Hth) as Tt; unfold tinv3, exp_active, async_active, late_ok, close_returned in *; asimp;
      rewrite Hpc in Tt; rewrite ?Ho in *;
      destruct (t_late th); destruct (t_kind th); destruct (has_recv s); cbn in *;
      rewrite ?andb_true_r, ?andb_false_r in *; try reflexivity; try discriminate;
      destruct (6 <=? _); destruct (9 <=? _); reflexivity
    | pose proof (K1 _ _ Ht0) as T0; unfold tinv3, close_returned in *; asimp;
      rewrite ?Ho, ?Hs in T0; leb_compute;
      try rewrite (none_active_spec _ _ Hna _ _ Ht0 (I1 _ _ Ht0));
      destruct (exp_active th0); destruct (async_active th0); destruct (t_late th0);
      cbn in *; try reflexivity; try discriminate; try exact T0 ]; fail).
  (* the core after a send: the sender is active, so inEvents is open *)
  all: try (
    assert (Hic : in_closed (co s) = false) by
      (destruct (in_closed (co s)) eqn:E; [|reflexivity]; exfalso; destruct K8 as [K8a _]; specialize (K8a eq_refl);
       pose proof (K1 _ _ Hth) as Tt; unfold tinv3, exp_active, async_active in Tt; rewrite Hpc in Tt;
       destruct (6 <=? stage s) eqn:E6; destruct (9 <=? stage s) eqn:E9; cbn in Tt; try discriminate Tt;
       try apply Nat.leb_gt in E6; try apply Nat.leb_gt in E9; lia);
    cbn [cstep] in Hcs; rewrite Hic in Hcs; destruct (in_ev (co s)); [discriminate Hcs|]; inv_some; csimp;
    first [assumption | (intros; apply K10; assumption)]; fail).
  (* close(closing) / close(inEvents) by the runner *)
  all: try (
    cbn [cstep] in Hcs;
    first
    [ assert (E : closing (co s) = false)
        by (destruct (closing (co s)) eqn:E; [exfalso; destruct K7 as [Kx _]; specialize (Kx eq_refl); lia|reflexivity]);
      rewrite E in Hcs
    | assert (E : in_closed (co s) = false)
        by (destruct (in_closed (co s)) eqn:E; [exfalso; destruct K8 as [Kx _]; specialize (Kx eq_refl); lia|reflexivity]);
      rewrite E in Hcs ];
    inv_some; csimp;
    first [ assumption
          | (split; intro Hx; first [lia | reflexivity | (apply K7; lia) | (apply K7 in Hx; lia) | (apply K8 in Hx; lia) | (apply K8; lia) | congruence]) ]; fail).
  (* core labels *)
  all: try (
    destruct (cstep_ok_frame _ _ _ (label_ok_14 _ _ Hok) Hcs) as (F1 & F2 & F3 & _);
    rewrite ?F1, ?F2, ?F3; first [assumption | (intros Hf Hx; eapply ddone_stable; [apply K10; assumption|exact Hcs])]; fail).
  (* watcher / receiver facts whose atoms were destructed by the step inversion *)
  all: try (intros; first [ (apply K2; auto; fail) | (apply K3; auto; fail) | (apply K6; auto; fail) | (apply K5; auto; fail)
                          | (rewrite ?Hrc, ?Hctx; auto; fail) ]; fail).
  all: try (split; intro Hx; first [discriminate Hx | reflexivity
                                   | (destruct K4 as [Kx _]; specialize (Kx Hx); discriminate Kx) ]; fail).
  all: try (intros [Hx|Hx]; discriminate Hx).
  - (* Spawn *)
    intros t0 th0 Ht0. apply updt_cases in Ht0. destruct Ht0 as [[-> ->]|[Hne Ht0]]; [|exact (K1 _ _ Ht0)].
    unfold tinv3, exp_active, async_active, late_ok, close_returned; asimp.
    destruct k; try discriminate Hka; destruct (once s); destruct (6 <=? stage s); destruct (9 <=? stage s);
      destruct (has_recv s); reflexivity.
  - (* COnce wins the Once *)
    intros t0 th0 Ht0. apply updt_cases in Ht0. destruct Ht0 as [[-> ->]|[Hne Ht0]].
    + pose proof (K1 _ _ Hth) as Tt. unfold tinv3, exp_active, async_active, close_returned in *; asimp.
      rewrite ?Honce, ?I3 in *. leb_compute. cbn in *. destruct (t_late th); [|reflexivity].
      exact Tt.
    + pose proof (K1 _ _ Ht0) as T0. unfold tinv3, close_returned in *; asimp.
      rewrite ?Honce, ?I3 in *. leb_compute. cbn in *. destruct (t_late th0); [|reflexivity].
      cbn in T0. rewrite ?andb_false_r in T0. discriminate T0.
  - (* ECheck passes the gate: the flag is not set, so Close has not returned *)
    intros t0 th0 Ht0. apply updt_cases in Ht0. destruct Ht0 as [[-> ->]|[Hne Ht0]]; [|exact (K1 _ _ Ht0)].
    pose proof (K1 _ _ Hth) as Tt. unfold tinv3, exp_active, async_active, close_returned in *; asimp.
    rewrite Hpc in Tt. cbn in Tt |- *.
    destruct (t_late th); [exfalso|cbn; destruct (6 <=? stage s); destruct (9 <=? stage s); reflexivity].
    destruct (once s); try (destruct (6 <=? stage s); destruct (9 <=? stage s); discriminate Tt).
    assert (X : false = true) by (apply J2; lia). discriminate X.
  - (* EAdd: expSyncWG.Add(1) happens with the flag not set, i.e. before doClose waits *)
    intros t0 th0 Ht0. apply updt_cases in Ht0. destruct Ht0 as [[-> ->]|[Hne Ht0]]; [|exact (K1 _ _ Ht0)].
    pose proof (J1 _ _ Hth) as T2. unfold tinv2 in T2. rewrite Hpc in T2. cbn in T2.
    apply andb_prop in T2. destruct T2 as [_ T2]. apply negb_true_iff in T2.
    assert (Hst : stage s < 4). { destruct (Nat.lt_ge_cases (stage s) 4) as [Hl|Hg]; [exact Hl|]. rewrite J2 in T2 by exact Hg. discriminate. }
    pose proof (K1 _ _ Hth) as Tt. unfold tinv3, exp_active, async_active, late_ok, close_returned in *; asimp.
    rewrite Hpc in Tt.
    assert (E6 : (6 <=? stage s) = false) by (apply Nat.leb_gt; lia).
    assert (E9 : (9 <=? stage s) = false) by (apply Nat.leb_gt; lia).
    rewrite E6, E9 in *. cbn in *.
    destruct (t_late th); [|reflexivity]. destruct (once s); destruct (t_kind th); destruct (has_recv s); cbn in *; discriminate Tt.
  - (* NCheck: the receiver is open, so Close has not returned *)
    intros t0 th0 Ht0. apply updt_cases in Ht0. destruct Ht0 as [[-> ->]|[Hne Ht0]]; [|exact (K1 _ _ Ht0)].
    pose proof (K1 _ _ Hth) as Tt. unfold tinv3, exp_active, async_active, close_returned in *; asimp.
    rewrite Hpc in Tt. cbn in Tt |- *.
    destruct (t_late th); [exfalso|cbn; destruct (6 <=? stage s); destruct (9 <=? stage s); reflexivity].
    destruct (once s); try (destruct (6 <=? stage s); destruct (9 <=? stage s); discriminate Tt).
    assert (false = true) by (apply K2; [lia|reflexivity]). discriminate.
  - (* watch starts a goroutine: it has not exited, so doClose is not past <-watchDone *)
    intros t0 th0 Ht0. apply updt_cases in Ht0. destruct Ht0 as [[-> ->]|[Hne Ht0]]; [|exact (K1 _ _ Ht0)].
    assert (Hst : stage s < 8).
    { destruct (Nat.lt_ge_cases (stage s) 8) as [Hl|Hg]; [exact Hl|]. exfalso.
      destruct K4 as [Kx _]. specialize (Kx (K3 Hg eq_refl)). discriminate Kx. }
    unfold tinv3, exp_active, async_active; asimp.
    assert (E9 : (9 <=? stage s) = false) by (apply Nat.leb_gt; lia). rewrite E9. cbn.
    destruct (6 <=? stage s); reflexivity.
  - (* the cleaner cannot be ticking once doClose has seen it exit *)
    intros Hf Hx. specialize (K11 Hf Hx). discriminate K11.
  - intros Hf Hx. specialize (K11 Hf Hx). discriminate K11.
Qed.

Theorem inv3_reach fx r cap s : reach fx r cap s -> Inv3 fx s.
Proof.
  apply (invariant_reachable2 (stepf fx) (fun s => Inv1 s /\ Inv2 s) (Inv3 fx)).
  - intros s0 R. split; [apply (inv1_reach _ _ _ _ R)|apply (inv2_reach _ _ _ _ R)].
  - apply inv3_init.
  - intros s0 l s1 [H1 H2] H3 Hs. eapply inv3_step; eassumption.
Qed.

