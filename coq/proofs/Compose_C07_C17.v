(* C07 o C17: what a completed GetResults call returned, in terms of C17's model of the
   expansion and C06's view of one snapshot of the C07 history. *)
From stdpp Require Import gmap.
From Coq Require Import ZArith NArith Lia.
From Lib Require Bytes LTS.
From Model Require C17_GetResults.
From Proofs Require C17_GetResults.
From Model Require Import C06_PCache C07_PCacheConc Compose_C07_C17.
From Proofs Require Import C06_PCache C07_PCacheConc.

Local Arguments upd : simpl never.

Section Compose.
  Variable need_merge : nat -> nat -> bool.
  Variable ttl : Z.
  Variable auto : bool.
  Variable payload : rec -> C17_GetResults.record.

  Notation stepf := (stepf need_merge ttl).
  Notation reachable := (LTS.reachable stepf (ginit auto)).
  Notation expand := (expand payload).
  Notation getresults_return := (getresults_return payload).

  (* the expansion of one record is C17's function, equal to C17's specification, and never
     a panic (C17: get_results_eq_spec, get_results_no_panic) *)
  Lemma expand_some r pid ctx md :
    expand (Some r) pid ctx md = C17_GetResults.get_results (payload r) pid ctx md /\
    expand (Some r) pid ctx md = Bytes.Ok (C17_GetResults.spec_results (payload r) pid ctx md) /\
    Bytes.is_panic (expand (Some r) pid ctx md) = false.
  Proof.
    unfold Compose_C07_C17.expand. cbn.
    rewrite Proofs.C17_GetResults.get_results_eq_spec_l. auto.
  Qed.

  Lemma expand_none pid ctx md : expand None pid ctx md = Bytes.Ok [].
  Proof. reflexivity. Qed.

  (* (1) *)
  Theorem get_results_linearises_to_c17_l s t th pid ctx md out :
    reachable s -> threads s t = Some th -> t_call th = CGetResults pid ->
    getresults_return th ctx md = Some out ->
    Bytes.is_panic out = false /\
    (out = Bytes.Err 0%N /\ t_pc th = Fin ResErr \/
     exists st mid uid,
       hist s !! l_ver th = Some (st, mid, uid) /\ l_born th <= l_ver th <= cur_ver s /\
       match view st pid with
       | Some (Some r) =>
         out = C17_GetResults.get_results (payload r) pid ctx md /\
         out = Bytes.Ok (C17_GetResults.spec_results (payload r) pid ctx md)
       | Some None => out = Bytes.Ok []      (* negative entry: nil results, nil error *)
       | None => False
       end).
  Proof.
    intros Hr Eth Hcall Hret. unfold Compose_C07_C17.getresults_return in Hret. rewrite Hcall in Hret.
    destruct (t_pc th) as [| | | | | | | | | | | | | | | | | | | | | | | | | | | | |r] eqn:Hpc; try discriminate Hret.
    destruct r as [v| | | |]; try discriminate Hret; injection Hret as <-.
    - pose proof (reads_linearise_at_load_l need_merge ttl auto s t th _ Hr Eth Hpc) as (st & mid & uid & Hv & Hview & Hb).
      rewrite Hcall in Hview. cbn [call_pid] in Hview.
      split.
      + destruct v as [r|]; [apply expand_some|reflexivity].
      + right. exists st, mid, uid. split; [exact Hv|]. split; [exact Hb|]. rewrite Hview.
        destruct v as [r|]; [|reflexivity]. destruct (expand_some r pid ctx md) as (A & B & _). auto.
    - split; [reflexivity|]. left. auto.
  Qed.

  (* (2) the miss path.  A GetResults call whose provider was not in the snapshot it loaded
     is, once the sources have answered, at one of two program points:
       TRelease       it has published the entry built from the sources' answers
                      ([l_fouts]: the freshest record found, None if no source has one);
       MReleaseHit v  another writer had stored the provider meanwhile.
     In both its next two own steps are enabled whatever the other threads do, and it
     returns the expansion (C17) of exactly that record: empty results for a negative entry. *)
  Definition miss_record (s : gst) (th : thread) : option rec :=
    e_prov (miss_entry ttl (cur s) (l_now th) (l_fouts th)).

  Definition returns_after_two_steps (s : gst) (t : nat) (v : option rec) : Prop :=
    exists s1 s2 th2, stepf s (Step t ENone) = Some s1 /\ stepf s1 (Step t ENone) = Some s2 /\
      threads s2 t = Some th2 /\ t_pc th2 = Fin (ResGet v) /\
      forall thx, threads s t = Some thx -> t_call th2 = t_call thx.

  Lemma gcas_returns s t th v :
    threads s t = Some th -> t_pc th = GCas v -> t < next_tid s ->
    exists s2 th2, stepf s (Step t ENone) = Some s2 /\ threads s2 t = Some th2 /\
      t_pc th2 = Fin (ResGet v) /\ t_call th2 = t_call th.
  Proof.
    intros Eth Hpc Hlt. cbn. rewrite Eth. unfold step_thread. cbn zeta. rewrite Hpc.
    destruct (auto_on s && needs s); eexists _, _; (split; [reflexivity|]); cbn;
      rewrite ?upd_other by lia; rewrite upd_same; auto.
  Qed.

  Theorem get_results_miss_path_l s t th pid :
    reachable s -> threads s t = Some th -> t_call th = CGetResults pid ->
    (t_pc th = TRelease ->
       (exists st mid uid, hist s !! l_ver th = Some (st, mid, uid) /\
          l_born th <= l_ver th <= cur_ver s /\ view st pid = Some (miss_record s th)) /\
       returns_after_two_steps s t (miss_record s th)) /\
    (forall v, t_pc th = MReleaseHit v ->
       view (cur s) pid = Some v /\ returns_after_two_steps s t v).
  Proof.
    intros Hr Eth Hcall.
    destruct (Inv2L_reachable need_merge ttl auto s Hr) as [(HAA & HP & HC) [HF _]].
    pose proof (tid_lt s t th HAA Eth) as Hlt.
    split.
    - intro Hpc.
      destruct (holder_facts need_merge ttl s t th HAA HC Eth ltac:(rewrite Hpc; reflexivity)) as (_ & HI & _).
      unfold HolderInv in HI. rewrite Hpc in HI. destruct HI as [Hq _].
      destruct (HF t th Eth) as [_ HR]. rewrite Hpc in HR.
      assert (Hir : is_refresh th = false) by (unfold is_refresh; rewrite Hcall; reflexivity).
      destruct (HR Hir) as (st & mid & uid & Hv & Hview & Hb).
      rewrite Hcall in Hview. cbn [call_pid] in Hview.
      split.
      + exists st, mid, uid. split_and!; auto. apply lookup_lt_Some in Hv. unfold cur_ver. lia.
      + (* TRelease, then GCas *)
        assert (Hs1 : stepf s (Step t ENone) =
                      Some (with_threads (with_slot s None) (upd (threads s) t (set_pc th (GCas (miss_record s th)))))).
        { cbn. rewrite Eth. unfold step_thread. cbn zeta. rewrite Hpc, Hcall. unfold goto. do 4 f_equal.
          unfold miss_record. do 2 f_equal. apply miss_entry_seq. exact Hq. }
        set (s1 := with_threads (with_slot s None) (upd (threads s) t (set_pc th (GCas (miss_record s th))))) in *.
        destruct (gcas_returns s1 t (set_pc th (GCas (miss_record s th))) (miss_record s th))
          as (s2 & th2 & Hs2 & Hth2 & Hpc2 & Hc2); [apply upd_same|reflexivity|exact Hlt|].
        exists s1, s2, th2. split_and!; auto. intros thx Hx. rewrite Eth in Hx. injection Hx as <-. exact Hc2.
    - intros v Hpc.
      destruct (holder_facts need_merge ttl s t th HAA HC Eth ltac:(rewrite Hpc; reflexivity)) as (_ & HI & _).
      unfold HolderInv in HI. rewrite Hpc in HI. destruct HI as [_ Hview].
      rewrite Hcall in Hview. cbn [call_pid] in Hview. split; [exact Hview|].
      set (th1 := Thread (t_call th) (GCas v) (t_prev th) (l_mid th) (l_uid th) (l_upd th) (l_m th)
                         (l_outs th) (l_fouts th) (l_now th) (cur_ver s) (l_born th)).
      assert (Hs1 : stepf s (Step t ENone) = Some (with_threads (with_slot s None) (upd (threads s) t th1))).
      { cbn. rewrite Eth. unfold step_thread. cbn zeta. rewrite Hpc. reflexivity. }
      set (s1 := with_threads (with_slot s None) (upd (threads s) t th1)) in *.
      destruct (gcas_returns s1 t th1 v) as (s2 & th2 & Hs2 & Hth2 & Hpc2 & Hc2);
        [apply upd_same|reflexivity|exact Hlt|].
      exists s1, s2, th2. split_and!; auto. intros thx Hx. rewrite Eth in Hx. injection Hx as <-. exact Hc2.
  Qed.

  (* what such a returned record expands to *)
  Lemma miss_path_expansion th2 pid v ctx md :
    t_call th2 = CGetResults pid -> t_pc th2 = Fin (ResGet v) ->
    getresults_return th2 ctx md = Some (expand v pid ctx md) /\
    match v with
    | Some r => expand v pid ctx md = Bytes.Ok (C17_GetResults.spec_results (payload r) pid ctx md)
    | None => expand v pid ctx md = Bytes.Ok []
    end.
  Proof.
    intros Hc Hp. unfold Compose_C07_C17.getresults_return. rewrite Hc, Hp. split; [reflexivity|].
    destruct v as [r|]; [apply expand_some|reflexivity].
  Qed.

  (* (3) *)
  Theorem get_results_monotone_l s t1 t2 th1 th2 pid ctx1 md1 ctx2 md2 out1 out2 r1 r2 :
    reachable s ->
    threads s t2 = Some th2 -> t_prev th2 = Some t1 -> threads s t1 = Some th1 ->
    t_call th1 = CGetResults pid -> t_call th2 = CGetResults pid ->
    t_pc th1 = Fin (ResGet (Some r1)) -> t_pc th2 = Fin (ResGet (Some r2)) ->
    getresults_return th1 ctx1 md1 = Some out1 -> getresults_return th2 ctx2 md2 = Some out2 ->
    (forall k st mid uid, l_ver th1 <= k <= l_ver th2 -> hist s !! k = Some (st, mid, uid) ->
       is_Some (visible st pid)) ->
    out1 = C17_GetResults.get_results (payload r1) pid ctx1 md1 /\
    out2 = C17_GetResults.get_results (payload r2) pid ctx2 md2 /\
    l_ver th1 <= l_ver th2 /\ (eff_time r1 <= eff_time r2)%Z.
  Proof.
    intros Hr E2 Hp E1 Hc1 Hc2 Hp1 Hp2 Ho1 Ho2 Hall.
    unfold Compose_C07_C17.getresults_return in Ho1, Ho2.
    rewrite Hc1, Hp1 in Ho1. rewrite Hc2, Hp2 in Ho2. injection Ho1 as <-. injection Ho2 as <-.
    assert (Hpid : call_pid (t_call th1) = call_pid (t_call th2)) by (rewrite Hc1, Hc2; reflexivity).
    assert (Hall' : forall k st mid uid, l_ver th1 <= k <= l_ver th2 -> hist s !! k = Some (st, mid, uid) ->
              is_Some (visible st (call_pid (t_call th2)))).
    { intros k st mid uid Hk Hv. rewrite Hc2. cbn [call_pid]. eapply Hall; eauto. }
    destruct (per_reader_monotone_l need_merge ttl auto s t1 t2 th1 th2 r1 r2 Hr E2 Hp E1 Hpid Hp1 Hp2 Hall') as [A B].
    split_and!; auto; apply expand_some.
  Qed.
End Compose.
