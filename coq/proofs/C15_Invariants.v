(* Invariants of the Subscriber shutdown model (model/C15_Shutdown.v): step inversion,
   the Once / stage counter, the explicit-sync gate, the waits of doClose. *)
From Coq Require Import List NArith Bool Arith Lia.
From Lib Require Import SyncSkel LTS.
From Model Require Import C14_Events C15_Shutdown.
From Proofs Require Import C14_Events.
Import ListNotations.
Local Close Scope string_scope.
Local Open Scope list_scope.
Local Open Scope nat_scope.
Local Arguments Nat.leb : simpl never.
Local Arguments Nat.ltb : simpl never.

Lemma updt_same f t th : updt f t th t = Some th.
Proof. unfold updt. rewrite Nat.eqb_refl. reflexivity. Qed.
Lemma updt_other f t th x : x <> t -> updt f t th x = f x.
Proof. intro H. unfold updt. destruct (Nat.eqb_spec x t); [contradiction|reflexivity]. Qed.
Lemma updt_cases f t th x th0 :
  updt f t th x = Some th0 -> (x = t /\ th0 = th) \/ (x <> t /\ f x = Some th0).
Proof.
  unfold updt. destruct (Nat.eqb_spec x t); intro H; [left; split; congruence|right; split; assumption].
Qed.

Ltac inv_some :=
  repeat match goal with
  | H : Some _ = Some _ |- _ => inversion H; subst; clear H
  | H : None = Some _ |- _ => discriminate H
  | H : go _ _ _ _ _ = Some _ |- _ => unfold go in H
  | H : go_th _ _ _ _ = Some _ |- _ => unfold go_th in H
  end.

Ltac asimp :=
  cbn [apply_upd ov u0 w_stage with_co with_once with_mu with_exp_closed with_recv_closed with_out with_sem
       upd_w upd_w_ctx upd_w_done upd_ic
       u_co u_once u_exp_mu u_exp_closed u_recv_closed u_out u_w_pc u_ctx u_watch_done u_sem_used u_ic u_stage
       co once exp_mu exp_closed has_recv recv_closed out w_pc ctx_cancelled watch_done sem_cap sem_used ic_pc stage
       threads next_tid
       t_kind t_pc t_sem t_blocks t_late set_pc set_pc_sem set_block new_thread first_pc] in *.

(* destruct the step function completely; fx stays symbolic unless a branch needs it *)
Ltac step_inv H :=
  match type of H with
  | stepf ?fx ?s ?l = Some ?s' =>
    destruct l as [k|t choice|wc|cc|lb]; cbn [stepf] in H;
    [ destruct (is_async k) eqn:Hka; [discriminate H|]; inv_some
    | destruct (threads s t) as [th|] eqn:Hth; [|discriminate H];
      unfold step_thread in H; destruct (t_pc th) as [| | | | | | | | | | | | | | | | | | |left| | | | | | | |left| | | | | |r] eqn:Hpc;
      repeat match type of H with
      | context [match once s with _ => _ end] => destruct (once s) eqn:Honce
      | context [match cstep ?c ?lb with _ => _ end] => destruct (cstep c lb) eqn:Hcs
      | context [match exp_mu s with _ => _ end] => destruct (exp_mu s) eqn:Hmu
      | context [if none_active ?s ?f then _ else _] => destruct (none_active s f) eqn:Hna
      | context [if has_recv s then _ else _] => destruct (has_recv s) eqn:Hhr
      | context [if watch_done s then _ else _] => destruct (watch_done s) eqn:Hwd
      | context [if fx then _ else _] => destruct fx
      | context [match d_pc ?c with _ => _ end] => destruct (d_pc c) eqn:Hdpc
      | context [match ic_pc s with _ => _ end] => destruct (ic_pc s) eqn:Hicp
      | context [if exp_closed s then _ else _] => destruct (exp_closed s) eqn:Hec
      | context [match left with _ => _ end] => destruct left as [|left]
      | context [match choice with _ => _ end] => destruct choice as [|choice]
      | context [if k_upd ?k then _ else _] => destruct (k_upd k) eqn:Hupd
      | context [if recv_closed s then _ else _] => destruct (recv_closed s) eqn:Hrc
      | context [match out s with _ => _ end] => destruct (out s) eqn:Hout
      | context [match sem_cap s with _ => _ end] => destruct (sem_cap s) eqn:Hcap
      | context [if ?a <? ?b then _ else _] => destruct (a <? b) eqn:Hlt
      | context [if ctx_cancelled s then _ else _] => destruct (ctx_cancelled s) eqn:Hctx
      | context [if t_sem th then _ else _] => destruct (t_sem th) eqn:Hsem
      end; try discriminate H; inv_some
    | unfold watcher_step in H; destruct (has_recv s) eqn:Hhr; cbn [negb] in H; [|discriminate H];
      destruct (w_pc s) eqn:Hw;
      repeat match type of H with
      | context [match wc with _ => _ end] => destruct wc as [|wc]
      | context [match out s with _ => _ end] => destruct (out s) eqn:Hout
      | context [if recv_closed s then _ else _] => destruct (recv_closed s) eqn:Hrc
      end; try discriminate H; inv_some
    | unfold cleaner_step in H; destruct (ic_pc s) eqn:Hic;
      repeat match type of H with
      | context [match cc with _ => _ end] => destruct cc as [|cc]
      | context [if closing ?c then _ else _] => destruct (closing c) eqn:Hcl
      end; try discriminate H; inv_some
    | destruct (core_label_ok fx lb) eqn:Hok; [|discriminate H];
      destruct (cstep (co s) lb) eqn:Hcs; [|discriminate H]; inv_some ]
  end.

Lemma co_step fx s l s' : stepf fx s l = Some s' -> co s' = co s \/ exists lb, cstep (co s) lb = Some (co s').
Proof.
  intro H. step_inv H; asimp; try (left; reflexivity); try (right; eexists; eassumption).
Qed.

Lemma reach_core fx r cap s : reach fx r cap s -> creach (co s).
Proof.
  apply (invariant_reachable (stepf fx) (fun s => creach (co s))).
  - exists []. reflexivity.
  - intros s0 l s' R H. destruct (co_step _ _ _ _ H) as [->|(lb & Hc)]; [exact R|].
    eapply reachable_step; eassumption.
Qed.

(* ================================================================== *)
(* G1: the Once, the runner and the stage counter                      *)

Definition closer_body (p : pc) : bool :=
  match p with
  | CClosing | CLock | CSet | CUnlock | CWaitExp | CRecvClose | CWaitWatch | CWaitAsync
  | CCloseIn | CWaitDist | CWaitIC | CPeerstore | COnceDone => true
  | _ => false
  end.
Definition stage_of (p : pc) : nat :=
  match p with
  | CClosing => 1 | CLock => 2 | CSet => 3 | CUnlock => 4 | CWaitExp => 5 | CRecvClose => 6
  | CWaitWatch => 7 | CWaitAsync => 8 | CCloseIn => 9 | CWaitDist => 10 | CWaitIC => 11 | CPeerstore => 12 | COnceDone => 12
  | _ => 0
  end.
Definition is_runner (o : once_st) (t : nat) : bool := match o with ORunning r => Nat.eqb r t | _ => false end.

Definition tinv1 (s : st) (t : nat) (th : thread) : bool :=
  implb (closer_body (t_pc th)) (is_runner (once s) t && Nat.eqb (stage s) (stage_of (t_pc th))).

Definition Inv1 (s : st) : Prop :=
  (forall t th, threads s t = Some th -> t < next_tid s) /\
  (forall t th, threads s t = Some th -> tinv1 s t th = true) /\
  match once s with
  | ONot => stage s = 0
  | ORunning r => 1 <= stage s <= 12 /\ exists th, threads s r = Some th /\ closer_body (t_pc th) = true
  | ODone => stage s = 13
  end.

Lemma inv1_init r cap : Inv1 (init r cap).
Proof. unfold Inv1, init; cbn. repeat split; intros; discriminate. Qed.

Ltac bsplit H := repeat (apply andb_prop in H; let H2 := fresh H in destruct H as [H H2]).

Lemma is_runner_eq o t : is_runner o t = true -> o = ORunning t.
Proof. destruct o; cbn; try discriminate. intro H. apply Nat.eqb_eq in H. congruence. Qed.

(* a thread other than the stepping one is not in doClose's body while the stepping one is *)
Lemma not_runner s t t0 th th0 :
  tinv1 s t th = true -> closer_body (t_pc th) = true -> t0 <> t ->
  tinv1 s t0 th0 = true -> closer_body (t_pc th0) = false.
Proof.
  unfold tinv1. intros H Hb Hne H0. rewrite Hb in H. cbn in H. apply andb_prop in H. destruct H as [H _].
  apply is_runner_eq in H. rewrite H in H0. cbn in H0.
  destruct (closer_body (t_pc th0)); [|reflexivity]. cbn in H0.
  apply andb_prop in H0. destruct H0 as [H0 _]. apply Nat.eqb_eq in H0. congruence.
Qed.

Lemma runner_once s t th :
  tinv1 s t th = true -> closer_body (t_pc th) = true ->
  once s = ORunning t /\ stage s = stage_of (t_pc th).
Proof.
  unfold tinv1. intros H Hb. rewrite Hb in H. cbn in H. apply andb_prop in H. destruct H as [H1 H2].
  split; [apply is_runner_eq; exact H1|apply Nat.eqb_eq; exact H2].
Qed.

(* a step of the runner inside doClose: once stays ORunning t, stage := stage_of (new pc) *)
Ltac runner_tinv I2 Hth Hpc :=
  let t0 := fresh "t0" in let th0 := fresh "th0" in let Ht0 := fresh "Ht0" in let Hne := fresh "Hne" in
  intros t0 th0 Ht0; apply updt_cases in Ht0; destruct Ht0 as [[-> ->]|[Hne Ht0]];
  [ destruct (runner_once _ _ _ (I2 _ _ Hth)) as [Ho Hs]; [rewrite Hpc; reflexivity|];
    unfold tinv1; asimp; rewrite ?Ho; cbn; rewrite ?Nat.eqb_refl; reflexivity
  | assert (Hnb : closer_body (t_pc th0) = false)
      by (eapply (not_runner _ _ _ _ _ (I2 _ _ Hth)); [rewrite Hpc; reflexivity|exact Hne|exact (I2 _ _ Ht0)]);
    unfold tinv1; asimp; rewrite Hnb; reflexivity ].

Ltac runner_once_goal I2 Hth Hpc :=
  destruct (runner_once _ _ _ (I2 _ _ Hth)) as [Ho Hs]; [rewrite Hpc; reflexivity|];
  rewrite ?Ho; split; [lia|]; eexists; split; [apply updt_same|reflexivity].

Lemma inv1_step fx s l s' : Inv1 s -> stepf fx s l = Some s' -> Inv1 s'.
Proof.
  intros (I1 & I2 & I3) H.
  step_inv H; unfold Inv1; asimp; (split; [|split]).
  (* tids *)
  all: try (intros t0 th0 Ht0; first
       [ apply updt_cases in Ht0; destruct Ht0 as [[-> ->]|[Hne Ht0]];
         first [ exact (I1 _ _ Hth) | exact (I1 _ _ Ht0) | (specialize (I1 _ _ Ht0); lia) | lia ]
       | exact (I1 _ _ Ht0) ]; fail).
  all: try exact I1.
  (* steps that touch neither once nor stage, and keep the stepping thread out of doClose *)
  all: try (intros t0 th0 Ht0; first
       [ apply updt_cases in Ht0; destruct Ht0 as [[-> ->]|[Hne Ht0]];
         [ unfold tinv1; asimp; try reflexivity; destruct k; reflexivity
         | exact (I2 _ _ Ht0) ]
       | exact (I2 _ _ Ht0) ]; fail).
  all: try exact I2.
  all: try (destruct (once s) eqn:Ho; [exact I3|
         destruct I3 as (I3a & thr & Hr & Hb); split; [exact I3a|];
         match goal with
         | |- exists th, updt _ ?t _ ?r = Some th /\ _ =>
           destruct (Nat.eq_dec r t) as [->|Hn];
           [ exfalso; rewrite Hth in Hr; inversion Hr; subst; rewrite Hpc in Hb; discriminate Hb
           | rewrite updt_other by assumption; eauto ]
         | _ => eauto
         end
       | exact I3]; fail).
  (* the runner's steps *)
  all: try (runner_tinv I2 Hth Hpc; fail).
  all: try (runner_once_goal I2 Hth Hpc; fail).
  - (* Spawn *)
    destruct (once s); auto. destruct I3 as (I3a & thr & Hr & Hb). split; [exact I3a|].
    exists thr. split; [|exact Hb]. rewrite updt_other; [exact Hr|]. specialize (I1 _ _ Hr). lia.
  - (* COnce wins *)
    intros t0 th0 Ht0; apply updt_cases in Ht0; destruct Ht0 as [[-> ->]|[Hne Ht0]].
    + unfold tinv1; asimp. cbn. rewrite Nat.eqb_refl. reflexivity.
    + pose proof (I2 _ _ Ht0) as T0. unfold tinv1 in *; asimp. rewrite Honce in T0. cbn in T0.
      destruct (closer_body (t_pc th0)); [discriminate T0|reflexivity].
  - split; [lia|]. eexists; split; [apply updt_same|reflexivity].
  - rewrite Honce in *. exact I3.
  - reflexivity.
  - destruct (once s); auto. destruct I3 as (I3a & thr & Hr & Hb). split; [exact I3a|].
    exists thr. split; [|exact Hb]. rewrite updt_other; [exact Hr|]. specialize (I1 _ _ Hr). lia.
Qed.

Theorem inv1_reach fx r cap s : reach fx r cap s -> Inv1 s.
Proof. apply invariant_reachable; [apply inv1_init|apply inv1_step]. Qed.

(* ================================================================== *)
(* G2: expSyncMutex and the expSyncClosed flag                         *)

Definition holds (m : option nat) (t : nat) : bool := match m with Some x => Nat.eqb x t | None => false end.
Definition in_exp_cs (p : pc) : bool :=
  match p with CSet | CUnlock | ECheck | EAdd | EUnlock | ERefuse => true | _ => false end.
Definition is_addunl (p : pc) : bool := match p with EAdd | EUnlock => true | _ => false end.

Definition tinv2 (s : st) (t : nat) (th : thread) : bool :=
  implb (in_exp_cs (t_pc th)) (holds (exp_mu s) t) && implb (is_addunl (t_pc th)) (negb (exp_closed s)).

Definition Inv2 (s : st) : Prop :=
  (forall t th, threads s t = Some th -> tinv2 s t th = true) /\
  (4 <= stage s -> exp_closed s = true) /\
  (forall t, exp_mu s = Some t -> exists th, threads s t = Some th /\ in_exp_cs (t_pc th) = true).

Lemma inv2_init r cap : Inv2 (init r cap).
Proof. unfold Inv2, init; cbn. repeat split; intros; try discriminate; lia. Qed.

Lemma holds_eq m t : holds m t = true -> m = Some t.
Proof. unfold holds. destruct m; [|discriminate]. intro H. apply Nat.eqb_eq in H. congruence. Qed.
Lemma holds_refl t : holds (Some t) t = true.
Proof. cbn. apply Nat.eqb_refl. Qed.
Lemma holds_other t t0 : t0 <> t -> holds (Some t) t0 = false.
Proof. intro H. cbn. apply Nat.eqb_neq. auto. Qed.

(* while t is inside the critical section nobody else is *)
Lemma not_in_cs s t t0 th th0 :
  tinv2 s t th = true -> in_exp_cs (t_pc th) = true -> t0 <> t -> tinv2 s t0 th0 = true ->
  in_exp_cs (t_pc th0) = false /\ is_addunl (t_pc th0) = false.
Proof.
  unfold tinv2. intros H Hc Hne H0. rewrite Hc in H. cbn in H.
  apply andb_prop in H. destruct H as [H _]. apply holds_eq in H. rewrite H in H0.
  rewrite (holds_other _ _ Hne) in H0.
  destruct (t_pc th0); cbn in *; try discriminate H0; auto.
Qed.
Lemma not_in_cs_free s t0 th0 :
  exp_mu s = None -> tinv2 s t0 th0 = true -> in_exp_cs (t_pc th0) = false /\ is_addunl (t_pc th0) = false.
Proof.
  unfold tinv2. intros Hn H0. rewrite Hn in H0. destruct (t_pc th0); cbn in *; try discriminate H0; auto.
Qed.

Lemma inv2_step fx s l s' : Inv1 s -> Inv2 s -> stepf fx s l = Some s' -> Inv2 s'.
Proof.
  intros (I1 & I2 & I3) (J1 & J2 & J3) H.
  step_inv H; unfold Inv2; asimp; (split; [|split]).
  (* flag vs stage, when the stage does not move *)
  all: try exact J2.
  (* holder, when neither the mutex nor the holder's critical-section status changes *)
  all: try (intros x Hx; destruct (J3 _ Hx) as (thx & Hx1 & Hx2);
            first
            [ match goal with
              | |- exists th, updt _ ?u ?n x = Some th /\ _ =>
                destruct (Nat.eq_dec x u) as [->|Hn];
                [ first
                  [ rewrite Hth in Hx1; inversion Hx1; subst; rewrite Hpc in Hx2;
                    first [discriminate Hx2 | eexists; split; [apply updt_same|reflexivity]]
                  | exfalso; specialize (I1 _ _ Hx1); lia ]
                | rewrite updt_other by assumption; eauto ]
              end
            | eauto ]; fail).
  (* threads, when mutex and flag are untouched *)
  all: try (intros t0 th0 Ht0; first
       [ apply updt_cases in Ht0; destruct Ht0 as [[-> ->]|[Hne Ht0]];
         [ first
           [ pose proof (J1 _ _ Hth) as Tt; unfold tinv2 in *; asimp; rewrite Hpc in Tt; cbn in Tt |- *;
             first [exact Tt | reflexivity | (rewrite ?Hec; cbn; rewrite ?andb_true_r; exact Tt)]
           | unfold tinv2; asimp; destruct k; reflexivity
           | unfold tinv2; reflexivity ]
         | exact (J1 _ _ Ht0) ]
       | exact (J1 _ _ Ht0) ]; fail).
  (* stage constants *)
  all: try (intro Hx; lia).
  all: try (intros _; reflexivity).
  all: try (intros _; apply J2; destruct (runner_once _ _ _ (I2 _ _ Hth)) as [_ Hs]; [rewrite Hpc; reflexivity|];
            rewrite Hs, Hpc; cbn; lia).
  all: try (intro Hx; specialize (J2 Hx); congruence).
  (* holder after acquire / release *)
  all: try (intros x Hx; discriminate Hx).
  all: try (intros x Hx; inversion Hx; subst; eexists; split; [apply updt_same|reflexivity]).
  (* threads after acquire / release / flag *)
  all: try (intros t0 th0 Ht0; apply updt_cases in Ht0; destruct Ht0 as [[-> ->]|[Hne Ht0]];
    [ pose proof (J1 _ _ Hth) as Tt; unfold tinv2 in *; asimp; rewrite Hpc in Tt; cbn in Tt |- *;
      rewrite ?Nat.eqb_refl, ?Hec; cbn; try reflexivity;
      try (apply andb_prop in Tt; destruct Tt as [Tt _]; rewrite ?Tt; reflexivity)
    | first [ destruct (not_in_cs_free s t0 th0 Hmu (J1 _ _ Ht0)) as [N1 N2]
            | assert (Hcs : in_exp_cs (t_pc th) = true) by (rewrite Hpc; reflexivity);
              destruct (not_in_cs s t t0 th th0 (J1 _ _ Hth) Hcs Hne (J1 _ _ Ht0)) as [N1 N2] ];
      unfold tinv2; asimp; rewrite N1, N2; reflexivity ]; fail).
Qed.

Theorem inv2_reach fx r cap s : reach fx r cap s -> Inv2 s.
Proof.
  apply (invariant_reachable2 (stepf fx) Inv1 Inv2).
  - apply inv1_reach.
  - apply inv2_init.
  - intros; eapply inv2_step; eassumption.
Qed.

(* ================================================================== *)
(* G3: the waits of doClose, the watcher, the core flags, late calls   *)

Definition late_ok (hr : bool) (k : kind) (p : pc) : bool :=
  match k with
  | KExp _ _ => match p with ELock | ECheck | ERefuse | Fin RShutdown => true | _ => false end
  | KAnn _ => match p with NCheck => true | Fin RErrClosed => hr | Fin RNil => negb hr | _ => false end
  | KClose => match p with COnce | Fin RNil => true | _ => false end
  | KAsync _ => false
  end.

Definition tinv3 (s : st) (t : nat) (th : thread) : bool :=
  implb (6 <=? stage s) (negb (exp_active th)) &&
  implb (9 <=? stage s) (negb (async_active th)) &&
  implb (t_late th) (close_returned s && late_ok (has_recv s) (t_kind th) (t_pc th)).

Definition w_exiting (p : wpc) : bool := match p with WCancel | WCloseDone | WEnd => true | _ => false end.

Definition Inv3 (fx : bool) (s : st) : Prop :=
  (forall t th, threads s t = Some th -> tinv3 s t th = true) /\
  (7 <= stage s -> has_recv s = true -> recv_closed s = true) /\
  (8 <= stage s -> has_recv s = true -> watch_done s = true) /\
  (watch_done s = true <-> w_pc s = WEnd) /\
  (w_pc s = WCloseDone \/ w_pc s = WEnd -> ctx_cancelled s = true) /\
  (w_exiting (w_pc s) = true -> recv_closed s = true) /\
  (closing (co s) = true <-> 2 <= stage s) /\
  (in_closed (co s) = true <-> 10 <= stage s) /\
  p_env (co s) = false /\
  (fx = true -> 11 <= stage s -> d_pc (co s) = DDone) /\
  (fx = true -> 12 <= stage s -> ic_pc s = ICEnd).

Lemma inv3_init fx r cap : Inv3 fx (init r cap).
Proof.
  unfold Inv3, init; cbn. repeat split; intros; try discriminate; try lia.
  destruct H; discriminate.
Qed.

Lemma ddone_stable c lb c' : d_pc c = DDone -> cstep c lb = Some c' -> d_pc c' = DDone.
Proof.
  intros Hd H. destruct lb as [e| | | |l|l|l|l|]; cbn [cstep] in H; rewrite ?Hd in H.
  - destruct (in_closed c); [|destruct (in_ev c)]; inv_some; auto.
  - destruct (in_closed c); inv_some; auto.
  - destruct (closing c); inv_some; auto.
  - inv_some. auto.
  - discriminate.
  - destruct (lst c l); [|discriminate]. destruct (l_reg l0 || l_in_closed l0 || negb (closing c)); inv_some; auto.
  - discriminate.
  - destruct (lst c l); [|discriminate]. destruct (l_q l0); [destruct (l_in_closed l0 && negb (l_out_closed l0))|]; inv_some; auto.
  - discriminate.
Qed.

Lemma label_ok_14 fx lb : C15_Shutdown.core_label_ok fx lb = true -> C14_Events.core_label_ok lb = true.
Proof. destruct lb; cbn; auto. Qed.

Lemma none_active_spec s f :
  none_active s f = true -> forall t th, threads s t = Some th -> t < next_tid s -> f th = false.
Proof.
  unfold none_active. intros H t th Ht Hlt. rewrite forallb_forall in H.
  specialize (H t). rewrite Ht in H. apply negb_true_iff. apply H. apply in_seq. lia.
Qed.

Ltac split10 := split; [|split; [|split; [|split; [|split; [|split; [|split; [|split; [|split; [|split]]]]]]]]].

(* compute comparisons between numerals *)
Ltac leb_compute :=
  repeat match goal with
  | |- context [Nat.leb ?a ?b] =>
    lazymatch a with S _ => idtac | O => idtac end;
    lazymatch b with S _ => idtac | O => idtac end;
    let v := eval compute in (Nat.leb a b) in change (Nat.leb a b) with v
  | H : context [Nat.leb ?a ?b] |- _ =>
    lazymatch a with S _ => idtac | O => idtac end;
    lazymatch b with S _ => idtac | O => idtac end;
    let v := eval compute in (Nat.leb a b) in change (Nat.leb a b) with v in H
  end.

Ltac th3_self K1 Hth Hpc :=
  let Tt := fresh "Tt" in
  pose proof (K1 _ _ Hth) as Tt;
  unfold tinv3, exp_active, async_active, late_ok, close_returned in *; asimp; rewrite Hpc in Tt;
  match type of Hth with
  | threads ?s _ = Some ?th =>
    destruct (6 <=? stage s); destruct (9 <=? stage s); destruct (t_late th);
    destruct (once s); destruct (t_kind th); destruct (has_recv s);
    cbn in *; try reflexivity; try discriminate
  end.

Lemma inv3_step fx s l s' : Inv1 s -> Inv2 s -> Inv3 fx s -> stepf fx s l = Some s' -> Inv3 fx s'.
Proof.
  intros (I1 & I2 & I3) (J1 & J2 & J3) (K1 & K2 & K3 & K4 & K5 & K6 & K7 & K8 & K9 & K10 & K11) H.
  step_inv H; unfold Inv3; asimp; split10.
  all: try assumption.
  (* threads, for steps that leave stage / once / has_recv alone *)
  all: try (intros t0 th0 Ht0; first
       [ apply updt_cases in Ht0; destruct Ht0 as [[-> ->]|[Hne Ht0]];
         [ th3_self K1 Hth Hpc | exact (K1 _ _ Ht0) ]
       | exact (K1 _ _ Ht0) ]; fail).
  (* runner steps: the old stage is known *)
  all: try (destruct (runner_once _ _ _ (I2 _ _ Hth)) as [Ho Hs]; [rewrite Hpc; reflexivity|];
            rewrite Hpc in Hs; cbn [stage_of] in Hs).
  (* arithmetic side conditions *)
  all: try (intros; first
       [ lia | congruence | reflexivity
       | apply K2; [lia|assumption] | apply K3; [lia|assumption]
       | apply K10; [assumption|lia] | apply K11; [assumption|lia] ]; fail).
  all: try (split; intro Hx; first [lia | apply K7; lia | (apply K7 in Hx; lia) | apply K8; lia | (apply K8 in Hx; lia)]; fail).
  (* runner steps, thread part *)
  all: try (intros t0 th0 Ht0; apply updt_cases in Ht0; destruct Ht0 as [[-> ->]|[Hne Ht0]];
    [ pose proof (K1 _ _ Hth) as Tt; unfold tinv3, exp_active, async_active, late_ok, close_returned in *; asimp;
      rewrite Hpc in Tt; rewrite ?Ho in *;
      destruct (t_late th); destruct (t_kind th); destruct (has_recv s); cbn in *;
      rewrite ?andb_true_r, ?andb_false_r in *; try reflexivity; try discriminate;
      destruct (6 <=? _); destruct (9 <=? _); reflexivity
    | pose proof (K1 _ _ Ht0) as T0; unfold tinv3, close_returned in *; asimp;
      rewrite ?Ho, ?Hs in T0; leb_compute;
      try rewrite (none_active_spec _ _ Hna _ _ Ht0 (I1 _ _ Ht0));
      destruct (exp_active th0); destruct (async_active th0); destruct (t_late th0);
      cbn in *; try reflexivity; try discriminate; try exact T0 ]; fail).
  (* the core after a send: the sender is active, so inEvents is open *)
  all: try (
    assert (Hic : in_closed (co s) = false) by
      (destruct (in_closed (co s)) eqn:E; [|reflexivity]; exfalso; destruct K8 as [K8a _]; specialize (K8a eq_refl);
       pose proof (K1 _ _ Hth) as Tt; unfold tinv3, exp_active, async_active in Tt; rewrite Hpc in Tt;
       destruct (6 <=? stage s) eqn:E6; destruct (9 <=? stage s) eqn:E9; cbn in Tt; try discriminate Tt;
       try apply Nat.leb_gt in E6; try apply Nat.leb_gt in E9; lia);
    cbn [cstep] in Hcs; rewrite Hic in Hcs; destruct (in_ev (co s)); [discriminate Hcs|]; inv_some; csimp;
    first [assumption | (intros; apply K10; assumption)]; fail).
  (* close(closing) / close(inEvents) by the runner *)
  all: try (
    cbn [cstep] in Hcs;
    first
    [ assert (E : closing (co s) = false)
        by (destruct (closing (co s)) eqn:E; [exfalso; destruct K7 as [Kx _]; specialize (Kx eq_refl); lia|reflexivity]);
      rewrite E in Hcs
    | assert (E : in_closed (co s) = false)
        by (destruct (in_closed (co s)) eqn:E; [exfalso; destruct K8 as [Kx _]; specialize (Kx eq_refl); lia|reflexivity]);
      rewrite E in Hcs ];
    inv_some; csimp;
    first [ assumption
          | (split; intro Hx; first [lia | reflexivity | (apply K7; lia) | (apply K7 in Hx; lia) | (apply K8 in Hx; lia) | (apply K8; lia) | congruence]) ]; fail).
  (* core labels *)
  all: try (
    destruct (cstep_ok_frame _ _ _ (label_ok_14 _ _ Hok) Hcs) as (F1 & F2 & F3 & _);
    rewrite ?F1, ?F2, ?F3; first [assumption | (intros Hf Hx; eapply ddone_stable; [apply K10; assumption|exact Hcs])]; fail).
  (* watcher / receiver facts whose atoms were destructed by the step inversion *)
  all: try (intros; first [ (apply K2; auto; fail) | (apply K3; auto; fail) | (apply K6; auto; fail) | (apply K5; auto; fail)
                          | (rewrite ?Hrc, ?Hctx; auto; fail) ]; fail).
  all: try (split; intro Hx; first [discriminate Hx | reflexivity
                                   | (destruct K4 as [Kx _]; specialize (Kx Hx); discriminate Kx) ]; fail).
  all: try (intros [Hx|Hx]; discriminate Hx).
  - (* Spawn *)
    intros t0 th0 Ht0. apply updt_cases in Ht0. destruct Ht0 as [[-> ->]|[Hne Ht0]]; [|exact (K1 _ _ Ht0)].
    unfold tinv3, exp_active, async_active, late_ok, close_returned; asimp.
    destruct k; try discriminate Hka; destruct (once s); destruct (6 <=? stage s); destruct (9 <=? stage s);
      destruct (has_recv s); reflexivity.
  - (* COnce wins the Once *)
    intros t0 th0 Ht0. apply updt_cases in Ht0. destruct Ht0 as [[-> ->]|[Hne Ht0]].
    + pose proof (K1 _ _ Hth) as Tt. unfold tinv3, exp_active, async_active, close_returned in *; asimp.
      rewrite ?Honce, ?I3 in *. leb_compute. cbn in *. destruct (t_late th); [|reflexivity].
      exact Tt.
    + pose proof (K1 _ _ Ht0) as T0. unfold tinv3, close_returned in *; asimp.
      rewrite ?Honce, ?I3 in *. leb_compute. cbn in *. destruct (t_late th0); [|reflexivity].
      cbn in T0. rewrite ?andb_false_r in T0. discriminate T0.
  - (* ECheck passes the gate: the flag is not set, so Close has not returned *)
    intros t0 th0 Ht0. apply updt_cases in Ht0. destruct Ht0 as [[-> ->]|[Hne Ht0]]; [|exact (K1 _ _ Ht0)].
    pose proof (K1 _ _ Hth) as Tt. unfold tinv3, exp_active, async_active, close_returned in *; asimp.
    rewrite Hpc in Tt. cbn in Tt |- *.
    destruct (t_late th); [exfalso|cbn; destruct (6 <=? stage s); destruct (9 <=? stage s); reflexivity].
    destruct (once s); try (destruct (6 <=? stage s); destruct (9 <=? stage s); discriminate Tt).
    assert (X : false = true) by (apply J2; lia). discriminate X.
  - (* EAdd: expSyncWG.Add(1) happens with the flag not set, i.e. before doClose waits *)
    intros t0 th0 Ht0. apply updt_cases in Ht0. destruct Ht0 as [[-> ->]|[Hne Ht0]]; [|exact (K1 _ _ Ht0)].
    pose proof (J1 _ _ Hth) as T2. unfold tinv2 in T2. rewrite Hpc in T2. cbn in T2.
    apply andb_prop in T2. destruct T2 as [_ T2]. apply negb_true_iff in T2.
    assert (Hst : stage s < 4). { destruct (Nat.lt_ge_cases (stage s) 4) as [Hl|Hg]; [exact Hl|]. rewrite J2 in T2 by exact Hg. discriminate. }
    pose proof (K1 _ _ Hth) as Tt. unfold tinv3, exp_active, async_active, late_ok, close_returned in *; asimp.
    rewrite Hpc in Tt.
    assert (E6 : (6 <=? stage s) = false) by (apply Nat.leb_gt; lia).
    assert (E9 : (9 <=? stage s) = false) by (apply Nat.leb_gt; lia).
    rewrite E6, E9 in *. cbn in *.
    destruct (t_late th); [|reflexivity]. destruct (once s); destruct (t_kind th); destruct (has_recv s); cbn in *; discriminate Tt.
  - (* NCheck: the receiver is open, so Close has not returned *)
    intros t0 th0 Ht0. apply updt_cases in Ht0. destruct Ht0 as [[-> ->]|[Hne Ht0]]; [|exact (K1 _ _ Ht0)].
    pose proof (K1 _ _ Hth) as Tt. unfold tinv3, exp_active, async_active, close_returned in *; asimp.
    rewrite Hpc in Tt. cbn in Tt |- *.
    destruct (t_late th); [exfalso|cbn; destruct (6 <=? stage s); destruct (9 <=? stage s); reflexivity].
    destruct (once s); try (destruct (6 <=? stage s); destruct (9 <=? stage s); discriminate Tt).
    assert (false = true) by (apply K2; [lia|reflexivity]). discriminate.
  - (* watch starts a goroutine: it has not exited, so doClose is not past <-watchDone *)
    intros t0 th0 Ht0. apply updt_cases in Ht0. destruct Ht0 as [[-> ->]|[Hne Ht0]]; [|exact (K1 _ _ Ht0)].
    assert (Hst : stage s < 8).
    { destruct (Nat.lt_ge_cases (stage s) 8) as [Hl|Hg]; [exact Hl|]. exfalso.
      destruct K4 as [Kx _]. specialize (Kx (K3 Hg eq_refl)). discriminate Kx. }
    unfold tinv3, exp_active, async_active; asimp.
    assert (E9 : (9 <=? stage s) = false) by (apply Nat.leb_gt; lia). rewrite E9. cbn.
    destruct (6 <=? stage s); reflexivity.
  - (* the cleaner cannot be ticking once doClose has seen it exit *)
    intros Hf Hx. specialize (K11 Hf Hx). discriminate K11.
  - intros Hf Hx. specialize (K11 Hf Hx). discriminate K11.
Qed.

Theorem inv3_reach fx r cap s : reach fx r cap s -> Inv3 fx s.
Proof.
  apply (invariant_reachable2 (stepf fx) (fun s => Inv1 s /\ Inv2 s) (Inv3 fx)).
  - intros s0 R. split; [apply (inv1_reach _ _ _ _ R)|apply (inv2_reach _ _ _ _ R)].
  - apply inv3_init.
  - intros s0 l s1 [H1 H2] H3 Hs. eapply inv3_step; eassumption.
Qed.

