(* Invariants of the Subscriber shutdown model (model/C15_Shutdown.v): step inversion,
   the Once / stage counter, the explicit-sync gate, the waits of doClose. *)
From Coq Require Import List NArith Bool Arith Lia.
From Lib Require Import SyncSkel LTS.
From Model Require Import C14_Events C15_Shutdown.
From Proofs Require Import C14_Events.
Import ListNotations.
Local Close Scope string_scope.
Local Open Scope list_scope.
Local Open Scope nat_scope.
Local Arguments Nat.leb : simpl never.
Local Arguments Nat.ltb : simpl never.

Lemma updt_same f t th : updt f t th t = Some th.
Proof. unfold updt. rewrite Nat.eqb_refl. reflexivity. Qed.
Lemma updt_other f t th x : x <> t -> updt f t th x = f x.
Proof. intro H. unfold updt. destruct (Nat.eqb_spec x t); [contradiction|reflexivity]. Qed.
Lemma updt_cases f t th x th0 :
  updt f t th x = Some th0 -> (x = t /\ th0 = th) \/ (x <> t /\ f x = Some th0).
Proof.
  unfold updt. destruct (Nat.eqb_spec x t); intro H; [left; split; congruence|right; split; assumption].
Qed.

Ltac inv_some :=
  repeat match goal with
  | H : Some _ = Some _ |- _ => inversion H; subst; clear H
  | H : None = Some _ |- _ => discriminate H
  | H : go _ _ _ _ _ = Some _ |- _ => unfold go in H
  | H : go_th _ _ _ _ = Some _ |- _ => unfold go_th in H
  end.

Ltac asimp :=
  cbn [apply_upd ov u0 w_stage with_co with_once with_mu with_exp_closed with_recv_closed with_out with_sem
       upd_w upd_w_ctx upd_w_done upd_ic
       u_co u_once u_exp_mu u_exp_closed u_recv_closed u_out u_w_pc u_ctx u_watch_done u_sem_used u_ic u_stage
       co once exp_mu exp_closed has_recv recv_closed out w_pc ctx_cancelled watch_done sem_cap sem_used ic_pc stage
       threads next_tid
       t_kind t_pc t_sem t_blocks t_late set_pc set_pc_sem set_block new_thread first_pc] in *.

(* destruct the step function completely; fx stays symbolic unless a branch needs it *)
Ltac step_inv H :=
  match type of H with
  | stepf ?fx ?s ?l = Some ?s' =>
    destruct l as [k|t choice|wc|cc|lb]; cbn [stepf] in H;
    [ destruct (is_async k) eqn:Hka; [discriminate H|]; inv_some
    | destruct (threads s t) as [th|] eqn:Hth; [|discriminate H];
      unfold step_thread in H; destruct (t_pc th) as [| | | | | | | | | | | | | | | | | | |left| | | | | | | |left| | | | | |r] eqn:Hpc;
      repeat match type of H with
      | context [match once s with _ => _ end] => destruct (once s) eqn:Honce
      | context [match cstep ?c ?lb with _ => _ end] => destruct (cstep c lb) eqn:Hcs
      | context [match exp_mu s with _ => _ end] => destruct (exp_mu s) eqn:Hmu
      | context [if none_active ?s ?f then _ else _] => destruct (none_active s f) eqn:Hna
      | context [if has_recv s then _ else _] => destruct (has_recv s) eqn:Hhr
      | context [if watch_done s then _ else _] => destruct (watch_done s) eqn:Hwd
      | context [if fx then _ else _] => destruct fx
      | context [match d_pc ?c with _ => _ end] => destruct (d_pc c) eqn:Hdpc
      | context [match ic_pc s with _ => _ end] => destruct (ic_pc s) eqn:Hicp
      | context [if exp_closed s then _ else _] => destruct (exp_closed s) eqn:Hec
      | context [match left with _ => _ end] => destruct left as [|left]
      | context [match choice with _ => _ end] => destruct choice as [|choice]
      | context [if k_upd ?k then _ else _] => destruct (k_upd k) eqn:Hupd
      | context [if recv_closed s then _ else _] => destruct (recv_closed s) eqn:Hrc
      | context [match out s with _ => _ end] => destruct (out s) eqn:Hout
      | context [match sem_cap s with _ => _ end] => destruct (sem_cap s) eqn:Hcap
      | context [if ?a <? ?b then _ else _] => destruct (a <? b) eqn:Hlt
      | context [if ctx_cancelled s then _ else _] => destruct (ctx_cancelled s) eqn:Hctx
      | context [if t_sem th then _ else _] => destruct (t_sem th) eqn:Hsem
      end; try discriminate H; inv_some
    | unfold watcher_step in H; destruct (has_recv s) eqn:Hhr; cbn [negb] in H; [|discriminate H];
      destruct (w_pc s) eqn:Hw;
      repeat match type of H with
      | context [match wc with _ => _ end] => destruct wc as [|wc]
      | context [match out s with _ => _ end] => destruct (out s) eqn:Hout
      | context [if recv_closed s then _ else _] => destruct (recv_closed s) eqn:Hrc
      end; try discriminate H; inv_some
    | unfold cleaner_step in H; destruct (ic_pc s) eqn:Hic;
      repeat match type of H with
      | context [match cc with _ => _ end] => destruct cc as [|cc]
      | context [if closing ?c then _ else _] => destruct (closing c) eqn:Hcl
      end; try discriminate H; inv_some
    | destruct (core_label_ok fx lb) eqn:Hok; [|discriminate H];
      destruct (cstep (co s) lb) eqn:Hcs; [|discriminate H]; inv_some ]
  end.

Lemma co_step fx s l s' : stepf fx s l = Some s' -> co s' = co s \/ exists lb, cstep (co s) lb = Some (co s').
Proof.
  intro H. step_inv H; asimp; try (left; reflexivity); try (right; eexists; eassumption).
Qed.

Lemma reach_core fx r cap s : reach fx r cap s -> creach (co s).
Proof.
  apply (invariant_reachable (stepf fx) (fun s => creach (co s))).
  - exists []. reflexivity.
  - intros s0 l s' R H. destruct (co_step _ _ _ _ H) as [->|(lb & Hc)]; [exact R|].
    eapply reachable_step; eassumption.
Qed.

(* ================================================================== *)
(* G1: the Once, the runner and the stage counter                      *)

Definition closer_body (p : pc) : bool :=
  match p with
  | CClosing | CLock | CSet | CUnlock | CWaitExp | CRecvClose | CWaitWatch | CWaitAsync
  | CCloseIn | CWaitDist | CWaitIC | CPeerstore | COnceDone => true
  | _ => false
  end.
Definition stage_of (p : pc) : nat :=
  match p with
  | CClosing => 1 | CLock => 2 | CSet => 3 | CUnlock => 4 | CWaitExp => 5 | CRecvClose => 6
  | CWaitWatch => 7 | CWaitAsync => 8 | CCloseIn => 9 | CWaitDist => 10 | CWaitIC => 11 | CPeerstore => 12 | COnceDone => 12
  | _ => 0
  end.
Definition is_runner (o : once_st) (t : nat) : bool := match o with ORunning r => Nat.eqb r t | _ => false end.

Definition tinv1 (s : st) (t : nat) (th : thread) : bool :=
  implb (closer_body (t_pc th)) (is_runner (once s) t && Nat.eqb (stage s) (stage_of (t_pc th))).

Definition Inv1 (s : st) : Prop :=
  (forall t th, threads s t = Some th -> t < next_tid s) /\
  (forall t th, threads s t = Some th -> tinv1 s t th = true) /\
  match once s with
  | ONot => stage s = 0
  | ORunning r => 1 <= stage s <= 12 /\ exists th, threads s r = Some th /\ closer_body (t_pc th) = true
  | ODone => stage s = 13
  end.

Lemma inv1_init r cap : Inv1 (init r cap).
Proof. unfold Inv1, init; cbn. repeat split; intros; discriminate. Qed.

Ltac bsplit H := repeat (apply andb_prop in H; let H2 := fresh H in destruct H as [H H2]).

Lemma is_runner_eq o t : is_runner o t = true -> o = ORunning t.
Proof. destruct o; cbn; try discriminate. intro H. apply Nat.eqb_eq in H. congruence. Qed.

(* a thread other than the stepping one is not in doClose's body while the stepping one is *)
Lemma not_runner s t t0 th th0 :
  tinv1 s t th = true -> closer_body (t_pc th) = true -> t0 <> t ->
  tinv1 s t0 th0 = true -> closer_body (t_pc th0) = false.
Proof.
  unfold tinv1. intros H Hb Hne H0. rewrite Hb in H. cbn in H. apply andb_prop in H. destruct H as [H _].
  apply is_runner_eq in H. rewrite H in H0. cbn in H0.
  destruct (closer_body (t_pc th0)); [|reflexivity]. cbn in H0.
  apply andb_prop in H0. destruct H0 as [H0 _]. apply Nat.eqb_eq in H0. congruence.
Qed.

Lemma runner_once s t th :
  tinv1 s t th = true -> closer_body (t_pc th) = true ->
  once s = ORunning t /\ stage s = stage_of (t_pc th).
Proof.
  unfold tinv1. intros H Hb. rewrite Hb in H. cbn in H. apply andb_prop in H. destruct H as [H1 H2].
  split; [apply is_runner_eq; exact H1|apply Nat.eqb_eq; exact H2].
Qed.

(* a step of the runner inside doClose: once stays ORunning t, stage := stage_of (new pc) *)
Ltac runner_tinv I2 Hth Hpc :=
  let t0 := fresh "t0" in let th0 := fresh "th0" in let Ht0 := fresh "Ht0" in let Hne := fresh "Hne" in
  intros t0 th0 Ht0; apply updt_cases in Ht0; destruct Ht0 as [[-> ->]|[Hne Ht0]];
  [ destruct (runner_once _ _ _ (I2 _ _ Hth)) as [Ho Hs]; [rewrite Hpc; reflexivity|];
    unfold tinv1; asimp; rewrite ?Ho; cbn; rewrite ?Nat.eqb_refl; reflexivity
  | assert (Hnb : closer_body (t_pc th0) = false)
      by (eapply (not_runner _ _ _ _ _ (I2 _ _ Hth)); [rewrite Hpc; reflexivity|exact Hne|exact (I2 _ _ Ht0)]);
    unfold tinv1; asimp; rewrite Hnb; reflexivity ].

Ltac runner_once_goal I2 Hth Hpc :=
  destruct (runner_once _ _ _ (I2 _ _ Hth)) as [Ho Hs]; [rewrite Hpc; reflexivity|];
  rewrite ?Ho; split; [lia|]; eexists; split; [apply updt_same|reflexivity].

Lemma inv1_step fx s l s' : Inv1 s -> stepf fx s l = Some s' -> Inv1 s'.
Proof.
  intros (I1 & I2 & I3) H.
  step_inv H; unfold Inv1; asimp; (split; [|split]).
  (* tids *)
  all: try (intros t0 th0 Ht0; first
       [ apply updt_cases in Ht0; destruct Ht0 as [[-> ->]|[Hne Ht0]];
         first [ exact (I1 _ _ Hth) | exact (I1 _ _ Ht0) | (specialize (I1 _ _ Ht0); lia) | lia ]
       | exact (I1 _ _ Ht0) ]; fail).
  all: try exact I1.
  (* steps that touch neither once nor stage, and keep the stepping thread out of doClose *)
  all: try (intros t0 th0 Ht0; first
       [ apply updt_cases in Ht0; destruct Ht0 as [[-> ->]|[Hne Ht0]];
         [ unfold tinv1; asimp; try reflexivity; destruct k; reflexivity
         | exact (I2 _ _ Ht0) ]
       | exact (I2 _ _ Ht0) ]; fail).
  all: try exact I2.
  all: try (destruct (once s) eqn:Ho; [exact I3|
         destruct I3 as (I3a & thr & Hr & Hb); split; [exact I3a|];
         match goal with
         | |- exists th, updt _ ?t _ ?r = Some th /\ _ =>
           destruct (Nat.eq_dec r t) as [->|Hn];
           [ exfalso; rewrite Hth in Hr; inversion Hr; subst; rewrite Hpc in Hb; discriminate Hb
           | rewrite updt_other by assumption; eauto ]
         | _ => eauto
         end
       | exact I3]; fail).
  (* the runner's steps *)
  all: try (runner_tinv I2 Hth Hpc; fail).
  all: try (runner_once_goal I2 Hth Hpc; fail).
  - (* Spawn *)
    destruct (once s); auto. destruct I3 as (I3a & thr & Hr & Hb). split; [exact I3a|].
    exists thr. split; [|exact Hb]. rewrite updt_other; [exact Hr|]. specialize (I1 _ _ Hr). lia.
  - (* COnce wins *)
    intros t0 th0 Ht0; apply updt_cases in Ht0; destruct Ht0 as [[-> ->]|[Hne Ht0]].
    + unfold tinv1; asimp. cbn. rewrite Nat.eqb_refl. reflexivity.
    + pose proof (I2 _ _ Ht0) as T0. unfold tinv1 in *; asimp. rewrite Honce in T0. cbn in T0.
      destruct (closer_body (t_pc th0)); [discriminate T0|reflexivity].
  - split; [lia|]. eexists; split; [apply updt_same|reflexivity].
  - rewrite Honce in *. exact I3.
  - reflexivity.
  - destruct (once s); auto. destruct I3 as (I3a & thr & Hr & Hb). split; [exact I3a|].
    exists thr. split; [|exact Hb]. rewrite updt_other; [exact Hr|]. specialize (I1 _ _ Hr). lia.
Qed.

Theorem inv1_reach fx r cap s : reach fx r cap s -> Inv1 s.
Proof. apply invariant_reachable; [apply inv1_init|apply inv1_step]. Qed.

(* ================================================================== *)
(* G2: expSyncMutex and the expSyncClosed flag                         *)

Definition holds (m : option nat) (t : nat) : bool := match m with Some x => Nat.eqb x t | None => false end.
Definition in_exp_cs (p : pc) : bool :=
  match p with CSet | CUnlock | ECheck | EAdd | EUnlock | ERefuse => true | _ => false end.
Definition is_addunl (p : pc) : bool := match p with EAdd | EUnlock => true | _ => false end.

Definition tinv2 (s : st) (t : nat) (th : thread) : bool :=
  implb (in_exp_cs (t_pc th)) (holds (exp_mu s) t) && implb (is_addunl (t_pc th)) (negb (exp_closed s)).

Definition Inv2 (s : st) : Prop :=
  (forall t th, threads s t = Some th -> tinv2 s t th = true) /\
  (4 <= stage s -> exp_closed s = true) /\
  (forall t, exp_mu s = Some t -> exists th, threads s t = Some th /\ in_exp_cs (t_pc th) = true).

Lemma inv2_init r cap : Inv2 (init r cap).
Proof. unfold Inv2, init; cbn. repeat split; intros; try discriminate; lia. Qed.

Lemma holds_eq m t : holds m t = true -> m = Some t.
Proof. unfold holds. destruct m; [|discriminate]. intro H. apply Nat.eqb_eq in H. congruence. Qed.
Lemma holds_refl t : holds (Some t) t = true.
Proof. cbn. apply Nat.eqb_refl. Qed.
Lemma holds_other t t0 : t0 <> t -> holds (Some t) t0 = false.
Proof. intro H. cbn. apply Nat.eqb_neq. auto. Qed.

(* while t is inside the critical section nobody else is *)
Lemma not_in_cs s t t0 th th0 :
  tinv2 s t th = true -> in_exp_cs (t_pc th) = true -> t0 <> t -> tinv2 s t0 th0 = true ->
  in_exp_cs (t_pc th0) = false /\ is_addunl (t_pc th0) = false.
Proof.
  unfold tinv2. intros H Hc Hne H0. rewrite Hc in H. cbn in H.
  apply andb_prop in H. destruct H as [H _]. apply holds_eq in H. rewrite H in H0.
  rewrite (holds_other _ _ Hne) in H0.
  destruct (t_pc th0); cbn in *; try discriminate H0; auto.
Qed.
Lemma not_in_cs_free s t0 th0 :
  exp_mu s = None -> tinv2 s t0 th0 = true -> in_exp_cs (t_pc th0) = false /\ is_addunl (t_pc th0) = false.
Proof.
  unfold tinv2. intros Hn H0. rewrite Hn in H0. destruct (t_pc th0); cbn in *; try discriminate H0; auto.
Qed.

Lemma inv2_step fx s l s' : Inv1 s -> Inv2 s -> stepf fx s l = Some s' -> Inv2 s'.
Proof.
  intros (I1 & I2 & I3) (J1 & J2 & J3) H.
  step_inv H; unfold Inv2; asimp; (split; [|split]).
  (* flag vs stage, when the stage does not move *)
  all: try exact J2.
  (* holder, when neither the mutex nor the holder's critical-section status changes *)
  all: try (intros x Hx; destruct (J3 _ Hx) as (thx & Hx1 & Hx2);
            first
            [ match goal with
              | |- exists th, updt _ ?u ?n x = Some th /\ _ =>
                destruct (Nat.eq_dec x u) as [->|Hn];
                [ first
                  [ rewrite Hth in Hx1; inversion Hx1; subst; rewrite Hpc in Hx2;
                    first [discriminate Hx2 | eexists; split; [apply updt_same|reflexivity]]
                  | exfalso; specialize (I1 _ _ Hx1); lia ]
                | rewrite updt_other by assumption; eauto ]
              end
            | eauto ]; fail).
  (* threads, when mutex and flag are untouched *)
  all: try (intros t0 th0 Ht0; first
       [ apply updt_cases in Ht0; destruct Ht0 as [[-> ->]|[Hne Ht0]];
         [ first
           [ pose proof (J1 _ _ Hth) as Tt; unfold tinv2 in *; asimp; rewrite Hpc in Tt; cbn in Tt |- *;
             first [exact Tt | reflexivity | (rewrite ?Hec; cbn; rewrite ?andb_true_r; exact Tt)]
           | unfold tinv2; asimp; destruct k; reflexivity
           | unfold tinv2; reflexivity ]
         | exact (J1 _ _ Ht0) ]
       | exact (J1 _ _ Ht0) ]; fail).
  (* stage constants *)
  all: try (intro Hx; lia).
  all: try (intros _; reflexivity).
  all: try (intros _; apply J2; destruct (runner_once _ _ _ (I2 _ _ Hth)) as [_ Hs]; [rewrite Hpc; reflexivity|];
            rewrite Hs, Hpc; cbn; lia).
  all: try (intro Hx; specialize (J2 Hx); congruence).
  (* holder after acquire / release *)
  all: try (intros x Hx; discriminate Hx).
  all: try (intros x Hx; inversion Hx; subst; eexists; split; [apply updt_same|reflexivity]).
  (* threads after acquire / release / flag *)
  all: try (intros t0 th0 Ht0; apply updt_cases in Ht0; destruct Ht0 as [[-> ->]|[Hne Ht0]];
    [ pose proof (J1 _ _ Hth) as Tt; unfold tinv2 in *; asimp; rewrite Hpc in Tt; cbn in Tt |- *;
      rewrite ?Nat.eqb_refl, ?Hec; cbn; try reflexivity;
      try (apply andb_prop in Tt; destruct Tt as [Tt _]; rewrite ?Tt; reflexivity)
    | first [ destruct (not_in_cs_free s t0 th0 Hmu (J1 _ _ Ht0)) as [N1 N2]
            | assert (Hcs : in_exp_cs (t_pc th) = true) by (rewrite Hpc; reflexivity);
              destruct (not_in_cs s t t0 th th0 (J1 _ _ Hth) Hcs Hne (J1 _ _ Ht0)) as [N1 N2] ];
      unfold tinv2; asimp; rewrite N1, N2; reflexivity ]; fail).
Qed.

Theorem inv2_reach fx r cap s : reach fx r cap s -> Inv2 s.
Proof.
  apply (invariant_reachable2 (stepf fx) Inv1 Inv2).
  - apply inv1_reach.
  - apply inv2_init.
  - intros; eapply inv2_step; eassumption.
Qed.

