(* GenTie_C07 -- pcache/provider_cache.go: the publication decision of a writer (TDecide of
   model/C07_PCacheConc.v: regenerate the main map, or store the old main map with the fresh
   update map) and the order in which a reader consults the two maps, as regenerated from the
   Go source (gen/Gen_Funcs_pcache.v).  The proofs are those of GenTie_C06 (the concurrent model
   runs the sequential model's refresh); they are restated here in the terms of the C07 model. *)
From Coq Require Import ZArith NArith List Bool Lia String.
From stdpp Require Import gmap.
From Model Require Import C06_PCache C07_PCacheConc.
From Proofs Require Import GenTie_Lib GenTie_C06.
From Gen Require Import Gen_Funcs_prelude Gen_Funcs_pcache.
Import ListNotations.

(* TDecide: with the merge policy pcache.needMerge, the thread goes to TAllocM (new main map)
   exactly when the generated decision falls through, and to TStore false (publish
   readOnly{m: read.m, u: updates}: the OLD main map, the FRESH update map) when it returns *)
Definition decide_next (u m : nat) : pcs := if real_need_merge u m then TAllocM else TStore false.

Theorem tie_publication_decision : forall (u m : nat),
  match pcache_Refresh_merge_decision (Z.of_nat m) (Z.of_nat u) with
  | FReturn ret tr =>
      decide_next u m = TStore false /\ ret = "return nil"%string /\
      tr = ["pc.read.Store(&readOnly{m: read.m, u: updates})"; "pc.refreshes.Add(1)"]%string
  | FFall _ => decide_next u m = TAllocM
  | _ => False
  end.
Proof.
  intros. unfold pcache_Refresh_merge_decision, decide_next. rewrite <- tie_needMerge.
  destruct (real_need_merge u m); cbn; auto.
Qed.

(* a reader sees the update map over the main map *)
Theorem tie_reader_lookup_order : forall (ru rm : gmap N (option rec)) (pid : N) (v : option rec) miss,
  ru !! pid = Some v ->
  pcache_getReadOnly_lookup (option rec) miss (default None (rm !! pid)) (default None (ru !! pid))
     (bool_decide (is_Some (rm !! pid))) (bool_decide (is_Some (ru !! pid)))
  = FFall (v, []).
Proof.
  intros ru rm pid v miss H. unfold pcache_getReadOnly_lookup. rewrite H. cbn. reflexivity.
Qed.
