(* GenTie_C03 -- dagsync/ipnisync/head/signedhead.go and Syncer.GetHead: what is signed and
   verified (CID bytes followed by the topic), the two emptiness guards, and the comparison of
   the signer with the expected publisher, as regenerated from the Go source, against
   model/C03_SignedHead.v. *)
From Coq Require Import ZArith NArith List Bool Lia String.
From Lib Require Import Bytes Cid.
From Model Require Import C03_SignedHead.
From Proofs Require Import GenTie_Lib.
From Gen Require Import Gen_Consts Gen_Funcs_prelude Gen_Funcs_head Gen_Funcs_ipnisync.
Import ListNotations.
Open Scope Z_scope.

(* Validate and Sign build the same byte string: model [payload] *)
Theorem tie_Validate_payload : forall (c : cid) (t : option bytes),
  head_Validate_payload (Cid.fmt c) t = FFall (payload c t).
Proof.
  intros. unfold head_Validate_payload, payload, topic_bytes.
  destruct t as [b|]; cbn [isNone isSome negb app].
  - rewrite len_eqb_0. destruct b; cbn [is_nil negb app]; rewrite ?app_nil_r; reflexivity.
  - rewrite app_nil_r. reflexivity.
Qed.

Theorem tie_Sign_payload : forall (c : cid) (t : option bytes),
  head_Sign_payload (Cid.fmt c) t = FFall (payload c t).
Proof.
  intros. unfold head_Sign_payload, payload, topic_bytes.
  destruct t as [b|]; cbn [isNone isSome negb app].
  - rewrite len_eqb_0. destruct b; cbn [is_nil negb app]; rewrite ?app_nil_r; reflexivity.
  - rewrite app_nil_r. reflexivity.
Qed.

(* neither dereference of s.Topic can panic *)
Theorem Validate_payload_no_panic : forall cb t, head_Validate_payload cb t <> FPanic.
Proof.
  intros. unfold head_Validate_payload. destruct t as [b|]; cbn [isNone isSome negb].
  - destruct (negb (len b =? 0)); discriminate.
  - discriminate.
Qed.

(* the guards of Validate: an empty signature, then an empty key (validate_head: SEmpty => ENoSig,
   KEmpty => ENoKey, in this order) *)
Definition guard_class (r : frag (list string)) : option N :=
  match r with
  | FReturn s _ => if String.eqb s "return """", ErrNoSignature" then Some ENoSig
                   else if String.eqb s "return """", ErrNoPubkey" then Some ENoKey else Some 0%N
  | _ => None
  end.

Theorem tie_Validate_guards : forall sg pk : list N,
  guard_class (head_Validate_guards pk sg) =
  if is_nil sg then Some ENoSig else if is_nil pk then Some ENoKey else None.
Proof.
  intros. unfold head_Validate_guards. rewrite !len_eqb_0.
  destruct sg; cbn [is_nil]; [reflexivity|]. destruct pk; reflexivity.
Qed.

(* GetHead: with no expected peer ID every valid head is taken; otherwise the signer must be it
   (get_head: match expected with None => Ok | Some e => if peerid_eqb signer e ...) *)
Definition signer_ok (r : frag (list string)) : option bool :=
  match r with
  | FFall _ => Some true
  | FReturn _ _ => Some false
  | _ => None
  end.

Theorem tie_GetHead_signer_check : forall (signer : bytes) (expected : option bytes),
  (forall e, expected = Some e -> e <> []) ->          (* a peer ID is never the empty string *)
  signer_ok (ipnisync_GetHead_signer_check (match expected with Some e => e | None => [] end) signer)
  = Some (match expected with None => true | Some e => Bytes.bytes_eqb signer e end).
Proof.
  intros signer expected NE. unfold ipnisync_GetHead_signer_check.
  destruct expected as [e|]; [|reflexivity].
  rewrite gen_bytes_eqb_nil. destruct e as [|x e]; [exfalso; exact (NE [] eq_refl eq_refl)|].
  cbn [is_nil]. rewrite gen_bytes_eqb_eq. destruct (Bytes.bytes_eqb signer (x :: e)); reflexivity.
Qed.

(* ================================================================== *)
(* phase 2: Validate after pubKey.Verify: an error of the verifier and a false verdict are both
   refusals (validate_head: if verify pk payload s then Ok (peer_id pk) else Err EBadSig) *)
Theorem tie_Validate_verify : forall (ok : bool) (err : option string),
  match head_Validate_verify (ok, err) with
  | FFall _ => ok = true /\ err = None
  | FReturn s _ => (ok = false \/ err <> None) /\
                   (err = None -> s = "return """", ErrBadSignature"%string)
  | _ => False
  end.
Proof.
  intros. unfold head_Validate_verify. destruct err; cbn [isNone negb].
  - split; [right; discriminate|discriminate].
  - destruct ok; cbn; auto.
Qed.
