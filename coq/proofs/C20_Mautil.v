(* Proofs about model/C20_Mautil.v: the list helpers are set operations. *)
From Lib Require Import Bytes.
From Model Require Import C20_Mautil.
From Coq Require Import Lia Permutation Sorted.
Open Scope N_scope.

(* ---------------------------------------------------------------- *)
(* multiaddr.FilterAddrs = filter                                     *)

Lemma filter_addrs_spec f l acc : filter_addrs f l acc = acc ++ filter f l.
Proof.
  revert acc. induction l as [|a l IH]; intro acc; cbn [filter_addrs filter].
  - rewrite app_nil_r. reflexivity.
  - destruct (f a).
    + rewrite IH, <- app_assoc. reflexivity.
    + apply IH.
Qed.

(* ---------------------------------------------------------------- *)
(* FindHTTPAddrs                                                      *)

Lemma has_http_iff a :
  has_http a = true <-> a_nil a = false /\ (In P_HTTP (a_protos a) \/ In P_HTTPS (a_protos a)).
Proof.
  unfold has_http. rewrite andb_true_iff, negb_true_iff, existsb_exists. split.
  - intros [Hn [p [Hin Hp]]]. split; [exact Hn|]. apply orb_prop in Hp as [Hp|Hp]; apply N.eqb_eq in Hp; subst p; auto.
  - intros [Hn [H|H]]; (split; [exact Hn|]).
    + exists P_HTTP. split; [exact H|]. reflexivity.
    + exists P_HTTPS. split; [exact H|]. reflexivity.
Qed.

Theorem find_http_is_filter_proved l :
  find_http l = filter has_http l /\
  (forall a, In a (find_http l) <->
             In a l /\ a_nil a = false /\ (In P_HTTP (a_protos a) \/ In P_HTTPS (a_protos a))).
Proof.
  assert (find_http l = filter has_http l) as E by (unfold find_http; apply filter_addrs_spec).
  split; [exact E|]. intro a. rewrite E, filter_In, has_http_iff. tauto.
Qed.

(* ---------------------------------------------------------------- *)
(* FilterPublic                                                       *)

Lemma ip_not_dns c : is_ip_code c = true -> is_dns_code c = false.
Proof.
  unfold is_ip_code, is_dns_code, P_IP4, P_IP6, P_IP6ZONE, P_IPCIDR, P_DNS, P_DNS4, P_DNS6, P_DNSADDR.
  intro H. repeat (apply orb_prop in H as [H|H]); apply N.eqb_eq in H; subst c; reflexivity.
Qed.

Lemma keep_public_class a : class_okb a = true -> keep_public a = class_kept (a_class a).
Proof.
  unfold class_okb, keep_public, first_is. destruct a as [id nl pr pub un lh k].
  cbn [a_class a_nil a_protos a_public a_unspec a_localhost].
  destruct pr as [|c pr].
  - destruct k, nl, pub, un, lh; cbn; intro H; try discriminate; reflexivity.
  - destruct (is_ip_code c) eqn:Eip.
    + rewrite (ip_not_dns c Eip).
      destruct k, nl, pub, un, lh; cbn; intro H; try discriminate; reflexivity.
    + destruct (is_dns_code c) eqn:Edns;
        destruct k, nl, pub, un, lh; cbn; intro H; try discriminate; reflexivity.
Qed.

Theorem filter_public_spec_proved l :
  forallb class_okb l = true ->
  (* an order-preserving selection, by class *)
  filter_public l = filter (fun a => class_kept (a_class a)) l /\
  (* never returns loopback, private or unspecified IP addresses or localhost *)
  (forall a, In a (filter_public l) -> In a l /\ must_drop (a_class a) = false) /\
  (* keeps the public ones *)
  (forall a, In a l -> is_public_class (a_class a) = true -> In a (filter_public l)).
Proof.
  intro Hok.
  assert (filter_public l = filter (fun a => class_kept (a_class a)) l) as E.
  { unfold filter_public. rewrite filter_addrs_spec. cbn [app].
    rewrite forallb_forall in Hok. apply filter_ext_in. intros a Ha. apply keep_public_class, Hok, Ha. }
  split; [exact E|]. rewrite E. split.
  - intros a Ha. apply filter_In in Ha as [Hin Hk]. split; [exact Hin|]. destruct (a_class a); try discriminate; reflexivity.
  - intros a Hin Hp. apply filter_In. split; [exact Hin|]. destruct (a_class a); try discriminate; reflexivity.
Qed.

(* ---------------------------------------------------------------- *)
(* CleanPeerAddrInfo                                                  *)

Definition nonnil (a : addr) : bool := negb (a_nil a).

Lemma Permutation_filter {A} (f : A -> bool) l l' :
  Permutation l l' -> Permutation (filter f l) (filter f l').
Proof.
  induction 1; cbn [filter].
  - constructor.
  - destruct (f x); [constructor|]; assumption.
  - destruct (f x), (f y); try apply Permutation_refl. apply perm_swap.
  - eapply Permutation_trans; eassumption.
Qed.

Lemma last_removelast_perm {A} (r : list A) d :
  r <> [] -> Permutation (last r d :: removelast r) r.
Proof.
  intro H. pose proof (Permutation_cons_append (removelast r) (last r d)) as P.
  rewrite <- (app_removelast_last d H) in P. exact P.
Qed.

Lemma length_last_removelast {A} (r : list A) d :
  r <> [] -> length (last r d :: removelast r) = length r.
Proof.
  intro H. pose proof (f_equal (@length A) (app_removelast_last d H)) as E.
  rewrite app_length in E. cbn [length] in *. lia.
Qed.

Lemma clean_f_spec fuel : forall l,
  (length l < fuel)%nat ->
  exists r, clean_f fuel l = Ok r /\ Permutation r (filter nonnil l) /\ forallb nonnil r = true.
Proof.
  induction fuel as [|f IH]; intros l Hlen; [lia|].
  destruct l as [|a r]; cbn [clean_f].
  - exists []. repeat split; constructor.
  - cbn [length] in Hlen. cbn [filter]. unfold nonnil at 1. destruct (a_nil a) eqn:En; cbn [negb].
    + destruct r as [|x r'].
      * exists []. repeat split; constructor.
      * assert (x :: r' <> []) as Hne by discriminate.
        destruct (IH (last (x :: r') a :: removelast (x :: r'))) as [res [E [P F]]].
        { rewrite length_last_removelast by exact Hne. lia. }
        exists res. split; [exact E|]. split; [|exact F].
        eapply Permutation_trans; [exact P|]. apply Permutation_filter, last_removelast_perm, Hne.
    + destruct (IH r) as [res [E [P F]]]; [lia|].
      exists (a :: res). rewrite E. cbn [bind]. split; [reflexivity|]. split.
      * constructor. exact P.
      * cbn [forallb]. unfold nonnil at 1. rewrite En. exact F.
Qed.

Theorem clean_drops_exactly_nils_proved l :
  exists r, clean l = Ok r /\
            Permutation r (filter nonnil l) /\
            (forall a, In a r -> a_nil a = false).
Proof.
  destruct (clean_f_spec (S (length l)) l) as [r [E [P F]]]; [lia|].
  exists r. split; [exact E|]. split; [exact P|].
  intros a Ha. rewrite forallb_forall in F. apply F in Ha. unfold nonnil in Ha. apply negb_true_iff in Ha. exact Ha.
Qed.

(* the swap-remove does not keep the order: the last entry moves into the hole *)
Definition mk (i : N) (n : bool) : addr :=
  {| a_id := i; a_nil := n; a_protos := []; a_public := false; a_unspec := false; a_localhost := false;
     a_class := if n then KNil else KEmpty |}.
Example clean_reorders :
  clean [mk 0 true; mk 1 false; mk 2 false; mk 3 false] = Ok [mk 3 false; mk 1 false; mk 2 false].
Proof. vm_compute. reflexivity. Qed.

(* ---------------------------------------------------------------- *)
(* MultiaddrsEqual                                                    *)

Lemma insert_perm x l : Permutation (insert x l) (x :: l).
Proof.
  induction l as [|y l IH]; cbn [insert]; [apply Permutation_refl|].
  destruct (x <=? y); [apply Permutation_refl|].
  eapply Permutation_trans; [apply perm_skip, IH|apply perm_swap].
Qed.

Lemma isort_perm l : Permutation (isort l) l.
Proof.
  induction l as [|x l IH]; cbn [isort]; [constructor|].
  eapply Permutation_trans; [apply insert_perm|]. constructor. exact IH.
Qed.

Lemma insert_sorted x l : StronglySorted N.le l -> StronglySorted N.le (insert x l).
Proof.
  induction 1 as [|y l Hs IH Hall]; cbn [insert].
  - repeat constructor.
  - destruct (N.leb_spec x y) as [Hle|Hgt].
    + constructor; [constructor; assumption|]. constructor; [exact Hle|].
      eapply Forall_impl; [|exact Hall]. intros z Hz. lia.
    + constructor; [exact IH|].
      eapply Permutation_Forall; [apply Permutation_sym, insert_perm|].
      constructor; [lia|exact Hall].
Qed.

Lemma isort_sorted l : StronglySorted N.le (isort l).
Proof. induction l; cbn [isort]; [constructor|apply insert_sorted; assumption]. Qed.

Lemma sorted_perm_eq l1 : forall l2,
  StronglySorted N.le l1 -> StronglySorted N.le l2 -> Permutation l1 l2 -> l1 = l2.
Proof.
  induction l1 as [|x l1 IH]; intros l2 S1 S2 P.
  - apply Permutation_nil in P. subst. reflexivity.
  - destruct l2 as [|y l2]; [apply Permutation_sym, Permutation_nil in P; discriminate|].
    inversion S1 as [|? ? S1' A1]; subst. inversion S2 as [|? ? S2' A2]; subst.
    assert (x = y) as ->.
    { assert (In x (y :: l2)) as Hx by (eapply Permutation_in; [exact P|left; reflexivity]).
      assert (In y (x :: l1)) as Hy by (eapply Permutation_in; [apply Permutation_sym; exact P|left; reflexivity]).
      rewrite Forall_forall in A1, A2.
      destruct Hx as [->|Hx]; [reflexivity|]. destruct Hy as [->|Hy]; [reflexivity|].
      apply A2 in Hx. apply A1 in Hy. lia. }
    f_equal. apply IH; [assumption|assumption|]. eapply Permutation_cons_inv. exact P.
Qed.

Lemma ids_eqb_eq a b : list_eqb N.eqb a b = true <-> a = b.
Proof.
  revert b. induction a as [|x a IH]; intros [|y b]; cbn [list_eqb]; split; intro H; try discriminate; auto.
  - apply andb_prop in H as [H1 H2]. apply N.eqb_eq in H1. apply IH in H2. congruence.
  - inversion H; subst. rewrite N.eqb_refl. apply IH. reflexivity.
Qed.

Lemma isort_eq_iff_perm l1 l2 : isort l1 = isort l2 <-> Permutation l1 l2.
Proof.
  split.
  - intro H. eapply Permutation_trans; [apply Permutation_sym, isort_perm|]. rewrite H. apply isort_perm.
  - intro P. apply sorted_perm_eq; try apply isort_sorted.
    eapply Permutation_trans; [apply isort_perm|]. eapply Permutation_trans; [exact P|]. apply Permutation_sym, isort_perm.
Qed.

Theorem addrs_equal_iff_permutation_proved l1 l2 :
  let '(b, l1', l2') := addrs_equal l1 l2 in
  (b = true <-> Permutation l1 l2) /\ Permutation l1' l1 /\ Permutation l2' l2.
Proof.
  unfold addrs_equal.
  destruct (Nat.eqb (length l1) (length l2)) eqn:El; cbn [negb].
  - apply PeanoNat.Nat.eqb_eq in El.
    destruct l1 as [|x [|x' l1]]; destruct l2 as [|y [|y' l2]]; cbn [length] in El; try discriminate.
    + repeat split; auto.
    + split; [|split; apply Permutation_refl]. rewrite N.eqb_eq. split.
      * intros ->. apply Permutation_refl.
      * intro P. apply Permutation_length_1 in P. exact P.
    + split; [|split; apply isort_perm]. rewrite ids_eqb_eq. apply isort_eq_iff_perm.
  - split; [|split; apply Permutation_refl]. split; [discriminate|].
    intro P. apply Permutation_length in P. apply PeanoNat.Nat.eqb_neq in El. contradiction.
Qed.

(* duplicates are counted: [a;a;b] and [a;b;b] are not equal *)
Example addrs_equal_counts_duplicates :
  fst (fst (addrs_equal [1;1;2] [1;2;2])) = false /\ fst (fst (addrs_equal [2;1;1] [1;2;1])) = true.
Proof. vm_compute. split; reflexivity. Qed.

(* ---------------------------------------------------------------- *)
(* StringsToMultiaddrs / ParsePeers                                   *)

Definition is_none {A} (o : option A) : bool := match o with None => true | Some _ => false end.

Theorem strings_to_maddrs_spec_proved :
  (forall ms : list N, strings_to_maddrs (map Some ms) = (ms, false)) /\
  (forall l, snd (strings_to_maddrs l) = true <-> In None l) /\
  (forall l i, In i (fst (strings_to_maddrs l)) <-> In (Some i) l).
Proof.
  split; [|split].
  - intro ms. unfold strings_to_maddrs. f_equal.
    + induction ms as [|x ms IH]; [reflexivity|]. cbn [map flat_map app]. rewrite IH. reflexivity.
    + induction ms as [|x ms IH]; [reflexivity|]. cbn [map existsb orb]. exact IH.
  - intro l. unfold strings_to_maddrs. cbn [snd]. rewrite existsb_exists. split.
    + intros [o [Hin Ho]]. destruct o; [discriminate|exact Hin].
    + intro H. exists None. auto.
  - intros l i. unfold strings_to_maddrs. cbn [fst]. rewrite in_flat_map. split.
    + intros [o [Hin Ho]]. destruct o as [j|]; [|destruct Ho]. destruct Ho as [->|[]]. exact Hin.
    + intro H. exists (Some i). split; [exact H|left; reflexivity].
Qed.

Definition bad_peer_item (o : option (option N * option N)) : bool :=
  match o with None => true | Some (None, _) => true | Some (Some _, _) => false end.

Lemma parse_peers_go_ok l : forall acc,
  existsb bad_peer_item l = false -> exists r, parse_peers_go l acc = Ok r.
Proof.
  induction l as [|o l IH]; intros acc H; cbn [parse_peers_go].
  - eexists. reflexivity.
  - cbn [existsb] in H. apply orb_false_iff in H as [H1 H2]. destruct o as [[[p|] t]|]; try discriminate. apply IH, H2.
Qed.
Lemma parse_peers_go_bad l : forall acc,
  existsb bad_peer_item l = true -> exists c, parse_peers_go l acc = Err c.
Proof.
  induction l as [|o l IH]; intros acc H; cbn [parse_peers_go]; [discriminate|].
  cbn [existsb] in H. destruct o as [[[p|] t]|]; try (eexists; reflexivity). cbn [bad_peer_item orb] in H. apply IH, H.
Qed.

(* ParsePeers fails exactly when some string is not a multiaddr or has no /p2p component *)
Lemma none_is_bad l :
  existsb (fun o : option (option N * option N) => match o with None => true | Some _ => false end) l = true ->
  existsb bad_peer_item l = true.
Proof.
  rewrite !existsb_exists. intros [o [Hin Ho]]. exists o. split; [exact Hin|]. destruct o; [discriminate|reflexivity].
Qed.

Theorem parse_peers_err_iff_proved l :
  (exists c, parse_peers l = Err c) <-> existsb bad_peer_item l = true.
Proof.
  unfold parse_peers. split.
  - intros [c H]. destruct (existsb bad_peer_item l) eqn:E; [reflexivity|]. exfalso.
    destruct (existsb (fun o => match o with None => true | Some _ => false end) l) eqn:En.
    + apply none_is_bad in En. congruence.
    + destruct (parse_peers_go_ok l [] E) as [r Hr]. congruence.
  - intro H. destruct (existsb (fun o => match o with None => true | Some _ => false end) l); [eexists; reflexivity|].
    apply parse_peers_go_bad, H.
Qed.
