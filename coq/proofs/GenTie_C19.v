(* GenTie_C19 -- rwriter/*.go and apierror/error.go: the decision logic of content negotiation,
   of the provider response writer and of the error helpers, as regenerated from the Go source
   (gen/Gen_Funcs_rwriter.v, gen/Gen_Funcs_apierror.v), against model/C19_FindWire.v. *)
From Coq Require Import ZArith NArith List Bool Lia String.
From Lib Require Import Bytes.
From Model Require Import C19_FindWire.
From Proofs Require Import GenTie_Lib.
From Gen Require Import Gen_Consts Gen_Funcs_prelude Gen_Funcs_rwriter Gen_Funcs_apierror.
Import ListNotations.
Open Scope Z_scope.

(* ---- New: the switch on the media type of one Accept element ---- *)
Definition mt_bytes (e : mt) : list N :=
  match e with
  | MTNd => bytes_of_string rwriter_c_mediaTypeNDJson
  | MTJson => bytes_of_string rwriter_c_mediaTypeJson
  | MTAny => bytes_of_string rwriter_c_mediaTypeAny
  | _ => bytes_of_string "text/plain"
  end.

Theorem tie_media_switch : forall (prefer nd ok sat : bool) (e : mt),
  rwriter_New_media_switch (mt_bytes e) nd ok prefer sat
  = FFall (let '(nd', ok') := upd prefer nd ok e in (nd', ok', nd' && ok')).
Proof. intros. destruct e, prefer, nd, ok, sat; vm_compute; reflexivity. Qed.

(* any other media type leaves the flags alone *)
Theorem media_switch_other : forall (prefer nd ok sat : bool) (b : list N),
  b <> mt_bytes MTNd -> b <> mt_bytes MTJson -> b <> mt_bytes MTAny ->
  rwriter_New_media_switch b nd ok prefer sat = FFall (nd, ok, nd && ok).
Proof.
  intros prefer nd ok sat b H1 H2 H3. unfold rwriter_New_media_switch.
  assert (E : forall x, b <> x -> Gen_Funcs_prelude.bytes_eqb b x = false).
  { intros x Hx. destruct (Gen_Funcs_prelude.bytes_eqb b x) eqn:E; [|reflexivity].
    apply gen_bytes_eqb_true in E. contradiction. }
  unfold mt_bytes in H1, H2, H3. rewrite (E _ H1), (E _ H2), (E _ H3). reflexivity.
Qed.

(* ---- New: the verdict after all Accept values were scanned (tail of negotiate_with) ---- *)
Definition verdict_class (r : frag (list string)) : option N :=
  match r with
  | FReturn s _ =>
      if String.eqb s "return nil, apierror.New(errors.New(""accept header must be specified""), http.StatusBadRequest)"
      then Some EAcceptMissing
      else if String.eqb s "return nil, apierror.New(fmt.Errorf(""media type not supported: %s"", accepts), http.StatusBadRequest)"
      then Some EUnsupportedMedia else Some 0%N
  | _ => None
  end.

Definition negotiate_tail (prefer : bool) (naccepts : nat) (nd ok : bool) : res mode :=
  if Nat.eqb naccepts 0 then (if prefer then Ok JS else Err EAcceptMissing)
  else if (negb ok && negb nd)%bool then Err EUnsupportedMedia
  else Ok (if nd then ND else JS).

Theorem negotiate_uses_tail : forall scan prefer accepts,
  negotiate_with scan prefer accepts =
  match scan_values scan false false accepts with
  | None => Err EInvalidAccept
  | Some (nd, ok) => negotiate_tail prefer (List.length accepts) nd ok
  end.
Proof.
  intros. unfold negotiate_with, negotiate_tail. destruct (scan_values scan false false accepts) as [[nd ok]|]; [|reflexivity].
  destruct accepts; reflexivity.
Qed.

Theorem tie_accept_verdict : forall (prefer nd ok : bool) (accepts : list (list N)),
  verdict_class (rwriter_New_accept_verdict accepts nd ok prefer)
  = match negotiate_tail prefer (List.length accepts) nd ok with Err c => Some c | _ => None end.
Proof.
  intros. unfold rwriter_New_accept_verdict, negotiate_tail. rewrite len_eqb_0.
  destruct accepts; cbn [is_nil List.length Nat.eqb]; destruct prefer, nd, ok; reflexivity.
Qed.

(* the content type follows the negotiated mode: three headers for NDJSON, one for JSON *)
Theorem content_type_table : forall nd : bool,
  rwriter_New_content_type nd = FFall
    (if nd then ["w.Header().Set(""Content-Type"", mediaTypeNDJson)"; "w.Header().Set(""Connection"", ""Keep-Alive"")";
                 "w.Header().Set(""X-Content-Type-Options"", ""nosniff"")"]
     else ["w.Header().Set(""Content-Type"", mediaTypeJson)"])%string.
Proof. destruct nd; reflexivity. Qed.

(* WriteHeader: only a status other than 200 is recorded and forwarded *)
Theorem WriteHeader_table : forall code st : Z,
  match rwriter_WriteHeader code st with
  | FFall (st', tr) => st' = (if code =? 200 then st else code) /\ (tr = [] <-> code = 200)
  | _ => False
  end.
Proof.
  intros. unfold rwriter_WriteHeader, ext_http_StatusOK. destruct (Z.eqb_spec code 200); cbn [negb].
  - split; [reflexivity|]. split; auto.
  - split; [reflexivity|]. split; [discriminate|contradiction].
Qed.

(* ---- ProviderResponseWriter ---- *)
Definition close_class (r : frag (list string)) : option N :=   (* 0: nothing more to write, 1: the JSON document, 9: 404 *)
  match r with
  | FReturn s _ =>
      if String.eqb s "return apierror.New(nil, http.StatusNotFound)" then Some ENotFound
      else if String.eqb s "return nil" then Some 0%N else Some 1%N
  | _ => None
  end.

Theorem tie_Close : forall s : pwstate,
  close_class (rwriter_ProviderResponseWriter_Close (Z.of_nat (pw_count s))
                 (match w_mode (pw_w s) with ND => true | JS => false end))
  = Some (match pw_close s with
          | Err c => c
          | Ok (BLines _) => 0%N
          | Ok (BDoc _) => 1%N
          | _ => 99%N
          end).
Proof.
  intros. unfold rwriter_ProviderResponseWriter_Close, pw_close.
  destruct (pw_count s) as [|n]; [reflexivity|].
  replace (Z.of_nat (S n) =? 0) with false by (symmetry; apply Z.eqb_neq; lia).
  destruct (w_mode (pw_w s)); reflexivity.
Qed.

Theorem tie_WriteProviderResult : forall (s : pwstate) (r : presult),
  match rwriter_ProviderResponseWriter_WriteProviderResult None (Z.of_nat (pw_count s))
          (match w_mode (pw_w s) with ND => true | JS => false end) with
  | FReturn ret (cnt, tr) =>
      ret = "return nil"%string /\ cnt = Z.of_nat (pw_count (pw_write s r)) /\
      (* NDJSON: encoded and flushed at once; JSON: kept for Close *)
      (In "pw.Flush()"%string tr <-> w_mode (pw_w s) = ND) /\
      (In "pw.result.ProviderResults = append(pw.result.ProviderResults, pr)"%string tr <-> w_mode (pw_w s) = JS)
  | _ => False
  end.
Proof.
  intros. unfold rwriter_ProviderResponseWriter_WriteProviderResult, pw_write.
  destruct (w_mode (pw_w s)); cbn [isNone negb pw_count app In].
  - split; [reflexivity|]. split; [lia|]. split; split; intro H; try reflexivity; try discriminate.
    + repeat (first [left; reflexivity | right]).
    + repeat (destruct H as [H|H]; try discriminate H). contradiction.
  - split; [reflexivity|]. split; [lia|]. split; split; intro H; try reflexivity; try discriminate.
    + repeat (destruct H as [H|H]; try discriminate H). contradiction.
    + repeat (first [left; reflexivity | right]).
Qed.

(* MatchQueryParam: (present, matched) *)
Theorem MatchQueryParam_table : forall (value : list N) (present : bool) (labels : list (list N)),
  rwriter_MatchQueryParam value labels present =
  if present then (true, existsb (fun l => Gen_Funcs_prelude.bytes_eqb l value) labels) else (false, false).
Proof.
  intros. unfold rwriter_MatchQueryParam. destruct present; cbn [negb]; [|reflexivity].
  induction labels as [|l r IH]; cbn [rwriter_MatchQueryParam_loop_1 existsb]; [reflexivity|].
  destruct (Gen_Funcs_prelude.bytes_eqb l value); [reflexivity|exact IH].
Qed.

(* ---- apierror ---- *)
(* FromResponse: a message iff the trimmed body is not empty; an *apierror.Error iff status <> 0
   (model [from_response]) *)
Theorem tie_FromResponse : forall (new : option string -> Z -> option string) (status : Z) (body : bytes),
  let t := trim_space body in
  let msg := if is_nil t then None else Some (string_of_bytes t) in
  apierror_FromResponse new trim_space status body = (if status =? 0 then msg else new msg status)
  /\ from_response status body =
     (if status =? 0 then (if is_nil t then None else Some (Some t, 0))
      else Some (if is_nil t then None else Some t, status)).
Proof.
  intros. split.
  - unfold apierror_FromResponse. fold t. rewrite gen_bytes_eqb_nil. subst msg.
    destruct t; reflexivity.
  - unfold from_response. fold t. destruct (Z.eqb status 0), t; reflexivity.
Qed.

(* DecodeError: a plain error when Status is 0, else an *apierror.Error (model [decode_error]:
   ae_status = if st = 0 then None else Some st) *)
Theorem tie_DecodeError_tail : forall (e0 : option string) (msg : list N) (st : Z),
  match apierror_DecodeError_tail msg st e0 with
  | FReturn s _ => s = (if (st =? 0)%Z then "return err" else "return New(err, e.Status)")%string
  | _ => False
  end.
Proof. intros. unfold apierror_DecodeError_tail. destruct (st =? 0); reflexivity. Qed.

(* Error(): the wrapped error's text; else "" for status 0; else "<status> <text>" or "<status>" *)
Theorem Error_Error_table : forall (err : option string) (st : Z) (text : list N),
  match apierror_Error_Error text err st with
  | FReturn s _ =>
      s = (match err with
           | Some _ => "return e.err.Error()"
           | None => if (st =? 0)%Z then "return """""
                     else if is_nil text then "return fmt.Sprintf(""%d"", e.status)"
                     else "return fmt.Sprintf(""%d %s"", e.status, text)"
           end)%string
  | _ => False
  end.
Proof.
  intros. unfold apierror_Error_Error. destruct err; cbn [isNone negb]; [reflexivity|].
  destruct (st =? 0); [reflexivity|]. rewrite gen_bytes_eqb_nil. destruct text; reflexivity.
Qed.

(* ================================================================== *)
(* phase 2: the scan over all Accept header values and their comma-separated elements
   (rwriter.New L43-L70) is the model's scan_values / scan_elems (repaired: every element is
   parsed, also after both media types were accepted) *)
Definition mt_text (e : mt) : list N := mt_bytes e.    (* what mime.ParseMediaType returns for a well-formed element *)

(* reading: a header value is given by the list of its elements (strings.Split), an element by
   its class; ParseMediaType fails exactly on MTErr *)
Section Scan.
  Variable M : Type.
  Variable m0 : M.
  Variable split : list N -> list N -> list (list N).
  Variable parse : list N -> list N * M * option string.
  Variable elems : list N -> list mt.           (* the classes of the elements of a header value *)
  Variable enc : mt -> list N.                  (* the text of an element of that class *)
  Hypothesis split_ok : forall v, split v (bytes_of_string ",") = map enc (elems v).
  Hypothesis parse_ok : forall e, parse (enc e) =
    match e with MTErr => ([], m0, Some "mime: invalid media parameter"%string) | _ => (mt_bytes e, m0, None) end.

  Definition bad_accept : string := "return nil, apierror.New(errors.New(""invalid Accept header""), http.StatusBadRequest)".

  Lemma scan_elems_loop : forall (prefer : bool) (K : bool -> bool -> frag (bool * bool)) (l : list mt) (nd ok sat : bool),
    match scan_elems prefer nd ok sat l with
    | Some (a, b) => rwriter_New_accept_scan_loop_2 M parse prefer (fun x y _ => K x y) (map enc l) nd ok sat = K a b
    | None => exists p, rwriter_New_accept_scan_loop_2 M parse prefer (fun x y _ => K x y) (map enc l) nd ok sat = FReturn bad_accept p
    end.
  Proof.
    intros prefer K. induction l as [|e r IH]; intros nd ok sat; [reflexivity|].
    cbn [map rwriter_New_accept_scan_loop_2 scan_elems]. rewrite parse_ok.
    destruct e; cbn [isNone negb]; try (eexists; reflexivity);
      (destruct sat; [apply IH|]);
      destruct prefer, nd, ok; cbn; apply IH.
  Qed.

  Lemma scan_values_loop : forall (prefer : bool) (K : bool -> bool -> frag (bool * bool)) (vs : list (list N)) (nd ok : bool),
    match scan_values (fun a b => scan_elems prefer a b false) nd ok (map elems vs) with
    | Some (a, b) => rwriter_New_accept_scan_loop_1 M parse split prefer K vs nd ok = K a b
    | None => exists p, rwriter_New_accept_scan_loop_1 M parse split prefer K vs nd ok = FReturn bad_accept p
    end.
  Proof.
    intros prefer K. induction vs as [|v r IH]; intros nd ok; [reflexivity|].
    cbn [map rwriter_New_accept_scan_loop_1 scan_values]. rewrite split_ok.
    pose proof (scan_elems_loop prefer (fun a b => rwriter_New_accept_scan_loop_1 M parse split prefer K r a b) (elems v) nd ok false) as H.
    destruct (scan_elems prefer nd ok false (elems v)) as [[a b]|].
    - rewrite H. apply IH.
    - exact H.
  Qed.

  (* the whole scan: the flags negotiate_with starts its verdict from, or "invalid Accept header" *)
  Theorem tie_accept_scan : forall (prefer : bool) (accepts : list (list N)),
    match scan_values (fun a b => scan_elems prefer a b false) false false (map elems accepts) with
    | Some (nd, ok) => rwriter_New_accept_scan M parse split accepts false false prefer = FFall (nd, ok)
    | None => exists p, rwriter_New_accept_scan M parse split accepts false false prefer = FReturn bad_accept p
    end.
  Proof.
    intros. unfold rwriter_New_accept_scan.
    exact (scan_values_loop prefer (fun a b => FFall (a, b)) accepts false false).
  Qed.
End Scan.

(* apierror.Error.Text: "<status>[ <status text>][: <message>]", assembled from at most five parts *)
Theorem Error_Text_table : forall (msg : list N) (sprintf : list N -> Z -> list N) (stext : Z -> list N)
    (join : list (list N) -> list N -> list N) (err : option string) (st : Z),
  apierror_Error_Text msg sprintf stext join err st =
  join ((if st =? 0 then []
         else sprintf (bytes_of_string "%d") st :: (if is_nil (stext st) then [] else [bytes_of_string " "; stext st]))
        ++ (match err with
            | None => []
            | Some _ => (if st =? 0 then [] else [bytes_of_string ": "]) ++ [msg]
            end))%list [].
Proof.
  intros. unfold apierror_Error_Text. destruct (st =? 0) eqn:E; cbn [negb app].
  - destruct err; reflexivity.
  - rewrite gen_bytes_eqb_nil. destruct (stext st) as [|c r]; cbn [is_nil negb app]; destruct err; reflexivity.
Qed.
