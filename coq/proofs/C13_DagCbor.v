(* Proofs about model/C13_DagCbor.v: the DAG-CBOR decoder reads back what the encoder
   writes (for every well-formed node, maps in any order), never runs out of its fuel,
   and the generic decode is the lax decode plus the repeated-key check. *)
From Lib Require Import Bytes Varint Cid Cbor.
From Model Require Import C13_DagCbor.
From Coq Require Import Lia ZifyN ZifyNat ZifyBool ZArith Permutation.
Ltac Zify.zify_post_hook ::= Z.div_mod_to_equations.
Open Scope N_scope.
Local Arguments N.mul : simpl never.
Local Arguments N.add : simpl never.
Local Arguments N.sub : simpl never.
Local Arguments N.pow : simpl never.
Local Arguments N.div : simpl never.
Local Arguments N.modulo : simpl never.

(* ---------------------------------------------------------------- *)
(* unfolding equations                                                *)

Lemma item_S f tag hb r :
  item (S f) tag (hb :: r) =
          if hb =? 246 then Ok (NNull, r)
          else if hb =? 247 then Ok (NNull, r)
          else if hb =? 244 then Ok (NBool false, r)
          else if hb =? 245 then Ok (NBool true, r)
          else if hb =? 249 then match take 2 r with Some (_, r') => Ok (NFloat, r') | None => Err ETrunc end
          else if hb =? 250 then match take 4 r with Some (_, r') => Ok (NFloat, r') | None => Err ETrunc end
          else if hb =? 251 then match take 8 r with Some (_, r') => Ok (NFloat, r') | None => Err ETrunc end
          else if hb =? 95 then
            '(x, r1) <- rd_chunks f MajByteString r ;;
            n <- bytes_item tag x ;; Ok (n, r1)
          else if hb =? 127 then
            '(x, r1) <- rd_chunks f MajTextString r ;; Ok (NString x, r1)
          else if hb =? 159 then
            '(es, r1) <- seq f None false r ;; Ok (NList (map snd es), r1)
          else if hb =? 191 then
            '(es, r1) <- seq f None true r ;; Ok (NMap es, r1)
          else
            let maj := hb / 32 in
            if maj =? MajUnsignedInt then
              '(v, r1) <- rd_uint hb r ;; Ok (NInt (Z.of_N v), r1)
            else if maj =? MajNegativeInt then
              '(v, r1) <- rd_uint hb r ;;
              let pos := (v + 1) mod Pow64 in
              if 9223372036854775808 <? pos then Err ENegRange
              else Ok (NInt (- Z.of_N pos), r1)
            else if maj =? MajByteString then
              '(x, r1) <- rd_str hb r ;;
              n <- bytes_item tag x ;; Ok (n, r1)
            else if maj =? MajTextString then
              '(x, r1) <- rd_str hb r ;; Ok (NString x, r1)
            else if maj =? MajArray then
              '(n, r1) <- rd_len hb r ;;
              '(es, r2) <- seq f (Some n) false r1 ;; Ok (NList (map snd es), r2)
            else if maj =? MajMap then
              '(n, r1) <- rd_len hb r ;;
              '(es, r2) <- seq f (Some n) true r1 ;; Ok (NMap es, r2)
            else if maj =? MajTag then
              match tag with
              | Some _ => Err ETag
              | None => '(t, r1) <- rd_len hb r ;; item f (Some t) r1
              end
            else Err EHead.
Proof. reflexivity. Qed.

Definition seq_stop (lim : option N) (b : bytes) : option bytes :=
  match lim, b with
  | Some n, _ => if n =? 0 then Some b else None
  | None, hb :: r => if hb =? 255 then Some r else None
  | None, [] => None
  end.
Definition lim_pred (lim : option N) : option N :=
  match lim with Some n => Some (n - 1) | None => None end.

Lemma seq_eq fuel lim ismap b :
  seq fuel lim ismap b =
  match seq_stop lim b with
  | Some r => Ok ([], r)
  | None =>
      match fuel with
      | O => Err EOutOfFuel
      | S f =>
          if ismap then
            '(k, r1) <- item f None b ;;
            match k with
            | NString ks =>
                '(v, r2) <- item f None r1 ;;
                '(rest, r3) <- seq f (lim_pred lim) true r2 ;;
                Ok ((ks, v) :: rest, r3)
            | _ => Err EKey
            end
          else
            '(v, r1) <- item f None b ;;
            '(rest, r2) <- seq f (lim_pred lim) false r1 ;;
            Ok (([], v) :: rest, r2)
      end
  end.
Proof. destruct fuel; reflexivity. Qed.

(* ---------------------------------------------------------------- *)
(* heads                                                              *)

Lemma pow256_1 : 256 ^ N.of_nat 1 = 256. Proof. reflexivity. Qed.
Lemma pow256_2 : 256 ^ N.of_nat 2 = 65536. Proof. reflexivity. Qed.
Lemma pow256_4 : 256 ^ N.of_nat 4 = 4294967296. Proof. reflexivity. Qed.
Lemma pow256_8 : 256 ^ N.of_nat 8 = 18446744073709551616. Proof. reflexivity. Qed.

Lemma rd_uint_wide hb k low v r :
  hb mod 32 = low ->
  ((k = 1%nat /\ low = 24) \/ (k = 2%nat /\ low = 25) \/ (k = 4%nat /\ low = 26) \/ (k = 8%nat /\ low = 27)) ->
  v < 256 ^ N.of_nat k ->
  rd_uint hb (be_enc k v ++ r) = Ok (v, r).
Proof.
  intros Hm Hk Hv. unfold rd_uint. rewrite Hm.
  destruct Hk as [[-> ->] | [[-> ->] | [[-> ->] | [-> ->]]]];
    (change (24 <? 24) with false || change (25 <? 24) with false || change (26 <? 24) with false || change (27 <? 24) with false);
    cbv iota;
    (change (24 =? 24) with true || (change (25 =? 24) with false; change (25 =? 25) with true)
     || (change (26 =? 24) with false; change (26 =? 25) with false; change (26 =? 26) with true)
     || (change (27 =? 24) with false; change (27 =? 25) with false; change (27 =? 26) with false; change (27 =? 27) with true));
    cbv iota;
    (rewrite take_nat_app by apply be_enc_length); rewrite be_dec_enc by exact Hv; reflexivity.
Qed.

(* the head the encoder writes is read back by the (lenient) head reader *)
Lemma wr_head_read maj v :
  maj < 7 -> v < 18446744073709551616 ->
  exists hb args,
    wr_head maj v = hb :: args /\ hb / 32 = maj /\ hb mod 32 < 28 /\
    forall r, rd_uint hb (args ++ r) = Ok (v, r).
Proof.
  intros Hmaj Hv. unfold wr_head.
  destruct (v <? 24) eqn:E1.
  { exists (32 * maj + v), []. repeat split; try lia.
    intro r. unfold rd_uint. replace ((32 * maj + v) mod 32) with v by lia. rewrite E1. reflexivity. }
  destruct (v <? 256) eqn:E2.
  { exists (32 * maj + 24), (be_enc 1 v). repeat split; try lia.
    intro r. apply (rd_uint_wide _ 1%nat 24); [lia|auto|rewrite pow256_1; lia]. }
  destruct (v <? 65536) eqn:E3.
  { exists (32 * maj + 25), (be_enc 2 v). repeat split; try lia.
    intro r. apply (rd_uint_wide _ 2%nat 25); [lia|auto|rewrite pow256_2; lia]. }
  destruct (v <? 4294967296) eqn:E4.
  { exists (32 * maj + 26), (be_enc 4 v). repeat split; try lia.
    intro r. apply (rd_uint_wide _ 4%nat 26); [lia|auto 6|rewrite pow256_4; lia]. }
  exists (32 * maj + 27), (be_enc 8 v). repeat split; try lia.
  intro r. apply (rd_uint_wide _ 8%nat 27); [lia|auto 6|rewrite pow256_8; lia].
Qed.

Lemma rd_len_of_uint hb b v r : rd_uint hb b = Ok (v, r) -> v <= MaxInt -> rd_len hb b = Ok (v, r).
Proof.
  intros H Hv. unfold rd_len. rewrite H. cbn [bind].
  destruct (MaxInt <? v) eqn:E; [lia|reflexivity].
Qed.

Lemma rd_str_app hb args x r :
  (forall r', rd_uint hb (args ++ r') = Ok (blen x, r')) -> blen x <= MaxStr ->
  rd_str hb (args ++ x ++ r) = Ok (x, r).
Proof.
  intros H Hx. unfold rd_str. rewrite (rd_len_of_uint _ _ (blen x) (x ++ r)) by (auto; unfold MaxStr, MaxInt in *; lia).
  cbn [bind]. destruct (MaxStr <? blen x) eqn:E; [lia|]. rewrite take_app. reflexivity.
Qed.

(* ---------------------------------------------------------------- *)
(* the decoder reads back the raw encoding                            *)

Fixpoint nsize (n : node) : nat :=
  match n with
  | NLink _ => 2
  | NList l => S ((fix ls (l : list node) : nat := match l with [] => 0 | x :: r => S (nsize x + ls r) end) l)
  | NMap m => S ((fix ms (m : list (bytes * node)) : nat := match m with [] => 0 | kv :: r => S (nsize (snd kv) + ms r) end) m)
  | _ => 1
  end%nat.
Fixpoint lsize (l : list node) : nat := match l with [] => 0 | x :: r => S (nsize x + lsize r) end%nat.
Fixpoint msize (m : list (bytes * node)) : nat := match m with [] => 0 | kv :: r => S (nsize (snd kv) + msize r) end%nat.
Lemma nsize_list l : nsize (NList l) = S (lsize l). Proof. reflexivity. Qed.
Lemma nsize_map m : nsize (NMap m) = S (msize m). Proof. reflexivity. Qed.
Lemma nsize_pos n : (1 <= nsize n)%nat. Proof. destruct n; cbn; lia. Qed.

Definition enc_entry (kv : bytes * node) : bytes :=
  (wr_head MajTextString (blen (fst kv)) ++ fst kv) ++ encode_raw (snd kv).
Definition wf_entry (kv : bytes * node) : bool :=
  wf_bytes (fst kv) && (blen (fst kv) <=? MaxStr) && wf_node (snd kv).

Lemma encode_raw_list l : encode_raw (NList l) = wr_head MajArray (nlen l) ++ flat_map encode_raw l.
Proof. reflexivity. Qed.
Lemma encode_raw_map m : encode_raw (NMap m) = wr_head MajMap (nlen m) ++ flat_map enc_entry m.
Proof. reflexivity. Qed.

Ltac nosigil :=
  repeat match goal with
         | |- context [N.eqb ?h ?c] =>
             is_var h; destruct (N.eqb_spec h c); [exfalso; lia|]
         end.
Ltac majs := unfold MajUnsignedInt, MajNegativeInt, MajByteString, MajTextString, MajArray, MajMap, MajTag;
             cbn [N.eqb Pos.eqb].

Ltac head_step maj v :=
  let hb := fresh "hb" in let args := fresh "args" in
  let Hw := fresh "Hw" in let Hd := fresh "Hd" in let Hm := fresh "Hm" in let Hr := fresh "Hr" in
  destruct (wr_head_read maj v) as (hb & args & Hw & Hd & Hm & Hr);
  [unfold MajUnsignedInt, MajNegativeInt, MajByteString, MajTextString, MajArray, MajMap, MajTag; lia
  |try (unfold MaxStr, MaxInt in *; lia)
  |unfold MajUnsignedInt, MajNegativeInt, MajByteString, MajTextString, MajArray, MajMap, MajTag in Hd;
   rewrite Hw; cbn [app]; rewrite item_S; nosigil; cbv zeta; rewrite Hd; majs].

Lemma nlen_cons {A} (x : A) l : nlen (x :: l) - 1 = nlen l.
Proof. unfold nlen. cbn [length]. lia. Qed.
Lemma nlen_cons_nz {A} (x : A) l : (nlen (x :: l) =? 0) = false.
Proof. unfold nlen. cbn [length]. lia. Qed.

Lemma wf_list_parts l : wf_node (NList l) = true -> forallb wf_node l = true /\ nlen l <= MaxInt.
Proof. cbn [wf_node]. rewrite andb_true_iff. intros [A B]. split; [exact A|lia]. Qed.
Lemma wf_map_parts m : wf_node (NMap m) = true -> forallb wf_entry m = true /\ nlen m <= MaxInt /\ has_dup_key m = false.
Proof.
  cbn [wf_node]. rewrite !andb_true_iff. intros [[A B] C]. apply negb_true_iff in B. repeat split; [exact A|lia|exact B].
Qed.

Lemma rd_len_tag42 x : rd_len 216 (42 :: x) = Ok (42, x).
Proof.
  unfold rd_len, rd_uint. change (216 mod 32) with 24. change (24 <? 24) with false. change (24 =? 24) with true. cbv iota.
  change (42 :: x) with ([42] ++ x). rewrite (take_nat_app 1 [42] x eq_refl). reflexivity.
Qed.

Lemma item_enc_raw f :
  (forall n r, wf_node n = true -> (nsize n <= f)%nat -> item f None (encode_raw n ++ r) = Ok (n, r)) /\
  (forall l r, forallb wf_node l = true -> (lsize l <= f)%nat ->
     seq f (Some (nlen l)) false (flat_map encode_raw l ++ r) = Ok (map (fun v => ([], v)) l, r)) /\
  (forall m r, forallb wf_entry m = true -> (msize m <= f)%nat ->
     seq f (Some (nlen m)) true (flat_map enc_entry m ++ r) = Ok (m, r)).
Proof.
  induction f as [|f [IHi [IHl IHm]]].
  - split; [|split].
    + intros n r _ H. pose proof (nsize_pos n). lia.
    + intros [|x l] r _ H; [reflexivity|cbn [lsize] in H; lia].
    + intros [|x l] r _ H; [reflexivity|cbn [msize] in H; lia].
  - split; [|split].
    + (* one item *)
      intros n r Hwf Hsz. destruct n.
      * reflexivity.
      * destruct b; reflexivity.
      * (* int *)
        cbn [wf_node] in Hwf. unfold int_ok in Hwf. cbn [encode_raw]. unfold enc_int.
        destruct (0 <=? z)%Z eqn:Ez.
        -- head_step MajUnsignedInt (Z.to_N z). rewrite Hr. cbn [bind]. rewrite Z2N.id by lia. reflexivity.
        -- head_step MajNegativeInt (Z.to_N (-1 - z)). rewrite Hr. cbn [bind]. cbv zeta.
           assert ((Z.to_N (-1 - z) + 1) mod Pow64 = Z.to_N (- z)) as -> by (unfold Pow64; lia).
           destruct (9223372036854775808 <? Z.to_N (- z)) eqn:E; [lia|].
           rewrite Z2N.id by lia. rewrite Z.opp_involutive. reflexivity.
      * discriminate.
      * (* string *)
        cbn [wf_node] in Hwf. apply andb_prop in Hwf as [Hw1 Hw2]. cbn [encode_raw]. rewrite <- app_assoc.
        head_step MajTextString (blen s). rewrite rd_str_app by (auto; lia). reflexivity.
      * (* bytes *)
        cbn [wf_node] in Hwf. apply andb_prop in Hwf as [Hw1 Hw2]. cbn [encode_raw]. rewrite <- app_assoc.
        head_step MajByteString (blen b). rewrite rd_str_app by (auto; lia). reflexivity.
      * (* link *)
        cbn [wf_node] in Hwf. apply andb_prop in Hwf as [Hw1 Hw3]. apply andb_prop in Hw1 as [Hw1 Hw2].
        cbn [encode_raw nsize] in *. unfold enc_link. rewrite <- !app_assoc.
        change (wr_head MajTag 42) with [216; 42]. cbn [app]. rewrite item_S.
        change (216 =? 246) with false. change (216 =? 247) with false. change (216 =? 244) with false.
        change (216 =? 245) with false. change (216 =? 249) with false. change (216 =? 250) with false.
        change (216 =? 251) with false. change (216 =? 95) with false. change (216 =? 127) with false.
        change (216 =? 159) with false. change (216 =? 191) with false. cbv iota zeta.
        change (216 / 32) with 6. majs.
        rewrite rd_len_tag42.
        cbn [bind]. destruct f as [|f']; [lia|].
        destruct (wr_head_read 2 (blen c + 1)) as (hb & args & Hw & Hd & Hm & Hr);
          [lia|unfold MaxStr in *; lia|].
        rewrite Hw. cbn [app]. rewrite item_S. nosigil. cbv zeta. rewrite Hd. majs.
        assert (blen (0 :: c) = blen c + 1) as Hl by (unfold blen; cbn [length]; lia).
        change (0 :: c ++ r) with ((0 :: c) ++ r).
        rewrite rd_str_app; [|intro r'; rewrite Hl; apply Hr|rewrite Hl; unfold MaxStr in *; lia].
        cbn [bind bytes_item]. change (42 =? 42) with true. cbv iota.
        destruct (cast c); [reflexivity|discriminate|discriminate].
      * (* list *)
        apply wf_list_parts in Hwf as [Hall Hlen]. rewrite nsize_list in Hsz.
        rewrite encode_raw_list. rewrite <- app_assoc.
        head_step MajArray (nlen l).
        rewrite (rd_len_of_uint _ _ (nlen l) (flat_map encode_raw l ++ r)) by auto. cbn [bind].
        rewrite IHl by (auto; lia). cbn [bind]. rewrite map_map. cbn [snd]. rewrite map_id. reflexivity.
      * (* map *)
        apply wf_map_parts in Hwf as [Hall [Hlen _]]. rewrite nsize_map in Hsz.
        rewrite encode_raw_map. rewrite <- app_assoc.
        head_step MajMap (nlen m).
        rewrite (rd_len_of_uint _ _ (nlen m) (flat_map enc_entry m ++ r)) by auto. cbn [bind].
        rewrite IHm by (auto; lia). reflexivity.
    + (* list elements *)
      intros l r Hall Hsz. destruct l as [|x l]; [reflexivity|].
      cbn [forallb] in Hall. apply andb_prop in Hall as [Hx Hl]. cbn [lsize] in Hsz.
      rewrite seq_eq. unfold seq_stop. rewrite nlen_cons_nz. unfold lim_pred. rewrite nlen_cons.
      cbn [flat_map]. rewrite <- app_assoc. rewrite IHi by (auto; lia). cbn [bind].
      rewrite IHl by (auto; lia). reflexivity.
    + (* map entries *)
      intros m r Hall Hsz. destruct m as [|[k v] m]; [reflexivity|].
      cbn [forallb] in Hall. apply andb_prop in Hall as [Hx Hl]. unfold wf_entry in Hx. cbn [fst snd] in Hx.
      apply andb_prop in Hx as [Hk Hv]. apply andb_prop in Hk as [Hk1 Hk2]. cbn [msize snd] in Hsz.
      rewrite seq_eq. unfold seq_stop. rewrite nlen_cons_nz. unfold lim_pred. rewrite nlen_cons.
      cbn [flat_map]. unfold enc_entry at 1. cbn [fst snd]. rewrite <- !app_assoc.
      assert (item f None (wr_head MajTextString (blen k) ++ k ++ encode_raw v ++ flat_map enc_entry m ++ r)
              = Ok (NString k, encode_raw v ++ flat_map enc_entry m ++ r)) as ->.
      { pose proof (IHi (NString k) (encode_raw v ++ flat_map enc_entry m ++ r)) as H.
        cbn [encode_raw] in H. rewrite <- app_assoc in H. apply H.
        - cbn [wf_node]. rewrite Hk1, Hk2. reflexivity.
        - cbn [nsize]. pose proof (nsize_pos v). lia. }
      cbn [bind]. rewrite IHi by (auto; lia). cbn [bind]. rewrite IHm by (auto; lia). reflexivity.
Qed.

(* ---------------------------------------------------------------- *)
(* induction on nodes                                                 *)

Section NodeInd.
  Variable P : node -> Prop.
  Hypothesis HNull : P NNull.
  Hypothesis HBool : forall b, P (NBool b).
  Hypothesis HInt : forall z, P (NInt z).
  Hypothesis HFloat : P NFloat.
  Hypothesis HString : forall s, P (NString s).
  Hypothesis HBytes : forall s, P (NBytes s).
  Hypothesis HLink : forall s, P (NLink s).
  Hypothesis HList : forall l, Forall P l -> P (NList l).
  Hypothesis HMap : forall m, Forall (fun kv => P (snd kv)) m -> P (NMap m).
  Fixpoint node_ind2 (n : node) : P n :=
    match n with
    | NNull => HNull | NBool b => HBool b | NInt z => HInt z | NFloat => HFloat
    | NString s => HString s | NBytes s => HBytes s | NLink s => HLink s
    | NList l => HList l ((fix go (l : list node) : Forall P l :=
                             match l with [] => Forall_nil _ | x :: r => Forall_cons x (node_ind2 x) (go r) end) l)
    | NMap m => HMap m ((fix go (m : list (bytes * node)) : Forall (fun kv => P (snd kv)) m :=
                           match m with [] => Forall_nil _ | kv :: r => Forall_cons kv (node_ind2 (snd kv)) (go r) end) m)
    end.
End NodeInd.

(* ---------------------------------------------------------------- *)
(* repeated keys, sorting                                             *)

Fixpoint dup_go {A} (seen : list bytes) (m : list (bytes * A)) : bool :=
  match m with
  | [] => false
  | (k, _) :: r => existsb (bytes_eqb k) seen || dup_go (k :: seen) r
  end.
Lemma has_dup_key_go {A} (m : list (bytes * A)) : has_dup_key m = dup_go [] m.
Proof.
  unfold has_dup_key. generalize (@nil bytes). induction m as [|[k v] m IH]; intro seen; [reflexivity|].
  cbn [dup_go]. rewrite <- IH. reflexivity.
Qed.

Lemma existsb_bytes_in k l : existsb (bytes_eqb k) l = true <-> In k l.
Proof.
  rewrite existsb_exists. split.
  - intros [x [Hin He]]. apply bytes_eqb_eq in He. subst. exact Hin.
  - intro H. exists k. split; [exact H|apply bytes_eqb_eq; reflexivity].
Qed.

Lemma dup_go_false {A} (m : list (bytes * A)) : forall seen,
  dup_go seen m = false <-> NoDup (map fst m) /\ (forall k, In k (map fst m) -> ~ In k seen).
Proof.
  induction m as [|[k v] m IH]; intro seen; cbn [dup_go map fst].
  - split; [intros _; split; [constructor|intros k []]|reflexivity].
  - rewrite orb_false_iff, IH. split.
    + intros [H1 [H2 H3]]. split.
      * constructor; [|exact H2]. intro Hin. apply (H3 k Hin). left. reflexivity.
      * intros k' [<-|Hin] Hs.
        -- apply existsb_bytes_in in Hs. congruence.
        -- apply (H3 k' Hin). right. exact Hs.
    + intros [H1 H2]. inversion H1 as [|? ? Hn Hd]; subst. split; [|split].
      * destruct (existsb (bytes_eqb k) seen) eqn:E; [|reflexivity]. apply existsb_bytes_in in E.
        exfalso. apply (H2 k); [left; reflexivity|exact E].
      * exact Hd.
      * intros k' Hin [<-|Hs]; [contradiction|]. apply (H2 k'); [right; exact Hin|exact Hs].
Qed.

Lemma has_dup_key_false {A} (m : list (bytes * A)) : has_dup_key m = false <-> NoDup (map fst m).
Proof.
  rewrite has_dup_key_go, dup_go_false. split; [tauto|]. intro H. split; [exact H|]. intros k _ [].
Qed.

Lemma insert_entry_perm {A} (e : bytes * A) l : Permutation (insert_entry e l) (e :: l).
Proof.
  induction l as [|x l IH]; cbn [insert_entry]; [apply Permutation_refl|].
  destruct (key_leb (fst e) (fst x)); [apply Permutation_refl|].
  eapply Permutation_trans; [apply perm_skip, IH|apply perm_swap].
Qed.
Lemma sort_entries_perm {A} (l : list (bytes * A)) : Permutation (sort_entries l) l.
Proof.
  induction l as [|e l IH]; cbn [sort_entries]; [constructor|].
  eapply Permutation_trans; [apply insert_entry_perm|]. constructor. exact IH.
Qed.

Lemma forallb_perm {A} (p : A -> bool) l l' : Permutation l l' -> forallb p l = forallb p l'.
Proof.
  induction 1; cbn [forallb]; try congruence.
  destruct (p x), (p y); reflexivity.
Qed.

Lemma has_dup_key_perm {A} (l l' : list (bytes * A)) : Permutation l l' -> has_dup_key l = has_dup_key l'.
Proof.
  intro P. destruct (has_dup_key l) eqn:E1, (has_dup_key l') eqn:E2; try reflexivity.
  - apply has_dup_key_false in E2. assert (NoDup (map fst l)) as H.
    { eapply Permutation_NoDup; [apply Permutation_map, Permutation_sym, P|exact E2]. }
    apply has_dup_key_false in H. congruence.
  - apply has_dup_key_false in E1. assert (NoDup (map fst l')) as H.
    { eapply Permutation_NoDup; [apply Permutation_map, P|exact E1]. }
    apply has_dup_key_false in H. congruence.
Qed.

Definition norm_entry (kv : bytes * node) : bytes * node := (fst kv, norm (snd kv)).
Lemma norm_map m : norm (NMap m) = NMap (sort_entries (map norm_entry m)).
Proof. reflexivity. Qed.
Lemma norm_list l : norm (NList l) = NList (map norm l).
Proof. reflexivity. Qed.

Lemma map_fst_norm m : map fst (map norm_entry m) = map fst m.
Proof. rewrite map_map. reflexivity. Qed.

Lemma has_dup_key_map_norm m : has_dup_key (map norm_entry m) = has_dup_key m.
Proof.
  destruct (has_dup_key m) eqn:E1, (has_dup_key (map norm_entry m)) eqn:E2; try reflexivity.
  - apply has_dup_key_false in E2. rewrite map_fst_norm in E2. apply has_dup_key_false in E2. congruence.
  - apply has_dup_key_false in E1. rewrite <- map_fst_norm in E1. apply has_dup_key_false in E1. congruence.
Qed.

Lemma nlen_perm {A} (l l' : list A) : Permutation l l' -> nlen l = nlen l'.
Proof. intro P. unfold nlen. rewrite (Permutation_length P). reflexivity. Qed.

(* normalising keeps a node well-formed *)
Lemma wf_norm n : wf_node n = true -> wf_node (norm n) = true.
Proof.
  induction n using node_ind2; try (intro H; exact H).
  - (* list *)
    intro Hwf. apply wf_list_parts in Hwf as [Hall Hlen]. rewrite norm_list. cbn [wf_node].
    apply andb_true_intro. split.
    + rewrite forallb_forall in *. intros x Hx. apply in_map_iff in Hx as [y [<- Hy]].
      rewrite Forall_forall in H. apply H; [exact Hy|apply Hall, Hy].
    + unfold nlen in *. rewrite map_length. lia.
  - (* map *)
    intro Hwf. apply wf_map_parts in Hwf as [Hall [Hlen Hdup]]. rewrite norm_map. cbn [wf_node].
    rewrite (forallb_perm _ _ _ (sort_entries_perm _)), (has_dup_key_perm _ _ (sort_entries_perm _)),
            (nlen_perm _ _ (sort_entries_perm _)), has_dup_key_map_norm, Hdup.
    apply andb_true_intro. split; [apply andb_true_intro; split; [|reflexivity]|].
    + rewrite forallb_forall in *. intros x Hx. apply in_map_iff in Hx as [y [<- Hy]].
      rewrite Forall_forall in H. specialize (Hall y Hy). unfold wf_entry in Hall. unfold norm_entry. cbn [fst snd].
      apply andb_prop in Hall as [Hk Hv]. rewrite Hk. cbn [andb]. apply H; assumption.
    + unfold nlen in *. rewrite map_length. lia.
Qed.

Lemma wf_no_dup_deep n : wf_node n = true -> has_dup_deep n = false.
Proof.
  induction n using node_ind2; try reflexivity.
  - intro Hwf. apply wf_list_parts in Hwf as [Hall _]. cbn [has_dup_deep].
    destruct (existsb has_dup_deep l) eqn:E; [|reflexivity]. apply existsb_exists in E as [x [Hx Hd]].
    rewrite Forall_forall in H. rewrite forallb_forall in Hall. rewrite H in Hd by auto. discriminate.
  - intro Hwf. apply wf_map_parts in Hwf as [Hall [_ Hdup]]. cbn [has_dup_deep]. rewrite Hdup. cbn [orb].
    destruct (existsb (fun kv => has_dup_deep (snd kv)) m) eqn:E; [|reflexivity]. apply existsb_exists in E as [x [Hx Hd]].
    rewrite Forall_forall in H. rewrite forallb_forall in Hall. specialize (Hall x Hx). unfold wf_entry in Hall.
    apply andb_prop in Hall as [_ Hv]. rewrite H in Hd by auto. discriminate.
Qed.

(* ---------------------------------------------------------------- *)
(* the decoder's fuel covers every encoding                           *)

Lemma flat_map_length_sum {A} (f : A -> bytes) l : length (flat_map f l) = fold_right (fun x a => (length (f x) + a)%nat) 0%nat l.
Proof. induction l; cbn [flat_map fold_right]; [reflexivity|]. rewrite app_length, IHl. reflexivity. Qed.

Lemma nsize_bound n : (nsize n + 1 <= 2 * length (encode_raw n))%nat.
Proof.
  induction n using node_ind2.
  - cbn. lia.
  - destruct b; cbn; lia.
  - cbn [encode_raw nsize]. unfold enc_int. destruct (0 <=? z)%Z;
      [pose proof (wr_head_length MajUnsignedInt (Z.to_N z))|pose proof (wr_head_length MajNegativeInt (Z.to_N (-1 - z)))]; lia.
  - cbn. lia.
  - cbn [encode_raw nsize]. rewrite app_length. pose proof (wr_head_length MajTextString (blen s)). lia.
  - cbn [encode_raw nsize]. rewrite app_length. pose proof (wr_head_length MajByteString (blen s)). lia.
  - cbn [encode_raw nsize]. unfold enc_link. rewrite !app_length. pose proof (wr_head_length MajTag 42). cbn [length]. lia.
  - rewrite nsize_list, encode_raw_list, app_length.
    assert (lsize l <= 2 * length (flat_map encode_raw l))%nat as Hs.
    { induction H as [|x l Hx Hl IH]; [cbn; lia|]. cbn [flat_map lsize]. rewrite app_length. lia. }
    pose proof (wr_head_length MajArray (nlen l)). lia.
  - rewrite nsize_map, encode_raw_map, app_length.
    assert (msize m <= 2 * length (flat_map enc_entry m))%nat as Hs.
    { induction H as [|x l Hx Hl IH]; [cbn; lia|]. cbn [flat_map msize]. unfold enc_entry at 1. rewrite !app_length.
      pose proof (wr_head_length MajTextString (blen (fst x))). lia. }
    pose proof (wr_head_length MajMap (nlen m)). lia.
Qed.

(* ---------------------------------------------------------------- *)
(* round trip                                                         *)

Theorem decode_lax_encode n : wf_node n = true -> decode_lax (encode n) = Ok (norm n).
Proof.
  intro Hwf. unfold decode_lax, encode.
  pose proof (wf_norm n Hwf) as Hn.
  destruct (item_enc_raw (fuel_for (encode_raw (norm n)))) as [Hi _].
  specialize (Hi (norm n) [] Hn). rewrite app_nil_r in Hi. rewrite Hi.
  - reflexivity.
  - unfold fuel_for. pose proof (nsize_bound (norm n)). lia.
Qed.

Theorem dagcbor_roundtrip_proved n : wf_node n = true -> decode (encode n) = Ok (norm n).
Proof.
  intro Hwf. unfold decode. rewrite decode_lax_encode by exact Hwf. cbn [bind].
  rewrite wf_no_dup_deep by (apply wf_norm; exact Hwf). reflexivity.
Qed.

(* canonical nodes are fixed points of norm *)
Lemma bytes_ltb_asym a : forall b, bytes_ltb a b = true -> bytes_ltb b a = false.
Proof.
  induction a as [|x a IH]; intros [|y b]; cbn [bytes_ltb]; try discriminate; try reflexivity.
  destruct (N.ltb_spec x y), (N.ltb_spec y x); try discriminate; try reflexivity; try lia. apply IH.
Qed.
Lemma key_ltb_asym a b : key_ltb a b = true -> key_ltb b a = false.
Proof.
  unfold key_ltb. destruct (Nat.ltb_spec (length a) (length b)), (Nat.ltb_spec (length b) (length a));
    try discriminate; try reflexivity; try lia. apply bytes_ltb_asym.
Qed.

Lemma sort_sorted_id {A} (m : list (bytes * A)) : keys_sorted m = true -> sort_entries m = m.
Proof.
  induction m as [|e m IH]; [reflexivity|]. cbn [keys_sorted sort_entries]. intro H. apply andb_prop in H as [H1 H2].
  rewrite IH by exact H2. destruct m as [|e' m']; [reflexivity|]. cbn [insert_entry].
  unfold key_leb. rewrite (key_ltb_asym _ _ H1). reflexivity.
Qed.

Lemma canonical_norm n : canonical n = true -> norm n = n.
Proof.
  induction n using node_ind2; try reflexivity.
  - cbn [canonical]. intro Hc. rewrite norm_list. f_equal. rewrite forallb_forall in Hc. rewrite Forall_forall in H.
    rewrite <- (map_id l) at 2. apply map_ext_in. intros x Hx. apply H; auto.
  - cbn [canonical]. intro Hc. apply andb_prop in Hc as [Hs Hc]. rewrite norm_map.
    assert (map norm_entry m = m) as ->.
    { rewrite <- (map_id m) at 2. apply map_ext_in. intros [k v] Hx. unfold norm_entry. cbn [fst snd]. f_equal.
      rewrite forallb_forall in Hc. rewrite Forall_forall in H. apply (H (k, v) Hx). apply (Hc (k, v) Hx). }
    rewrite sort_sorted_id by exact Hs. reflexivity.
Qed.

Theorem dagcbor_roundtrip_canonical n :
  wf_node n = true -> canonical n = true -> decode (encode n) = Ok n.
Proof. intros Hwf Hc. rewrite dagcbor_roundtrip_proved by exact Hwf. rewrite canonical_norm by exact Hc. reflexivity. Qed.

(* the encoding determines the node up to the order of map entries *)
Theorem encode_injective_proved n1 n2 :
  wf_node n1 = true -> wf_node n2 = true -> encode n1 = encode n2 -> norm n1 = norm n2.
Proof.
  intros H1 H2 E. pose proof (dagcbor_roundtrip_proved n1 H1) as R1. rewrite E, dagcbor_roundtrip_proved in R1 by exact H2.
  inversion R1. reflexivity.
Qed.

(* generic decode = lax decode + the repeated-key check, so whatever the generic
   prototype accepts the typed builder is fed identically *)
Lemma decode_ok_lax b n : decode b = Ok n -> decode_lax b = Ok n /\ has_dup_deep n = false.
Proof.
  unfold decode. destruct (decode_lax b) as [n'| |]; cbn [bind]; try discriminate.
  destruct (has_dup_deep n') eqn:E; [discriminate|]. intro H. inversion H; subst. auto.
Qed.

Theorem dagcbor_roundtrip_full n :
  wf_node n = true ->
  decode (encode n) = Ok (norm n) /\ (canonical n = true -> decode (encode n) = Ok n) /\
  wf_node (norm n) = true.
Proof.
  intro H. split; [apply dagcbor_roundtrip_proved, H|]. split; [apply dagcbor_roundtrip_canonical, H|apply wf_norm, H].
Qed.
