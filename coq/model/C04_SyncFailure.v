(* C04 — A failed sync changes nothing durable and does not impair later syncs.

   Executable model (definitions only) of
     dagsync/ipnisync/sync.go   Syncer.fetch (address failover, one retry on stream reset,
                                no-path retry on 404/403 for plain HTTP), fetchBlock, Sync,
                                NewSyncer (libp2p-HTTP discovery or plain-HTTP fallback)
     dagsync/subscriber.go      makeSyncer (syncer kept per publisher while the addresses are
                                unchanged), SyncAdChain, asyncSyncAdChain, handle (segment
                                loop, FailSync), sendSyncFinishedEvent
     announce/receiver.go       the duplicate filter and UncacheCid (as a set; capacity 64 is
                                never reached by the histories of this check)

   The chain walk is abstract: the advertisement chain is the positions 1 (oldest) .. ; a
   sync of head h with stop position s visits h, h-1, .. down to s+1 (to 1 when s is not
   below h) and asks the publisher for the blocks not yet stored, in that order.

   One step function serves the code before and after the three pending fixes
   ([fx_nopath], [fx_rotate], [fx_announce]); the theorems are about [fx_fixed], the
   [_refuted] lemmas about the flags switched off. *)
From Coq Require Import List Bool Arith NArith.
Import ListNotations.

(* ---------------------------------------------------------------------------------- *)
(* Faults and the network                                                              *)

Inductive fault :=
| FOk | FStatus (n : N) | FNotFound | FForbidden
| FReset            (* libp2p stream reset: errors.Is(err, network.ErrReset) *)
| FTransport        (* client.Do fails: refused, closed, TCP reset *)
| FCorrupt | FTruncated
| FStallHdr         (* no response header before the client timeout: client.Do fails *)
| FStallBody        (* header arrives, body stalls until the client timeout: the callback fails *)
| FCtxCancel        (* the caller's context is cancelled while this request is in flight *)
| FOkCancel.        (* the request is answered un-faulted and fully processed (the block is
                       committed); then, before the next request, the caller's context is cancelled *)

(* what was done to the RESPONSE (FOkCancel leaves it alone: the cancellation is the caller's) *)
Definition resp_fault (f : fault) : fault := match f with FOkCancel => FOk | _ => f end.

Inductive kind := KPlain | KP2PHttp | KStream.

Record world := {
  w_kind : kind;
  w_legacy : bool;        (* publisher serves "/head", "/<cid>" and not "/ipni/v1/ad/.." *)
  w_alive : list bool     (* per address id: does anything answer there *)
}.

Definition alive (w : world) (a : nat) : bool := nth a (w_alive w) false.

Inductive rsrc := Head | Blk (p : nat).

(* a request that left the client: address id, asked without the IPNI path?, resource,
   fault applied ([None]: the address is dead) *)
Definition req := (nat * bool * rsrc * option fault)%type.

Record net := {
  n_script : list fault;
  n_cancelled : bool;
  n_log : list req        (* newest first *)
}.

(* what [fetch] sees of one exchange *)
Inductive xres :=
| XDoErr (reset : bool)   (* client.Do returned an error *)
| XStatus (n : N)         (* a status other than 200 *)
| XOkGood                 (* 200 and the genuine body: the callback succeeds *)
| XOkBad.                 (* 200 and a body the callback rejects; nothing is committed *)

(* the publisher's own answer *)
Definition genuine (w : world) (nopath : bool) : xres :=
  if w_legacy w then (if nopath then XOkGood else XStatus 404)
  else if nopath then XStatus (match w_kind w with KPlain => 400 | _ => 404 end)
  else XOkGood.

Definition apply_fault (f : fault) (g : xres) : xres :=
  match f with
  | FOk | FOkCancel => g
  | FStatus n => XStatus n
  | FNotFound => XStatus 404
  | FForbidden => XStatus 403
  | FReset => XDoErr true
  | FTransport | FStallHdr | FCtxCancel => XDoErr false
  | FCorrupt | FTruncated | FStallBody => match g with XOkGood => XOkBad | _ => g end
  end.

Definition is_cancel (f : fault) : bool := match f with FCtxCancel | FOkCancel => true | _ => false end.

Definition pin_ok (pinned : option nat) (a : nat) : bool :=
  match pinned with None => true | Some b => a =? b end.

Definition exchange (w : world) (pinned : option nat) (a : nat) (np : bool) (r : rsrc) (n : net)
  : xres * net :=
  if n_cancelled n then (XDoErr false, n)
  else if negb (pin_ok pinned a) then (XDoErr false, n)   (* libp2phttp: "this transport is only for requests to .." *)
  else if negb (alive w a) then
    (XDoErr false, {| n_script := n_script n; n_cancelled := false; n_log := (a, np, r, None) :: n_log n |})
  else
    let f := hd FOk (n_script n) in
    (apply_fault f (genuine w np),
     {| n_script := tl (n_script n); n_cancelled := is_cancel f; n_log := (a, np, r, Some (resp_fault f)) :: n_log n |}).

(* ---------------------------------------------------------------------------------- *)
(* Syncer.fetch                                                                        *)

(* [fx_slot]: the slot of the async-sync semaphore (MaxAsyncConcurrency) is given back on every
   path (the deferred release in watch); false = a variant that gives it back only when the
   sync succeeded.  The code before the C04 fixes had the deferred release too. *)
Record fixes := { fx_nopath : bool; fx_rotate : bool; fx_announce : bool; fx_slot : bool }.
Definition fx_fixed := {| fx_nopath := true; fx_rotate := true; fx_announce := true; fx_slot := true |}.
Definition fx_v0 := {| fx_nopath := false; fx_rotate := false; fx_announce := false; fx_slot := true |}.

Record syncer := {
  sy_addrs : list nat;      (* peerInfo.Addrs, for SameAddrs *)
  sy_urls : list nat;       (* head = rootURL; v0: the rest are s.urls, fixed: all addresses, rotated *)
  sy_nopath : bool;
  sy_plain : bool;
  sy_pinned : option nat    (* libp2phttp over HTTP: the round tripper serves one address only *)
}.

Definition set_urls (sy : syncer) (u : list nat) : syncer :=
  {| sy_addrs := sy_addrs sy; sy_urls := u; sy_nopath := sy_nopath sy; sy_plain := sy_plain sy; sy_pinned := sy_pinned sy |}.
Definition set_nopath (sy : syncer) : syncer :=
  {| sy_addrs := sy_addrs sy; sy_urls := sy_urls sy; sy_nopath := true; sy_plain := sy_plain sy; sy_pinned := sy_pinned sy |}.

Definition can_failover (fx : fixes) (sy : syncer) (tried : nat) : bool :=
  if fx_rotate fx then tried <? length (sy_urls sy) - 1
  else 2 <=? length (sy_urls sy).                  (* len(s.urls) != 0 *)

Definition failover (fx : fixes) (sy : syncer) : syncer :=
  match sy_urls sy with
  | [] => sy
  | a :: rest => set_urls sy (if fx_rotate fx then rest ++ [a] else rest)
  end.

Definition commit_nopath (sy : syncer) (try_nopath : bool) : syncer :=
  if try_nopath then set_nopath sy else sy.

Inductive fres := FetchOk | FetchErr | FetchOutOfFuel.

(* One iteration = one client.Do.  [done_retry] is the Go variable doneRetry (declared after
   the label nextURL, hence cleared by every goto nextURL); [try_nopath] and [tried] are the
   locals of the repaired code that live across the labels. *)
Fixpoint fetch_loop (fx : fixes) (w : world) (fuel : nat) (r : rsrc) (sy : syncer) (n : net)
         (done_retry try_nopath : bool) (tried : nat) : fres * syncer * net :=
  match fuel with
  | O => (FetchOutOfFuel, sy, n)
  | S fuel =>
    let a := hd O (sy_urls sy) in
    let np := sy_nopath sy || try_nopath in
    let '(x, n1) := exchange w (sy_pinned sy) a np r n in
    match x with
    | XDoErr reset =>
        if can_failover fx sy tried then
          fetch_loop fx w fuel r (failover fx sy) n1 false try_nopath (S tried)   (* goto nextURL *)
        else if negb done_retry && reset then
          fetch_loop fx w fuel r sy n1 true try_nopath tried                       (* goto retry *)
        else (FetchErr, sy, n1)
    | XOkGood => (FetchOk, commit_nopath sy try_nopath, n1)
    | XOkBad => (FetchErr, commit_nopath sy try_nopath, n1)
    | XStatus c =>
        if ((c =? 404) || (c =? 403))%N then
          if sy_plain sy && negb (sy_nopath sy) && negb try_nopath then
            if fx_nopath fx then fetch_loop fx w fuel r sy n1 false true tried
            else fetch_loop fx w fuel r (set_nopath sy) n1 false false tried
          else (FetchErr, sy, n1)
        else (FetchErr, sy, n1)
    end
  end.

Definition fetch_fuel (sy : syncer) : nat := 2 * length (sy_urls sy) + 4.

Definition fetch (fx : fixes) (w : world) (r : rsrc) (sy : syncer) (n : net) : fres * syncer * net :=
  fetch_loop fx w (fetch_fuel sy) r sy n false false 0.

(* ---------------------------------------------------------------------------------- *)
(* Syncer.Sync over a list of positions, handler.handle                                *)

Definition mem (p : nat) (l : list nat) : bool := existsb (Nat.eqb p) l.

(* walkFetch: blocks present locally are not requested; a fetched block is stored at once *)
Fixpoint walk (fx : fixes) (w : world) (todo : list nat) (sy : syncer) (n : net) (store : list nat)
  : bool * syncer * net * list nat :=
  match todo with
  | [] => (true, sy, n, store)
  | p :: rest =>
    if mem p store then walk fx w rest sy n store
    else match fetch fx w (Blk p) sy n with
         | (FetchOk, sy', n') => walk fx w rest sy' n' (p :: store)
         | (_, sy', n') => (false, sy', n', store)
         end
  end.

Fixpoint down (h k : nat) : list nat :=
  match k with O => [] | S k' => h :: down (h - 1) k' end.

(* positions visited by a sync of head h stopping at position stop *)
Definition todo (h stop : nat) : list nat :=
  if stop <? h then down h (h - stop) else down h h.

Fixpoint chunk_aux (d k : nat) (cur : list nat) (l : list nat) : list (list nat) :=
  match l with
  | [] => match cur with [] => [] | _ => [rev cur] end
  | x :: l' =>
    match k with
    | O | S O => rev (x :: cur) :: chunk_aux d d [] l'
    | S k' => chunk_aux d k' (x :: cur) l'
    end
  end.

(* the segments of the segment loop; segmentation off = one segment *)
Definition segments (seg : nat) (l : list nat) : list (list nat) :=
  match seg with O => [l] | _ => chunk_aux seg seg [] l end.

(* what the block hook does at one of its calls: FailSync, or cancel the caller's context *)
Inductive hookact := HFail (i : nat) | HCancel (i : nat).

(* does the hook call with index i fall into calls [k, k + len) *)
Definition hook_fails (hookfail : option hookact) (k len : nat) : bool :=
  match hookfail with Some (HFail i) => (k <=? i) && (i <? k + len) | _ => false end.
Definition hook_cancels (hookfail : option hookact) (k len : nat) : bool :=
  match hookfail with Some (HCancel i) => (k <=? i) && (i <? k + len) | _ => false end.

Definition cancel_net (n : net) : net :=
  {| n_script := n_script n; n_cancelled := true; n_log := n_log n |}.

Record hres := {
  h_ok : bool;
  h_count : nat;           (* what handle returns: 0 on failure *)
  h_hooks : list nat;      (* block hook calls, in order *)
  h_sy : syncer;
  h_net : net;
  h_store : list nat
}.

Fixpoint handle_segs (fx : fixes) (w : world) (segmented : bool) (segs : list (list nat))
         (hookfail : option hookact) (sy : syncer) (n : net) (store : list nat) (hooks : list nat) : hres :=
  match segs with
  | [] => {| h_ok := true; h_count := length hooks; h_hooks := hooks; h_sy := sy; h_net := n; h_store := store |}
  | s :: rest =>
    match walk fx w s sy n store with
    | (false, sy', n', store') =>
        {| h_ok := false; h_count := 0; h_hooks := hooks; h_sy := sy'; h_net := n'; h_store := store' |}
    | (true, sy', n', store') =>
        let hooks' := hooks ++ s in
        if segmented && hook_fails hookfail (length hooks) (length s) then   (* segSync.err != nil *)
          {| h_ok := false; h_count := 0; h_hooks := hooks'; h_sy := sy'; h_net := n'; h_store := store' |}
        else handle_segs fx w segmented rest hookfail sy'
               (if hook_cancels hookfail (length hooks) (length s) then cancel_net n' else n') store' hooks'
    end
  end.

Definition handle (fx : fixes) (w : world) (seg : nat) (h stop : nat) (hookfail : option hookact)
           (sy : syncer) (n : net) (store : list nat) : hres :=
  handle_segs fx w (0 <? seg) (segments seg (todo h stop)) hookfail sy n store [].

(* ---------------------------------------------------------------------------------- *)
(* Subscriber                                                                          *)

Inductive mode := Explicit | Announce.

Record op := {
  op_mode : mode;
  op_addrs : list nat;
  op_head : nat;
  op_faults : list fault;
  op_discfail : bool;           (* the libp2p-HTTP discovery request fails *)
  op_hookfail : option hookact;
  op_precancel : bool           (* the caller's context is cancelled before the sync is called *)
}.

Inductive event := EvOk (h count : nat) | EvErr (h count : nat).   (* count of an error event: what handle returned *)

Inductive result :=
| RExpOk (h : nat) | RExpErr
| RAnnDropped          (* duplicate filter *)
| RAnnSkipped          (* head = latest: nothing to do *)
| RAnnOk | RAnnErr
| RAnnSilent           (* v0: the syncer could not be made: no event, CID stays cached *)
| RAnnBlocked.         (* every slot of the async-sync semaphore is taken: the sync never starts *)

Record obs := {
  o_res : result;
  o_events : list event;
  o_log : list req;        (* oldest first *)
  o_hooks : list nat
}.

Record sstate := {
  s_latest : nat;               (* 0 = none *)
  s_store : list nat;
  s_syncer : option syncer;
  s_cache : list nat;           (* announce duplicate filter *)
  s_disc : bool;                (* the publisher's protocol map is cached by the libp2phttp client *)
  s_slots : nat;                (* slots of the async-sync semaphore in use between syncs *)
  s_max : nat                   (* MaxAsyncConcurrency; 0 = no limit (no semaphore) *)
}.

Definition init_max (max : nat) (store0 : list nat) (latest0 : nat) : sstate :=
  {| s_latest := latest0; s_store := store0; s_syncer := None; s_cache := []; s_disc := false;
     s_slots := 0; s_max := max |}.
Definition init := init_max 0.

Fixpoint insert (a : nat) (l : list nat) : list nat :=
  match l with [] => [a] | b :: l' => if a <=? b then a :: l else b :: insert a l' end.
Definition sort (l : list nat) : list nat := fold_right insert [] l.

Definition list_nat_eqb (a b : list nat) : bool :=
  (length a =? length b) && forallb (fun p => fst p =? snd p) (combine a b).

(* Sync.NewSyncer *)
Definition new_syncer (w : world) (addrs : list nat) (discfail cached : bool) : option syncer * bool :=
  match addrs with
  | [] => (None, cached)
  | a0 :: _ =>
    match w_kind w with
    | KPlain =>
        (Some {| sy_addrs := addrs; sy_urls := addrs; sy_nopath := false; sy_plain := true; sy_pinned := None |}, cached)
    | KP2PHttp =>
        if cached || (alive w a0 && negb discfail) then
          (Some {| sy_addrs := addrs; sy_urls := addrs; sy_nopath := false; sy_plain := false; sy_pinned := Some a0 |}, true)
        else
          (Some {| sy_addrs := addrs; sy_urls := addrs; sy_nopath := false; sy_plain := true; sy_pinned := None |}, cached)
    | KStream =>
        if cached || negb discfail then
          (Some {| sy_addrs := addrs; sy_urls := addrs; sy_nopath := false; sy_plain := false; sy_pinned := None |}, true)
        else (None, cached)                 (* ErrNoHTTPServer *)
    end
  end.

(* handler.makeSyncer + Syncer.SameAddrs (mautil.MultiaddrsEqual sorts both lists in place
   once their lengths agree, so a replacement syncer is built from the sorted list) *)
Definition make_syncer (w : world) (st : sstate) (addrs : list nat) (discfail : bool)
  : option syncer * sstate :=
  let create l :=
    let '(osy, c) := new_syncer w l discfail (s_disc st) in
    (osy, {| s_latest := s_latest st; s_store := s_store st;
             s_syncer := match osy with Some _ => osy | None => s_syncer st end;
             s_cache := s_cache st; s_disc := c; s_slots := s_slots st; s_max := s_max st |}) in
  match s_syncer st with
  | None => create addrs
  | Some sy =>
    if negb (length (sy_addrs sy) =? length addrs) then create addrs
    else if length addrs <=? 1 then
      (if list_nat_eqb (sy_addrs sy) addrs then (Some sy, st) else create addrs)
    else if list_nat_eqb (sort (sy_addrs sy)) (sort addrs) then (Some sy, st)
    else create (sort addrs)
  end.

Definition with_sync (st : sstate) (sy : syncer) (store : list nat) (latest : nat) (cache : list nat) : sstate :=
  {| s_latest := latest; s_store := store; s_syncer := Some sy; s_cache := cache; s_disc := s_disc st;
     s_slots := s_slots st; s_max := s_max st |}.

Definition set_cache (st : sstate) (cache : list nat) : sstate :=
  {| s_latest := s_latest st; s_store := s_store st; s_syncer := s_syncer st; s_cache := cache; s_disc := s_disc st;
     s_slots := s_slots st; s_max := s_max st |}.

(* the slot of a sync that failed inside handle: given back, or (variant) kept for good *)
Definition after_failed_handle (fx : fixes) (st : sstate) : sstate :=
  if fx_slot fx then st
  else {| s_latest := s_latest st; s_store := s_store st; s_syncer := s_syncer st; s_cache := s_cache st;
          s_disc := s_disc st; s_slots := S (s_slots st); s_max := s_max st |}.

(* no slot is free *)
Definition blocked (st : sstate) : bool := (0 <? s_max st) && (s_max st <=? s_slots st).

Definition remove (h : nat) (l : list nat) : list nat := filter (fun x => negb (x =? h)) l.

Definition net0 (o : op) : net := {| n_script := op_faults o; n_cancelled := op_precancel o; n_log := [] |}.

Definition mk_obs (r : result) (ev : list event) (n : net) (hooks : list nat) : obs :=
  {| o_res := r; o_events := ev; o_log := rev (n_log n); o_hooks := hooks |}.

(* Subscriber.SyncAdChain (head queried from the publisher) *)
Definition sync_explicit (fx : fixes) (w : world) (seg : nat) (o : op) (st : sstate) : sstate * obs :=
  match make_syncer w st (op_addrs o) (op_discfail o) with
  | (None, st1) => (st1, mk_obs RExpErr [] (net0 o) [])
  | (Some sy, st1) =>
    match fetch fx w Head sy (net0 o) with
    | (FetchOk, sy1, n1) =>
        let h := op_head o in
        if s_latest st1 =? h then
          (with_sync st1 sy1 (s_store st1) (s_latest st1) (s_cache st1), mk_obs (RExpOk h) [] n1 [])
        else
          let r := handle fx w seg h (s_latest st1) (op_hookfail o) sy1 n1 (s_store st1) in
          if h_ok r then
            (with_sync st1 (h_sy r) (h_store r) h (s_cache st1),
             mk_obs (RExpOk h) [EvOk h (h_count r)] (h_net r) (h_hooks r))
          else
            (with_sync st1 (h_sy r) (h_store r) (s_latest st1) (s_cache st1),
             mk_obs RExpErr [] (h_net r) (h_hooks r))
    | (_, sy1, n1) =>
        (with_sync st1 sy1 (s_store st1) (s_latest st1) (s_cache st1), mk_obs RExpErr [] n1 [])
    end
  end.

(* Receiver.Direct + watch + asyncSyncAdChain *)
Definition sync_announce (fx : fixes) (w : world) (seg : nat) (o : op) (st : sstate) : sstate * obs :=
  let h := op_head o in
  if mem h (s_cache st) then (st, mk_obs RAnnDropped [] (net0 o) [])
  else
    let st0 := set_cache st (h :: s_cache st) in
    if blocked st0 then (st0, mk_obs RAnnBlocked [] (net0 o) [])
    else if s_latest st0 =? h then (st0, mk_obs RAnnSkipped [] (net0 o) [])
    else
      match make_syncer w st0 (op_addrs o) (op_discfail o) with
      | (None, st1) =>
          if fx_announce fx then
            (set_cache st1 (remove h (s_cache st1)), mk_obs RAnnErr [EvErr h 0] (net0 o) [])
          else (st1, mk_obs RAnnSilent [] (net0 o) [])
      | (Some sy, st1) =>
          let r := handle fx w seg h (s_latest st1) (op_hookfail o) sy (net0 o) (s_store st1) in
          if h_ok r then
            (with_sync st1 (h_sy r) (h_store r) h (s_cache st1),
             mk_obs RAnnOk [EvOk h (h_count r)] (h_net r) (h_hooks r))
          else
            (after_failed_handle fx (with_sync st1 (h_sy r) (h_store r) (s_latest st1) (remove h (s_cache st1))),
             mk_obs RAnnErr [EvErr h (h_count r)] (h_net r) (h_hooks r))
      end.

Definition step (fx : fixes) (w : world) (seg : nat) (o : op) (st : sstate) : sstate * obs :=
  match op_mode o with
  | Explicit => sync_explicit fx w seg o st
  | Announce => sync_announce fx w seg o st
  end.

Fixpoint run (fx : fixes) (w : world) (seg : nat) (ops : list op) (st : sstate) : sstate :=
  match ops with
  | [] => st
  | o :: rest => run fx w seg rest (fst (step fx w seg o st))
  end.

(* ---------------------------------------------------------------------------------- *)
(* Case checker: a whole observed history                                              *)

(* what the harness can see of a result *)
Inductive seen := SeenOk (h : nat) | SeenErr | SeenEvent | SeenNone.

Definition seen_of (r : result) : seen :=
  match r with
  | RExpOk h => SeenOk h | RExpErr => SeenErr
  | RAnnOk | RAnnErr => SeenEvent
  | RAnnDropped | RAnnSkipped | RAnnSilent | RAnnBlocked => SeenNone
  end.

Definition seen_eqb (a b : seen) : bool :=
  match a, b with
  | SeenOk x, SeenOk y => x =? y
  | SeenErr, SeenErr | SeenEvent, SeenEvent | SeenNone, SeenNone => true
  | _, _ => false
  end.

Definition event_eqb (a b : event) : bool :=
  match a, b with
  | EvOk h c, EvOk h' c' => (h =? h') && (c =? c')
  | EvErr h c, EvErr h' c' => (h =? h') && (c =? c')
  | _, _ => false
  end.

Definition rsrc_eqb (a b : rsrc) : bool :=
  match a, b with Head, Head => true | Blk p, Blk q => p =? q | _, _ => false end.

(* observed request: address, no-path?, resource, did it reach a live address *)
Definition oreq := (nat * bool * rsrc * bool)%type.

Definition req_matches (m : req) (o : oreq) : bool :=
  let '(a, np, r, f) := m in
  let '(a', np', r', live) := o in
  (a =? a') && Bool.eqb np np' && rsrc_eqb r r' && Bool.eqb (match f with Some _ => true | None => false end) live.

Fixpoint list_match {A B} (f : A -> B -> bool) (a : list A) (b : list B) : bool :=
  match a, b with
  | [], [] => true
  | x :: a', y :: b' => f x y && list_match f a' b'
  | _, _ => false
  end.

Record seen_obs := {
  so_res : seen;
  so_events : list event;
  so_latest : nat;
  so_store : list nat;       (* ascending *)
  so_log : list oreq;
  so_hooks : list nat;
  so_partial : bool          (* latest-sync and store could not be observed after this sync
                                (the next one was already queued): they are not compared *)
}.

Definition obs_ok (nohook : bool) (st' : sstate) (o : obs) (s : seen_obs) : bool :=
  seen_eqb (seen_of (o_res o)) (so_res s)
  && list_match event_eqb (o_events o) (so_events s)
  && (so_partial s || (s_latest st' =? so_latest s))
  && (so_partial s || list_nat_eqb (sort (s_store st')) (so_store s))
  && list_match req_matches (o_log o) (so_log s)
  && (nohook || list_nat_eqb (o_hooks o) (so_hooks s)).

Fixpoint hist_ok (fx : fixes) (nohook : bool) (w : world) (seg : nat) (st : sstate) (h : list (op * seen_obs)) : bool :=
  match h with
  | [] => true
  | (o, s) :: rest =>
    let '(st', ob) := step fx w seg o st in
    obs_ok nohook st' ob s && hist_ok fx nohook w seg st' rest
  end.

Record hcase := {
  hc_fx : fixes;             (* which code the harness ran against (model variant) *)
  hc_world : world;
  hc_seg : nat;
  hc_store0 : list nat;
  hc_latest0 : nat;
  hc_hist : list (op * seen_obs);
  hc_max : nat;              (* MaxAsyncConcurrency (0 = option not given) *)
  hc_nohook : bool           (* no BlockHook: segmentation is off whatever the segment depth
                                (handle needs a hook to segment) and hook calls cannot be seen *)
}.

Definition hist_case_ok (c : hcase) : bool :=
  hist_ok (hc_fx c) (hc_nohook c) (hc_world c) (if hc_nohook c then 0 else hc_seg c)
          (init_max (hc_max c) (hc_store0 c) (hc_latest0 c)) (hc_hist c).
