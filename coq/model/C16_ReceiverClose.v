(* announce.Receiver as a thread-level transition system (announce/receiver.go).
   Any number of caller goroutines, each executing one of Close, Direct, Next,
   UncacheCid step by step, plus the pubsub watcher goroutine when the receiver
   has a host/topic.  A schedule is an arbitrary sequence of labels, so theorems
   over `reachable` quantify over all interleavings.

   Granularity: one step per synchronisation operation of the skeleton that
   harness/cmd/astgen regenerates from the source (gen/Gen_Sync_announce.v);
   `expected_*` below are the skeletons this model was written against and
   Properties_C16.skeleton_matches ties them to the current source. *)
From Coq Require Import List NArith Bool Arith.
From Lib Require Import SyncSkel LTS.
From Model Require Import Announce_Receiver.
Import ListNotations.
Open Scope N_scope.

Inductive call := CClose | CDirect (allowed : bool) (c : N) | CNext | CUncache (c : N).

Inductive result := RetNil | RetEarly | RetIgnored | RetClosed | RetCtx | RetAnn (c : N).

Inductive pc :=
(* Close *)
| ClLock | ClCheck | ClEarlyUnlock | ClSet | ClUnlock | ClCloseDone | ClCancelWatch | ClWaitWatch
(* UncacheCid *)
| UnLock | UnRemove | UnUnlock
(* Direct / watcher message: handleAnnounce with announceCheck inlined *)
| DiAllow | DiLock | DiCheck | DiUpdate | DiUnlockClosed | DiUnlockDup | DiUnlockGo | DiSelect
(* Next *)
| NxSelect
(* watcher only *)
| WaNext | WaCloseDone
| Fin (r : result).

Record thread := {
  t_call : call;
  t_pc : pc;
  t_ctx : bool;            (* the caller's context has been cancelled *)
  t_watcher : bool;
  t_born_closed : bool;    (* ghost: Close had already set closed when the call started *)
  t_born_done : bool       (* ghost: done was already closed when the call started *)
}.

Record st := {
  mu : option nat;          (* holder of announceMutex *)
  closed : bool;
  done : bool;              (* r.done has been closed *)
  out : option N;           (* outChan, capacity 1 *)
  lru : list N;
  sub_cancelled : bool;     (* topicSub.Cancel() *)
  watch_cancelled : bool;   (* cancelWatch() *)
  watch_done : bool;        (* watchDone closed *)
  has_watcher : bool;
  panicked : bool;          (* close of a closed channel *)
  next_tid : nat;
  threads : nat -> option thread
}.

Inductive label :=
| Spawn (c : call)                  (* a goroutine enters an API call *)
| Cancel (t : nat)                  (* a caller's context is cancelled *)
| Msg (allowed : bool) (c : N)      (* pubsub delivers a message to the watcher *)
| Step (t : nat) (choice : nat).    (* thread t performs its next operation *)

Definition cache_cap : nat := 64.

Definition upd (f : nat -> option thread) (t : nat) (th : thread) : nat -> option thread :=
  fun x => if Nat.eqb x t then Some th else f x.

Definition set_pc (th : thread) (p : pc) : thread :=
  {| t_call := t_call th; t_pc := p; t_ctx := t_ctx th; t_watcher := t_watcher th;
     t_born_closed := t_born_closed th; t_born_done := t_born_done th |}.

(* a call returns r; the watcher instead loops or exits *)
Definition finish (th : thread) (r : result) : thread :=
  if t_watcher th then
    match r with
    | RetClosed | RetCtx => set_pc th WaCloseDone
    | _ => set_pc th WaNext
    end
  else set_pc th (Fin r).

Definition with_threads (s : st) f :=
  {| mu := mu s; closed := closed s; done := done s; out := out s; lru := lru s;
     sub_cancelled := sub_cancelled s; watch_cancelled := watch_cancelled s; watch_done := watch_done s;
     has_watcher := has_watcher s; panicked := panicked s; next_tid := next_tid s; threads := f |}.
Definition with_mu (s : st) m :=
  {| mu := m; closed := closed s; done := done s; out := out s; lru := lru s;
     sub_cancelled := sub_cancelled s; watch_cancelled := watch_cancelled s; watch_done := watch_done s;
     has_watcher := has_watcher s; panicked := panicked s; next_tid := next_tid s; threads := threads s |}.
Definition with_lru (s : st) l :=
  {| mu := mu s; closed := closed s; done := done s; out := out s; lru := l;
     sub_cancelled := sub_cancelled s; watch_cancelled := watch_cancelled s; watch_done := watch_done s;
     has_watcher := has_watcher s; panicked := panicked s; next_tid := next_tid s; threads := threads s |}.
Definition with_out (s : st) o :=
  {| mu := mu s; closed := closed s; done := done s; out := o; lru := lru s;
     sub_cancelled := sub_cancelled s; watch_cancelled := watch_cancelled s; watch_done := watch_done s;
     has_watcher := has_watcher s; panicked := panicked s; next_tid := next_tid s; threads := threads s |}.
Definition do_set_closed (s : st) :=
  {| mu := mu s; closed := true; done := done s; out := out s; lru := lru s;
     sub_cancelled := true; watch_cancelled := watch_cancelled s; watch_done := watch_done s;
     has_watcher := has_watcher s; panicked := panicked s; next_tid := next_tid s; threads := threads s |}.
Definition do_close_done (s : st) :=
  {| mu := mu s; closed := closed s; done := true; out := out s; lru := lru s;
     sub_cancelled := sub_cancelled s; watch_cancelled := watch_cancelled s; watch_done := watch_done s;
     has_watcher := has_watcher s; panicked := panicked s || done s; next_tid := next_tid s; threads := threads s |}.
Definition do_cancel_watch (s : st) :=
  {| mu := mu s; closed := closed s; done := done s; out := out s; lru := lru s;
     sub_cancelled := sub_cancelled s; watch_cancelled := true; watch_done := watch_done s;
     has_watcher := has_watcher s; panicked := panicked s; next_tid := next_tid s; threads := threads s |}.
Definition do_watch_done (s : st) :=
  {| mu := mu s; closed := closed s; done := done s; out := out s; lru := lru s;
     sub_cancelled := sub_cancelled s; watch_cancelled := watch_cancelled s; watch_done := true;
     has_watcher := has_watcher s; panicked := panicked s || watch_done s; next_tid := next_tid s; threads := threads s |}.

Definition goto (s : st) (t : nat) (th : thread) (p : pc) : option st :=
  Some (with_threads s (upd (threads s) t (set_pc th p))).
Definition ret (s : st) (t : nat) (th : thread) (r : result) : option st :=
  Some (with_threads s (upd (threads s) t (finish th r))).

(* the context a blocked select of this thread watches *)
Definition ctx_done (s : st) (th : thread) : bool :=
  if t_watcher th then watch_cancelled s else t_ctx th.

Definition call_cid (c : call) : N :=
  match c with CDirect _ k => k | CUncache k => k | _ => 0 end.
Definition call_allowed (c : call) : bool :=
  match c with CDirect a _ => a | _ => true end.

Definition first_pc (c : call) : pc :=
  match c with CClose => ClLock | CDirect _ _ => DiAllow | CNext => NxSelect | CUncache _ => UnLock end.

Definition step_thread (s : st) (t : nat) (th : thread) (choice : nat) : option st :=
  match t_pc th with
  | ClLock | UnLock | DiLock =>
    match mu s with
    | None =>
      let p := match t_pc th with ClLock => ClCheck | UnLock => UnRemove | _ => DiCheck end in
      goto (with_mu s (Some t)) t th p
    | Some _ => None
    end
  | ClCheck => if closed s then goto s t th ClEarlyUnlock else goto s t th ClSet
  | ClEarlyUnlock => ret (with_mu s None) t th RetEarly
  | ClSet => goto (do_set_closed s) t th ClUnlock
  | ClUnlock => goto (with_mu s None) t th ClCloseDone
  | ClCloseDone => goto (do_close_done s) t th ClCancelWatch
  | ClCancelWatch =>
    if has_watcher s then goto (do_cancel_watch s) t th ClWaitWatch else ret s t th RetNil
  | ClWaitWatch => if watch_done s then ret s t th RetNil else None
  | UnRemove => goto (with_lru s (lru_remove (call_cid (t_call th)) (lru s))) t th UnUnlock
  | UnUnlock => ret (with_mu s None) t th RetNil
  | DiAllow => if call_allowed (t_call th) then goto s t th DiLock else ret s t th RetIgnored
  | DiCheck => if closed s then goto s t th DiUnlockClosed else goto s t th DiUpdate
  | DiUpdate =>
    let '(hit, l') := lru_update cache_cap (call_cid (t_call th)) (lru s) in
    goto (with_lru s l') t th (if hit then DiUnlockDup else DiUnlockGo)
  | DiUnlockClosed => ret (with_mu s None) t th RetClosed
  | DiUnlockDup => ret (with_mu s None) t th RetIgnored
  | DiUnlockGo => goto (with_mu s None) t th DiSelect
  | DiSelect =>
    match choice with
    | O => match out s with
           | None => ret (with_out s (Some (call_cid (t_call th)))) t th RetNil
           | Some _ => None
           end
    | S O => if done s then ret s t th RetClosed else None
    | _ => if ctx_done s th then ret s t th RetCtx else None
    end
  | NxSelect =>
    match choice with
    | O => if ctx_done s th then ret s t th RetCtx else None
    | S O => match out s with
             | Some c => ret (with_out s None) t th (RetAnn c)
             | None => None
             end
    | _ => if done s then ret s t th RetClosed else None
    end
  | WaNext =>
    (* topicSub.Next returns an error: context cancelled or subscription cancelled *)
    if watch_cancelled s || sub_cancelled s then goto s t th WaCloseDone else None
  | WaCloseDone => goto (do_watch_done s) t th (Fin RetNil)
  | Fin _ => None
  end.

Definition new_thread (s : st) (c : call) : thread :=
  {| t_call := c; t_pc := first_pc c; t_ctx := false; t_watcher := false;
     t_born_closed := closed s; t_born_done := done s |}.

Definition watcher_tid : nat := 0.

Definition stepf (s : st) (l : label) : option st :=
  match l with
  | Spawn c =>
    Some {| mu := mu s; closed := closed s; done := done s; out := out s; lru := lru s;
            sub_cancelled := sub_cancelled s; watch_cancelled := watch_cancelled s; watch_done := watch_done s;
            has_watcher := has_watcher s; panicked := panicked s; next_tid := S (next_tid s);
            threads := upd (threads s) (next_tid s) (new_thread s c) |}
  | Cancel t =>
    match threads s t with
    | Some th =>
      if t_watcher th then None else
      Some (with_threads s (upd (threads s) t
             {| t_call := t_call th; t_pc := t_pc th; t_ctx := true; t_watcher := t_watcher th;
                t_born_closed := t_born_closed th; t_born_done := t_born_done th |}))
    | None => None
    end
  | Msg a c =>
    match threads s watcher_tid with
    | Some th =>
      if t_watcher th then
        match t_pc th with
        | WaNext =>
          Some (with_threads s (upd (threads s) watcher_tid
                 {| t_call := CDirect a c; t_pc := DiAllow; t_ctx := false; t_watcher := true;
                    t_born_closed := closed s; t_born_done := done s |}))
        | _ => None
        end
      else None
    | None => None
    end
  | Step t choice =>
    match threads s t with
    | Some th => step_thread s t th choice
    | None => None
    end
  end.

Definition watcher_thread : thread :=
  {| t_call := CNext; t_pc := WaNext; t_ctx := false; t_watcher := true;
     t_born_closed := false; t_born_done := false |}.

(* initial state: with or without a pubsub watcher (thread 0) *)
Definition init (w : bool) : st :=
  {| mu := None; closed := false; done := false; out := None; lru := [];
     sub_cancelled := false; watch_cancelled := false; watch_done := false;
     has_watcher := w; panicked := false; next_tid := 1;
     threads := fun t => if w && Nat.eqb t 0 then Some watcher_thread else None |}.

Definition reach (w : bool) (s : st) : Prop := reachable stepf (init w) s.

(* pcs at which the thread holds announceMutex *)
Definition in_cs (p : pc) : bool :=
  match p with
  | ClCheck | ClEarlyUnlock | ClSet | ClUnlock | UnRemove | UnUnlock
  | DiCheck | DiUpdate | DiUnlockClosed | DiUnlockDup | DiUnlockGo => true
  | _ => false
  end.

Definition is_fin (p : pc) : bool := match p with Fin _ => true | _ => false end.

(* number of a thread's own steps until it returns (watcher: until it is back at
   WaNext or has exited), whatever the others do *)
Definition rank (p : pc) : nat :=
  match p with
  | ClLock => 9 | ClCheck => 8 | ClSet => 7 | ClUnlock => 6 | ClCloseDone => 5
  | ClCancelWatch => 4 | ClWaitWatch => 3 | ClEarlyUnlock => 3
  | UnLock => 5 | UnRemove => 4 | UnUnlock => 3
  | DiAllow => 9 | DiLock => 8 | DiCheck => 7 | DiUpdate => 6
  | DiUnlockClosed => 5 | DiUnlockDup => 5 | DiUnlockGo => 5 | DiSelect => 4
  | NxSelect => 3
  | WaNext => 2 | WaCloseDone => 1
  | Fin _ => 0
  end%nat.

Definition enabled (s : st) (t : nat) : Prop := exists c s', stepf s (Step t c) = Some s'.

(* ------------------------------------------------------------------ *)
(* the skeletons (conditions stripped) this model was written against  *)
Open Scope string_scope.

Definition expected_Close : skel :=
  [SLock "r.announceMutex";
   SIf "" [SUnlock "r.announceMutex"; SReturn] [];
   SUnlock "r.announceMutex";
   SClose "r.done";
   SIf "" [SCancel "r.cancelWatch"; SRecv "r.watchDone"] [];
   SIf "" [SCall "Close"; SCancel "r.cancelPubsub"] [SIf "" [SCall "Close"] []];
   SReturn].

Definition expected_UncacheCid : skel :=
  [SLock "r.announceMutex"; SCall "remove"; SUnlock "r.announceMutex"].

Definition expected_Next : skel :=
  [SSelect false [[SRecv "ctx.Done()"; SReturn]; [SRecv "r.outChan"; SReturn]; [SRecv "r.done"; SReturn]]].

Definition expected_Direct : skel := [SCall "handleAnnounce"; SReturn].

Definition expected_handleAnnounce : skel :=
  [SCall "announceCheck";
   SIf "" [SIf "" [SReturn] []; SReturn] [];
   SIf "" [SCall "republish"] [];
   SSelect false [[SSend "r.outChan"]; [SRecv "r.done"; SReturn]; [SRecv "ctx.Done()"; SReturn]];
   SReturn].

Definition expected_announceCheck : skel :=
  [SIf "" [SReturn] [];
   SLock "r.announceMutex";
   SDeferUnlock "r.announceMutex";
   SIf "" [SReturn] [];
   SCall "update";
   SIf "" [SReturn] [];
   SReturn].

Definition expected_watch : skel :=
  [SFor [SCall "Next";
         SIf "" [SIf "" [SBreak] [];
                 SLock "r.announceMutex";
                 SUnlock "r.announceMutex";
                 SIf "" [SCall "TopicName"; SBreak] [];
                 SContinue] [];
         SIf "" [SContinue] [];
         SIf "" [SContinue] [];
         SIf "" [SIf "" [SContinue] []] [];
         SIf "" [SIf "" [SContinue] []; SIf "" [SContinue] []] [];
         SCall "handleAnnounce";
         SIf "" [SIf "" [SBreak] []; SContinue] []];
   SClose "r.watchDone"].

Definition expected : list (string * skel) :=
  [("Receiver.Close", expected_Close); ("Receiver.UncacheCid", expected_UncacheCid);
   ("Receiver.Next", expected_Next); ("Receiver.Direct", expected_Direct);
   ("Receiver.handleAnnounce", expected_handleAnnounce);
   ("Receiver.announceCheck", expected_announceCheck);
   ("Receiver.watch", expected_watch)].

(* callee summaries used by the non-blocking analysis: which package functions may
   block or take announceMutex themselves *)
Definition receiver_env (name : string) : option callee :=
  if String.eqb name "handleAnnounce" then Some {| c_blocks := true; c_locks := ["r.announceMutex"] |}
  else if String.eqb name "announceCheck" then Some {| c_blocks := false; c_locks := ["r.announceMutex"] |}
  else if String.eqb name "republish" then Some {| c_blocks := true; c_locks := [] |}
  else if String.eqb name "Next" then Some {| c_blocks := true; c_locks := [] |}
  else if String.eqb name "Close" then Some {| c_blocks := true; c_locks := ["r.announceMutex"] |}
  else None.

Definition tie_ok (gen : list (string * skel)) : bool :=
  forallb (fun e => skel_same_shape (lookup_or_nil (fst e) gen) (snd e)) expected.

Definition balance_ok (gen : list (string * skel)) : bool :=
  forallb (fun e => balanced_nonblocking receiver_env 200 (snd e)) gen.
