(* The IPLD data model and the DAG-CBOR codec of go-ipld-prime v0.21.0
   (codec/dagcbor marshal.go / unmarshal.go over polydawn/refmt's cbor encoder and
   decoder), as the link system uses them for multicodec 0x71.

   Executable definitions only.

   ENCODER (dagcbor.Encode = EncodeOptions{AllowLinks, MapSortMode_RFC7049}):
     definite lengths only, shortest heads (lib/Cbor.v [wr_head]), map entries
     sorted by key length first and then bytewise -- whatever order the node iterates
     in (a bindnode struct iterates in schema field order) --, links as tag 42 over
     a byte string 0x00 ‖ CID bytes, ints as major 0 / 1, floats always 64 bit.
     [norm] sorts the maps of a node recursively, [encode_raw] writes a node in the
     order it has, [encode n = encode_raw (norm n)].

   DECODER (dagcbor.Decode = DecodeOptions{AllowLinks} over refmt cbor.NewDecoder
   {CoerceUndefToNull}; ExperimentalDeterminism is OFF, DontParseBeyondEnd is OFF),
   feeding basicnode.Prototype.Any.  It is NOT a canonical-form decoder.  Leniencies,
   all modelled here:
     L1  non-minimal heads are accepted everywhere (lengths, ints, tag numbers);
     L2  indefinite-length arrays, maps, byte strings and text strings are accepted
         (chunks of an indefinite string must have the same major type and a definite
         length);
     L3  map keys may come in any order; they must be text strings (a tagged text
         string is accepted as a key, the tag is dropped); a repeated key is rejected
         by the basicnode map assembler (generic prototype) but NOT by the bindnode
         struct assembler (typed prototype): [decode] vs [decode_lax];
     L4  a tag on anything but a byte string is silently dropped (tag 1 on an int is
         that int); a tag on a byte string must be 42 and then the bytes must be
         0x00 ‖ a CID cid.Cast accepts; two tags in a row are rejected;
     L5  0xf7 (undefined) decodes as null; floats of 16, 32 and 64 bits are accepted
         (modelled as an opaque [NFloat]: this model does not compute float values);
     L6  unsigned ints up to 2^64-1 are accepted (a uint node above MaxInt64);
         negative ints down to -2^63; the head 0x3b ff..ff (-2^64) wraps to 0 in
         refmt's decodeNegInt and decodes as the int 0;
     L7  text strings are not checked to be UTF-8.
   Rejections: trailing bytes after the item, empty input, truncated input,
   byte/text strings (or chunks) longer than 33554432, lengths or tag numbers above
   MaxInt (2^63-1), reserved additional-information values 28..30 (and 31 where no
   indefinite form exists), major-7 values other than false/true/null/undefined/
   float16/32/64, a break where an item is expected.
   NOT modelled: the decoder's allocation budget ("gas", about 10 MiB of structure:
   ErrAllocationBudgetExceeded); inputs of the harness are far below it.

   Links are kept as the raw CID byte string (what a Go cid.Cid holds); a link is
   well-formed when lib/Cid.v [cast] accepts it. *)
From Lib Require Import Bytes Varint Cid Cbor.
From Coq Require Import ZArith.
Open Scope N_scope.

Inductive node :=
| NNull
| NBool (b : bool)
| NInt (z : Z)                      (* int64 range, or a uint up to 2^64-1 *)
| NFloat                            (* value not modelled *)
| NString (s : bytes)
| NBytes (b : bytes)
| NLink (c : bytes)                 (* raw CID bytes *)
| NList (l : list node)
| NMap (m : list (bytes * node)).

(* error classes *)
Definition EOutOfFuel := 99.        (* excluded by [decode_fuel_sufficient] *)
Definition ETrunc := 1.             (* io.EOF / ErrUnexpectedEOF *)
Definition EHead := 2.              (* invalid major byte / descriptor *)
Definition ELen := 3.               (* oversized string, length or tag beyond MaxInt *)
Definition ETag := 4.               (* unhandled tag on bytes, multiple tags *)
Definition ELink := 5.              (* bad multibase byte / cid.Cast error *)
Definition EKey := 6.               (* map key that is not a string *)
Definition EDupKey := 7.            (* repeated map key *)
Definition ETrailing := 8.          (* bytes after the item *)
Definition EChunk := 9.             (* wrong chunk in an indefinite string *)
Definition ENegRange := 10.         (* negative integer below -2^63 *)

Definition MaxStr := 33554432.
Definition MaxInt := 9223372036854775807.    (* 2^63 - 1 *)
Definition Pow64 := 18446744073709551616.

(* ---------------------------------------------------------------- *)
(* key order of MapSortMode_RFC7049: shorter first, then bytewise     *)

Fixpoint bytes_ltb (a b : bytes) : bool :=
  match a, b with
  | [], [] => false
  | [], _ :: _ => true
  | _ :: _, [] => false
  | x :: a', y :: b' => if x <? y then true else if y <? x then false else bytes_ltb a' b'
  end.

Definition key_ltb (a b : bytes) : bool :=
  let la := length a in let lb := length b in
  if Nat.ltb la lb then true else if Nat.ltb lb la then false else bytes_ltb a b.

Definition key_leb (a b : bytes) : bool := negb (key_ltb b a).

Fixpoint insert_entry {A} (e : bytes * A) (l : list (bytes * A)) : list (bytes * A) :=
  match l with
  | [] => [e]
  | x :: r => if key_leb (fst e) (fst x) then e :: l else x :: insert_entry e r
  end.
Fixpoint sort_entries {A} (l : list (bytes * A)) : list (bytes * A) :=
  match l with [] => [] | e :: r => insert_entry e (sort_entries r) end.

(* the node the encoder effectively writes: every map sorted, recursively *)
Fixpoint norm (n : node) : node :=
  match n with
  | NList l => NList (map norm l)
  | NMap m => NMap (sort_entries (map (fun kv => (fst kv, norm (snd kv))) m))
  | _ => n
  end.

(* ---------------------------------------------------------------- *)
(* encoder                                                            *)

Definition nlen {A} (l : list A) : N := N.of_nat (length l).

Definition enc_int (z : Z) : bytes :=
  if (0 <=? z)%Z then wr_head MajUnsignedInt (Z.to_N z)
  else wr_head MajNegativeInt (Z.to_N (- 1 - z)).

Definition enc_link (c : bytes) : bytes :=
  wr_head MajTag 42 ++ wr_head MajByteString (blen c + 1) ++ 0 :: c.

Fixpoint encode_raw (n : node) : bytes :=
  match n with
  | NNull => [246]
  | NBool false => [244]
  | NBool true => [245]
  | NInt z => enc_int z
  | NFloat => [251; 0; 0; 0; 0; 0; 0; 0; 0]
  | NString s => wr_head MajTextString (blen s) ++ s
  | NBytes b => wr_head MajByteString (blen b) ++ b
  | NLink c => enc_link c
  | NList l => wr_head MajArray (nlen l) ++ flat_map encode_raw l
  | NMap m => wr_head MajMap (nlen m) ++
              flat_map (fun kv => (wr_head MajTextString (blen (fst kv)) ++ fst kv) ++ encode_raw (snd kv)) m
  end.

Definition encode (n : node) : bytes := encode_raw (norm n).

(* ---------------------------------------------------------------- *)
(* decoder                                                            *)

(* refmt decodeUint: the argument of a head byte, any width accepted (L1) *)
Definition rd_uint (hb : N) (r : bytes) : res (N * bytes) :=
  let low := hb mod 32 in
  if low <? 24 then Ok (low, r)
  else
    let k := if low =? 24 then Some 1%nat else if low =? 25 then Some 2%nat
             else if low =? 26 then Some 4%nat else if low =? 27 then Some 8%nat else None in
    match k with
    | None => Err EHead
    | Some k => match take (N.of_nat k) r with
                | None => Err ETrunc
                | Some (x, r') => Ok (be_dec x, r')
                end
    end.

(* decodeLen: additionally bounded by MaxInt *)
Definition rd_len (hb : N) (r : bytes) : res (N * bytes) :=
  '(v, r') <- rd_uint hb r ;;
  if MaxInt <? v then Err ELen else Ok (v, r').

(* decodeBytes / decodeString: definite length, at most MaxStr *)
Definition rd_str (hb : N) (r : bytes) : res (bytes * bytes) :=
  '(n, r1) <- rd_len hb r ;;
  if MaxStr <? n then Err ELen else
  match take n r1 with
  | None => Err ETrunc
  | Some (x, r2) => Ok (x, r2)
  end.

(* decodeBytesOrStringIndefinite: chunks of major [maj] until the break byte *)
Fixpoint rd_chunks (fuel : nat) (maj : N) (b : bytes) : res (bytes * bytes) :=
  match fuel with
  | O => Err EOutOfFuel
  | S f =>
      match b with
      | [] => Err ETrunc
      | hb :: r =>
          if hb =? 255 then Ok ([], r)
          else if negb (hb / 32 =? maj) then Err EChunk
          else
            '(x, r1) <- rd_str hb r ;;
            '(rest, r2) <- rd_chunks f maj r1 ;;
            Ok (x ++ rest, r2)
      end
  end.

(* a tagged or untagged byte string: dagcbor's TBytes case *)
Definition bytes_item (tag : option N) (x : bytes) : res node :=
  match tag with
  | None => Ok (NBytes x)
  | Some t =>
      if t =? 42 then
        match x with
        | 0 :: c => match cast c with Ok _ => Ok (NLink c) | _ => Err ELink end
        | _ => Err ELink
        end
      else Err ETag
  end.

Definition has_dup_key {A} (m : list (bytes * A)) : bool :=
  (fix go (seen : list bytes) (m : list (bytes * A)) : bool :=
     match m with
     | [] => false
     | (k, _) :: r => existsb (bytes_eqb k) seen || go (k :: seen) r
     end) [] m.

(* One data item.  [tag] = the tag already read for this item (stepHelper_acceptValue
   recursing after a tag head).  [seq] reads the elements of an array (ismap = false)
   or the entries of a map: [lim = Some n] definite, [None] until a break.
   Repeated map keys are NOT rejected here (see [decode] / [decode_lax]). *)
Fixpoint item (fuel : nat) (tag : option N) (b : bytes) : res (node * bytes) :=
  match fuel with
  | O => Err EOutOfFuel
  | S f =>
      match b with
      | [] => Err ETrunc
      | hb :: r =>
          if hb =? 246 then Ok (NNull, r)
          else if hb =? 247 then Ok (NNull, r)
          else if hb =? 244 then Ok (NBool false, r)
          else if hb =? 245 then Ok (NBool true, r)
          else if hb =? 249 then match take 2 r with Some (_, r') => Ok (NFloat, r') | None => Err ETrunc end
          else if hb =? 250 then match take 4 r with Some (_, r') => Ok (NFloat, r') | None => Err ETrunc end
          else if hb =? 251 then match take 8 r with Some (_, r') => Ok (NFloat, r') | None => Err ETrunc end
          else if hb =? 95 then                                   (* 0x5f *)
            '(x, r1) <- rd_chunks f MajByteString r ;;
            n <- bytes_item tag x ;; Ok (n, r1)
          else if hb =? 127 then                                  (* 0x7f *)
            '(x, r1) <- rd_chunks f MajTextString r ;; Ok (NString x, r1)
          else if hb =? 159 then                                  (* 0x9f *)
            '(es, r1) <- seq f None false r ;; Ok (NList (map snd es), r1)
          else if hb =? 191 then                                  (* 0xbf *)
            '(es, r1) <- seq f None true r ;; Ok (NMap es, r1)
          else
            let maj := hb / 32 in
            if maj =? MajUnsignedInt then
              '(v, r1) <- rd_uint hb r ;; Ok (NInt (Z.of_N v), r1)
            else if maj =? MajNegativeInt then
              '(v, r1) <- rd_uint hb r ;;
              let pos := (v + 1) mod Pow64 in
              if 9223372036854775808 <? pos then Err ENegRange
              else Ok (NInt (- Z.of_N pos), r1)
            else if maj =? MajByteString then
              '(x, r1) <- rd_str hb r ;;
              n <- bytes_item tag x ;; Ok (n, r1)
            else if maj =? MajTextString then
              '(x, r1) <- rd_str hb r ;; Ok (NString x, r1)
            else if maj =? MajArray then
              '(n, r1) <- rd_len hb r ;;
              '(es, r2) <- seq f (Some n) false r1 ;; Ok (NList (map snd es), r2)
            else if maj =? MajMap then
              '(n, r1) <- rd_len hb r ;;
              '(es, r2) <- seq f (Some n) true r1 ;; Ok (NMap es, r2)
            else if maj =? MajTag then
              match tag with
              | Some _ => Err ETag
              | None => '(t, r1) <- rd_len hb r ;; item f (Some t) r1
              end
            else Err EHead
      end
  end
with seq (fuel : nat) (lim : option N) (ismap : bool) (b : bytes) : res (list (bytes * node) * bytes) :=
  let stop := match lim, b with
              | Some n, _ => if n =? 0 then Some b else None
              | None, hb :: r => if hb =? 255 then Some r else None
              | None, [] => None
              end in
  match stop with
  | Some r => Ok ([], r)
  | None =>
      match fuel with
      | O => Err EOutOfFuel
      | S f =>
          let lim' := match lim with Some n => Some (n - 1) | None => None end in
          if ismap then
            '(k, r1) <- item f None b ;;
            match k with
            | NString ks =>
                '(v, r2) <- item f None r1 ;;
                '(rest, r3) <- seq f lim' true r2 ;;
                Ok ((ks, v) :: rest, r3)
            | _ => Err EKey
            end
          else
            '(v, r1) <- item f None b ;;
            '(rest, r2) <- seq f lim' false r1 ;;
            Ok (([], v) :: rest, r2)
      end
  end.

Definition fuel_for (b : bytes) : nat := (2 * length b + 4)%nat.

(* some map of the node, at any depth, has a repeated key *)
Fixpoint has_dup_deep (n : node) : bool :=
  match n with
  | NList l => existsb has_dup_deep l
  | NMap m => has_dup_key m || existsb (fun kv => has_dup_deep (snd kv)) m
  | _ => false
  end.

(* the token stream as a bindnode typed builder consumes it: the struct assembler does
   not reject a repeated key (see C13_IpldSchema.v) *)
Definition decode_lax (b : bytes) : res node :=
  '(n, r) <- item (fuel_for b) None b ;;
  match r with [] => Ok n | _ => Err ETrailing end.

(* dagcbor.Decode into basicnode.Prototype.Any: the map assembler of basicnode rejects a
   repeated key wherever it occurs *)
Definition decode (b : bytes) : res node :=
  n <- decode_lax b ;; if has_dup_deep n then Err EDupKey else Ok n.

(* ---------------------------------------------------------------- *)
(* well-formed nodes: what the encoder is specified for and the decoder gives back *)

Definition int_ok (z : Z) : bool := ((- 9223372036854775808 <=? z) && (z <? 18446744073709551616))%Z.

Fixpoint wf_node (n : node) : bool :=
  match n with
  | NNull | NBool _ => true
  | NInt z => int_ok z
  | NFloat => false
  | NString s => wf_bytes s && (blen s <=? MaxStr)
  | NBytes b => wf_bytes b && (blen b <=? MaxStr)
  | NLink c => wf_bytes c && is_ok (cast c) && (blen c <? MaxStr)
  | NList l => forallb wf_node l && (nlen l <=? MaxInt)
  | NMap m => forallb (fun kv => wf_bytes (fst kv) && (blen (fst kv) <=? MaxStr) && wf_node (snd kv)) m
              && negb (has_dup_key m) && (nlen m <=? MaxInt)
  end.

(* canonical DAG-CBOR node: additionally every map is in the encoder's key order *)
Fixpoint keys_sorted {A} (m : list (bytes * A)) : bool :=
  match m with
  | [] => true
  | e :: r => match r with [] => true | e' :: _ => key_ltb (fst e) (fst e') end && keys_sorted r
  end.
Fixpoint canonical (n : node) : bool :=
  match n with
  | NList l => forallb canonical l
  | NMap m => keys_sorted m && forallb (fun kv => canonical (snd kv)) m
  | _ => true
  end.

(* structural equality on nodes (floats are all equal: their value is not modelled) *)
Fixpoint node_eqb (a b : node) : bool :=
  match a, b with
  | NNull, NNull => true
  | NBool x, NBool y => Bool.eqb x y
  | NInt x, NInt y => (x =? y)%Z
  | NFloat, NFloat => true
  | NString x, NString y => bytes_eqb x y
  | NBytes x, NBytes y => bytes_eqb x y
  | NLink x, NLink y => bytes_eqb x y
  | NList x, NList y =>
      (fix go (x y : list node) : bool :=
         match x, y with
         | [], [] => true
         | v1 :: x', v2 :: y' => node_eqb v1 v2 && go x' y'
         | _, _ => false
         end) x y
  | NMap x, NMap y =>
      (fix go (x y : list (bytes * node)) : bool :=
         match x, y with
         | [], [] => true
         | (k1, v1) :: x', (k2, v2) :: y' => bytes_eqb k1 k2 && node_eqb v1 v2 && go x' y'
         | _, _ => false
         end) x y
  | _, _ => false
  end.
