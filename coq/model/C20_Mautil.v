(* mautil list helpers (mautil/mautil.go): FilterPublic, FindHTTPAddrs,
   CleanPeerAddrInfo, MultiaddrsEqual, over an abstract address.

   An address is what the helpers can observe of a multiaddr:
     a_id        identity: two entries have the same id iff Multiaddr.Equal holds, and
                 ids are ordered as bytes.Compare orders Multiaddr.Bytes() (the harness
                 ranks its address pool); a nil Multiaddr and an empty one both have the
                 id of the empty byte string
     a_nil       the slice entry is nil
     a_protos    protocol codes of the components in order (Multiaddr.Protocols())
     a_public    manet.IsPublicAddr, a_unspec: manet.IsIPUnspecified,
     a_localhost first component's Value() == "localhost"
     a_class     what the address is *by construction* (the specification side; the
                 helpers never see it)
   The three manet/Value answers are supplied by the harness from the class table, not
   by calling manet; that the real functions agree is what the fp cases check.

   Executable definitions only. *)
From Lib Require Import Bytes.
Open Scope N_scope.

Inductive aclass :=
| KNil            (* nil slice entry *)
| KEmpty          (* non-nil multiaddr without components *)
| KLoopback       (* 127.0.0.0/8, ::1 *)
| KPrivate        (* 10/8, 100.64/10, 172.16/12, 192.168/16, 169.254/16, fc00::/7, fe80::/10 *)
| KUnspecified    (* 0.0.0.0, :: *)
| KLocalhost      (* dns* name "localhost" *)
| KPublicIP       (* globally routable unicast IPv4 / IPv6 *)
| KPublicName     (* ordinary DNS name *)
| KUnroutableIP   (* documentation, multicast, reserved, ipcidr first, ... : not public, not in the must-drop classes *)
| KSpecialName    (* special-use DNS names other than exactly "localhost" (x.localhost, x.local, ...) *)
| KNonIP.         (* first component is neither ip* nor dns* (e.g. /tcp/80, /p2p/..) *)

Record addr := {
  a_id : N;
  a_nil : bool;
  a_protos : list N;
  a_public : bool;
  a_unspec : bool;
  a_localhost : bool;
  a_class : aclass
}.

(* multiaddr protocol codes (go-multiaddr protocols.go) *)
Definition P_IP4 := 4.   Definition P_IP6 := 41.  Definition P_IP6ZONE := 42.  Definition P_IPCIDR := 43.
Definition P_DNS := 53.  Definition P_DNS4 := 54. Definition P_DNS6 := 55.     Definition P_DNSADDR := 56.
Definition P_HTTP := 480. Definition P_HTTPS := 443.

Definition is_ip_code (c : N) : bool := (c =? P_IP4) || (c =? P_IP6) || (c =? P_IP6ZONE) || (c =? P_IPCIDR).
Definition is_dns_code (c : N) : bool := (c =? P_DNS) || (c =? P_DNS4) || (c =? P_DNS6) || (c =? P_DNSADDR).

(* multiaddr.FilterAddrs with one filter: append the accepted entries in order *)
Fixpoint filter_addrs (f : addr -> bool) (l acc : list addr) : list addr :=
  match l with
  | [] => acc
  | a :: r => if f a then filter_addrs f r (acc ++ [a]) else filter_addrs f r acc
  end.

(* FilterPublic's predicate *)
Definition keep_public (a : addr) : bool :=
  if a_nil a then true
  else match a_protos a with
       | [] => false                                        (* SplitFirst gives nil *)
       | c :: _ =>
           if is_ip_code c then a_public a && negb (a_unspec a)
           else if is_dns_code c then negb (a_localhost a)
           else true
       end.

(* FilterPublic (nil result and empty result are not distinguished) *)
Definition filter_public (l : list addr) : list addr := filter_addrs keep_public l [].

(* FindHTTPAddrs' predicate *)
Definition has_http (a : addr) : bool :=
  negb (a_nil a) && existsb (fun p => (p =? P_HTTP) || (p =? P_HTTPS)) (a_protos a).

Definition find_http (l : list addr) : list addr := filter_addrs has_http l [].

(* CleanPeerAddrInfo: for i < len: if Addrs[i] == nil { Addrs[i] = Addrs[last]; drop last } else i++.
   The list is the part of the slice from index i on; every step shortens it. *)
Definition EOutOfFuel := 99.
Fixpoint clean_f (fuel : nat) (l : list addr) : res (list addr) :=
  match fuel with
  | O => Err EOutOfFuel
  | S f =>
      match l with
      | [] => Ok []
      | a :: r =>
          if a_nil a then
            match r with
            | [] => Ok []
            | _ :: _ => clean_f f (last r a :: removelast r)
            end
          else t <- clean_f f r ;; Ok (a :: t)
      end
  end.
Definition clean (l : list addr) : res (list addr) := clean_f (S (length l)) l.

(* MultiaddrsEqual on ids.  slices.SortFunc sorts both arguments in place when the
   lengths are equal and >= 2, so the (mutated) arguments are part of the result. *)
Fixpoint insert (x : N) (l : list N) : list N :=
  match l with
  | [] => [x]
  | y :: r => if x <=? y then x :: l else y :: insert x r
  end.
Fixpoint isort (l : list N) : list N :=
  match l with [] => [] | x :: r => insert x (isort r) end.

Definition addrs_equal (l1 l2 : list N) : bool * list N * list N :=
  if negb (Nat.eqb (length l1) (length l2)) then (false, l1, l2)
  else match l1, l2 with
       | [], _ => (true, l1, l2)
       | [x], [y] => (x =? y, l1, l2)
       | _, _ => let s1 := isort l1 in let s2 := isort l2 in (list_eqb N.eqb s1 s2, s1, s2)
       end.

(* ---------------------------------------------------------------- *)
(* specification side of FilterPublic (used by the theorem filter_public_spec and, as a
   check of the harness' class table, by the fp case checker)          *)

Definition first_is (pred : N -> bool) (a : addr) : bool :=
  match a_protos a with c :: _ => pred c | [] => false end.

(* what the harness' class table promises about an address of each class: the only
   facts about manet.IsPublicAddr / IsIPUnspecified / Value() the theorem relies on *)
Definition class_okb (a : addr) : bool :=
  match a_class a with
  | KNil => a_nil a
  | KEmpty => negb (a_nil a) && match a_protos a with [] => true | _ => false end
  | KLoopback | KPrivate | KUnroutableIP => negb (a_nil a) && first_is is_ip_code a && negb (a_public a)
  | KUnspecified => negb (a_nil a) && first_is is_ip_code a && a_unspec a
  | KLocalhost => negb (a_nil a) && first_is is_dns_code a && a_localhost a
  | KPublicIP => negb (a_nil a) && first_is is_ip_code a && a_public a && negb (a_unspec a)
  | KPublicName | KSpecialName => negb (a_nil a) && first_is is_dns_code a && negb (a_localhost a)
  | KNonIP => negb (a_nil a) && first_is (fun c => negb (is_ip_code c) && negb (is_dns_code c)) a
  end.

(* which classes FilterPublic keeps *)
Definition class_kept (k : aclass) : bool :=
  match k with
  | KNil | KPublicIP | KPublicName | KSpecialName | KNonIP => true
  | KEmpty | KLoopback | KPrivate | KUnspecified | KLocalhost | KUnroutableIP => false
  end.

Definition must_drop (k : aclass) : bool :=
  match k with KLoopback | KPrivate | KUnspecified | KLocalhost => true | _ => false end.
Definition is_public_class (k : aclass) : bool :=
  match k with KPublicIP | KPublicName => true | _ => false end.

(* ---------------------------------------------------------------- *)
(* case checkers                                                      *)

Definition ids (l : list addr) : list N := map a_id l.
Definition ids_eqb := list_eqb N.eqb.

(* families fp / fh: (input, ids of the output of the real function) *)
Definition fp_case_ok (c : list addr * list N) : bool :=
  forallb class_okb (fst c) && ids_eqb (ids (filter_public (fst c))) (snd c).
Definition fh_case_ok (c : list addr * list N) : bool := ids_eqb (ids (find_http (fst c))) (snd c).

(* family clean: (input, ids of target.Addrs after the call) *)
Definition clean_case_ok (c : list addr * list N) : bool :=
  match clean (fst c) with Ok r => ids_eqb (ids r) (snd c) | _ => false end.

(* family eq: (ids of ma1, ids of ma2, result, ids of ma1 and ma2 after the call) *)
Definition eq_case_ok (c : list N * list N * bool * list N * list N) : bool :=
  let '(l1, l2, b, l1', l2') := c in
  let '(mb, m1, m2) := addrs_equal l1 l2 in
  Bool.eqb mb b && ids_eqb m1 l1' && ids_eqb m2 l2'.

(* ---------------------------------------------------------------- *)
(* StringsToMultiaddrs / ParsePeers (mautil.go L61-L84) over abstract strings: an input
   string either parses to the multiaddr with a given id or does not parse (None).      *)

(* StringsToMultiaddrs: the parsed addresses in order; an error (the last one) iff some
   string did not parse; (nil, nil) for an empty input *)
Definition strings_to_maddrs (l : list (option N)) : list N * bool :=
  (flat_map (fun o => match o with Some i => [i] | None => [] end) l,
   existsb (fun o => match o with None => true | Some _ => false end) l).

(* ParsePeers: any unparsable string, or any address without a /p2p component, is an error;
   otherwise one AddrInfo per peer id with its transport addresses in input order (a bare
   /p2p/ID contributes no address).  peer.AddrInfosFromP2pAddrs returns them in map order:
   compared sorted by peer id. *)
Fixpoint add_peer (p : N) (t : option N) (acc : list (N * list N)) : list (N * list N) :=
  let ts := match t with Some x => [x] | None => [] end in
  match acc with
  | [] => [(p, ts)]
  | (q, l) :: r =>
      if p =? q then (q, l ++ ts) :: r
      else if p <? q then (p, ts) :: acc
      else (q, l) :: add_peer p t r
  end.

Definition EParse := 30.
Definition ENoPeer := 31.

Fixpoint parse_peers_go (l : list (option (option N * option N))) (acc : list (N * list N)) : res (list (N * list N)) :=
  match l with
  | [] => Ok acc
  | None :: _ => Err EParse
  | Some (None, _) :: _ => Err ENoPeer
  | Some (Some p, t) :: r => parse_peers_go r (add_peer p t acc)
  end.

Definition parse_peers (l : list (option (option N * option N))) : res (list (N * list N)) :=
  if existsb (fun o => match o with None => true | Some _ => false end) l then Err EParse
  else parse_peers_go l [].

Definition strs_case_ok (c : list (option N) * list N * bool) : bool :=
  let '(l, out, err) := c in
  let '(mo, me) := strings_to_maddrs l in
  ids_eqb mo out && Bool.eqb me err.

Definition peers_eqb (a b : list (N * list N)) : bool :=
  list_eqb (fun x y => (fst x =? fst y) && ids_eqb (snd x) (snd y)) a b.

Definition peers_case_ok (c : list (option (option N * option N)) * option (list (N * list N))) : bool :=
  let '(l, obs) := c in
  match parse_peers l, obs with
  | Ok m, Some o => peers_eqb m o
  | Err _, None => true
  | _, _ => false
  end.

(* family same: ipnisync.Syncer.SameAddrs (the library's caller of MultiaddrsEqual):
   (ids of the syncer's addresses, ids of the list asked about, answer) *)
Definition same_case_ok (c : list N * list N * bool) : bool :=
  let '(l1, l2, b) := c in
  Bool.eqb (fst (fst (addrs_equal l1 l2))) b.
