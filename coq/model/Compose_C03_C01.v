(* Bridge between C03 (is the head the publisher's?) and C01 (what does the chain sync that
   follows do).  Definitions only.

   C03's model of Subscriber.SyncAdChain treats the chain sync after an accepted head as an
   abstract function [chain_sync] and keeps {st_latest; st_reqs}.  C01's model owns that sync
   ([C1.sync_ad_chain w cfg call st], state {s_latest; s_store}, outputs hook log, request
   log, event) but takes the QUERIED head as a value of its call ([a_pubhead]).  The
   composition feeds C01's call with the head C03's [get_head] accepts:

       signed_sync = remove_id ; get_head (Some id) ; C1.sync_ad_chain with a_pubhead := accepted head

   CIDs: C03 needs structured CIDs (lib/Cid.v, their bytes are signed), C01 uses opaque
   numbers; [num : Cid.cid -> C1.cid] is the numbering of CIDs (a Section variable; the
   theorems that compare stop points assume it injective; the case checker numbers the CIDs
   of the harness' chain by their position). *)
From Coq Require Import List Bool NArith ZArith.
From Lib Require Import Bytes Cid SymCrypto.
From Model Require C01_ChainSync C03_SignedHead.
Import ListNotations.

Module C1 := C01_ChainSync.
Module C3 := C03_SignedHead.

Section Compose.
  Variables pubkey sigt peerid : Type.
  Variable verify : pubkey -> bytes -> sigt -> bool.
  Variable peer_id : pubkey -> peerid.
  Variable peerid_eqb : peerid -> peerid -> bool.
  Variable num : Cid.cid -> C1.cid.

  (* a SyncAdChain call WITHOUT explicit head whose head query answers h; every other
     option (stop CID, resync, scoped depth / segment size / hook) as in [opts] *)
  Definition query_call (opts : C1.adcall) (h : option C1.cid) : C1.adcall :=
    C1.ADCALL None (C1.a_stop opts) (C1.a_resync opts) (C1.a_depth opts) (C1.a_seg opts)
              (C1.a_hook opts) h.

  (* the call fails before any sync: no hook call, NO block request, no event, state as it was *)
  Definition rejected (st : C1.substate) : C1.callout := C1.CO C1.RErr [] [] None st.

  (* SyncAdChain without explicit head, against a response [resp] to the head query *)
  Definition signed_sync (w : C1.world) (cfg : C1.subcfg) (opts : C1.adcall)
             (ai : C3.addr_info peerid) (resp : option (C3.signed_head pubkey sigt))
             (st : C1.substate) : C1.callout :=
    match C3.remove_id ai with
    | Ok id =>
      match C3.get_head verify peer_id peerid_eqb (Some id) resp with
      | Ok c => C1.sync_ad_chain w cfg (query_call opts (Some (num c))) st
      | _ => rejected st
      end
    | _ => rejected st
    end.

  (* head requests the call sends: one, unless no peer ID can be resolved *)
  Definition head_requests (ai : C3.addr_info peerid) : N :=
    if is_ok (C3.remove_id ai) then 1%N else 0%N.

  (* histories: any list of such calls on one Subscriber *)
  Definition scall := (C3.addr_info peerid * option (C3.signed_head pubkey sigt) * C1.adcall)%type.

  Fixpoint run_signed (w : C1.world) (cfg : C1.subcfg) (l : list scall) (st : C1.substate)
    : list (scall * C1.callout) * C1.substate :=
    match l with
    | [] => ([], st)
    | (ai, resp, opts) :: r =>
      let o := signed_sync w cfg opts ai resp st in
      let '(outs, st') := run_signed w cfg r (C1.r_state o) in
      (((ai, resp, opts), o) :: outs, st')
    end.

  (* the head of this call verified under the key of the publisher asked for *)
  Definition verified (c : scall) (r : Cid.cid) : Prop :=
    let '(ai, resp, _) := c in
    exists id, C3.remove_id ai = Ok id /\
               C3.get_head verify peer_id peerid_eqb (Some id) resp = Ok r.

  (* ---- the two state types ---- *)

  (* C03's st_latest is what GetLatestSync answers = C01's eff_latest (recorded value, else the
     WithLastKnownSync answer), through the numbering *)
  Definition latest_rel (cfg : C1.subcfg) (st3 : C3.sub_state) (st1 : C1.substate) : Prop :=
    option_map num (C3.st_latest st3) = C1.eff_latest cfg st1.

  Definition ret_rel (r3 : res Cid.cid) (r1 : C1.retv) : Prop :=
    match r3, r1 with
    | Ok c, C1.ROk n => n = num c
    | Err _, C1.RErr => True
    | _, _ => False
    end.

  Definition ret_is_ok (r : C1.retv) : bool := match r with C1.ROk _ => true | _ => false end.

  (* the plain call: no per-call option *)
  Definition plain_opts : C1.adcall := C1.ADCALL None None false 0%Z 0%Z None None.
End Compose.

Arguments signed_sync {pubkey sigt peerid} verify peer_id peerid_eqb num w cfg opts ai resp st.
Arguments head_requests {peerid} ai.
Arguments run_signed {pubkey sigt peerid} verify peer_id peerid_eqb num w cfg l st.
Arguments verified {pubkey sigt peerid} verify peer_id peerid_eqb c r.

(* ---------------------------------------------------------------------------------- *)
(* One checker for both models: a SyncAdChain history observed on ONE real Subscriber must be
   what C03's model says about the head AND what C01's model says about the sync that
   follows.  The harness' chain (newest first) is numbered by position from 1; any other CID
   gets 0 (no block of the world: nobody serves it).  The subscriber is the default one (no
   depth limits, strict selector, no segmentation, no hook: hook logs are empty and not
   compared), its store starts empty. *)

Fixpoint index_of (c : Cid.cid) (l : list Cid.cid) (i : N) : N :=
  match l with
  | [] => 0%N
  | x :: r => if C3.cid_eqb c x then i else index_of c r (i + 1)%N
  end.

Definition num_tab (chain : list Cid.cid) (c : Cid.cid) : C1.cid := index_of c chain 1%N.

Definition all_known (chain l : list Cid.cid) : bool :=
  forallb (fun c => negb (num_tab chain c =? 0)%N) l.

Definition default_cfg : C1.subcfg := C1.CFG 0 0 (-1) 0 true C1.HNone None.

Record both_case := BothCase {
  bc_chain : list Cid.cid;          (* the publisher's chain, newest first; it serves all of it *)
  bc_hist : C3.subhist_case         (* the history with what was observed (C03 form) *)
}.

Definition obs_retv (chain : list Cid.cid) (o : C3.obs Cid.cid) : C1.retv :=
  match o with
  | C3.OOk c => C1.ROk (num_tab chain c)
  | C3.OErr _ => C1.RErr
  | C3.OPanic => C1.RPanic
  end.

Definition head_known (chain : list Cid.cid) (w : option C3.whead) : bool :=
  match w with
  | Some h => negb (num_tab chain (C3.wh_cid h) =? 0)%N
  | None => true
  end.

Fixpoint both_steps (chain : list Cid.cid) (id : option N) (addrs : list (option N))
         (st : C1.substate) (steps : list C3.sub_step) : bool :=
  match steps with
  | [] => true
  | s :: rest =>
    let nums := List.map (num_tab chain) chain in
    let w := C1.chain_world C1.EPrev [] nums nums in
    let o := signed_sync Sym.verify Sym.peer_id Sym.peerid_eqb (num_tab chain) w default_cfg plain_opts
                         (C3.AddrInfo id addrs) (option_map C3.sym_head (C3.ss_resp s)) st in
    (* heads that are no block of the chain are outside C01's world: C03's verdict only *)
    if head_known chain (C3.ss_resp s) && all_known chain (C3.ss_blocks s) then
      C1.retv_eqb (C1.r_ret o) (obs_retv chain (C3.ss_obs s)) &&
      C1.cids_eqb (C1.r_reqs o) (List.map (num_tab chain) (C3.ss_blocks s)) &&
      option_eqb N.eqb (C1.eff_latest default_cfg (C1.r_state o)) (option_map (num_tab chain) (C3.ss_latest s)) &&
      both_steps chain id addrs (C1.r_state o) rest
    else true
  end.

Definition both_case_ok (c : both_case) : bool :=
  let h := bc_hist c in
  C3.subhist_case_ok h &&
  (if match C3.hh_latest0 h with
      | Some l => negb (num_tab (bc_chain c) l =? 0)%N
      | None => true
      end
   then both_steps (bc_chain c) (C3.hh_id h) (C3.hh_addr_ids h)
                   (C1.ST (option_map (num_tab (bc_chain c)) (C3.hh_latest0 h)) []) (C3.hh_steps h)
   else true).
