(* Bridge between the byte-level model of announce messages (C10_AnnounceMsg.v) and the
   receiver's pubsub path (C09_Pubsub.v): executable definitions only.

   C09 abstracts CIDs, peers and addresses to numbers.  The bridge is parametrised by
   the three abstractions, as functions:
     cid_no      : the number of a CID (the code keys its filter by Cid.String())
     peer_decode : peer.Decode on the OrigPeer text (None = not a peer ID)
     addr_parse  : multiaddr.NewMultiaddrBytes + GetAddrs' rule on one address
   so that the theorems can quantify over them (with the round-trip laws they need as
   section hypotheses) and the case checker can instantiate them with tables the harness
   fills from the real libraries.

   [watch_bytes] is Receiver.watch from the raw pubsub payload to the announcement it
   hands to handleAnnounce:  msg.Data --UnmarshalCBOR--> Message --GetAddrs / OrigPeer-->
   C09's [pmsg] --watch_decode--> announcement.  Every failure on the way is `continue`
   in the code: the message is dropped and the watcher goes on. *)
From Lib Require Import Bytes Varint Cid Cbor.
From Model Require Import C10_AnnounceMsg C09_Pubsub.
Open Scope N_scope.

(* what multiaddr.NewMultiaddrBytes says about one address byte string *)
Inductive aparse :=
| AOk (id : N) (public : bool)   (* parses; id and "public" flag of C09's address universe *)
| ASkip                          (* unknown protocol code: skipped by GetAddrs *)
| ABad.                          (* any other error: GetAddrs fails *)

(* Message.GetAddrs over the raw address list *)
Fixpoint get_addrs_parsed (addr_parse : bytes -> aparse) (l : list (option bytes)) : option (list (N * bool)) :=
  match l with
  | [] => Some []
  | a :: r =>
    match addr_parse (sl a) with
    | ABad => None
    | ASkip => get_addrs_parsed addr_parse r
    | AOk i p => match get_addrs_parsed addr_parse r with
                 | Some t => Some ((i, p) :: t)
                 | None => None
                 end
    end
  end.

(* the decoded Message as the watcher reads it.  `if len(m.Addrs) != 0 { GetAddrs }`:
   with no addresses GetAddrs is not called (same result: no addresses). *)
Definition msg_to_pmsg (cid_no : cid -> N) (peer_decode : bytes -> option N)
           (addr_parse : bytes -> aparse) (from : N) (m : msg) : option pmsg :=
  match m_cid m with
  | None => None                                  (* never produced by the decoder *)
  | Some c =>
    Some {| pm_from := from;
            pm_orig := match m_orig m with
                       | [] => ONone
                       | t => match peer_decode t with Some p => OPeer p | None => OBad end
                       end;
            pm_cid := cid_no c;
            pm_addrs := get_addrs_parsed addr_parse (sl (m_addrs m)) |}
  end.

(* Receiver.watch on one pubsub payload: Ok (Some a) = a is handed to handleAnnounce,
   Ok None = dropped (`continue`), Panic = the decoder panicked (excluded by theorem) *)
Definition watch_bytes (cid_no : cid -> N) (peer_decode : bytes -> option N)
           (addr_parse : bytes -> aparse) (host from : N) (data : bytes) : res (option ann) :=
  match dec data with
  | Ok (m, _) =>                                   (* bytes after the message are ignored *)
    match msg_to_pmsg cid_no peer_decode addr_parse from m with
    | Some pm => Ok (watch_decode host pm)
    | None => Ok None
    end
  | Err _ => Ok None
  | Panic c => Panic c
  end.

(* the op a pubsub arrival amounts to at a receiver (None = no effect at all) *)
Definition arrival_op (cid_no : cid -> N) (peer_decode : bytes -> option N)
           (addr_parse : bytes -> aparse) (host : N) (f : allowf) (from : N) (data : bytes) : option op :=
  match watch_bytes cid_no peer_decode addr_parse host from data with
  | Ok (Some a) => Some (ODirect (allows f (a_peer a)) a false)
  | _ => None
  end.

(* ---- the sending side ---- *)

(* Message.SetAddrs over C09's address ids *)
Definition set_addrs (addr_bytes : N -> bytes) (ids : list N) : option (list (option bytes)) :=
  Some (map (fun i => Some (addr_bytes i)) ids).

(* the message announce.Send / a publisher builds for (cid, addrs) and hands to p2psender *)
Definition direct_msg (addr_bytes : N -> bytes) (c : cid) (ids : list N) : msg :=
  Msg (Some c) (set_addrs addr_bytes ids) None [].

(* Receiver.republish for a delivered announcement (cid c, origin peer, address ids) *)
Definition republish_msg (peer_text : N -> bytes) (addr_bytes : N -> bytes)
           (c : cid) (origin : N) (ids : list N) : msg :=
  Msg (Some c) (set_addrs addr_bytes ids) None (peer_text origin).

(* ---- table instances for the case checker ---- *)

(* n copies of a block: how the harness writes payloads made of one repeated address *)
Definition brep (n : N) (b : bytes) : bytes := List.concat (nrep n b).

Fixpoint lookup_bytes {A} (t : list (bytes * A)) (k : bytes) : option A :=
  match t with
  | [] => None
  | (k', v) :: r => if bytes_eqb k k' then Some v else lookup_bytes r k
  end.

Definition tab_addr_parse (t : list (bytes * aparse)) (b : bytes) : aparse :=
  match lookup_bytes t b with Some v => v | None => ABad end.
Definition tab_peer_decode (t : list (bytes * N)) (b : bytes) : option N := lookup_bytes t b.
Fixpoint tab_cid_no (t : list (cid * N)) (c : cid) : N :=
  match t with
  | [] => 999999
  | (c', n) :: r => if cid_eqb c c' then n else tab_cid_no r c
  end.

Definition oann_eqb (x y : option ann) : bool :=
  match x, y with
  | None, None => true
  | Some a, Some b => ann_eqb a b
  | _, _ => false
  end.

(* one payload seen on the topic by receiver `host`, sent by `from`; the tables give what
   go-cid / peer.Decode / go-multiaddr say about the pieces; `seen` is the announcement
   the receiver's consumer got for it (before the allow/duplicate/address filters, which
   the harness keeps open for these cases) or nothing *)
Definition wire_case_ok
  (c : N * N * bytes * list (cid * N) * list (bytes * N) * list (bytes * aparse) * option ann) : bool :=
  let '(host, from, data, ct, pt, at_, seen) := c in
  match watch_bytes (tab_cid_no ct) (tab_peer_decode pt) (tab_addr_parse at_) host from data with
  | Ok got => oann_eqb got seen
  | _ => false
  end.
