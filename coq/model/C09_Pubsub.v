(* C09: the pubsub path of announce.Receiver (receiver.go watch L221-L303,
   handleAnnounce/republish L317-L382) on top of the sequential receiver semantics of
   Announce_Receiver.v: executable definitions only.

   A pubsub message as the watcher sees it after decoding: who sent it on the topic
   (msg.From), the OrigPeer field, the CID and the addresses (None = Message.GetAddrs
   failed: the message is dropped).  Peer IDs are numbers; 0 is the empty peer ID
   (whose String() is "", so that republishing an announcement attributed to it
   produces a message WITHOUT OrigPeer).

   watch:   OrigPeer = ""           -> announcement attributed to the topic sender
            OrigPeer set, From = me -> ignored (own republication)
            OrigPeer set, decodes   -> announcement attributed to OrigPeer
            OrigPeer set, garbage   -> dropped
   and the announcement then goes through handleAnnounce exactly like a Direct one
   (allow filter on the ATTRIBUTED peer, duplicate filter, address filter, out slot),
   never republished.                                                              *)
From Model Require Export Announce_Receiver.
From Gen Require Import Gen_Consts.
From Coq Require Import ZArith.
Open Scope N_scope.

(* the capacity of the duplicate filter: `const announceCacheSize` of receiver.go as
   regenerated from the source on every run *)
Definition cache_cap : nat := Z.to_nat announce_announceCacheSize.

Inductive orig :=
| ONone              (* OrigPeer == "" *)
| OPeer (p : N)      (* peer.Decode(OrigPeer) = p *)
| OBad.              (* peer.Decode fails *)

Record pmsg := {
  pm_from : N;
  pm_orig : orig;
  pm_cid : N;
  pm_addrs : option (list (N * bool))
}.

(* Receiver.watch up to the call of handleAnnounce: the announcement, if any *)
Definition watch_decode (host : N) (m : pmsg) : option ann :=
  match pm_addrs m with
  | None => None
  | Some addrs =>
    match pm_orig m with
    | ONone => Some {| a_cid := pm_cid m; a_peer := pm_from m; a_addrs := addrs |}
    | OPeer p => if pm_from m =? host then None
                 else Some {| a_cid := pm_cid m; a_peer := p; a_addrs := addrs |}
    | OBad => None
    end
  end.

(* Receiver.republish: what a receiver with WithResend publishes for a delivered direct
   announcement a (already address-filtered) *)
Definition republish (host : N) (a : ann) : pmsg :=
  {| pm_from := host;
     pm_orig := if a_peer a =? 0 then ONone else OPeer (a_peer a);
     pm_cid := a_cid a;
     pm_addrs := Some (a_addrs a) |}.

(* allow filters as sets of peers: WithAllowPeer(nil) = everything *)
Inductive allowf := AllowAll | AllowSet (l : list N) | AllowMod (m : N).
Definition allows (f : allowf) (p : N) : bool :=
  match f with
  | AllowAll => true
  | AllowSet l => memN p l
  | AllowMod m => negb (p mod m =? 0)
  end.

(* calls and pubsub arrivals at one receiver, in the order they are processed *)
Inductive pop :=
| PMsg (m : pmsg)                        (* a topic message reaches the watcher *)
| PDirect (a : ann) (cancelled : bool)
| PNext (cancelled : bool)
| PUncache (c : N)
| PClose.

Definition pop_op (host : N) (f : allowf) (o : pop) : option op :=
  match o with
  | PMsg m => match watch_decode host m with
              | Some a => Some (ODirect (allows f (a_peer a)) a false)
              | None => None
              end
  | PDirect a cn => Some (ODirect (allows f (a_peer a)) a cn)
  | PNext cn => Some (ONext cn)
  | PUncache c => Some (OUncache c)
  | PClose => Some OClose
  end.

(* a history at one receiver: arrivals that the watcher drops must show no effect *)
Fixpoint pops_ops (host : N) (f : allowf) (h : list (pop * outcome)) : option (list (op * outcome)) :=
  match h with
  | [] => Some []
  | (o, r) :: rest =>
    match pops_ops host f rest with
    | None => None
    | Some t =>
      match pop_op host f o with
      | Some x => Some ((x, r) :: t)
      | None => if outcome_eqb r RNil then Some t else None
      end
    end
  end.

(* case checker: receiver configuration, own host id, allow filter, observed history *)
Definition pubsub_case_ok (c : cfg * N * allowf * list (pop * outcome)) : bool :=
  let '(cf, host, f, h) := c in
  match pops_ops host f h with
  | Some ops => accepts cf ops
  | None => false
  end.

(* a relay with WithResend handling a direct announcement: the message it publishes
   (None when nothing is delivered, hence nothing republished).  The announcement is
   republished only after passing the relay's own allow and duplicate filters, with
   the relay's address filter applied. *)
Definition relay_publishes (c : cfg) (host : N) (f : allowf) (s : rst) (a : ann) : option pmsg :=
  if negb (allows f (a_peer a)) then None
  else if closed s then None
  else if fst (lru_update (cap c) (a_cid a) (lru s)) then None
  else Some (republish host (filter_addrs c a)).

(* the built-in capacity the running code reports *)
Definition cap_case_ok (n : N) : bool := N.of_nat cache_cap =? n.
