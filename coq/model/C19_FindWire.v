(* C19 -- find responses written by the server helper (rwriter) are read back
   identically by the find client.  Executable definitions only.

   What is modelled (Go source in parentheses)

     * content negotiation of rwriter.New (rwriter/response_writer.go L43-L77): the Accept
       header values, each split at ',', each element ALREADY classified by
       mime.ParseMediaType (the harness supplies [mt]: parse error / ndjson / json / any /
       other); the scan with its flag updates, the early exit once both media types are
       accepted, the three 400 answers;
     * resource type and key from the request path (L83-L113): path.Base, path.Dir /
       path.Clean and the ASCII part of strings.TrimSpace on bytes; the multihash / cid
       switch; base58 first, hex second; the verdicts of base58.Decode, hex.DecodeString
       and cid.Decode on the key text are DATA supplied by the harness ([keyv]);
       multihash.Decode (go-multihash v0.2.3) is modelled on bytes with Lib.Varint;
     * ProviderResponseWriter (rwriter/provider_response_writer.go): write / close as a
       state machine; JSON mode buffers, NDJSON mode emits one object per line;
       nothing written => 404;
     * the handler an indexer wraps around it (error => http.Error with the API error's
       status; the harness uses the same handler);
     * find/client.Find (find/client/client.go L60-L89), FindBatch (interface.go), a raw
       NDJSON reader;
     * encoding/json on model.FindResponse / MultihashResult / ProviderResult /
       peer.AddrInfo and apierror.ErrorMessage as ABSTRACT TREES [jv] with omitempty
       applied: which fields appear, in which order, array vs null, nil vs empty byte
       strings.  The JSON text layer (base64, string escaping, number syntax, UTF-8
       coercion) is exercised by the harness, not modelled;
     * apierror.EncodeError / DecodeError and the text/plain form (http.Error +
       apierror.FromResponse).

   Peer IDs and multiaddrs are opaque: a rank (the harness numbers the distinct values it
   uses) plus one flag saying whether the text form the encoder writes is accepted by the
   decoder (peer.Decode / multiaddr.NewMultiaddr) -- false for the empty peer ID and for a
   nil multiaddr.

   [*_v0] = the code before pending/C19-fix-*.diff; the unsuffixed functions model the
   repaired code. *)
From Lib Require Import Bytes Varint.
Open Scope N_scope.

Definition is_nil {A} (l : list A) : bool := match l with [] => true | _ => false end.

(* ================================================================ *)
(* 1. Content negotiation                                            *)

(* verdict of mime.ParseMediaType on one comma-separated element *)
Inductive mt := MTErr | MTNd | MTJson | MTAny | MTOther.
Inductive mode := ND | JS.

Definition mode_eqb (a b : mode) : bool :=
  match a, b with ND, ND => true | JS, JS => true | _, _ => false end.

(* error classes: the distinct answers of rwriter.New / Close *)
Definition EInvalidAccept    := 1.   (* "invalid Accept header" *)
Definition EAcceptMissing    := 2.   (* "accept header must be specified" *)
Definition EUnsupportedMedia := 3.   (* "media type not supported: ..." *)
Definition EMissingType      := 4.   (* "missing resource type" (dead, see proofs) *)
Definition EInvalidMultihash := 5.   (* multihash.ErrInvalidMultihash *)
Definition ECidDecode        := 6.   (* cid.Decode's error *)
Definition EUnsupportedType  := 7.   (* "unsupported resource type" *)
Definition EMhDecode         := 8.   (* multihash.Decode's error *)
Definition ENotFound         := 9.   (* Close with nothing written: 404 *)

(* the switch on the media type *)
Definition upd (prefer : bool) (nd ok : bool) (e : mt) : bool * bool :=
  match e with
  | MTNd => (true, ok)
  | MTJson => (nd, true)
  | MTAny => (negb prefer, true)
  | _ => (nd, ok)
  end.

(* v0: the inner loop leaves at `if nd && okJson { break }`: the remaining elements of
   this header value are not even parsed *)
Fixpoint scan_elems_v0 (prefer nd ok : bool) (l : list mt) : option (bool * bool) :=
  match l with
  | [] => Some (nd, ok)
  | MTErr :: _ => None
  | e :: r =>
    let '(nd', ok') := upd prefer nd ok e in
    if nd' && ok' then Some (nd', ok') else scan_elems_v0 prefer nd' ok' r
  end.

(* repaired: every element is parsed; once both are accepted the rest of this value no
   longer changes the flags *)
Fixpoint scan_elems (prefer nd ok sat : bool) (l : list mt) : option (bool * bool) :=
  match l with
  | [] => Some (nd, ok)
  | MTErr :: _ => None
  | e :: r =>
    if sat then scan_elems prefer nd ok sat r
    else let '(nd', ok') := upd prefer nd ok e in
         scan_elems prefer nd' ok' (nd' && ok') r
  end.

Fixpoint scan_values (scan : bool -> bool -> list mt -> option (bool * bool))
         (nd ok : bool) (vs : list (list mt)) : option (bool * bool) :=
  match vs with
  | [] => Some (nd, ok)
  | v :: r => match scan nd ok v with
              | None => None
              | Some (nd', ok') => scan_values scan nd' ok' r
              end
  end.

Definition negotiate_with (scan : bool -> bool -> list mt -> option (bool * bool))
           (prefer : bool) (accepts : list (list mt)) : res mode :=
  match scan_values scan false false accepts with
  | None => Err EInvalidAccept
  | Some (nd, ok) =>
    if is_nil accepts then (if prefer then Ok JS else Err EAcceptMissing)
    else if negb ok && negb nd then Err EUnsupportedMedia
    else Ok (if nd then ND else JS)
  end.

Definition negotiate_v0 (prefer : bool) := negotiate_with (scan_elems_v0 prefer) prefer.
Definition negotiate (prefer : bool) :=
  negotiate_with (fun nd ok => scan_elems prefer nd ok false) prefer.

(* ================================================================ *)
(* 2. Paths (package path on bytes)                                  *)

(* strings.Split(p, "/") *)
Fixpoint split_slash (p : bytes) : list bytes :=
  match p with
  | [] => [[]]
  | c :: r =>
    if c =? 47 then [] :: split_slash r
    else match split_slash r with
         | s :: t => (c :: s) :: t
         | [] => [[c]]
         end
  end.

Fixpoint last_nonempty (l : list bytes) : option bytes :=
  match l with
  | [] => None
  | s :: r => match last_nonempty r with
              | Some x => Some x
              | None => if is_nil s then None else Some s
              end
  end.

(* path.Base: "" => "."; only slashes => "/"; else the last non-empty element *)
Definition path_base (p : bytes) : bytes :=
  if is_nil p then [46]
  else match last_nonempty (split_slash p) with
       | Some s => s
       | None => [47]
       end.

Definition dot := [46].
Definition dotdot := [46; 46].

(* path.Clean as a stack of kept elements (top first) *)
Definition clean_step (rooted : bool) (stack : list bytes) (seg : bytes) : list bytes :=
  if is_nil seg || bytes_eqb seg dot then stack
  else if bytes_eqb seg dotdot then
    match stack with
    | top :: rest => if bytes_eqb top dotdot then seg :: stack else rest
    | [] => if rooted then [] else [seg]
    end
  else seg :: stack.

Definition join_slash (l : list bytes) : bytes :=
  match l with
  | [] => []
  | s :: r => s ++ flat_map (fun x => 47 :: x) r
  end.

Definition path_clean (p : bytes) : bytes :=
  match p with
  | [] => dot
  | c :: _ =>
    let rooted := c =? 47 in
    let st := fold_left (clean_step rooted) (split_slash p) [] in
    let body := join_slash (rev st) in
    let out := if rooted then 47 :: body else body in
    if is_nil out then dot else out
  end.

(* path.Split's directory part: everything up to and including the last slash *)
Definition dir_part (p : bytes) : bytes :=
  flat_map (fun s => s ++ [47]) (removelast (split_slash p)).

Definition path_dir (p : bytes) : bytes := path_clean (dir_part p).

(* the ASCII part of strings.TrimSpace: \t \n \v \f \r and space *)
Definition is_ws (c : N) : bool := ((9 <=? c) && (c <=? 13)) || (c =? 32).
Fixpoint drop_ws (l : bytes) : bytes :=
  match l with
  | c :: r => if is_ws c then drop_ws r else l
  | [] => []
  end.
Definition trim_space (l : bytes) : bytes := rev (drop_ws (rev (drop_ws l))).

(* ================================================================ *)
(* 3. Keys                                                           *)

(* multihash.Decode: Ok code, or an error *)
Definition max_int32 := 2147483647.
Definition mh_decode (b : bytes) : res N :=
  if (length b <? 2)%nat then Err EMhDecode
  else match dec_rest b with
       | Ok (code, r1) =>
         match dec_rest r1 with
         | Ok (len, r2) =>
           if max_int32 <? len then Err EMhDecode
           else if N.of_nat (length r2) <? len then Err EMhDecode
           else if negb (N.of_nat (length r2) =? len) then Err EMhDecode  (* ErrInconsistentLen *)
           else Ok code
         | _ => Err EMhDecode
         end
       | _ => Err EMhDecode
       end.
Definition mh_valid (b : bytes) : bool := is_ok (mh_decode b).

(* what the three text decoders say about the (trimmed) key text *)
Record keyv := KV {
  k_b58 : option bytes;      (* base58.Decode *)
  k_hex : option bytes;      (* hex.DecodeString *)
  k_cid : option bytes }.    (* cid.Decode(..).Hash() *)

Inductive ptype := PMh | PCid.

Definition ptype_eqb (a b : ptype) : bool :=
  match a, b with PMh, PMh => true | PCid, PCid => true | _, _ => false end.

(* pathType := path.Base(path.Dir(r.URL.Path)); switch { case mhPathType; case cidPathType } *)
Definition classify_type (mhtype cidtype : bytes) (p : bytes) : res ptype :=
  let t := path_base (path_dir p) in
  if is_nil t then Err EMissingType
  else if bytes_eqb t mhtype then Ok PMh
  else if bytes_eqb t cidtype then Ok PCid
  else Err EUnsupportedType.

(* v0: base58 wins whenever the text is in the base58 alphabet *)
Definition key_bytes_v0 (t : ptype) (k : keyv) : res bytes :=
  match t with
  | PMh => match k_b58 k with
           | Some b => Ok b
           | None => match k_hex k with
                     | Some b => Ok b
                     | None => Err EInvalidMultihash
                     end
           end
  | PCid => match k_cid k with
            | Some b => Ok b
            | None => Err ECidDecode
            end
  end.

(* repaired: the base58 reading is taken only when it is a multihash *)
Definition key_bytes (t : ptype) (k : keyv) : res bytes :=
  match t with
  | PMh =>
    match (match k_b58 k with
           | Some b => if mh_valid b then Some b else None
           | None => None
           end) with
    | Some b => Ok b
    | None => match k_hex k with
              | Some b => Ok b
              | None => Err EInvalidMultihash
              end
    end
  | PCid => match k_cid k with
            | Some b => Ok b
            | None => Err ECidDecode
            end
  end.

Definition parse_key_with (kb : ptype -> keyv -> res bytes)
           (mhtype cidtype p : bytes) (k : keyv) : res (ptype * bytes * N) :=
  t <- classify_type mhtype cidtype p ;;
  b <- kb t k ;;
  code <- mh_decode b ;;
  Ok (t, b, code).

Definition parse_key_v0 := parse_key_with key_bytes_v0.
Definition parse_key := parse_key_with key_bytes.

(* the text the decoders are applied to *)
Definition key_text (p : bytes) : bytes := trim_space (path_base p).

(* ================================================================ *)
(* 4. Requests and rwriter.New                                       *)

Record request := REQ {
  q_prefer : bool;            (* WithPreferJson *)
  q_mhtype : bytes;           (* WithMultihashPathType, default "multihash" *)
  q_cidtype : bytes;          (* WithCidPathType, default "cid" *)
  q_accepts : list (list mt); (* r.Header.Values("Accept"), split and classified *)
  q_path : bytes;             (* r.URL.Path *)
  q_key : keyv }.

Record writer := W {
  w_mode : mode;
  w_ptype : ptype;
  w_mh : bytes;
  w_code : N }.

Definition new_writer_with neg pk (q : request) : res writer :=
  m <- neg (q_prefer q) (q_accepts q) ;;
  ' (t, b, code) <- pk (q_mhtype q) (q_cidtype q) (q_path q) (q_key q) ;;
  Ok (W m t b code).

Definition new_writer_v0 := new_writer_with negotiate_v0 parse_key_v0.
Definition new_writer := new_writer_with negotiate parse_key.

(* ================================================================ *)
(* 5. Results and their JSON trees                                   *)

Definition mbytes := option bytes.   (* None = Go nil, Some [] = empty non-nil *)

Record addr := A { a_rank : N; a_ok : bool }.          (* a_ok: NewMultiaddr (String a) succeeds *)
Record pinfo := PI { pi_id : N; pi_ok : bool; pi_addrs : list addr }.  (* pi_ok: peer.Decode (String id) succeeds *)
Record presult := PR { r_ctx : mbytes; r_md : mbytes; r_prov : option pinfo }.

Inductive field :=
| FContextID | FMetadata | FProvider | FID | FAddrs | FMultihash | FProviderResults
| FMultihashResults | FEncryptedMultihashResults | FMessage | FStatus.

Definition field_code (f : field) : N :=
  match f with
  | FContextID => 0 | FMetadata => 1 | FProvider => 2 | FID => 3 | FAddrs => 4
  | FMultihash => 5 | FProviderResults => 6 | FMultihashResults => 7
  | FEncryptedMultihashResults => 8 | FMessage => 9 | FStatus => 10
  end.
Definition field_eqb (a b : field) : bool := field_code a =? field_code b.

Inductive jv :=
| JNull
| JB64 (b : bytes)                (* a []byte: base64 string *)
| JPeer (id : N) (ok : bool)      (* a peer.ID: base58 / CID text *)
| JAddr (a : addr)                (* a multiaddr: its text form *)
| JStr (s : bytes)                (* UTF-8 text *)
| JInt (z : Z)
| JArr (l : list jv)
| JObj (l : list (field * jv)).

Definition addr_eqb (a b : addr) : bool := (a_rank a =? a_rank b) && Bool.eqb (a_ok a) (a_ok b).

Fixpoint jv_eqb (a b : jv) {struct a} : bool :=
  match a, b with
  | JNull, JNull => true
  | JB64 x, JB64 y => bytes_eqb x y
  | JPeer i o, JPeer j p => (i =? j) && Bool.eqb o p
  | JAddr x, JAddr y => addr_eqb x y
  | JStr x, JStr y => bytes_eqb x y
  | JInt x, JInt y => Z.eqb x y
  | JArr x, JArr y =>
    (fix go (x y : list jv) {struct x} : bool :=
       match x, y with
       | [], [] => true
       | u :: x', v :: y' => jv_eqb u v && go x' y'
       | _, _ => false
       end) x y
  | JObj x, JObj y =>
    (fix go (x y : list (field * jv)) {struct x} : bool :=
       match x, y with
       | [], [] => true
       | (f, u) :: x', (g, v) :: y' => field_eqb f g && jv_eqb u v && go x' y'
       | _, _ => false
       end) x y
  | _, _ => false
  end.

(* ---- marshal (omitempty applied) ---- *)

Definition mlen (m : mbytes) : nat := match m with None => 0%nat | Some b => length b end.
Definition mcontent (m : mbytes) : bytes := match m with None => [] | Some b => b end.

Definition opt_field (f : field) (present : bool) (v : jv) : list (field * jv) :=
  if present then [(f, v)] else [].

(* peer.AddrInfo.MarshalJSON: Addrs is always an array (make([]string, len)) *)
Definition enc_pinfo (p : pinfo) : jv :=
  JObj [(FID, JPeer (pi_id p) (pi_ok p)); (FAddrs, JArr (map JAddr (pi_addrs p)))].

(* model.ProviderResult: all three fields omitempty *)
Definition enc_result (r : presult) : jv :=
  JObj (opt_field FContextID (negb (Nat.eqb (mlen (r_ctx r)) 0)) (JB64 (mcontent (r_ctx r))) ++
        opt_field FMetadata (negb (Nat.eqb (mlen (r_md r)) 0)) (JB64 (mcontent (r_md r))) ++
        match r_prov r with
        | Some p => [(FProvider, enc_pinfo p)]
        | None => []
        end).

(* model.MultihashResult: no tags, nothing omitted; a nil slice is null *)
Definition enc_mhresult (mh : bytes) (rs : option (list presult)) : jv :=
  JObj [(FMultihash, JB64 mh);
        (FProviderResults, match rs with None => JNull | Some l => JArr (map enc_result l) end)].

(* model.FindResponse: both lists omitempty *)
Definition enc_findresp (l : list (bytes * option (list presult))) : jv :=
  JObj (opt_field FMultihashResults (negb (is_nil l))
          (JArr (map (fun x => enc_mhresult (fst x) (snd x)) l))).

(* ---- unmarshal ---- *)

(* encoding/json: the last occurrence of a key wins; absent => the zero value *)
Fixpoint lookup (f : field) (l : list (field * jv)) : option jv :=
  match l with
  | [] => None
  | (g, v) :: r => match lookup f r with
                   | Some x => Some x
                   | None => if field_eqb f g then Some v else None
                   end
  end.

Definition EJson := 20.       (* json.Unmarshal error *)
Definition EPeerText := 21.   (* peer ID / multiaddr text rejected *)

Fixpoint map_res {A B} (f : A -> res B) (l : list A) : res (list B) :=
  match l with
  | [] => Ok []
  | x :: r => y <- f x ;; ys <- map_res f r ;; Ok (y :: ys)
  end.

Definition dec_bytes (v : option jv) : res mbytes :=
  match v with
  | None | Some JNull => Ok None
  | Some (JB64 b) => Ok (Some b)
  | _ => Err EJson
  end.

Definition dec_addr (v : jv) : res addr :=
  match v with
  | JAddr a => if a_ok a then Ok a else Err EPeerText
  | _ => Err EJson
  end.

(* peer.AddrInfo.UnmarshalJSON *)
Definition dec_pinfo (v : jv) : res pinfo :=
  match v with
  | JObj l =>
    addrs <- match lookup FAddrs l with
             | None | Some JNull => Ok []
             | Some (JArr a) => map_res dec_addr a
             | _ => Err EJson
             end ;;
    match lookup FID l with
    | Some (JPeer i ok) => if ok then Ok (PI i true addrs) else Err EPeerText
    | _ => Err EJson
    end
  | _ => Err EJson
  end.

Definition dec_result (v : jv) : res presult :=
  match v with
  | JObj l =>
    ctx <- dec_bytes (lookup FContextID l) ;;
    md <- dec_bytes (lookup FMetadata l) ;;
    prov <- match lookup FProvider l with
            | None | Some JNull => Ok None
            | Some p => q <- dec_pinfo p ;; Ok (Some q)
            end ;;
    Ok (PR ctx md prov)
  | _ => Err EJson
  end.

Definition dec_mhresult (v : jv) : res (bytes * list presult) :=
  match v with
  | JObj l =>
    mh <- dec_bytes (lookup FMultihash l) ;;
    rs <- match lookup FProviderResults l with
          | None | Some JNull => Ok []
          | Some (JArr a) => map_res dec_result a
          | _ => Err EJson
          end ;;
    Ok (mcontent mh, rs)
  | _ => Err EJson
  end.

Definition findresp := list (bytes * list presult).   (* FindResponse.MultihashResults *)

Definition dec_findresp (v : jv) : res findresp :=
  match v with
  | JObj l =>
    match lookup FMultihashResults l with
    | None | Some JNull => Ok []
    | Some (JArr a) => map_res dec_mhresult a
    | _ => Err EJson
    end
  | _ => Err EJson
  end.

(* what a result looks like after the trip: empty byte strings come back nil *)
Definition norm (m : mbytes) : mbytes :=
  match m with Some [] => None | x => x end.
Definition canon (r : presult) : presult := PR (norm (r_ctx r)) (norm (r_md r)) (r_prov r).

(* bytes.Equal on the two byte fields (nil = empty), identity on the provider *)
Definition pinfo_eqb (a b : pinfo) : bool :=
  (pi_id a =? pi_id b) && Bool.eqb (pi_ok a) (pi_ok b) && list_eqb addr_eqb (pi_addrs a) (pi_addrs b).
Definition presult_eqv (a b : presult) : bool :=
  bytes_eqb (mcontent (r_ctx a)) (mcontent (r_ctx b)) &&
  bytes_eqb (mcontent (r_md a)) (mcontent (r_md b)) &&
  option_eqb pinfo_eqb (r_prov a) (r_prov b).

(* exact equality, nil-ness included (for comparing with what Go decoded) *)
Definition mbytes_eqb (a b : mbytes) : bool := option_eqb bytes_eqb a b.
Definition presult_eqb (a b : presult) : bool :=
  mbytes_eqb (r_ctx a) (r_ctx b) && mbytes_eqb (r_md a) (r_md b) &&
  option_eqb pinfo_eqb (r_prov a) (r_prov b).

(* a result the client can read: the provider's ID and addresses have a text form the
   decoder accepts (not the empty peer ID, no nil multiaddr) *)
Definition wf_pinfo (p : pinfo) : bool := pi_ok p && forallb a_ok (pi_addrs p).
Definition wf_result (r : presult) : bool :=
  match r_prov r with None => true | Some p => wf_pinfo p end.

(* ================================================================ *)
(* 6. ProviderResponseWriter and the handler                         *)

Inductive ctype := CtJson | CtNd | CtText.
Definition ctype_eqb (a b : ctype) : bool :=
  match a, b with CtJson, CtJson => true | CtNd, CtNd => true | CtText, CtText => true | _, _ => false end.

Inductive body :=
| BErr (class : N)          (* text/plain error written with http.Error *)
| BLines (l : list jv)      (* one JSON value per line, each followed by '\n' *)
| BDoc (d : jv).            (* one JSON document *)

Record response := RESP { s_status : N; s_ctype : ctype; s_body : body }.

Record pwstate := PW {
  pw_w : writer;
  pw_count : nat;
  pw_buf : list presult;     (* result.ProviderResults (JSON mode) *)
  pw_wire : list jv }.       (* lines already encoded and flushed (NDJSON mode) *)

(* NewProviderResponseWriter dereferences its argument *)
Definition new_pw (w : option writer) : res pwstate :=
  match w with
  | None => Panic 1
  | Some w => Ok (PW w 0 [] [])
  end.

Definition pw_write (s : pwstate) (r : presult) : pwstate :=
  match w_mode (pw_w s) with
  | ND => PW (pw_w s) (S (pw_count s)) (pw_buf s) (pw_wire s ++ [enc_result r])
  | JS => PW (pw_w s) (S (pw_count s)) (pw_buf s ++ [r]) (pw_wire s)
  end.

(* Close: Err ENotFound (apierror 404) | what is on the wire afterwards *)
Definition pw_close (s : pwstate) : res body :=
  match pw_count s with
  | O => Err ENotFound
  | _ => match w_mode (pw_w s) with
         | ND => Ok (BLines (pw_wire s))
         | JS => Ok (BDoc (enc_findresp [(w_mh (pw_w s), Some (pw_buf s))]))
         end
  end.

Definition mode_ctype (m : mode) : ctype := match m with ND => CtNd | JS => CtJson end.

Inductive outcome := Responded (r : response) | Panicked.

(* the handler: New; on error http.Error(status of the API error); write all; Close; on
   error http.Error *)
Definition handler_with (nw : request -> res writer) (q : request) (rs : list presult) : outcome :=
  match nw q with
  | Err c => Responded (RESP 400 CtText (BErr c))
  | Panic _ => Panicked
  | Ok w =>
    match new_pw (Some w) with
    | Ok s0 =>
      let s := fold_left pw_write rs s0 in
      match pw_close s with
      | Ok b => Responded (RESP 200 (mode_ctype (w_mode w)) b)
      | Err c => Responded (RESP 404 CtText (BErr c))
      | Panic _ => Panicked
      end
    | _ => Panicked
    end
  end.

Definition handler_v0 := handler_with new_writer_v0.
Definition handler := handler_with new_writer.

(* ================================================================ *)
(* 7. Readers                                                        *)

Definition EStatus := 30.     (* "find query failed: <status text>" *)

(* client.Find on the response: 404 => empty response, no error; other non-200 => error;
   200 => json.Unmarshal of the whole body into a FindResponse *)
Definition client_read (r : response) : res findresp :=
  if s_status r =? 404 then Ok []
  else if negb (s_status r =? 200) then Err EStatus
  else match s_body r with
       | BDoc d => dec_findresp d
       | BLines [d] => dec_findresp d
       | _ => Err EJson
       end.

(* a streaming reader: every line decoded on its own *)
Definition nd_read (r : response) : res (list presult) :=
  if negb (s_status r =? 200) then Err EStatus
  else match s_body r with
       | BLines l => map_res dec_result l
       | _ => Err EJson
       end.

(* the request client.Find sends for multihash m: GET <base>/multihash/<base58 m>.
   v0 sets only Content-Type (no Accept header); repaired: Accept: application/json.
   [kt] is the base58 text, [hexv]/[cidv] what the other two decoders happen to say. *)
Definition mh_type : bytes := [109; 117; 108; 116; 105; 104; 97; 115; 104].   (* "multihash" *)
Definition cid_type : bytes := [99; 105; 100].                                  (* "cid" *)

Definition client_path (kt : bytes) : bytes := 47 :: mh_type ++ 47 :: kt.

Definition client_request_v0 (prefer : bool) (kt m : bytes) (hexv cidv : option bytes) : request :=
  REQ prefer mh_type cid_type [] (client_path kt) (KV (Some m) hexv cidv).
Definition client_request (prefer : bool) (kt m : bytes) (hexv cidv : option bytes) : request :=
  REQ prefer mh_type cid_type [[MTJson]] (client_path kt) (KV (Some m) hexv cidv).

Definition outcome_read (o : outcome) : res findresp :=
  match o with
  | Responded r => client_read r
  | Panicked => Panic 2
  end.

(* FindBatch over a finder: not-found and empty answers are skipped, the others are
   concatenated in request order, the first error aborts *)
Fixpoint find_batch (find : bytes -> res findresp) (mhs : list bytes) : res findresp :=
  match mhs with
  | [] => Ok []
  | m :: r => x <- find m ;; y <- find_batch find r ;; Ok (x ++ y)
  end.

(* ================================================================ *)
(* 8. API errors                                                     *)

(* what EncodeError sees of an error: err.Error() and, when errors.As finds an
   *apierror.Error, its status *)
Record aerr := AE { ae_msg : bytes; ae_status : option Z }.

Definition status_of (e : aerr) : Z := match ae_status e with Some s => s | None => 0%Z end.

(* ErrorMessage{Message string `json:",omitempty"`; Status int `json:",omitempty"`} *)
Definition encode_error (e : option aerr) : option jv :=
  match e with
  | None => None
  | Some e =>
    Some (JObj (opt_field FMessage (negb (is_nil (ae_msg e))) (JStr (ae_msg e)) ++
                opt_field FStatus (negb (Z.eqb (status_of e) 0)) (JInt (status_of e))))
  end.

(* DecodeError: no data => nil; Status 0 => a plain error, else an *apierror.Error *)
Definition decode_error (d : option jv) : res (option aerr) :=
  match d with
  | None => Ok None
  | Some (JObj l) =>
    msg <- match lookup FMessage l with
           | None | Some JNull => Ok []
           | Some (JStr s) => Ok s
           | _ => Err EJson
           end ;;
    st <- match lookup FStatus l with
          | None | Some JNull => Ok 0%Z
          | Some (JInt z) => Ok z
          | _ => Err EJson
          end ;;
    Ok (Some (AE msg (if Z.eqb st 0 then None else Some st)))
  | Some JNull => Ok (Some (AE [] None))
  | _ => Err EJson
  end.

(* the text/plain form: http.Error(w, msg, status) writes msg ++ "\n";
   apierror.FromResponse(status, body) trims it; an empty text gives an error without
   message (whose Error() is the status text) *)
Definition http_error_body (msg : bytes) : bytes := msg ++ [10].
Definition from_response (status : Z) (bodyb : bytes) : option (option bytes * Z) :=
  let t := trim_space bodyb in
  let m := if is_nil t then None else Some t in
  if Z.eqb status 0 then (match m with None => None | Some _ => Some (m, 0%Z) end)
  else Some (m, status).

(* ================================================================ *)
(* 8b. Specification predicates used in the theorem statements       *)
(* (written from the property text: they do not use the scan / switch code of sections 1-4,
   only the path functions, the decoders' verdicts and mh_valid) *)

Definition is_mterr (e : mt) : bool := match e with MTErr => true | _ => false end.
Definition admits_nd (e : mt) : bool := match e with MTNd | MTAny => true | _ => false end.
Definition admits_json (e : mt) : bool := match e with MTJson | MTAny => true | _ => false end.
Definition supported (e : mt) : bool := admits_nd e || admits_json e.

Definition has_malformed (a : list (list mt)) : bool := existsb (existsb is_mterr) a.
Definition has_supported (a : list (list mt)) : bool := existsb (existsb supported) a.

Definition no_slash (l : bytes) : bool := negb (existsb (fun c => c =? 47) l).

(* a key text as client.Find writes it: one non-empty path element without white space
   at either end *)
Definition plain_key (kt : bytes) : bool :=
  no_slash kt &&
  match kt with [] => false | c :: _ => negb (is_ws c) end &&
  match rev kt with [] => false | c :: _ => negb (is_ws c) end.

(* a well-formed key: some reading of the text, under the path's resource type, is a
   multihash *)
Definition good_key (t : ptype) (k : keyv) : bool :=
  match t with
  | PMh => match k_b58 k with
           | Some b => mh_valid b
           | None => false
           end ||
           match k_hex k with
           | Some h => mh_valid h
           | None => false
           end
  | PCid => match k_cid k with
            | Some c => mh_valid c
            | None => false
            end
  end.

(* the element before the last one names a resource type *)
Definition good_type (mhtype cidtype p : bytes) : bool :=
  let t := path_base (path_dir p) in bytes_eqb t mhtype || bytes_eqb t cidtype.

Definition type_of (mhtype cidtype p : bytes) : ptype :=
  if bytes_eqb (path_base (path_dir p)) mhtype then PMh else PCid.

Definition good_accept (prefer : bool) (a : list (list mt)) : bool :=
  negb (has_malformed a) && (if is_nil a then prefer else has_supported a).

Definition good_request (q : request) : bool :=
  good_accept (q_prefer q) (q_accepts q) &&
  good_type (q_mhtype q) (q_cidtype q) (q_path q) &&
  good_key (type_of (q_mhtype q) (q_cidtype q) (q_path q)) (q_key q).

Definition batch_item := (bytes * bytes * list presult)%type.   (* key text, multihash, results held *)
Definition item_ok (it : batch_item) : bool :=
  let '(kt, m, rs) := it in plain_key kt && mh_valid m && forallb wf_result rs.
Definition item_request (prefer : bool) (it : batch_item) : request * list presult :=
  let '(kt, m, rs) := it in (client_request prefer kt m None None, rs).
Definition item_expected (it : batch_item) : findresp :=
  let '(kt, m, rs) := it in if is_nil rs then [] else [(m, map canon rs)].

Definition plain_msg (m : bytes) : bool :=
  match m with [] => false | c :: _ => negb (is_ws c) end &&
  match rev m with [] => false | c :: _ => negb (is_ws c) end.

(* ================================================================ *)
(* 9. Case checkers (the harness writes the inputs and what the real code did) *)

Definition res_eqb {A} (eqb : A -> A -> bool) (a b : res A) : bool :=
  match a, b with
  | Ok x, Ok y => eqb x y
  | Err c, Err d => c =? d
  | Panic _, Panic _ => true
  | _, _ => false
  end.

(* -- negotiation: (prefer, accepts, observed) -- *)
Definition neg_case := (bool * list (list mt) * res mode)%type.
Definition neg_case_ok (c : neg_case) : bool :=
  let '(prefer, accepts, obs) := c in res_eqb mode_eqb (negotiate prefer accepts) obs.
Definition neg_v0_case_ok (c : neg_case) : bool :=
  let '(prefer, accepts, obs) := c in res_eqb mode_eqb (negotiate_v0 prefer accepts) obs.

(* -- paths: (path, Base, Base(Dir), key text) as Go computed them -- *)
Definition path_case := (bytes * bytes * bytes * bytes)%type.
Definition path_case_ok (c : path_case) : bool :=
  let '(p, b, t, k) := c in
  bytes_eqb (path_base p) b && bytes_eqb (path_base (path_dir p)) t && bytes_eqb (key_text p) k.

(* -- multihash.Decode: (bytes, observed code or error) -- *)
Definition mhd_case := (bytes * res N)%type.
Definition mhd_case_ok (c : mhd_case) : bool :=
  let '(b, obs) := c in res_eqb N.eqb (mh_decode b) obs.

(* -- rwriter.New: (request, key text, observed (mode, type, multihash, code) or class) -- *)
Definition writer_eqb (a b : writer) : bool :=
  mode_eqb (w_mode a) (w_mode b) && ptype_eqb (w_ptype a) (w_ptype b) &&
  bytes_eqb (w_mh a) (w_mh b) && (w_code a =? w_code b).
Definition new_case := (request * bytes * res writer)%type.
Definition new_case_ok (c : new_case) : bool :=
  let '(q, kt, obs) := c in
  bytes_eqb (key_text (q_path q)) kt && res_eqb writer_eqb (new_writer q) obs.
Definition new_v0_case_ok (c : new_case) : bool :=
  let '(q, kt, obs) := c in
  bytes_eqb (key_text (q_path q)) kt && res_eqb writer_eqb (new_writer_v0 q) obs.

(* -- end to end: request, results written; observed response (status, content type,
      body as a tree / error class), and what the reader obtained -- *)
Definition body_eqb (a b : body) : bool :=
  match a, b with
  | BErr x, BErr y => x =? y
  | BLines x, BLines y => list_eqb jv_eqb x y
  | BDoc x, BDoc y => jv_eqb x y
  | _, _ => false
  end.
Definition response_eqb (a b : response) : bool :=
  (s_status a =? s_status b) && ctype_eqb (s_ctype a) (s_ctype b) && body_eqb (s_body a) (s_body b).
Definition outcome_eqb (a b : outcome) : bool :=
  match a, b with
  | Responded x, Responded y => response_eqb x y
  | Panicked, Panicked => true
  | _, _ => false
  end.
Definition mhres_eqb (a b : bytes * list presult) : bool :=
  bytes_eqb (fst a) (fst b) && list_eqb presult_eqb (snd a) (snd b).
Definition findresp_eqb := list_eqb mhres_eqb.

(* request, results the handler writes, observed response, what client.Find returned for
   that response, what the line-by-line reader returned *)
Definition e2e_case := (request * list presult * outcome * res findresp * res (list presult))%type.
Definition lines_read (o : outcome) : res (list presult) :=
  match o with Responded r => nd_read r | Panicked => Panic 2 end.
Definition e2e_check (h : request -> list presult -> outcome) (c : e2e_case) : bool :=
  let '(q, rs, obs, outc, outl) := c in
  outcome_eqb (h q rs) obs &&
  res_eqb findresp_eqb (outcome_read (h q rs)) outc &&
  res_eqb (list_eqb presult_eqb) (lines_read (h q rs)) outl.
Definition e2e_case_ok := e2e_check handler.
Definition e2e_v0_case_ok := e2e_check handler_v0.

(* -- FindBatch through the real client: per multihash the request the client sent and the
      results the server holds for it; observed merged response -- *)
Definition batch_case := (list (request * list presult) * res findresp)%type.
Fixpoint batch_model (l : list (request * list presult)) : res findresp :=
  match l with
  | [] => Ok []
  | (q, rs) :: r => x <- outcome_read (handler q rs) ;; y <- batch_model r ;; Ok (x ++ y)
  end.
Definition batch_case_ok (c : batch_case) : bool :=
  let '(l, obs) := c in res_eqb findresp_eqb (batch_model l) obs.

(* -- client histories: a sequence of Find / FindBatch calls on one process; the server's
      answer to a request may be healthy, cut in mid-body (200 head with the full
      Content-Length, then the connection closes), or a 5xx.  The client keeps no state
      between calls: what a call returns is a function of the answers to ITS requests. -- *)
Definition ETransport := 31.   (* the body could not be read to its end *)

Inductive hfault := HNoFault | HCutBody | HStatus5xx.
Definition served := (request * list presult * hfault)%type.

Definition served_read (s : served) : res findresp :=
  let '(q, rs, f) := s in
  match f with
  | HNoFault => outcome_read (handler q rs)
  | HStatus5xx => Err EStatus
  | HCutBody =>
    match handler q rs with
    | Responded r => if s_status r =? 200 then Err ETransport else client_read r
    | Panicked => Panic 2
    end
  end.

(* one client call: Find makes one request; FindBatch one per multihash, in order, the
   first error aborts (the list holds the requests that were made) *)
Fixpoint call_read (l : list served) : res findresp :=
  match l with
  | [] => Ok []
  | s :: r => x <- served_read s ;; y <- call_read r ;; Ok (x ++ y)
  end.

Definition hist_results (h : list (list served)) : list (res findresp) := map call_read h.

Definition hist_case := list (list served * res findresp).
Definition hist_case_ok (h : hist_case) : bool :=
  list_eqb (res_eqb findresp_eqb) (hist_results (map fst h)) (map snd h).

(* -- ResponseWriter as an http.ResponseWriter (rwriter/response_writer.go L172-L193):
      WriteHeader forwards every status except 200 and remembers the last one forwarded;
      StatusCode answers 200 until then.  On the wire the FIRST forwarded status counts. -- *)
Definition rw_status_after (calls : list N) : N :=
  fold_left (fun st c => if c =? 200 then st else c) calls 200.
Definition wire_status_after (calls : list N) : N :=
  match filter (fun c => negb (c =? 200)) calls with
  | [] => 200
  | c :: _ => c
  end.
Definition wrap_case := (list N * N * N)%type.     (* WriteHeader calls, StatusCode(), status on the wire *)
Definition wrap_case_ok (c : wrap_case) : bool :=
  let '(calls, sc, wire) := c in
  (rw_status_after calls =? sc) && (wire_status_after calls =? wire).

(* -- MatchQueryParam(r, key, value): (present, matched).  The URL query is parsed by Go;
      [labels] = r.URL.Query()[key], None when the key is absent. -- *)
Definition match_query (labels : option (list bytes)) (value : bytes) : bool * bool :=
  match labels with
  | None => (false, false)
  | Some ls => (true, existsb (bytes_eqb value) ls)
  end.
Definition mqp_case := (option (list bytes) * bytes * (bool * bool))%type.
Definition mqp_case_ok (c : mqp_case) : bool :=
  let '(labels, value, obs) := c in
  let '(p, m) := match_query labels value in
  Bool.eqb p (fst obs) && Bool.eqb m (snd obs).

(* -- apierror.Error.Text(): "<status>[ <status text>][: ]<message>"; the decimal form of the
      status and http.StatusText are data supplied by the harness -- *)
Definition error_text (status : Z) (dec sttext : bytes) (msg : option bytes) : bytes :=
  let parts := if Z.eqb status 0 then [] else dec ++ (if is_nil sttext then [] else 32 :: sttext) in
  match msg with
  | None => parts
  | Some m => (if is_nil parts then [] else parts ++ [58; 32]) ++ m
  end.
Definition aetext_case := (Z * bytes * bytes * option bytes * bytes)%type.
Definition aetext_case_ok (c : aetext_case) : bool :=
  let '(st, dec, sttext, msg, obs) := c in bytes_eqb (error_text st dec sttext msg) obs.

(* -- model.MarshalFindResponse of any FindResponse, read by UnmarshalFindResponse -- *)
Definition mfr_case := (list (bytes * option (list presult)) * jv * res findresp)%type.
Definition mfr_case_ok (c : mfr_case) : bool :=
  let '(l, tree, back) := c in
  jv_eqb (enc_findresp l) tree && res_eqb findresp_eqb (dec_findresp (enc_findresp l)) back.

(* -- API errors: input, observed tree, observed decode -- *)
Definition aerr_eqb (a b : aerr) : bool :=
  bytes_eqb (ae_msg a) (ae_msg b) && option_eqb Z.eqb (ae_status a) (ae_status b).
Definition apierr_case := (option aerr * option jv * res (option aerr))%type.
Definition apierr_case_ok (c : apierr_case) : bool :=
  let '(e, tree, back) := c in
  option_eqb jv_eqb (encode_error e) tree &&
  res_eqb (option_eqb aerr_eqb) (decode_error (encode_error e)) back.

(* -- text/plain errors: (message, status, observed (message option, status) option) -- *)
Definition httperr_case := (bytes * Z * option (option bytes * Z))%type.
Definition httperr_case_ok (c : httperr_case) : bool :=
  let '(msg, st, obs) := c in
  option_eqb (fun a b => option_eqb bytes_eqb (fst a) (fst b) && Z.eqb (snd a) (snd b))
             (from_response st (http_error_body msg)) obs.
