(* C18 -- signed ingest and register requests (ingest/model/{model,ingest_request,
   register_request}.go) over libp2p signed envelopes (core/record).

   Modelled concretely: the buffer that is signed (SymCrypto.unsigned), the domain
   and payload-type constants (taken from the REGENERATED Gen_Consts for the ingest
   request; libp2p's for the peer record), the payload-type registry look-up, the
   type assertion, the signer/provider comparison, the argument checks of the
   constructors.
   Abstract (Section variables): the signature scheme and peer IDs (SymCrypto), the
   record codecs (encoding/json for IngestRequest, protobuf for peer.PeerRecord) and
   multiaddr text parsing.  The protobuf framing of the envelope itself is not
   modelled: a wire value is [None] (does not parse) or [Some envelope].

   [read_ingest_v0] is ReadIngestRequest as it was before
   pending/C18-fix-ingest-signer.diff (envelope key discarded); [read_ingest] is the
   repaired function. *)
From Lib Require Import Bytes Varint SymCrypto.
From Gen Require Import Gen_Consts.
From Coq Require Import String.
Open Scope N_scope.

(* IngestRequestEnvelopeDomain / IngestRequestEnvelopePayloadType: regenerated from
   ingest/model/ingest_request.go on every run *)
Definition ingest_dom : bytes := bytes_of_string model_IngestRequestEnvelopeDomain.
Definition ingest_type : bytes := bytes_of_string model_IngestRequestEnvelopePayloadType.
(* peer.PeerRecordEnvelopeDomain / PeerRecordEnvelopePayloadType (go-libp2p v0.41.1;
   the harness compares them with the linked library at start-up: family "consts") *)
Definition peer_dom : bytes := bytes_of_string "libp2p-peer-record".
Definition peer_type : bytes := [3; 1].

(* error classes (the harness compares Ok/Err only; the classes document the path) *)
Definition EUnregistered := 50.   (* record.ErrPayloadTypeNotRegistered *)
Definition EUnmarshal := 51.      (* payload does not decode as the registered type *)
Definition EWrongType := 52.      (* type assertion failed *)
Definition ENotSigner := 53.      (* "request not signed by provider" *)
Definition ENoAddress := 54.      (* MakeRegisterRequest: "missing address" *)
Definition EBadAddress := 55.     (* MakeRegisterRequest: "bad address" *)

Section C18.
  Variables privkey pubkey sigt peerid : Type.
  Variable pub : privkey -> pubkey.
  Variable sign : privkey -> bytes -> sigt.
  Variable verify : pubkey -> bytes -> sigt -> bool.
  Variable peer_id : pubkey -> peerid.
  Variable peerid_eqb : peerid -> peerid -> bool.     (* Go string equality on peer.ID *)

  (* model.IngestRequest *)
  Record ingest_req := IngestReq {
    ir_mh : bytes; ir_provider : peerid; ir_ctx : bytes; ir_md : bytes;
    ir_addrs : list bytes;     (* address strings, uninterpreted by this request type *)
    ir_seq : N
  }.
  (* peer.PeerRecord *)
  Record peer_rec := PeerRec {
    pr_peer : peerid;
    pr_addrs : list bytes;     (* binary multiaddrs *)
    pr_seq : N
  }.
  Inductive record := RIngest (r : ingest_req) | RPeer (r : peer_rec).

  (* codecs: IngestRequest.MarshalRecord/UnmarshalRecord (encoding/json),
     PeerRecord.MarshalRecord/UnmarshalRecord (protobuf); multiaddr.NewMultiaddr *)
  Variable enc_ingest : ingest_req -> bytes.
  Variable dec_ingest : bytes -> option ingest_req.
  Variable enc_peer : peer_rec -> bytes.
  Variable dec_peer : bytes -> option peer_rec.
  Variable maddr_parse : bytes -> option bytes.

  Definition wire := option (envelope pubkey sigt).

  (* record.unmarshalRecordPayload: registry look-up by payload type, then the
     registered type's UnmarshalRecord.  The registry of a process linking go-libipni
     and libp2p core holds exactly these two types (circuitv2's voucher is keyed
     0x0302 and fails the type assertions below like any unknown type would). *)
  Definition unmarshal_record (ty pl : bytes) : res record :=
    if bytes_eqb ty ingest_type then
      match dec_ingest pl with Some r => Ok (RIngest r) | None => Err EUnmarshal end
    else if bytes_eqb ty peer_type then
      match dec_peer pl with Some r => Ok (RPeer r) | None => Err EUnmarshal end
    else Err EUnregistered.

  (* record.ConsumeEnvelope(data, domain) *)
  Definition consume_envelope (w : wire) (dom : bytes) : res (envelope pubkey sigt * record) :=
    e <- consume verify w dom ;;
    r <- unmarshal_record (e_ty e) (e_payload e) ;;
    Ok (e, r).

  (* ReadIngestRequest before the fix: the envelope (and with it the key) is dropped *)
  Definition read_ingest_v0 (w : wire) : res ingest_req :=
    '(_, r) <- consume_envelope w ingest_dom ;;
    match r with RIngest q => Ok q | _ => Err EWrongType end.

  (* ReadIngestRequest, repaired: the signer must be the provider named *)
  Definition read_ingest (w : wire) : res ingest_req :=
    '(e, r) <- consume_envelope w ingest_dom ;;
    match r with
    | RIngest q => if peerid_eqb (peer_id (e_key e)) (ir_provider q) then Ok q else Err ENotSigner
    | _ => Err EWrongType
    end.

  (* ReadRegisterRequest *)
  Definition read_register (w : wire) : res peer_rec :=
    '(e, r) <- consume_envelope w peer_dom ;;
    match r with
    | RPeer q => if peerid_eqb (peer_id (e_key e)) (pr_peer q) then Ok q else Err ENotSigner
    | _ => Err EWrongType
    end.

  (* makeRequestEnvelop: Seal then Marshal *)
  Definition make_envelope (dom ty pl : bytes) (k : privkey) : res wire :=
    e <- seal pub sign dom ty pl k ;; Ok (Some e).

  (* MakeIngestRequest (seq = peer.TimestampSeq(), an input here) *)
  Definition make_ingest (provider : peerid) (k : privkey) (mh ctx md : bytes)
             (addrs : list bytes) (seq : N) : res wire :=
    make_envelope ingest_dom ingest_type (enc_ingest (IngestReq mh provider ctx md addrs seq)) k.

  Fixpoint parse_addrs (l : list bytes) : res (list bytes) :=
    match l with
    | [] => Ok []
    | a :: r =>
      match maddr_parse a with
      | None => Err EBadAddress
      | Some m => ms <- parse_addrs r ;; Ok (m :: ms)
      end
    end.

  (* MakeRegisterRequest (seq = the TimestampSeq of peer.NewPeerRecord()) *)
  Definition make_register (provider : peerid) (k : privkey) (addrs : list bytes) (seq : N) : res wire :=
    if is_nil addrs then Err ENoAddress else
    ms <- parse_addrs addrs ;;
    make_envelope peer_dom peer_type (enc_peer (PeerRec provider ms seq)) k.
End C18.

Arguments IngestReq {peerid} _ _ _ _ _ _.
Arguments ir_mh {peerid} _.
Arguments ir_provider {peerid} _.
Arguments ir_ctx {peerid} _.
Arguments ir_md {peerid} _.
Arguments ir_addrs {peerid} _.
Arguments ir_seq {peerid} _.
Arguments PeerRec {peerid} _ _ _.
Arguments pr_peer {peerid} _.
Arguments pr_addrs {peerid} _.
Arguments pr_seq {peerid} _.
Arguments RIngest {peerid} _.
Arguments RPeer {peerid} _.
Arguments unmarshal_record {peerid} dec_ingest dec_peer ty pl.
Arguments consume_envelope {pubkey sigt peerid} verify dec_ingest dec_peer w dom.
Arguments read_ingest_v0 {pubkey sigt peerid} verify dec_ingest dec_peer w.
Arguments read_ingest {pubkey sigt peerid} verify peer_id peerid_eqb dec_ingest dec_peer w.
Arguments read_register {pubkey sigt peerid} verify peer_id peerid_eqb dec_ingest dec_peer w.
Arguments make_envelope {privkey pubkey sigt} pub sign dom ty pl k.
Arguments make_ingest {privkey pubkey sigt peerid} pub sign enc_ingest provider k mh ctx md addrs seq.
Arguments make_register {privkey pubkey sigt peerid} pub sign enc_peer maddr_parse provider k addrs seq.

(* ------------------------------------------------------------------ *)
(* Case checker: the model on the symbolic instance against what the real functions
   did.  The harness parses the bytes it presents with the real protobuf / key
   decoders and names keys by their index in its key pool, peer IDs by the index of
   the pool key they belong to (other IDs: 1000+), signatures by who signed what. *)

Definition sreq := ingest_req Sym.peerid.
Definition sprec := peer_rec Sym.peerid.

Inductive sigd :=
| SdSelf (k : N) (dom : bytes)          (* signature by k over (dom, this envelope's type and payload) *)
| SdOver (k : N) (dom ty pl : bytes)    (* signature by k over another (dom, type, payload) *)
| SdJunk (n : N).                       (* bytes no signing produced *)

Record wenv := WEnv { w_key : N; w_ty : bytes; w_pl : bytes; w_sig : sigd }.

Definition sym_env (w : wenv) : envelope Sym.pubkey Sym.sigt :=
  Envelope (w_key w) (w_ty w) (w_pl w)
    match w_sig w with
    | SdSelf k dom => Sym.Sig k (unsigned dom (w_ty w) (w_pl w))
    | SdOver k dom ty pl => Sym.Sig k (unsigned dom ty pl)
    | SdJunk n => Sym.Junk n
    end.

Definition req_eqb (a b : sreq) : bool :=
  bytes_eqb (ir_mh a) (ir_mh b) && (ir_provider a =? ir_provider b) && bytes_eqb (ir_ctx a) (ir_ctx b) &&
  bytes_eqb (ir_md a) (ir_md b) && list_eqb bytes_eqb (ir_addrs a) (ir_addrs b) && (ir_seq a =? ir_seq b).
Definition prec_eqb (a b : sprec) : bool :=
  (pr_peer a =? pr_peer b) && list_eqb bytes_eqb (pr_addrs a) (pr_addrs b) && (pr_seq a =? pr_seq b).

Inductive outcome (A : Type) := OOk (a : A) | OErr | OPanic.
Arguments OOk {A} a.
Arguments OErr {A}.
Arguments OPanic {A}.

Definition out_match {A} (eqb : A -> A -> bool) (m : res A) (o : outcome A) : bool :=
  match m, o with
  | Ok a, OOk b => eqb a b
  | Err _, OErr => true
  | Panic _, OPanic => true
  | _, _ => false
  end.

(* one presentation of bytes to one reader.
   rc_dec_*: what the payload decodes to when given to the record type's own
   UnmarshalRecord by the harness (codec layer = data of the case). *)
Inductive reader := RdIngest | RdRegister.
Record read_case := ReadCase {
  rc_reader : reader;
  rc_wire : option wenv;
  rc_dec_ingest : option sreq;
  rc_dec_peer : option sprec;
  rc_obs_ingest : outcome sreq;       (* used when rc_reader = RdIngest *)
  rc_obs_peer : outcome sprec         (* used when rc_reader = RdRegister *)
}.

Definition dummy_enc_i (_ : sreq) : bytes := [].
Definition dummy_enc_p (_ : sprec) : bytes := [].

Definition read_case_ok (c : read_case) : bool :=
  let w := option_map sym_env (rc_wire c) in
  let di := fun _ : bytes => rc_dec_ingest c in
  let dp := fun _ : bytes => rc_dec_peer c in
  match rc_reader c with
  | RdIngest =>
    out_match req_eqb (read_ingest Sym.verify Sym.peer_id Sym.peerid_eqb di dp w) (rc_obs_ingest c)
  | RdRegister =>
    out_match prec_eqb (read_register Sym.verify Sym.peer_id Sym.peerid_eqb di dp w) (rc_obs_peer c)
  end.

(* the same case against the code before the fix (used only by the _refuted example
   and by `-replay` output; never by a case file) *)
Definition read_case_ok_v0 (c : read_case) : bool :=
  let w := option_map sym_env (rc_wire c) in
  match rc_reader c with
  | RdIngest =>
    out_match req_eqb (read_ingest_v0 Sym.verify (fun _ => rc_dec_ingest c) (fun _ => rc_dec_peer c) w) (rc_obs_ingest c)
  | RdRegister => read_case_ok c
  end.

(* constructors: inputs, the payload bytes the real constructor produced, and the
   parsed view of the bytes it returned (None with mk_err = true when it failed) *)
Record make_case := MakeCase {
  mk_reader : reader;                (* which constructor *)
  mk_provider : N; mk_key : N;
  mk_mh : bytes; mk_ctx : bytes; mk_md : bytes;
  mk_addrs : list (bytes * option bytes);   (* text, and its binary multiaddr if it parses *)
  mk_seq : N;
  mk_payload : bytes;                (* observed payload = enc of the record *)
  mk_obs : option wenv               (* observed result, None = error *)
}.

Fixpoint assoc (k : bytes) (l : list (bytes * option bytes)) : option bytes :=
  match l with
  | [] => None
  | (a, v) :: r => if bytes_eqb a k then v else assoc k r
  end.

Definition make_case_ok (c : make_case) : bool :=
  let texts := List.map fst (mk_addrs c) in
  let r :=
    match mk_reader c with
    | RdIngest =>
      make_ingest Sym.pub Sym.sign (fun _ => mk_payload c) (mk_provider c) (mk_key c)
                  (mk_mh c) (mk_ctx c) (mk_md c) texts (mk_seq c)
    | RdRegister =>
      make_register Sym.pub Sym.sign (fun _ => mk_payload c) (fun a => assoc a (mk_addrs c))
                    (mk_provider c) (mk_key c) texts (mk_seq c)
    end in
  match r, mk_obs c with
  | Ok (Some e), Some o =>
    (e_key e =? w_key o) && bytes_eqb (e_ty e) (w_ty o) && bytes_eqb (e_payload e) (w_pl o) &&
    Sym.sig_eqb (e_sig e) (e_sig (sym_env o))
  | Err _, None => true
  | _, _ => false
  end.

(* constants of the linked libraries *)
Record consts_case := ConstsCase {
  cc_ingest_dom : bytes; cc_ingest_type : bytes; cc_peer_dom : bytes; cc_peer_type : bytes
}.
Definition consts_case_ok (c : consts_case) : bool :=
  bytes_eqb (cc_ingest_dom c) ingest_dom && bytes_eqb (cc_ingest_type c) ingest_type &&
  bytes_eqb (cc_peer_dom c) peer_dom && bytes_eqb (cc_peer_type c) peer_type.

(* makeUnsigned against the real one (through a hook-free route: the harness signs
   the model-side layout itself and checks that the real verifier accepts it; here
   the layout bytes the harness computed must be the model's) *)
Record unsigned_case := UnsignedCase { uc_dom : bytes; uc_ty : bytes; uc_pl : bytes; uc_out : bytes }.
Definition unsigned_case_ok (c : unsigned_case) : bool :=
  bytes_eqb (unsigned (uc_dom c) (uc_ty c) (uc_pl c)) (uc_out c).
