(* maurl.FromURL / maurl.ToURL (maurl/convert.go) together with the parts of
   go-multiaddr v0.15.0 they go through: NewComponent + the http-path transcoder
   (transcoders.go httpPathStB / httpPathBtS), the dns and port transcoders'
   rejections, Multiaddr.String, ValueForProtocol (first match), and
   manet.DialArgs / dialArgComponents (net/convert.go).

   Executable definitions only.  Two versions of the path handling are kept:
     from_url_v0 / to_url_v0  -- the code before pending/C20-fix-http-path-escaping.diff
                                 (FromURL: url.PathEscape, ToURL: url.PathUnescape)
     from_url / to_url        -- the repaired code (FromURL: url.QueryEscape,
                                 ToURL: url.QueryUnescape for http-path,
                                 url.PathUnescape for the legacy httpath)
   The case checkers use the repaired version.

   Abstractions (validated by the correspondence cases, see design-notes/C20.md):
   * a URL is (scheme, host kind, host text without brackets, port option, u.Path
     bytes); the host kind is what net.ParseIP decides (IPv4 literal, IPv6 literal
     that is not IPv4-mapped and has no zone, otherwise a DNS name); IP text is the
     canonical text Go prints (net.IP.String), so the ip4/ip6 transcoders are the
     identity on it;
   * a multiaddr is its component list; only the component kinds ToURL looks at are
     distinguished, everything else is COther;
   * errors are one class per cause, and only Ok/Err is compared with Go. *)
From Lib Require Import Bytes Escape.
Open Scope N_scope.

Inductive scheme := SHttp | SHttps | SWs | SWss.
Inductive hostk := HIp4 | HIp6 | HDns.

Record url := {
  u_scheme : scheme;
  u_hkind : hostk;
  u_host : bytes;          (* u.Hostname(): no brackets *)
  u_port : option N;       (* u.Port(): None when empty *)
  u_path : bytes           (* u.Path: the decoded path *)
}.

Inductive comp :=
| CIp4 (v : bytes) | CIp6 (v : bytes) | CIp6Zone (v : bytes)
| CDns (v : bytes) | CDns4 (v : bytes) | CDns6 (v : bytes)
| CTcp (p : N) | CUdp (p : N)
| CHttp | CHttps | CTls | CWs | CWss
| CHttpPath (b : bytes)      (* http-path (code 481): b = raw value = the path bytes *)
| CHttpath (b : bytes)       (* legacy httpath (code 0x300200): raw value = string value *)
| COther (str : bytes).      (* any other component; str = its String() without the leading slash *)

Definition maddr := list comp.

(* what ToURL returns: url.URL{Scheme, Host, Path} *)
Record urlout := { o_scheme : scheme; o_host : bytes; o_path : bytes }.

(* error classes *)
Definition EEmptyDns := 10.
Definition EDnsSlash := 11.
Definition EPort := 12.
Definition EEmptyPath := 13.
Definition ENotThinWaist := 14.
Definition EZone := 15.

(* ---------------------------------------------------------------- *)
(* text helpers                                                       *)

Definition ascii_bytes (s : list N) := s.
Definition cCOLON := 58.
Definition cLBR := 91.
Definition cRBR := 93.

(* strconv.FormatUint(n, 10) *)
Fixpoint dec_f (fuel : nat) (n : N) (acc : bytes) : bytes :=
  match fuel with
  | O => acc
  | S f => let acc' := (48 + n mod 10) :: acc in
           if n <? 10 then acc' else dec_f f (n / 10) acc'
  end.
Definition dec (n : N) : bytes := dec_f 25 n [].

Definition is_nil (b : bytes) : bool := match b with [] => true | _ => false end.

(* ---------------------------------------------------------------- *)
(* go-multiaddr transcoders on the path taken                         *)

(* httpPathStB: url.QueryUnescape, empty result rejected *)
Definition httppath_stb (s : bytes) : res bytes :=
  b <- query_unescape s ;;
  if is_nil b then Err EEmptyPath else Ok b.

(* httpPathBtS: url.QueryEscape (validated components are never empty; Value()
   drops the error and yields "" for an empty value) *)
Definition httppath_bts (b : bytes) : bytes :=
  if is_nil b then [] else query_escape b.

(* dnsStB / dnsVal *)
Definition dns_stb (h : bytes) : res bytes :=
  if is_nil h then Err EEmptyDns
  else if memb cSLASH h then Err EDnsSlash
  else Ok h.

(* portStB: strconv.ParseUint(s, 10, 16) on a canonical decimal *)
Definition port_stb (p : N) : res N := if p <=? 65535 then Ok p else Err EPort.

(* ---------------------------------------------------------------- *)
(* Multiaddr.String                                                   *)

Definition name_of (c : comp) : bytes :=
  match c with
  | CIp4 _ => [105;112;52]                         (* ip4 *)
  | CIp6 _ => [105;112;54]                         (* ip6 *)
  | CIp6Zone _ => [105;112;54;122;111;110;101]     (* ip6zone *)
  | CDns _ => [100;110;115]                        (* dns *)
  | CDns4 _ => [100;110;115;52]
  | CDns6 _ => [100;110;115;54]
  | CTcp _ => [116;99;112]                         (* tcp *)
  | CUdp _ => [117;100;112]                        (* udp *)
  | CHttp => [104;116;116;112]                     (* http *)
  | CHttps => [104;116;116;112;115]                (* https *)
  | CTls => [116;108;115]                          (* tls *)
  | CWs => [119;115]                               (* ws *)
  | CWss => [119;115;115]                          (* wss *)
  | CHttpPath _ => [104;116;116;112;45;112;97;116;104]   (* http-path *)
  | CHttpath _ => [104;116;116;112;97;116;104]           (* httpath *)
  | COther s => s
  end.

(* Component.Value() *)
Definition value_of (c : comp) : bytes :=
  match c with
  | CIp4 v | CIp6 v | CIp6Zone v | CDns v | CDns4 v | CDns6 v => v
  | CTcp p | CUdp p => dec p
  | CHttpPath b => httppath_bts b
  | CHttpath b => b
  | _ => []
  end.

(* Component.writeTo *)
Definition comp_string (c : comp) : bytes :=
  let v := value_of c in
  cSLASH :: name_of c ++ (if is_nil v then [] else cSLASH :: v).

Definition ma_string (m : maddr) : bytes := flat_map comp_string m.

(* ---------------------------------------------------------------- *)
(* FromURL                                                            *)

Definition scheme_comp (s : scheme) : comp :=
  match s with SHttp => CHttp | SHttps => CHttps | SWs => CWs | SWss => CWss end.

Definition host_comp (u : url) : res comp :=
  match u_hkind u with
  | HIp4 => Ok (CIp4 (u_host u))          (* manet.FromIP -> NewComponent("ip4", ip.String()) *)
  | HIp6 => Ok (CIp6 (u_host u))
  | HDns => h <- dns_stb (u_host u) ;; Ok (CDns h)
  end.

Definition port_comps (u : url) : res (list comp) :=
  match u_port u with
  | None => Ok []
  | Some p => q <- port_stb p ;; Ok [CTcp q]
  end.

(* esc = the escaping FromURL applies to u.Path before NewComponent("http-path", .) *)
Definition from_url_with (esc : bytes -> bytes) (u : url) : res maddr :=
  h <- host_comp u ;;
  p <- port_comps u ;;
  pc <- (if is_nil (u_path u) then Ok []
         else b <- httppath_stb (esc (u_path u)) ;; Ok [CHttpPath b]) ;;
  Ok (h :: p ++ [scheme_comp (u_scheme u)] ++ pc).

Definition from_url_v0 := from_url_with path_escape.      (* before the fix *)
Definition from_url := from_url_with query_escape.        (* repaired *)

(* ---------------------------------------------------------------- *)
(* manet.DialArgs                                                     *)

Inductive netw := NIp | NIp4 | NIp6.

(* dialArgComponents, first phase: zone prefix then the address component.
   Returns (zone, network, ip text, hostname?, rest). *)
Fixpoint dial_first (zone : bytes) (m : maddr) : res (bytes * netw * bytes * bool * maddr) :=
  match m with
  | [] => Err ENotThinWaist
  | c :: r =>
      match c with
      | CIp6Zone z => if is_nil zone then dial_first z r else Err EZone
      | CIp6 v => Ok (zone, NIp6, v, false, r)
      | CIp4 v => if is_nil zone then Ok (zone, NIp4, v, false, r) else Err EZone
      | CDns v => Ok (zone, NIp, v, true, r)
      | CDns4 v => Ok (zone, NIp4, v, true, r)
      | CDns6 v => Ok (zone, NIp6, v, true, r)
      | _ => Err ENotThinWaist
      end
  end.

Definition dial_port (r : maddr) : option N :=
  match r with
  | CTcp p :: _ => Some p
  | CUdp p :: _ => Some p
  | _ => None
  end.

Definition cPCT := 37.

(* DialArgs' address string, and whether net.ParseIP accepts it as a non-IPv4 address
   (only a bare IPv6 literal without zone and port; DNS values are assumed not to be
   IP literals and ip6 values not to be IPv4-mapped) *)
Definition dial_args (m : maddr) : res (bytes * bool) :=
  '(zone, nw, ip, hostname, r) <- dial_first [] m ;;
  let port := dial_port r in
  if hostname then
    match port with
    | None => Ok (ip, false)
    | Some p => Ok (ip ++ cCOLON :: dec p, false)
    end
  else
    match nw with
    | NIp6 =>
        let ipz := if is_nil zone then ip else ip ++ cPCT :: zone in
        match port with
        | None => Ok (ipz, is_nil zone)
        | Some p => Ok (cLBR :: ipz ++ cRBR :: cCOLON :: dec p, false)
        end
    | _ =>
        match port with
        | None => Ok (ip, false)
        | Some p => Ok (ip ++ cCOLON :: dec p, false)
        end
    end.

(* ---------------------------------------------------------------- *)
(* ToURL                                                              *)

Definition is_http c := match c with CHttp => true | _ => false end.
Definition is_https c := match c with CHttps => true | _ => false end.
Definition is_tls c := match c with CTls => true | _ => false end.
Definition is_ws c := match c with CWs => true | _ => false end.
Definition is_wss c := match c with CWss => true | _ => false end.

Definition scheme_of (m : maddr) : scheme :=
  if existsb is_https m then SHttps
  else if existsb is_http m then (if existsb is_tls m then SHttps else SHttp)
  else if existsb is_wss m then SWss
  else if existsb is_ws m then (if existsb is_tls m then SWss else SWs)
  else SHttp.

(* pm[P_HTTP_PATH] / pm[oldProtoHTTPath.Code]: ValueForProtocol = first component of that code *)
Fixpoint first_httppath (m : maddr) : option bytes :=
  match m with
  | [] => None
  | CHttpPath b :: _ => Some b
  | _ :: r => first_httppath r
  end.
Fixpoint first_httpath (m : maddr) : option bytes :=
  match m with
  | [] => None
  | CHttpath b :: _ => Some b
  | _ :: r => first_httpath r
  end.

Definition or_empty (r : res bytes) : bytes := match r with Ok p => p | _ => [] end.

(* unesc_new = how ToURL un-escapes the http-path value (the legacy httpath is always
   path-unescaped) *)
Definition path_of_with (unesc_new : bytes -> res bytes) (m : maddr) : bytes :=
  match first_httppath m with
  | Some b => or_empty (unesc_new (httppath_bts b))
  | None =>
      match first_httpath m with
      | Some b => or_empty (path_unescape b)
      | None => []
      end
  end.

Definition to_url_with (unesc_new : bytes -> res bytes) (m : maddr) : res urlout :=
  '(host, v6) <- dial_args m ;;
  let host' := if v6 then cLBR :: host ++ [cRBR] else host in
  Ok {| o_scheme := scheme_of m; o_host := host'; o_path := path_of_with unesc_new m |}.

Definition to_url_v0 := to_url_with path_unescape.     (* before the fix *)
Definition to_url := to_url_with query_unescape.       (* repaired *)

(* u.Host as url.Parse leaves it for a canonical URL *)
Definition host_string (u : url) : bytes :=
  let h := u_host u in
  match u_hkind u, u_port u with
  | HIp6, None => cLBR :: h ++ [cRBR]
  | HIp6, Some p => cLBR :: h ++ cRBR :: cCOLON :: dec p
  | _, None => h
  | _, Some p => h ++ cCOLON :: dec p
  end.

Definition same_target (u : url) : urlout :=
  {| o_scheme := u_scheme u; o_host := host_string u; o_path := u_path u |}.

Definition roundtrip (u : url) : res urlout := m <- from_url u ;; to_url m.
Definition roundtrip_v0 (u : url) : res urlout := m <- from_url_v0 u ;; to_url_v0 m.

Definition wf_url (u : url) : bool :=
  wf_bytes (u_path u) &&
  match u_port u with None => true | Some p => p <=? 65535 end &&
  match u_hkind u with HDns => negb (is_nil (u_host u)) && negb (memb cSLASH (u_host u)) | _ => true end.

(* ---------------------------------------------------------------- *)
(* case checkers                                                      *)

Definition scheme_eqb (a b : scheme) : bool :=
  match a, b with
  | SHttp, SHttp | SHttps, SHttps | SWs, SWs | SWss, SWss => true
  | _, _ => false
  end.

Definition urlout_eqb (a b : urlout) : bool :=
  scheme_eqb (o_scheme a) (o_scheme b) && bytes_eqb (o_host a) (o_host b) && bytes_eqb (o_path a) (o_path b).

Definition res_match {A B} (eqb : A -> B -> bool) (model : res A) (obs : res B) : bool :=
  match model, obs with
  | Ok a, Ok b => eqb a b
  | Err _, Err _ => true
  | Panic _, Panic _ => true
  | _, _ => false
  end.

(* family url: (u, FromURL(u) as String() or error, ToURL(FromURL(u)) or error) *)
Definition url_case_ok (c : url * res bytes * res urlout) : bool :=
  let '(u, obs_ma, obs_back) := c in
  let m := from_url u in
  res_match (fun m s => bytes_eqb (ma_string m) s) m obs_ma &&
  match m with
  | Ok m' => res_match urlout_eqb (to_url m') obs_back
  | _ => true
  end.

(* family tourl: (components of a parsed multiaddr, its String(), ToURL(ma) or error) *)
Definition tourl_case_ok (c : maddr * bytes * res urlout) : bool :=
  let '(m, s, obs) := c in
  bytes_eqb (ma_string m) s && res_match urlout_eqb (to_url m) obs.

(* family hp: NewComponent("http-path", s): (s, Ok (RawValue, Value()) or error) *)
Definition hp_case_ok (c : bytes * res (bytes * bytes)) : bool :=
  let '(s, obs) := c in
  res_match (fun b (o : bytes * bytes) => bytes_eqb b (fst o) && bytes_eqb (httppath_bts b) (snd o))
            (httppath_stb s) obs.

(* families esc / unesc: net/url itself against lib/Escape.v *)
Definition esc_case_ok (c : bytes * bytes * bytes) : bool :=
  let '(s, pe, qe) := c in
  bytes_eqb (path_escape s) pe && bytes_eqb (query_escape s) qe.

Definition unesc_case_ok (c : bytes * res bytes * res bytes) : bool :=
  let '(s, pu, qu) := c in
  res_match bytes_eqb (path_unescape s) pu && res_match bytes_eqb (query_unescape s) qu.

(* ---------------------------------------------------------------- *)
(* the sync client's request: ipnisync.NewSyncer does ToURL(addr).JoinPath("/ipni/v1/ad")
   and Syncer.fetch does rootURL.JoinPath(resource).  url.URL.JoinPath joins the ESCAPED
   path with the elements by path.Join, i.e. path.Clean: empty segments (repeated and
   trailing slashes) and "." segments are dropped, ".." removes the segment before it.
   '/' and '.' are never escaped and no escape produces them, so cleaning the escaped text
   is cleaning the decoded path; the model works on the decoded bytes (r.URL.Path as the
   server sees it).  Families: sync. *)

Definition cDOT := 46.

(* strings.Split(p, "/") *)
Fixpoint split_go (cur : bytes) (b : bytes) : list bytes :=
  match b with
  | [] => [rev cur]
  | c :: r => if c =? cSLASH then rev cur :: split_go [] r else split_go (c :: cur) r
  end.
Definition split_slash (b : bytes) : list bytes := split_go [] b.

Definition is_dot (s : bytes) : bool := match s with [c] => c =? cDOT | _ => false end.
Definition is_dotdot (s : bytes) : bool := match s with [c; d] => (c =? cDOT) && (d =? cDOT) | _ => false end.

(* path.Clean of a rooted path, on its segments: stack holds the kept segments, last first *)
Fixpoint clean_go (stack : list bytes) (segs : list bytes) : list bytes :=
  match segs with
  | [] => rev stack
  | s :: r =>
      if is_nil s || is_dot s then clean_go stack r
      else if is_dotdot s then clean_go (tl stack) r
      else clean_go (s :: stack) r
  end.

Definition join_slash (segs : list bytes) : bytes := flat_map (fun s => cSLASH :: s) segs.

(* path.Clean("/" + p): always rooted here (a URL with a host) *)
Definition clean_path (p : bytes) : bytes :=
  match clean_go [] (split_slash p) with
  | [] => [cSLASH]
  | segs => join_slash segs
  end.

Definition ipni_path : bytes := [47;105;112;110;105;47;118;49;47;97;100].     (* /ipni/v1/ad *)

(* the path of the request for [rsrc] ("head" or a CID string) given the base path ToURL returned *)
Definition request_path (base rsrc : bytes) : bytes :=
  clean_path (base ++ ipni_path ++ cSLASH :: rsrc).

(* what the server of a publisher advertised by URL u sees: (Host header, r.URL.Path) *)
Definition sync_request (u : url) (rsrc : bytes) : res (bytes * bytes) :=
  m <- from_url u ;;
  o <- to_url m ;;
  Ok (o_host o, request_path (o_path o) rsrc).

(* a path the client reproduces exactly: empty, or "/seg/seg/.." with every segment
   non-empty, without '/', and neither "." nor ".." (no repeated or trailing slash) *)
Definition normal_seg (s : bytes) : bool :=
  negb (is_nil s) && negb (is_dot s) && negb (is_dotdot s) && negb (memb cSLASH s).

(* family sync: (u, resource, observed Host header, observed r.URL.Path of the request) *)
Definition sync_case_ok (c : url * bytes * bytes * bytes) : bool :=
  let '(u, rsrc, obs_host, obs_path) := c in
  match sync_request u rsrc with
  | Ok (h, p) => bytes_eqb h obs_host && bytes_eqb p obs_path
  | _ => false
  end.

(* ---------------------------------------------------------------- *)
(* mautil.MultiaddrStringToNetAddr = manet.ToNetAddr of the parsed multiaddr.  ToNetAddr
   dispatches on the LAST protocol: only tcp, udp, ip4, ip6 (and unix, not modelled) have a
   converter (parseBasicNetMaddr), which then resolves DialArgs' address: so the result's
   String() is DialArgs' address -- whatever stands between the thin waist and the last
   component is ignored (/ip4/1.2.3.4/tcp/80/tcp/1 gives 1.2.3.4:80).  A dns* host would be
   looked up by the resolver: not modelled (Err) and not exercised.  Family netaddr. *)
Definition last_is_net (m : maddr) : bool :=
  match last m (COther []) with
  | CIp4 _ | CIp6 _ | CTcp _ | CUdp _ => true
  | _ => false
  end.
Definition first_is_dns (m : maddr) : bool :=
  match m with CDns _ :: _ | CDns4 _ :: _ | CDns6 _ :: _ => true | _ => false end.

Definition ENotNetAddr := 16.
Definition netaddr_of (m : maddr) : res bytes :=
  if last_is_net m && negb (first_is_dns m) then '(h, _) <- dial_args m ;; Ok h else Err ENotNetAddr.

Definition netaddr_case_ok (c : maddr * res bytes) : bool :=
  res_match bytes_eqb (netaddr_of (fst c)) (snd c).
