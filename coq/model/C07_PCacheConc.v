(* C07 — pcache.ProviderCache as a thread-level transition system: any number of
   goroutines running Get / GetResults / List / Len / Refresh, lookups that miss and
   become writers (fetchMissing), and the automatic refresh started by a lookup.
   Executable definitions only.

   A schedule is an arbitrary sequence of labels ([LTS.reachable]), so theorems over
   reachable states quantify over all interleavings, any number of threads.

   Memory: map objects live in a heap and have identities.  pc.read is a pair of map
   identities (main map m, update map u; identity 0 is Go's nil map).  Writers allocate
   fresh objects, mutate them in later steps, and publish them with one atomic Store.
   pc.write, pc.seq are plain shared fields touched only by the holder of the write slot.

   Granularity: one step per synchronisation operation / atomic access / source call of the
   skeleton harness/cmd/astgen regenerates (gen/Gen_Sync_pcache.v; [expected_*] at the end
   of this file are the skeletons the model was written against), with the private work of
   a writer between two such points split further where it touches a different map object:
     copy of read.u -> mutation of the copy (+ pc.write) -> [alloc m -> fill m] -> Store.
   A source call is an environment step: its answer arrives in the label, at any later time.

   WHAT an update computes is taken from the sequential model (model/C06_PCache.v): the
   ghost field [cur] is the sequential state, advanced at the Store by C06's [refresh] /
   [fetch_missing]; the proofs show that the fine-grained steps compute exactly that. *)
From stdpp Require Import gmap.
From Coq Require Import ZArith NArith.
From Lib Require LTS SyncSkel.
From Model Require Import C06_PCache.

Definition mapobj : Type := gmap N (option rec).

Inductive call :=
| CGet (pid : N)           (* Get *)
| CGetResults (pid : N)    (* GetResults: getReadOnly, then a pure expansion of the record (C17) *)
| CList
| CLen
| CRefresh                 (* explicit Refresh *)
| CAuto.                   (* go func() { pc.Refresh(bg); pc.refreshTimer.Reset(..) } *)

Inductive rresult :=
| ResGet (v : option rec)      (* record, or nil (unknown / negative) *)
| ResList (l : gmap N rec)
| ResLen (n : nat)
| ResRefresh (err : bool)
| ResErr.                      (* context error out of a miss *)

Inductive pcs :=
(* getReadOnly: hit path *)
| GLoad | GLookupU | GLookupM | GCas (v : option rec)
(* List, Len *)
| LLoad | LBuild | NLoad | NCount
(* Refresh *)
| RTry | RWait (completed : nat) | RRecheck (completed : nat) | RCollect | RReleaseCancelled
| RCopy | RFill
(* fetchMissing *)
| MTake | MStored | MReleaseHit (v : option rec) | MFetch | MInsert | MCopy | MFill
(* publication, common to both writers *)
| TDecide | TAllocM | TFillM | TStore (merge : bool) | TAdd | TRelease
(* after Refresh in the auto-refresh goroutine *)
| ARearm (err : bool)
| Fin (r : rresult).

Record thread := Thread {
  t_call : call;
  t_pc : pcs;
  t_prev : option nat;          (* ghost: the call of the same caller that returned before this one started *)
  l_mid : nat; l_uid : nat;     (* the loaded *readOnly: identities of m and u *)
  l_upd : nat; l_m : nat;       (* private map objects of a writer *)
  l_outs : list src_outcome;    (* what the sources answered to FetchAll *)
  l_fouts : list fetch_outcome; (* what the sources answered to Fetch *)
  l_now : Z;                    (* time.Now() *)
  l_ver : nat;                  (* ghost: index in [hist] of the snapshot the result comes from *)
  l_born : nat                  (* ghost: index of the current snapshot when the call started *)
}.

Record gst := GSt {
  slot : option nat;                 (* pc.writeLock: the thread holding the one slot *)
  pc_seq : N;
  pc_write : gmap N entry;
  heap : gmap nat mapobj;
  next_id : nat;
  readp : nat * nat;                 (* pc.read *)
  refreshes : nat;                   (* pc.refreshes *)
  auto_on : bool;                    (* pc.refreshTimer != nil *)
  armed : bool;                      (* the timer is running *)
  needs : bool;                      (* pc.needsRefresh *)
  n_fires : nat; n_spawns : nat; n_rearms : nat;   (* ghost counters *)
  cur : state;                       (* ghost: the sequential (C06) state *)
  hist : list (state * nat * nat);   (* ghost: one entry per Store, oldest first *)
  next_tid : nat;
  threads : nat -> option thread
}.

(* what the environment contributes to a step *)
Inductive env_in :=
| ENone
| EOuts (outs : list src_outcome)      (* answers of the sources to FetchAll *)
| EFetch (outs : list fetch_outcome)   (* answers of the sources to Fetch *)
| ENow (now : Z)                       (* the wall clock *)
| ECtx.                                (* the caller's context is done *)

Inductive label :=
| Spawn (c : call) (after : option nat)   (* a goroutine enters an API call; [after]: the same
                                             caller's previous call, which must have returned *)
| TimerFire                               (* time.AfterFunc: pc.needsRefresh.Store(true) *)
| Step (t : nat) (e : env_in).

(* advertisement times present in the answers of the sources are after 1970 (the
   well-formedness assumption of C06, as a boolean) *)
Definition wf_recb (r : rec) : bool := match r_time r with Some t => (0 <? t)%Z | None => true end.
Definition wf_srcb (o : src_outcome) : bool :=
  match o with Reports l => forallb (fun pr : N * rec => wf_recb pr.2) l | _ => true end.
Definition wf_fetchb (o : fetch_outcome) : bool :=
  match o with Found r => wf_recb r | _ => true end.

Definition upd (f : nat -> option thread) (t : nat) (th : thread) : nat -> option thread :=
  fun x => if Nat.eqb x t then Some th else f x.

Definition obj (h : gmap nat mapobj) (id : nat) : mapobj := default ∅ (h !! id).

Definition first_pc (c : call) : pcs :=
  match c with
  | CGet _ | CGetResults _ => GLoad
  | CList => LLoad
  | CLen => NLoad
  | CRefresh | CAuto => RTry
  end.

Definition call_pid (c : call) : N :=
  match c with CGet p | CGetResults p => p | _ => 0%N end.

Definition is_fin (p : pcs) : bool := match p with Fin _ => true | _ => false end.

(* the thread holds the write slot at this point *)
Definition holding (p : pcs) : bool :=
  match p with
  | RRecheck _ | RCollect | RReleaseCancelled | RCopy | RFill
  | MStored | MReleaseHit _ | MFetch | MInsert | MCopy | MFill
  | TDecide | TAllocM | TFillM | TStore _ | TAdd | TRelease => true
  | _ => false
  end.

Definition set_pc (th : thread) (p : pcs) : thread :=
  Thread (t_call th) p (t_prev th) (l_mid th) (l_uid th) (l_upd th) (l_m th)
         (l_outs th) (l_fouts th) (l_now th) (l_ver th) (l_born th).

Definition new_thread (c : call) (after : option nat) (born : nat) : thread :=
  Thread c (first_pc c) after 0 0 0 0 [] [] 0%Z 0 born.

Section Conc.
  Variable need_merge : nat -> nat -> bool.
  Variable ttl : Z.

  Definition with_threads (s : gst) f : gst :=
    GSt (slot s) (pc_seq s) (pc_write s) (heap s) (next_id s) (readp s) (refreshes s)
        (auto_on s) (armed s) (needs s) (n_fires s) (n_spawns s) (n_rearms s) (cur s) (hist s)
        (next_tid s) f.
  Definition with_slot (s : gst) x : gst :=
    GSt x (pc_seq s) (pc_write s) (heap s) (next_id s) (readp s) (refreshes s)
        (auto_on s) (armed s) (needs s) (n_fires s) (n_spawns s) (n_rearms s) (cur s) (hist s)
        (next_tid s) (threads s).
  Definition with_write (s : gst) q w : gst :=
    GSt (slot s) q w (heap s) (next_id s) (readp s) (refreshes s)
        (auto_on s) (armed s) (needs s) (n_fires s) (n_spawns s) (n_rearms s) (cur s) (hist s)
        (next_tid s) (threads s).
  Definition with_heap (s : gst) h n : gst :=
    GSt (slot s) (pc_seq s) (pc_write s) h n (readp s) (refreshes s)
        (auto_on s) (armed s) (needs s) (n_fires s) (n_spawns s) (n_rearms s) (cur s) (hist s)
        (next_tid s) (threads s).
  Definition with_cur (s : gst) c : gst :=
    GSt (slot s) (pc_seq s) (pc_write s) (heap s) (next_id s) (readp s) (refreshes s)
        (auto_on s) (armed s) (needs s) (n_fires s) (n_spawns s) (n_rearms s) c (hist s)
        (next_tid s) (threads s).
  (* the atomic Store of a new *readOnly; ghost: the sequential state it stands for *)
  Definition with_store (s : gst) (p : nat * nat) c : gst :=
    GSt (slot s) (pc_seq s) (pc_write s) (heap s) (next_id s) p (refreshes s)
        (auto_on s) (armed s) (needs s) (n_fires s) (n_spawns s) (n_rearms s) c
        (hist s ++ [(c, p.1, p.2)]) (next_tid s) (threads s).
  Definition with_refreshes (s : gst) n : gst :=
    GSt (slot s) (pc_seq s) (pc_write s) (heap s) (next_id s) (readp s) n
        (auto_on s) (armed s) (needs s) (n_fires s) (n_spawns s) (n_rearms s) (cur s) (hist s)
        (next_tid s) (threads s).
  Definition with_auto (s : gst) a nd f sp r : gst :=
    GSt (slot s) (pc_seq s) (pc_write s) (heap s) (next_id s) (readp s) (refreshes s)
        (auto_on s) a nd f sp r (cur s) (hist s) (next_tid s) (threads s).
  Definition with_next_tid (s : gst) n : gst :=
    GSt (slot s) (pc_seq s) (pc_write s) (heap s) (next_id s) (readp s) (refreshes s)
        (auto_on s) (armed s) (needs s) (n_fires s) (n_spawns s) (n_rearms s) (cur s) (hist s)
        n (threads s).

  Definition goto (s : gst) (t : nat) (th : thread) (p : pcs) : option gst :=
    Some (with_threads s (upd (threads s) t (set_pc th p))).

  (* the index of the snapshot pc.read points to *)
  Definition cur_ver (s : gst) : nat := length (hist s) - 1.

  (* how a Refresh call ends: explicit callers return, the auto-refresh goroutine re-arms
     the timer first *)
  Definition refresh_end (th : thread) (err : bool) : pcs :=
    match t_call th with CAuto => ARearm err | _ => Fin (ResRefresh err) end.

  (* the sequential operation a writer stands for, applied at its Store *)
  Definition seq_apply (th : thread) (c : state) : state :=
    match t_call th with
    | CRefresh | CAuto => (refresh true need_merge ttl (l_now th) (l_outs th) c).1
    | _ => (fetch_missing need_merge ttl (l_now th) (call_pid (t_call th)) (l_fouts th) c).1
    end.

  Definition step_thread (s : gst) (t : nat) (th : thread) (e : env_in) : option gst :=
    let pid := call_pid (t_call th) in
    match t_pc th, e with
    (* ---------------- readers: never look at anything but the loaded objects ------- *)
    | GLoad, ENone | LLoad, ENone | NLoad, ENone =>
      (* read := pc.loadReadOnly(): one atomic Load *)
      let p := match t_pc th with GLoad => GLookupU | LLoad => LBuild | _ => NCount end in
      let th' := Thread (t_call th) p (t_prev th) (readp s).1 (readp s).2 (l_upd th) (l_m th)
                        (l_outs th) (l_fouts th) (l_now th) (cur_ver s) (l_born th) in
      Some (with_threads s (upd (threads s) t th'))
    | GLookupU, ENone =>
      match obj (heap s) (l_uid th) !! pid with
      | Some v => goto s t th (GCas v)
      | None => goto s t th GLookupM
      end
    | GLookupM, ENone =>
      match obj (heap s) (l_mid th) !! pid with
      | Some v => goto s t th (GCas v)
      | None => goto s t th MTake                       (* cache miss *)
      end
    | GCas v, ENone =>
      (* if pc.refreshTimer != nil && pc.needsRefresh.CompareAndSwap(true, false) { go ... } *)
      if auto_on s && needs s then
        let s1 := with_auto s (armed s) false (n_fires s) (S (n_spawns s)) (n_rearms s) in
        let s2 := with_threads s1 (upd (upd (threads s) t (set_pc th (Fin (ResGet v))))
                                       (next_tid s) (new_thread CAuto None (cur_ver s))) in
        Some (with_next_tid s2 (S (next_tid s)))
      else goto s t th (Fin (ResGet v))
    | LBuild, ENone =>
      goto s t th (Fin (ResList (omap id (obj (heap s) (l_uid th) ∪ obj (heap s) (l_mid th)))))
    | NCount, ENone =>
      goto s t th (Fin (ResLen (size (obj (heap s) (l_mid th)) + size (obj (heap s) (l_uid th)))))

    (* ---------------- Refresh ------------------------------------------------------ *)
    | RTry, ENone =>
      (* select { case pc.writeLock <- struct{}{}: default: completed := pc.refreshes.Load() *)
      match slot s with
      | None => goto (with_slot s (Some t)) t th RCollect
      | Some _ => goto s t th (RWait (refreshes s))
      end
    | RWait c, ENone =>
      match slot s with
      | None => goto (with_slot s (Some t)) t th (RRecheck c)
      | Some _ => None                                   (* blocked *)
      end
    | RWait c, ECtx => goto s t th (refresh_end th true)
    | RRecheck c, ENone =>
      if Nat.eqb (refreshes s) c
      then goto s t th RCollect                          (* nobody refreshed: do it now *)
      else goto (with_slot s None) t th (refresh_end th false)
    | RCollect, EOuts outs =>
      (* pc.seq++; the loop over the sources, writing pc.write *)
      if forallb wf_srcb outs then
        let seq' := (pc_seq s + 1)%N in
        let w1 := (walk seq' outs (pc_write s) 0).1.1 in
        let cancelled := (walk seq' outs (pc_write s) 0).1.2 in
        let th' := Thread (t_call th) (if cancelled then RReleaseCancelled else RCopy) (t_prev th)
                          (l_mid th) (l_uid th) (l_upd th) (l_m th) outs (l_fouts th) (l_now th)
                          (l_ver th) (l_born th) in
        Some (with_threads (with_write s seq' w1) (upd (threads s) t th'))
      else None
    | RReleaseCancelled, ENone =>
      (* return ctx.Err(): the deferred release; nothing is published *)
      let s1 := with_cur (with_slot s None) (seq_apply th (cur s)) in
      goto s1 t th (refresh_end th true)
    | RCopy, ENone | MCopy, ENone =>
      (* read := pc.loadReadOnly(); updates := make(..); copy of read.u *)
      let id := next_id s in
      let th' := Thread (t_call th) (match t_pc th with RCopy => RFill | _ => MFill end) (t_prev th)
                        (readp s).1 (readp s).2 id (l_m th) (l_outs th) (l_fouts th) (l_now th)
                        (l_ver th) (l_born th) in
      Some (with_threads (with_heap s (<[id := obj (heap s) (readp s).2]> (heap s)) (S id))
                         (upd (threads s) t th'))
    | RFill, ENow now =>
      (* the loop over pc.write: expiry, deletion, publication into updates *)
      let w1 := pc_write s in
      let u1 := merge (upd_of true now (pc_seq s)) w1 (obj (heap s) (l_upd th)) in
      let th' := Thread (t_call th) TDecide (t_prev th) (l_mid th) (l_uid th) (l_upd th) (l_m th)
                        (l_outs th) (l_fouts th) now (l_ver th) (l_born th) in
      Some (with_threads
              (with_heap (with_write s (pc_seq s) (omap (settle true ttl now (pc_seq s)) w1))
                         (<[l_upd th := u1]> (heap s)) (next_id s))
              (upd (threads s) t th'))

    (* ---------------- fetchMissing ------------------------------------------------- *)
    | MTake, ENone =>
      match slot s with
      | None => goto (with_slot s (Some t)) t th MStored
      | Some _ => None                                   (* blocked *)
      end
    | MTake, ECtx => goto s t th (Fin ResErr)
    | MStored, ENone =>
      (* _, ok := pc.write[pid]; stored by a previous request? look in the current snapshot *)
      match pc_write s !! pid, (obj (heap s) (readp s).2 ∪ obj (heap s) (readp s).1) !! pid with
      | Some _, Some v => goto s t th (MReleaseHit v)
      | _, _ => goto s t th MFetch
      end
    | MReleaseHit v, ENone =>
      let th' := Thread (t_call th) (GCas v) (t_prev th) (l_mid th) (l_uid th) (l_upd th) (l_m th)
                        (l_outs th) (l_fouts th) (l_now th) (cur_ver s) (l_born th) in
      Some (with_threads (with_slot s None) (upd (threads s) t th'))
    | MFetch, EFetch outs =>
      if forallb wf_fetchb outs then
        let th' := Thread (t_call th) MInsert (t_prev th) (l_mid th) (l_uid th) (l_upd th) (l_m th)
                          (l_outs th) outs (l_now th) (l_ver th) (l_born th) in
        Some (with_threads s (upd (threads s) t th'))
      else None
    | MFetch, ECtx => goto (with_slot s None) t th (Fin ResErr)   (* context.Canceled from a source *)
    | MInsert, ENow now =>
      (* pc.write[pid] = cinfo *)
      let e := miss_entry ttl (State (pc_seq s) (pc_write s) ∅ ∅) now (l_fouts th) in
      let th' := Thread (t_call th) MCopy (t_prev th) (l_mid th) (l_uid th) (l_upd th) (l_m th)
                        (l_outs th) (l_fouts th) now (l_ver th) (l_born th) in
      Some (with_threads (with_write s (pc_seq s) (<[pid := e]> (pc_write s))) (upd (threads s) t th'))
    | MFill, ENone =>
      (* updates[pid] = rpinfo *)
      let e := miss_entry ttl (State (pc_seq s) (pc_write s) ∅ ∅) (l_now th) (l_fouts th) in
      let u1 := <[pid := e_prov e]> (obj (heap s) (l_upd th)) in
      goto (with_heap s (<[l_upd th := u1]> (heap s)) (next_id s)) t th TDecide

    (* ---------------- publication -------------------------------------------------- *)
    | TDecide, ENone =>
      if need_merge (size (obj (heap s) (l_upd th))) (size (obj (heap s) (l_mid th)))
      then goto s t th TAllocM
      else goto s t th (TStore false)
    | TAllocM, ENone =>
      let id := next_id s in
      let th' := Thread (t_call th) TFillM (t_prev th) (l_mid th) (l_uid th) (l_upd th) id
                        (l_outs th) (l_fouts th) (l_now th) (l_ver th) (l_born th) in
      Some (with_threads (with_heap s (<[id := ∅]> (heap s)) (S id)) (upd (threads s) t th'))
    | TFillM, ENone =>
      let m1 := merged (pc_write s) (obj (heap s) (l_upd th)) (obj (heap s) (l_mid th)) in
      goto (with_heap s (<[l_m th := m1]> (heap s)) (next_id s)) t th (TStore true)
    | TStore b, ENone =>
      (* pc.read.Store(&readOnly{...}) *)
      let p := if b then (l_m th, 0) else (l_mid th, l_upd th) in
      let s1 := with_store s p (seq_apply th (cur s)) in
      let th' := Thread (t_call th)
                        (match t_call th with CRefresh | CAuto => TAdd | _ => TRelease end)
                        (t_prev th) (l_mid th) (l_uid th) (l_upd th) (l_m th)
                        (l_outs th) (l_fouts th) (l_now th) (length (hist s)) (l_born th) in
      Some (with_threads s1 (upd (threads s) t th'))
    | TAdd, ENone => goto (with_refreshes s (S (refreshes s))) t th TRelease
    | TRelease, ENone =>
      let p := match t_call th with
               | CRefresh | CAuto => refresh_end th false
               | _ => GCas (e_prov (miss_entry ttl (State (pc_seq s) (pc_write s) ∅ ∅) (l_now th) (l_fouts th)))
               end in
      goto (with_slot s None) t th p

    (* ---------------- the auto-refresh goroutine re-arms the timer ------------------ *)
    | ARearm err, ENone =>
      goto (with_auto s true (needs s) (n_fires s) (n_spawns s) (S (n_rearms s))) t th (Fin (ResRefresh err))
    | _, _ => None
    end.

  Definition stepf (s : gst) (l : label) : option gst :=
    match l with
    | Spawn c after =>
      match c with
      | CAuto => None                       (* only a lookup starts it *)
      | _ =>
        let ok := match after with
                  | None => true
                  | Some t0 => match threads s t0 with Some th0 => is_fin (t_pc th0) | None => false end
                  end in
        if ok
        then Some (with_next_tid (with_threads s (upd (threads s) (next_tid s) (new_thread c after (cur_ver s))))
                                 (S (next_tid s)))
        else None
      end
    | TimerFire =>
      if auto_on s && armed s
      then Some (with_auto s false true (S (n_fires s)) (n_spawns s) (n_rearms s))
      else None
    | Step t e =>
      match threads s t with
      | Some th => step_thread s t th e
      | None => None
      end
    end.

  (* the cache right after New(WithPreload(false)); [auto]: a refresh interval is set *)
  Definition ginit (auto : bool) : gst :=
    GSt None 0 ∅ {[ 0 := ∅ ]} 1 (0, 0) 0 auto auto false 0 0 0 init [(init, 0, 0)] 0 (fun _ => None).
End Conc.

(* ---------------------------------------------------------------- *)
(* reader pcs of the hit path and how many own steps remain           *)

Definition hit_measure (p : pcs) : nat :=
  match p with
  | GLoad => 4 | GLookupU => 3 | GLookupM => 2 | GCas _ => 1
  | LLoad => 2 | LBuild => 1
  | NLoad => 2 | NCount => 1
  | _ => 0
  end.

Definition reader_pc (p : pcs) : bool := negb (Nat.eqb (hit_measure p) 0).

(* ---------------------------------------------------------------- *)
(* Runtime cases (harness/cmd/c07): what one reader goroutine observed, in order:
   (provider, advertisement time of the record returned; None = no record).
   Accepted when, per provider, times never decrease and -- for providers the run keeps
   reported at all times -- a record is always returned.                            *)

Fixpoint last_time (pid : N) (seen : list (N * Z)) : option Z :=
  match seen with
  | [] => None
  | (p, t) :: r => if (p =? pid)%N then Some t else last_time pid r
  end.

Fixpoint monotone_from (seen : list (N * Z)) (obs : list (N * option Z)) (always : list N) : bool :=
  match obs with
  | [] => true
  | (p, None) :: r => negb (existsb (N.eqb p) always) && monotone_from seen r always
  | (p, Some t) :: r =>
    match last_time p seen with
    | Some t0 => (t0 <=? t)%Z
    | None => true
    end && monotone_from ((p, t) :: seen) r always
  end.

Definition monotone_versions (c : list N * list (N * option Z)) : bool :=
  monotone_from [] c.2 c.1.

(* ---------------------------------------------------------------- *)
(* The synchronisation skeletons this model was written against
   (Properties_C07.skeleton_matches compares them with gen/Gen_Sync_pcache.v). *)
Module Skel.
  Import SyncSkel.
  Open Scope string_scope.

  Definition expected_Get : skel :=
    [SCall "getReadOnly"; SIf "" [SReturn] []; SIf "" [SReturn] []; SReturn].

  Definition expected_List : skel :=
    [SCall "loadReadOnly"; SIf "" [SReturn] []; SReturn].

  Definition expected_Len : skel := [SCall "loadReadOnly"; SReturn].

  Definition expected_GetResults : skel :=
    [SCall "getReadOnly"; SIf "" [SReturn] []; SIf "" [SReturn] []; SIf "" [SReturn] [];
     SIf "" [SFor [SIf "" [SContinue] []]] [];
     SIf "" [SReturn] [];
     SFor [SIf "" [SContinue] []];
     SReturn].

  Definition expected_loadReadOnly : skel :=
    [SAtomic "Load" "pc.read"; SIf "" [SReturn] []; SReturn].

  Definition expected_getReadOnly : skel :=
    [SCall "loadReadOnly";
     SIf "" [SIf "" [SCall "fetchMissing"; SIf "" [SReturn] []] []] [];
     SAtomic "CompareAndSwap" "pc.needsRefresh";
     SIf "" [SGo [SCall "Refresh"]] [];
     SReturn].

  Definition expected_Refresh : skel :=
    [SSelect true [[SSend "pc.writeLock"];
                   [SAtomic "Load" "pc.refreshes";
                    SSelect false [[SSend "pc.writeLock"]; [SRecv "ctx.Done()"; SReturn]];
                    SAtomic "Load" "pc.refreshes";
                    SIf "" [SRecv "pc.writeLock"; SReturn] []]];
     SDefer [SRecv "pc.writeLock"];
     SFor [SCall "FetchAll";
           SIf "" [SIf "" [SReturn] []; SContinue] [];
           SFor [SIf "" [SContinue] []; SIf "" [SContinue] []; SIf "" [SContinue] []]];
     SCall "loadReadOnly";
     SFor [SIf "" [] [SIf "" [SCall "apiToCacheInfo"] []]];
     SCall "needMerge";
     SIf "" [SAtomic "Store" "pc.read"; SAtomic "Add" "pc.refreshes"; SReturn] [];
     SAtomic "Store" "pc.read";
     SAtomic "Add" "pc.refreshes";
     SReturn].

  Definition expected_fetchMissing : skel :=
    [SSelect false [[SSend "pc.writeLock"]; [SRecv "ctx.Done()"; SReturn]];
     SDefer [SRecv "pc.writeLock"];
     SIf "" [SCall "loadReadOnly"; SIf "" [SReturn] []; SIf "" [SReturn] []] [];
     SFor [SCall "Fetch";
           SIf "" [SIf "" [SContinue] []; SIf "" [SReturn] []; SContinue] [];
           SIf "" [SContinue] [];
           SIf "" [SContinue] []];
     SCall "loadReadOnly";
     SCall "apiToCacheInfo";
     SCall "needMerge";
     SIf "" [SAtomic "Store" "pc.read"; SReturn] [];
     SAtomic "Store" "pc.read";
     SReturn].

  Definition expected : list (string * skel) :=
    [("ProviderCache.Get", expected_Get);
     ("ProviderCache.List", expected_List);
     ("ProviderCache.Len", expected_Len);
     ("ProviderCache.GetResults", expected_GetResults);
     ("ProviderCache.loadReadOnly", expected_loadReadOnly);
     ("ProviderCache.getReadOnly", expected_getReadOnly);
     ("ProviderCache.Refresh", expected_Refresh);
     ("ProviderCache.fetchMissing", expected_fetchMissing)].

  Definition matches (gen : list (string * skel)) : bool :=
    forallb (fun ns : string * skel => skel_same_shape (lookup_or_nil (fst ns) gen) (snd ns)) expected.

  (* The hit path: walking a function's skeleton, every operation must be an atomic
     access, a call to a function that is itself on the hit path, control flow, or --
     only under a branch -- the call that leaves the hit path (fetchMissing).  Bodies of
     `go` statements run in another goroutine and are not the reader's.               *)
  Fixpoint hit_ops_ok (fuel : nat) (tbl : list (string * skel)) (under_if : bool) (ops : skel) {struct fuel} : bool :=
    match fuel with
    | O => false
    | S f =>
      forallb (fun o =>
        match o with
        | SAtomic _ _ | SReturn | SBreak | SContinue | SGo _ => true
        | SIf _ a b => hit_ops_ok f tbl true a && hit_ops_ok f tbl true b
        | SFor b => hit_ops_ok f tbl under_if b
        | SCall name =>
          if String.eqb name "fetchMissing" then under_if
          else match lookup ("ProviderCache." ++ name) tbl with
               | Some body => hit_ops_ok f tbl under_if body
               | None => match lookup name tbl with
                         | Some body => hit_ops_ok f tbl under_if body
                         | None => false
                         end
               end
        | _ => false      (* lock, channel, select, wait group, once, defer, function literal *)
        end) ops
    end.

  Definition hit_paths_ok (gen : list (string * skel)) : bool :=
    forallb (fun name => hit_ops_ok 12 gen false (lookup_or_nil name gen))
            ["ProviderCache.Get"; "ProviderCache.GetResults"; "ProviderCache.List"; "ProviderCache.Len";
             "ProviderCache.getReadOnly"; "ProviderCache.loadReadOnly"].

  (* both writers take the one-slot channel before anything else and give it back on
     every return path (deferred receive) *)
  Definition takes_slot_first (s : skel) : bool :=
    match s with
    | SSelect _ ([SSend "pc.writeLock"] :: _) :: SDefer [SRecv "pc.writeLock"] :: _ => true
    | _ => false
    end.

  (* every map write of provider_cache.go (gen/Gen_Writes_pcache.v): the target is pc.write
     inside one of the two functions that hold the write slot, or a map (or slice) allocated
     in the same function that has not been handed to an atomic Store before the write *)
  Definition write_site_ok (func root : string) (fresh_local after_publish : bool) : bool :=
    (String.eqb root "pc.write" && (String.eqb func "Refresh" || String.eqb func "fetchMissing"))
    || (fresh_local && negb after_publish).

  (* every assignment to a field through a selector chain in provider_cache.go
     (gen/Gen_Fields_pcache.v): the root is an object allocated in the same function, or the
     assignment sets ONE field of the writer-private cacheInfo entry / of the cache struct
     itself (both touched only under the write slot).  A chain of depth >= 2 from such a
     root (cinfo.provider.X) would write INTO a *ProviderInfo, which is shared with the
     published maps and with callers; a root read out of the read maps is never assigned. *)
  Definition field_write_ok (root : string) (depth : nat) (root_fresh : bool) : bool :=
    root_fresh || (Nat.eqb depth 1 && (String.eqb root "cinfo" || String.eqb root "pc")).
End Skel.

