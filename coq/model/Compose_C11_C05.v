(* Glue between C11 (metadata encoding, model/C11_Metadata.v), C05 (advertisement
   signatures, model/C05_AdSignature.v) and C13 (IPLD schema layer + DAG-CBOR), on top of
   the existing C05 x C13 glue (model/Compose_C05_C13.v: to_c13 / of_c13 / wire_encode /
   wire_verify).  Executable definitions only.

   Metadata travels INSIDE advertisements: Advertisement.Metadata is the C11 encoding of a
   protocol set; C05's signature payload contains those BYTES; C13 carries them as a byte
   string.  What a receiver does with an advertisement block is

       schema.BytesToAdvertisement / lsys.Load      (C13 typed_load_ad)
       ad.VerifySignature()                         (C05 verify_gen on the abstraction of_c13)
       metadata.Default.New().UnmarshalBinary(ad.Metadata)      (C11 unmarshal)

   which is [wire_read_metadata] below; the sender's side is "put marshal md into the
   Metadata field, Sign, encode" = [wire_encode (sign (set_md a (marshal md)))]. *)
From Lib Require Import Bytes SymCrypto.
From Model Require C05_AdSignature C13_DagCbor C13_IpldSchema C11_Metadata.
From Model Require Import Compose_C05_C13.
From Coq Require Import List.
Import ListNotations.
Open Scope N_scope.

Module M := C11_Metadata.

Section AdWrap.
  Variables pubkey sigt : Type.

  (* the advertisement with its Metadata field replaced *)
  Definition set_md (a : A.ad pubkey sigt) (m : bytes) : A.ad pubkey sigt :=
    A.Ad (A.a_prev a) (A.a_provider a) (A.a_addrs a) (A.a_sig a) (A.a_entries a) (A.a_ctx a) m (A.a_rm a) (A.a_ext a).

  (* the sender: the advertisement carrying this metadata *)
  Definition with_metadata (a : A.ad pubkey sigt) (md : list M.proto) : A.ad pubkey sigt :=
    set_md a (M.marshal md).

  Variable env_decode : bytes -> option (envelope pubkey sigt).
  Variable peerid : Type.
  Variable verify : pubkey -> bytes -> sigt -> bool.
  Variable peer_id : pubkey -> peerid.
  Variable peerid_eqb : peerid -> peerid -> bool.
  Variable H : bytes -> res bytes.
  Variable decode_pid : bytes -> option peerid.

  (* the receiver: decode the block, verify, decode the metadata field *)
  Definition wire_read_metadata (strict : bool) (w : bytes) : res (peerid * list M.proto) :=
    c <- S.typed_load_ad w ;;
    s <- A.verify_gen verify peer_id peerid_eqb H decode_pid strict (of_c13 env_decode c) ;;
    m <- M.unmarshal (S.a_meta c) ;;
    Ok (s, m).
End AdWrap.

Arguments set_md {pubkey sigt} a m.
Arguments with_metadata {pubkey sigt} a md.
Arguments wire_read_metadata {pubkey sigt} env_decode {peerid} verify peer_id peerid_eqb H decode_pid strict w.

(* Advertisement.Validate's metadata bound, as a number of bytes *)
Definition max_metadata_len : N := Z.to_N Gen.Gen_Consts.schema_MaxMetadataLen.

(* ------------------------------------------------------------------ *)
(* case checker (family adwrap): the DAG-CBOR bytes of a real advertisement that carries
   real metadata, signed with a real key (and possibly tampered with afterwards), through
   C13's typed decoder, C05's verification and C11's decoder -- against what
   BytesToAdvertisement + VerifySignature + metadata.UnmarshalBinary did.  The tables are
   those of the C05 x C13 wire cases (sha256 of the payloads, peer.Decode of the ID strings,
   UnmarshalEnvelope of the signature bytes). *)

Record adcase := ADC {
  ac_w : wcase;                          (* tables, wire bytes, observed VerifySignature verdict *)
  ac_obs : res (N * list M.proto)        (* observed: signer and decoded protocols, or failure *)
}.

Definition sym_wire_read_metadata (c : wcase) : res (N * list M.proto) :=
  wire_read_metadata (table_env_decode (wc_envs c)) Sym.verify Sym.peer_id Sym.peerid_eqb
                     (A.table_H (wc_H c)) (A.ids_decode (wc_ids c)) true (wc_wire c).

Definition adwrap_case_ok (c : adcase) : bool :=
  wire_case_ok (ac_w c)
  && A.res_matches (fun x y => (fst x =? fst y) && M.protos_eqb (snd x) (snd y))
                   (sym_wire_read_metadata (ac_w c)) (ac_obs c).
