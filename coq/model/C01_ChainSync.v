(* C01 -- chain sync fetches and reports exactly the requested chain segment.
   Executable definitions only.

   What is modelled (Go source in parentheses)

     * ipld-prime v0.21 traversal of ExploreRecursive(limit, sequence, stopAt) as
       dagsync uses it (traversal/walk.go explore/loadLink, selector/exploreRecursive.go):
       the root block is always loaded; an edge is not followed when the link equals the
       stop link, nor when the remaining depth is < 2; a followed link is loaded and its
       block explored with the depth decreased by one; blocks are met in pre-order, edges
       in the order of the block's fields ([walk]);
     * the selector sequences of dagsync/subscriber.go NewSubscriber as VIEWS of a block's
       links: strict advertisement selector = the PreviousID field only; entries selector =
       the Next field only; non-strict / selectorOne / selectorAll = every link;
     * Syncer.Sync / walkFetch / fetchBlock (dagsync/ipnisync/sync.go L223-L304, L377): a
       block present in the local store is not requested; a block absent locally is
       requested from the publisher and, when served, committed to the store at once; the
       block hook is replayed over the traversal order only after the whole walk succeeded
       ([sync_once]);
     * handler.handle (dagsync/subscriber.go L975-L1097): the decision whether to segment,
       and the segment loop with nextDepth / depthSoFar / remainingDepth and its three
       exits, transcribed with fuel ([handle], [seg_loop]);
     * SyncAdChain (L404-L520): option resolution (stop link, depth limit, segment depth,
       hook), head query, early return when stop = head, latest-sync update and event;
       SyncEntries / SyncOneEntry / SyncHAMTEntries ([sync_ad_chain], [sync_entries], ...).

   The block hook is the one the API prescribes for segmented syncs (nominates the block's
   own PreviousID / Next link, cid.Undef when it has none: dagsync.MakeGeneralBlockHook);
   a hook that nominates nothing and "no hook" are modelled too.

   CIDs are opaque numbers.  A [world] gives every block's links (content addressed: the
   same for publisher and subscriber) and which blocks the publisher serves.  Verification
   of fetched bytes is C02's subject: here the publisher serves what it has.

   The specification [segment] is written independently of [walk]. *)
From Lib Require Import Bytes.
Open Scope N_scope.

Definition cid := N.

Definition memb (c : cid) (l : list cid) : bool := existsb (N.eqb c) l.

(* ================================================================ *)
(* 1. Blocks                                                         *)

Inductive ekind := EPrev | ENext | EOther.
Definition edge := (ekind * cid)%type.

(* content of every block anybody could hold: its links in field order *)
Definition dag := list (cid * list edge).

Fixpoint dag_get (d : dag) (c : cid) : option (list edge) :=
  match d with
  | [] => None
  | (k, es) :: r => if k =? c then Some es else dag_get r c
  end.

Record world := WORLD {
  w_dag : dag;
  w_pub : list cid }.      (* blocks the publisher serves *)

Inductive view := VPrev | VNext | VAll.

Definition in_view (v : view) (e : edge) : bool :=
  match v, fst e with
  | VAll, _ => true
  | VPrev, EPrev => true
  | VNext, ENext => true
  | _, _ => false
  end.

Definition follow (v : view) (es : list edge) : list cid := map snd (filter (in_view v) es).

(* the link the prescribed hook nominates: the block's PreviousID, else its Next *)
Fixpoint first_kind (k : ekind) (es : list edge) : option cid :=
  match es with
  | [] => None
  | (EPrev, c) :: r => match k with EPrev => Some c | _ => first_kind k r end
  | (ENext, c) :: r => match k with ENext => Some c | _ => first_kind k r end
  | _ :: r => first_kind k r
  end.

Definition chain_link (d : dag) (c : cid) : option cid :=
  match dag_get d c with
  | None => None
  | Some es => match first_kind EPrev es with
               | Some p => Some p
               | None => first_kind ENext es
               end
  end.

(* ================================================================ *)
(* 2. One traversal                                                  *)

Inductive wres := WOk | WMissing (c : cid) | WFuel.

Record wout := WO {
  o_order : list cid;     (* blocks loaded, in traversal order *)
  o_reqs : list cid;      (* blocks requested from the publisher, in order *)
  o_store : list cid;     (* local store afterwards *)
  o_res : wres }.

Definition is_stop (stop : option cid) (c : cid) : bool :=
  match stop with Some s => s =? c | None => false end.

(* depth limit: None = RecursionLimitNone, Some d = RecursionLimitDepth d *)
Definition deeper (lim : option nat) : bool :=
  match lim with Some d => negb (d <? 2)%nat | None => true end.
Definition dec_lim (lim : option nat) : option nat :=
  match lim with Some d => Some (d - 1)%nat | None => None end.

(* fetchBlock + read: Some (links, requested?) or None (nobody serves it) *)
Definition load (w : world) (c : cid) (store : list cid) : option (list edge * bool) :=
  match dag_get (w_dag w) c with
  | None => None
  | Some es =>
    if memb c store then Some (es, false)
    else if memb c (w_pub w) then Some (es, true)
    else None
  end.

Fixpoint walk (fuel : nat) (w : world) (v : view) (stop : option cid) (lim : option nat)
         (c : cid) (store : list cid) : wout :=
  match fuel with
  | O => WO [] [] store WFuel
  | S f =>
    match load w c store with
    | None => WO [] (if memb c store then [] else [c]) store (WMissing c)
    | Some (es, req) =>
      (fix go (l : list cid) (acc : wout) : wout :=
         match l with
         | [] => acc
         | e :: r =>
           if is_stop stop e || negb (deeper lim) then go r acc
           else
             let o := walk f w v stop (dec_lim lim) e (o_store acc) in
             let acc' := WO (o_order acc ++ o_order o) (o_reqs acc ++ o_reqs o) (o_store o) (o_res o) in
             match o_res o with
             | WOk => go r acc'
             | _ => acc'
             end
         end) (follow v es)
              (WO [c] (if req then [c] else []) (if req then c :: store else store) WOk)
    end
  end.

(* enough for every acyclic world *)
Definition walk_fuel (w : world) : nat := S (length (w_dag w)).

(* ================================================================ *)
(* 3. handler.handle                                                 *)

Inductive hook_kind := HNone | HNominate | HSilent.

Definition has_hook (h : hook_kind) : bool := match h with HNone => false | _ => true end.

Record hout := HO {
  h_hooks : list cid;      (* block-hook calls, in order *)
  h_reqs : list cid;
  h_store : list cid;
  h_count : nat;           (* syncedCount returned *)
  h_err : option wres }.   (* None = nil error *)

(* what segSync.nextSyncCid holds after the hook calls of one Sync: None = nil or cid.Undef *)
Definition nominated (w : world) (h : hook_kind) (order : list cid) : option cid :=
  match h with
  | HNominate => match rev order with
                 | [] => None
                 | lastc :: _ => chain_link (w_dag w) lastc
                 end
  | _ => None
  end.

(* syncBySegment *)
Definition seg_enabled (segdl : Z) (h : hook_kind) (lim : option nat) : bool :=
  (0 <? segdl)%Z && has_hook h &&
  match lim with Some d => negb (Z.of_nat d <=? segdl)%Z | None => true end.

Definition calls_of (h : hook_kind) (order : list cid) : list cid :=
  if has_hook h then order else [].

(* the non-segmented branch *)
Definition handle_plain (w : world) (v : view) (stop : option cid) (lim : option nat)
           (h : hook_kind) (c : cid) (store : list cid) : hout :=
  let o := walk (walk_fuel w) w v stop lim c store in
  match o_res o with
  | WOk => HO (calls_of h (o_order o)) (o_reqs o) (o_store o) (length (o_order o)) None
  | e => HO [] (o_reqs o) (o_store o) 0 (Some e)
  end.

(* SegSyncLoop.  orig = the selector's own limit, segdl > 0, nd = nextDepth, dsf =
   depthSoFar, next = *segSync.nextSyncCid *)
Fixpoint seg_loop (fuel : nat) (w : world) (v : view) (stop : option cid) (orig : option nat)
         (segdl : nat) (h : hook_kind) (nd dsf : nat) (next : cid) (acc : hout) : hout :=
  match fuel with
  | O => HO (h_hooks acc) (h_reqs acc) (h_store acc) 0 (Some WFuel)
  | S f =>
    let o := walk (walk_fuel w) w v stop (Some nd) next (h_store acc) in
    match o_res o with
    | WOk =>
      let acc' := HO (h_hooks acc ++ o_order o) (h_reqs acc ++ o_reqs o) (o_store o)
                     (h_count acc + length (o_order o)) None in
      let dsf' := (dsf + nd)%nat in
      match nominated w h (o_order o) with
      | None => acc'
      | Some n =>
        if is_stop stop n then acc'
        else match orig with
             | None => seg_loop f w v stop orig segdl h nd dsf' n acc'
             | Some D =>
               if (D <=? dsf')%nat then acc'
               else let rem := (D - dsf')%nat in
                    let nd' := if (rem <? segdl)%nat then rem else nd in
                    seg_loop f w v stop orig segdl h nd' dsf' n acc'
             end
      end
    | e => HO (h_hooks acc) (h_reqs acc ++ o_reqs o) (o_store o) 0 (Some e)
    end
  end.

Definition seg_fuel (w : world) : nat := S (length (w_dag w)).

Definition handle (w : world) (v : view) (stop : option cid) (lim : option nat)
           (segdl : Z) (h : hook_kind) (c : cid) (store : list cid) : hout :=
  if seg_enabled segdl h lim
  then seg_loop (seg_fuel w) w v stop lim (Z.to_nat segdl) h (Z.to_nat segdl) 0 c (HO [] [] store 0 None)
  else handle_plain w v stop lim h c store.

(* ================================================================ *)
(* 4. Subscriber entry points                                        *)

(* recursionLimit(depth): < 1 means none *)
Definition rl (depth : Z) : option nat :=
  if (depth <? 1)%Z then None else Some (Z.to_nat depth).

Record subcfg := CFG {
  c_ads_depth : Z;        (* AdsDepthLimit *)
  c_first_depth : Z;      (* FirstSyncDepth (the option clamps negatives to 0) *)
  c_seg_depth : Z;        (* SegmentDepthLimit, default -1 *)
  c_entries_depth : Z;    (* EntriesDepthLimit *)
  c_strict : bool;        (* StrictAdsSelector, default true *)
  c_hook : hook_kind;     (* BlockHook *)
  c_lastknown : option cid }.   (* WithLastKnownSync: what the function answers for this publisher *)

Record substate := ST {
  s_latest : option cid;  (* latest sync of this publisher (Subscriber.latestSyncHandler) *)
  s_store : list cid }.

(* GetLatestSync: the recorded value, else what WithLastKnownSync's function knows (the code
   also caches that answer; with a constant function the cache is not observable) *)
Definition eff_latest (cfg : subcfg) (st : substate) : option cid :=
  match s_latest st with
  | Some c => Some c
  | None => c_lastknown cfg
  end.

Record adcall := ADCALL {
  a_head : option cid;        (* WithHeadAdCid *)
  a_stop : option cid;        (* WithStopAdCid *)
  a_resync : bool;            (* WithAdsResync *)
  a_depth : Z;                (* ScopedDepthLimit, 0 = not given *)
  a_seg : Z;                  (* ScopedSegmentDepthLimit, 0 = not given *)
  a_hook : option hook_kind;  (* ScopedBlockHook *)
  a_pubhead : option cid }.   (* what the publisher's head query answers; None = no head (204) *)

Inductive retv := ROk (c : cid) | RNil | RErr | RPanic.   (* the model never yields RPanic *)

Record callout := CO {
  r_ret : retv;
  r_hooks : list cid;
  r_reqs : list cid;
  r_event : option (cid * nat);   (* SyncFinished (Cid, Count) *)
  r_state : substate }.

Definition ads_view (cfg : subcfg) : view := if c_strict cfg then VPrev else VAll.

(* SyncAdChain L438-L455, in the order of the Go statements:
     depthLimit := s.adsDepthLimit; if opts.depthLimit != 0 { depthLimit = recursionLimit(opts.depthLimit) }
     if opts.resync { if stopAdCid != Undef { stopLnk = stopAdCid } }
     else { if stopAdCid != Undef { stopLnk = stopAdCid } else { stopLnk = GetLatestSync } } *)
Definition go_stop (cfg : subcfg) (st : substate) (a : adcall) : option cid :=
  if a_resync a
  then match a_stop a with Some s => Some s | None => None end
  else match a_stop a with Some s => Some s | None => eff_latest cfg st end.

(* ... and L480-L488: if stopLnk != nil { (early return test) }
     else if s.firstSyncDepth != 0 && opts.depthLimit == 0 { depthLimit = recursionLimit(firstSyncDepth) } *)
Definition go_depth (cfg : subcfg) (a : adcall) (stop : option cid) : option nat :=
  let depthLimit := rl (c_ads_depth cfg) in
  let depthLimit := if negb (a_depth a =? 0)%Z then rl (a_depth a) else depthLimit in
  match stop with
  | Some _ => depthLimit
  | None => if negb (c_first_depth cfg =? 0)%Z && (a_depth a =? 0)%Z
            then rl (c_first_depth cfg) else depthLimit
  end.

Definition resolve_seg (cfg : subcfg) (a_seg : Z) : Z :=
  if (a_seg =? 0)%Z then c_seg_depth cfg else a_seg.

Definition resolve_hook (cfg : subcfg) (scoped : option hook_kind) : hook_kind :=
  match scoped with
  | Some HNone | None => c_hook cfg    (* a nil scoped hook is "not given" *)
  | Some h => h
  end.

Definition sync_ad_chain (w : world) (cfg : subcfg) (a : adcall) (st : substate) : callout :=
  let stop := go_stop cfg st a in
  match (match a_head a with
         | Some h => Some (h, false)
         | None => match a_pubhead a with
                   | Some h => Some (h, true)
                   | None => None
                   end
         end) with
  | None => CO RErr [] [] None st       (* head query fails: 204 is not 200 *)
  | Some (head, queried) =>
    if is_stop stop head then CO (ROk head) [] [] None st
    else
      let lim := go_depth cfg a stop in
      let o := handle w (ads_view cfg) stop lim (resolve_seg cfg (a_seg a))
                      (resolve_hook cfg (a_hook a)) head (s_store st) in
      match h_err o with
      | Some _ => CO RErr (h_hooks o) (h_reqs o) None (ST (s_latest st) (h_store o))
      | None =>
        if queried
        then CO (ROk head) (h_hooks o) (h_reqs o) (Some (head, h_count o)) (ST (Some head) (h_store o))
        else CO (ROk head) (h_hooks o) (h_reqs o) None (ST (s_latest st) (h_store o))
      end
  end.

(* syncEntries: entCid Undef => nil, nothing happens *)
Definition sync_entries_with (w : world) (v : view) (lim : option nat) (segdl : Z)
           (h : hook_kind) (ent : option cid) (st : substate) : callout :=
  match ent with
  | None => CO RNil [] [] None st
  | Some c =>
    let o := handle w v None lim segdl h c (s_store st) in
    match h_err o with
    | Some _ => CO RErr (h_hooks o) (h_reqs o) None (ST (s_latest st) (h_store o))
    | None => CO RNil (h_hooks o) (h_reqs o) None (ST (s_latest st) (h_store o))
    end
  end.

(* SyncEntries: Next chain, scoped or subscriber depth, the SUBSCRIBER's segment depth *)
Definition sync_entries (w : world) (cfg : subcfg) (ent : option cid) (depth : Z)
           (scoped : option hook_kind) (st : substate) : callout :=
  sync_entries_with w VNext
    (if (depth =? 0)%Z then rl (c_entries_depth cfg) else rl depth)
    (c_seg_depth cfg) (resolve_hook cfg scoped) ent st.

(* SyncOneEntry: depth 0, general hook, no segmentation *)
Definition sync_one (w : world) (cfg : subcfg) (ent : option cid) (st : substate) : callout :=
  sync_entries_with w VAll (Some 0%nat) (-1)%Z (c_hook cfg) ent st.

(* SyncHAMTEntries: every link, no limit, no segmentation *)
Definition sync_all (w : world) (cfg : subcfg) (ent : option cid)
           (scoped : option hook_kind) (st : substate) : callout :=
  sync_entries_with w VAll None (-1)%Z (resolve_hook cfg scoped) ent st.

(* ================================================================ *)
(* 5. The specification (independent of the walk)                    *)

(* the chain from head on: the suffix of ch (newest first) that starts at head *)
Fixpoint from (head : cid) (ch : list cid) : list cid :=
  match ch with
  | [] => []
  | c :: r => if c =? head then ch else from head r
  end.

Fixpoint take_until (stop : option cid) (l : list cid) : list cid :=
  match l with
  | [] => []
  | c :: r => if is_stop stop c then [] else c :: take_until stop r
  end.

(* a depth limit d admits max d 1 blocks (the root is always loaded) *)
Definition cut (lim : option nat) (l : list cid) : list cid :=
  match lim with
  | Some d => firstn (Nat.max d 1) l
  | None => l
  end.

Definition segment (ch : list cid) (head : cid) (stop : option cid) (lim : option nat) : list cid :=
  cut lim (take_until stop (from head ch)).

(* which stop point and which depth limit apply to a SyncAdChain call, as the options
   document them: an explicit stop CID wins; otherwise the publisher's latest sync, unless
   this is a resync; a per-call depth wins over everything; otherwise the first-sync depth
   when no stop point applies and one is configured; otherwise the subscriber-wide depth;
   a depth < 1 means "no limit" *)
Definition stop_table (latest explicit : option cid) (resync : bool) : option cid :=
  match explicit, resync with
  | Some s, _ => Some s
  | None, true => None
  | None, false => latest
  end.

Definition depth_table (ads first scoped : Z) (stop : option cid) : option nat :=
  let pick := if negb (scoped =? 0)%Z then scoped
              else match stop with
                   | None => if negb (first =? 0)%Z then first else ads
                   | Some _ => ads
                   end in
  if (pick <? 1)%Z then None else Some (Z.to_nat pick).

(* the head a SyncAdChain call syncs to, and whether it was queried from the publisher *)
Definition the_head (a : adcall) : option (cid * bool) :=
  match a_head a with
  | Some h => Some (h, false)
  | None => match a_pubhead a with
            | Some h => Some (h, true)
            | None => None
            end
  end.

(* depth limit of a SyncEntries call: per-call depth, else the subscriber's *)
Definition entries_depth_table (entries scoped : Z) : option nat :=
  let pick := if negb (scoped =? 0)%Z then scoped else entries in
  if (pick <? 1)%Z then None else Some (Z.to_nat pick).

(* the world of a chain ch (newest first): each block links its successor with an edge of
   kind k, and carries [extra] other links the chain selectors ignore *)
Fixpoint chain_dag (k : ekind) (extra : list edge) (ch : list cid) : dag :=
  match ch with
  | [] => []
  | c :: r => (c, extra ++ match r with p :: _ => [(k, p)] | [] => [] end) :: chain_dag k extra r
  end.

Definition is_other (e : edge) : bool := match fst e with EOther => true | _ => false end.
Definition chain_kind (k : ekind) : bool := match k with EOther => false | _ => true end.
Fixpoint nodupb (l : list cid) : bool :=
  match l with [] => true | c :: r => negb (memb c r) && nodupb r end.

(* a chain world: the chain link is PreviousID or Next, the other links of a block are of
   neither kind, no block occurs twice *)
Definition chain_wf (k : ekind) (extra : list edge) (ch : list cid) : bool :=
  chain_kind k && forallb is_other extra && nodupb ch.

Definition chain_world (k : ekind) (extra : list edge) (ch pub : list cid) : world :=
  WORLD (chain_dag k extra ch) pub.

(* every block of l can be had: it is stored locally or the publisher serves it *)
Definition avail (pub store l : list cid) : bool :=
  forallb (fun x => memb x store || memb x pub) l.

(* the blocks of seg the local store lacks, in order *)
Definition missing (store seg : list cid) : list cid :=
  filter (fun x => negb (memb x store)) seg.

(* trees of blocks, for the all-links selector (SyncHAMTEntries) *)
Inductive tree := Node (c : cid) (kids : list tree).

Definition root (t : tree) : cid := match t with Node c _ => c end.

Fixpoint preorder (t : tree) : list cid :=
  match t with
  | Node c ks => c :: (fix go (l : list tree) : list cid :=
                         match l with [] => [] | x :: r => preorder x ++ go r end) ks
  end.

Fixpoint depth (t : tree) : nat :=
  match t with
  | Node c ks => S ((fix go (l : list tree) : nat :=
                       match l with [] => 0%nat | x :: r => Nat.max (depth x) (go r) end) ks)
  end.

Definition edges_eqb (a b : list edge) : bool :=
  list_eqb (fun x y => (snd x =? snd y)) a b.

(* the world holds the tree: every block of t links exactly its children, in order (any kind
   of link, nested or not: the all-links selector follows them all) *)
Fixpoint dag_has (d : dag) (t : tree) : bool :=
  match t with
  | Node c ks =>
    match dag_get d c with
    | Some es => list_eqb N.eqb (map snd es) (map root ks)
    | None => false
    end &&
    (fix go (l : list tree) : bool :=
       match l with [] => true | x :: r => dag_has d x && go r end) ks
  end.

(* what a walk over the blocks l (in order, repetitions allowed) has to request: those that
   are neither stored nor met earlier in l *)
Fixpoint fetches (store : list cid) (l : list cid) : list cid :=
  match l with
  | [] => []
  | x :: r => if memb x store then fetches store r else x :: fetches (x :: store) r
  end.

Definition kind_view (k : ekind) : view :=
  match k with EPrev => VPrev | ENext => VNext | EOther => VAll end.

(* ================================================================ *)
(* 6. Case checkers                                                  *)

(* one Syncer.Sync with a caller-built selector: no segmentation, no early return *)
Definition sync_sel (w : world) (v : view) (stop : option cid) (lim : option nat) (root : cid)
           (st : substate) : callout :=
  let o := handle_plain w v stop lim HSilent root (s_store st) in
  match h_err o with
  | Some _ => CO RErr (h_hooks o) (h_reqs o) None (ST (s_latest st) (h_store o))
  | None => CO RNil (h_hooks o) (h_reqs o) None (ST (s_latest st) (h_store o))
  end.

Inductive call :=
| CAd (a : adcall)
| CEntries (ent : option cid) (depth : Z) (scoped : option hook_kind)
| COne (ent : option cid)
| CAll (ent : option cid) (scoped : option hook_kind)
| CRemove      (* Subscriber.RemoveHandler(publisher) *)
| CIdle        (* the idle-handler cleaner removes the publisher's handler *)
| CSel (v : view) (stop : option cid) (lim : option nat) (root : cid)
    (* Syncer.Sync called directly with a selector built by the exported builders
       (DagsyncSelector, ExploreRecursiveWithStop, ExploreRecursiveWithStopNode): the sequence
       as a view, the stop link, the recursion limit; the Sync's own block hook records *)
| CHide (hidden : list cid).   (* not a call: from now on the publisher serves every block of
                                  the world except these (a block withdrawn / restored) *)

(* the publisher's served set may change between calls *)
Definition step_world (w : world) (c : call) : world :=
  match c with
  | CHide l => WORLD (w_dag w) (filter (fun x => negb (memb x l)) (map fst (w_dag w)))
  | _ => w
  end.

(* removing a publisher's handler touches neither the latest sync nor the store: both are
   state of the Subscriber, not of the handler *)
Definition is_removal (c : call) : bool :=
  match c with CRemove | CIdle => true | _ => false end.

Definition run_call (w : world) (cfg : subcfg) (c : call) (st : substate) : callout :=
  match c with
  | CAd a => sync_ad_chain w cfg a st
  | CEntries e d h => sync_entries w cfg e d h st
  | COne e => sync_one w cfg e st
  | CAll e h => sync_all w cfg e h st
  | CSel v stop lim root => sync_sel w v stop lim root st
  | CRemove | CIdle | CHide _ => CO RNil [] [] None st
  end.

Fixpoint run_seq (w : world) (cfg : subcfg) (l : list call) (st : substate)
  : list (call * callout) * substate :=
  match l with
  | [] => ([], st)
  | c :: r =>
    let w' := step_world w c in
    let o := run_call w' cfg c st in
    let '(outs, st') := run_seq w' cfg r (r_state o) in
    ((c, o) :: outs, st')
  end.

(* what the harness observed of one call *)
Record obs := OBS {
  ob_ret : retv;
  ob_hooks : list cid;
  ob_reqs : list cid;
  ob_latest : option cid }.

Definition retv_eqb (a b : retv) : bool :=
  match a, b with
  | ROk x, ROk y => x =? y
  | RNil, RNil => true
  | RErr, RErr => true
  | RPanic, RPanic => true
  | _, _ => false
  end.

Definition cids_eqb := list_eqb N.eqb.

Definition subset (a b : list cid) : bool := forallb (fun c => memb c b) a.
Definition set_eqb (a b : list cid) : bool := subset a b && subset b a.

Definition event_eqb (x y : cid * nat) : bool := (fst x =? fst y) && Nat.eqb (snd x) (snd y).

Definition obs_ok (cfg : subcfg) (o : callout) (b : obs) : bool :=
  retv_eqb (r_ret o) (ob_ret b) && cids_eqb (r_hooks o) (ob_hooks b) &&
  cids_eqb (r_reqs o) (ob_reqs b) && option_eqb N.eqb (eff_latest cfg (r_state o)) (ob_latest b).

(* all calls agree with what was observed; final state; events emitted, in order *)
Fixpoint run_calls (w : world) (cfg : subcfg) (l : list (call * obs)) (st : substate)
  : bool * substate * list (cid * nat) :=
  match l with
  | [] => (true, st, [])
  | (c, b) :: r =>
    let w' := step_world w c in
    let o := run_call w' cfg c st in
    let '(ok, st', evs) := run_calls w' cfg r (r_state o) in
    (obs_ok cfg o b && ok, st', match r_event o with Some e => e :: evs | None => evs end)
  end.

(* world, config, initial state, the calls with what was observed, final store keys,
   SyncFinished events in order *)
Definition sync_case := (world * subcfg * substate * list (call * obs) * list cid * list (cid * nat))%type.

Definition sync_case_ok (c : sync_case) : bool :=
  let '(w, cfg, st, calls, final, events) := c in
  let '(ok, st', evs) := run_calls w cfg calls st in
  ok && set_eqb (s_store st') final && list_eqb event_eqb evs events.
