(* ingest/schema: Advertisement / EntryChunk <-> IPLD nodes per schema.ipldsch, as
   bindnode (go-ipld-prime v0.21.0 node/bindnode) wraps and assembles them.

   Executable definitions only.

   Go side modelled:
     Advertisement.ToNode / EntryChunk.ToNode = bindnode.Wrap(..).Representation():
       struct -> map in schema field order; an `optional` field (PreviousID, Next,
       ExtendedProvider) is OMITTED when the Go field is nil (no field of the schema is
       `nullable`, so null is never written and never accepted); a nil slice and an
       empty slice both give an empty list / empty bytes (the model has one value).
     the typed builder (AdvertisementPrototype.NewBuilder(), used by
       BytesToAdvertisement, by lsys.Load with the typed prototype, and by
       UnwrapAdvertisement when the node has a foreign prototype): accepts a map whose
       keys are field names in ANY order, rejects an unknown key, a missing required
       field, a value of the wrong kind (including null); list elements likewise.
       It does NOT reject a repeated key: the later value overwrites the earlier one,
       and for a list field the elements are APPENDED to those already there.  (The
       generic map of basicnode rejects a repeated key, so such a block only reaches the
       typed builder directly from the decoder: [typed_load_*] use [decode_lax].)
     Values are compared with Go up to nil == empty for slices and byte strings.

   A Go value with a nil `Entries` link (or a link holding cid.Undef) is outside this
   model: ToNode succeeds and every encoder returns an error for it (harness family
   "invalid"). *)
From Lib Require Import Bytes Cid.
From Model Require Import C13_DagCbor.
From Gen Require Import Gen_Consts.
From Coq Require Import String Ascii ZArith.
Open Scope N_scope.

Fixpoint s2b (s : string) : bytes :=
  match s with
  | EmptyString => []
  | String a r => N_of_ascii a :: s2b r
  end.

Record provider := { p_id : bytes; p_addrs : list bytes; p_meta : bytes; p_sig : bytes }.
Record extprov := { x_provs : list provider; x_override : bool }.
Record ad := {
  a_prev : option bytes;          (* PreviousID: raw CID bytes *)
  a_provider : bytes;
  a_addrs : list bytes;
  a_sig : bytes;
  a_entries : bytes;              (* Entries: raw CID bytes *)
  a_ctx : bytes;
  a_meta : bytes;
  a_isrm : bool;
  a_ext : option extprov
}.
Record chunk := { c_entries : list bytes; c_next : option bytes }.

(* field names *)
Definition kPreviousID := s2b "PreviousID".   Definition kProvider := s2b "Provider".
Definition kAddresses := s2b "Addresses".     Definition kSignature := s2b "Signature".
Definition kEntries := s2b "Entries".         Definition kContextID := s2b "ContextID".
Definition kMetadata := s2b "Metadata".       Definition kIsRm := s2b "IsRm".
Definition kExtendedProvider := s2b "ExtendedProvider".
Definition kProviders := s2b "Providers".     Definition kOverride := s2b "Override".
Definition kID := s2b "ID".                   Definition kNext := s2b "Next".

Definition ad_fields := [kPreviousID; kProvider; kAddresses; kSignature; kEntries; kContextID; kMetadata; kIsRm; kExtendedProvider].
Definition ext_fields := [kProviders; kOverride].
Definition prov_fields := [kID; kAddresses; kMetadata; kSignature].
Definition chunk_fields := [kEntries; kNext].

(* ---------------------------------------------------------------- *)
(* value -> node (representation level, schema field order)           *)

Definition opt_field (k : bytes) (o : option node) : list (bytes * node) :=
  match o with Some n => [(k, n)] | None => [] end.

Definition prov_to_node (p : provider) : node :=
  NMap [(kID, NString (p_id p)); (kAddresses, NList (map NString (p_addrs p)));
        (kMetadata, NBytes (p_meta p)); (kSignature, NBytes (p_sig p))].

Definition ext_to_node (x : extprov) : node :=
  NMap [(kProviders, NList (map prov_to_node (x_provs x))); (kOverride, NBool (x_override x))].

Definition ad_to_node (a : ad) : node :=
  NMap (opt_field kPreviousID (option_map NLink (a_prev a)) ++
        [(kProvider, NString (a_provider a)); (kAddresses, NList (map NString (a_addrs a)));
         (kSignature, NBytes (a_sig a)); (kEntries, NLink (a_entries a));
         (kContextID, NBytes (a_ctx a)); (kMetadata, NBytes (a_meta a)); (kIsRm, NBool (a_isrm a))] ++
        opt_field kExtendedProvider (option_map ext_to_node (a_ext a))).

Definition chunk_to_node (c : chunk) : node :=
  NMap ((kEntries, NList (map NBytes (c_entries c))) :: opt_field kNext (option_map NLink (c_next c))).

(* ---------------------------------------------------------------- *)
(* node -> value (the typed builder)                                  *)

Definition ESchemaKind := 20.       (* wrong kind for the field / not a map *)
Definition ESchemaMissing := 21.    (* required field missing *)
Definition ESchemaUnknown := 22.    (* key that is not a field *)

Definition memk (k : bytes) (l : list bytes) : bool := existsb (bytes_eqb k) l.

(* AssembleValue: a key that is not a field is rejected.  A REPEATED key is not: the
   struct assembler of bindnode v0.21.0 only records doneFields[i] = true and hands out an
   assembler for the same Go field again. *)
Definition struct_check (fields : list bytes) (m : list (bytes * node)) : res unit :=
  if forallb (fun kv => memk (fst kv) fields) m then Ok tt else Err ESchemaUnknown.

(* the values given for field k, in wire order *)
Definition occ (k : bytes) (m : list (bytes * node)) : list node :=
  map snd (filter (fun kv => bytes_eqb k (fst kv)) m).

Fixpoint map_res {A B} (f : A -> res B) (l : list A) : res (list B) :=
  match l with
  | [] => Ok []
  | x :: r => y <- f x ;; t <- map_res f r ;; Ok (y :: t)
  end.

Fixpoint last_opt {A} (l : list A) : option A :=
  match l with [] => None | [x] => Some x | _ :: r => last_opt r end.

(* scalar field (string, bytes, bool, link, optional struct): every occurrence is
   assembled (so each must have the right kind) into the same Go field: the last wins *)
Definition opt {A} (conv : node -> res A) (k : bytes) (m : list (bytes * node)) : res (option A) :=
  vs <- map_res conv (occ k m) ;; Ok (last_opt vs).
Definition req {A} (conv : node -> res A) (k : bytes) (m : list (bytes * node)) : res A :=
  o <- opt conv k m ;; match o with Some x => Ok x | None => Err ESchemaMissing end.

Definition as_string (n : node) : res bytes := match n with NString s => Ok s | _ => Err ESchemaKind end.
Definition as_bytes (n : node) : res bytes := match n with NBytes s => Ok s | _ => Err ESchemaKind end.
Definition as_link (n : node) : res bytes := match n with NLink s => Ok s | _ => Err ESchemaKind end.
Definition as_bool (n : node) : res bool := match n with NBool s => Ok s | _ => Err ESchemaKind end.

Definition as_list {A} (conv : node -> res A) (n : node) : res (list A) :=
  match n with NList l => map_res conv l | _ => Err ESchemaKind end.

(* list field: the list assembler APPENDS to the Go slice, so the elements of every
   occurrence of the field are concatenated *)
Definition req_list {A} (conv : node -> res A) (k : bytes) (m : list (bytes * node)) : res (list A) :=
  vs <- map_res (as_list conv) (occ k m) ;;
  match vs with [] => Err ESchemaMissing | _ => Ok (List.concat vs) end.

Definition node_to_prov (n : node) : res provider :=
  match n with
  | NMap m =>
      _ <- struct_check prov_fields m ;;
      i <- req as_string kID m ;;
      a <- req_list as_string kAddresses m ;;
      md <- req as_bytes kMetadata m ;;
      sg <- req as_bytes kSignature m ;;
      Ok {| p_id := i; p_addrs := a; p_meta := md; p_sig := sg |}
  | _ => Err ESchemaKind
  end.

Definition node_to_ext (n : node) : res extprov :=
  match n with
  | NMap m =>
      _ <- struct_check ext_fields m ;;
      ps <- req_list node_to_prov kProviders m ;;
      o <- req as_bool kOverride m ;;
      Ok {| x_provs := ps; x_override := o |}
  | _ => Err ESchemaKind
  end.

Definition node_to_ad (n : node) : res ad :=
  match n with
  | NMap m =>
      _ <- struct_check ad_fields m ;;
      pv <- opt as_link kPreviousID m ;;
      pr <- req as_string kProvider m ;;
      ad <- req_list as_string kAddresses m ;;
      sg <- req as_bytes kSignature m ;;
      en <- req as_link kEntries m ;;
      cx <- req as_bytes kContextID m ;;
      md <- req as_bytes kMetadata m ;;
      rm <- req as_bool kIsRm m ;;
      ex <- opt node_to_ext kExtendedProvider m ;;
      Ok {| a_prev := pv; a_provider := pr; a_addrs := ad; a_sig := sg; a_entries := en;
            a_ctx := cx; a_meta := md; a_isrm := rm; a_ext := ex |}
  | _ => Err ESchemaKind
  end.

Definition node_to_chunk (n : node) : res chunk :=
  match n with
  | NMap m =>
      _ <- struct_check chunk_fields m ;;
      es <- req_list as_bytes kEntries m ;;
      nx <- opt as_link kNext m ;;
      Ok {| c_entries := es; c_next := nx |}
  | _ => Err ESchemaKind
  end.

(* ---------------------------------------------------------------- *)
(* the two load paths and the byte-level compositions                 *)

(* lsys.Load / BytesToAdvertisement with the typed prototype: the decoder feeds the
   typed builder *)
Definition typed_load_ad (b : bytes) : res ad := n <- decode_lax b ;; node_to_ad n.
Definition typed_load_chunk (b : bytes) : res chunk := n <- decode_lax b ;; node_to_chunk n.
(* load with basicnode.Prototype.Any, then UnwrapAdvertisement: AssignNode of the
   generic node into the typed builder *)
Definition generic_load (b : bytes) : res node := decode b.
Definition unwrap_ad (n : node) : res ad := node_to_ad n.
Definition unwrap_chunk (n : node) : res chunk := node_to_chunk n.

Definition ad_encode (a : ad) : bytes := encode (ad_to_node a).
Definition chunk_encode (c : chunk) : bytes := encode (chunk_to_node c).

(* values the encoder accepts and the decoder gives back: bytes < 256, strings and byte
   strings at most MaxStr (the decoder refuses longer ones), links that cid.Cast accepts;
   list lengths below 2^63 (always true of a Go slice) *)
Definition link_ok (c : bytes) : bool := wf_bytes c && is_ok (cast c) && (blen c <? MaxStr).
Definition str_ok (s : bytes) : bool := wf_bytes s && (blen s <=? MaxStr).
Definition len_ok {A} (l : list A) : bool := nlen l <=? MaxInt.
Definition wf_prov (p : provider) : bool :=
  str_ok (p_id p) && forallb str_ok (p_addrs p) && len_ok (p_addrs p) && str_ok (p_meta p) && str_ok (p_sig p).
Definition wf_ext (x : extprov) : bool := forallb wf_prov (x_provs x) && len_ok (x_provs x).
Definition wf_ad (a : ad) : bool :=
  match a_prev a with Some c => link_ok c | None => true end &&
  str_ok (a_provider a) && forallb str_ok (a_addrs a) && len_ok (a_addrs a) && str_ok (a_sig a) && link_ok (a_entries a) &&
  str_ok (a_ctx a) && str_ok (a_meta a) &&
  match a_ext a with Some x => wf_ext x | None => true end.
Definition wf_chunk (c : chunk) : bool :=
  forallb str_ok (c_entries c) && len_ok (c_entries c) && match c_next c with Some l => link_ok l | None => true end.

(* ---------------------------------------------------------------- *)
(* Advertisement.Validate (types.go L103): only the two length limits, taken from the
   constants astgen reads out of schema.go (gen/Gen_Consts.v).  Nothing in the package
   calls it: ToNode, the encoders, BytesToAdvertisement and Unwrap* neither require nor
   establish it.  Family validate. *)
Definition validate (a : ad) : bool :=
  (Z.of_N (blen (a_ctx a)) <=? schema_MaxContextIDLen)%Z &&
  (Z.of_N (blen (a_meta a)) <=? schema_MaxMetadataLen)%Z.

(* ---------------------------------------------------------------- *)
(* equality, case checkers                                            *)

Definition lbytes_eqb := list_eqb bytes_eqb.
Definition prov_eqb (a b : provider) : bool :=
  bytes_eqb (p_id a) (p_id b) && lbytes_eqb (p_addrs a) (p_addrs b) &&
  bytes_eqb (p_meta a) (p_meta b) && bytes_eqb (p_sig a) (p_sig b).
Definition ext_eqb (a b : extprov) : bool :=
  list_eqb prov_eqb (x_provs a) (x_provs b) && Bool.eqb (x_override a) (x_override b).
Definition ad_eqb (a b : ad) : bool :=
  option_eqb bytes_eqb (a_prev a) (a_prev b) && bytes_eqb (a_provider a) (a_provider b) &&
  lbytes_eqb (a_addrs a) (a_addrs b) && bytes_eqb (a_sig a) (a_sig b) &&
  bytes_eqb (a_entries a) (a_entries b) && bytes_eqb (a_ctx a) (a_ctx b) &&
  bytes_eqb (a_meta a) (a_meta b) && Bool.eqb (a_isrm a) (a_isrm b) &&
  option_eqb ext_eqb (a_ext a) (a_ext b).
Definition chunk_eqb (a b : chunk) : bool :=
  lbytes_eqb (c_entries a) (c_entries b) && option_eqb bytes_eqb (c_next a) (c_next b).

Definition res_match {A B} (eqb : A -> B -> bool) (model : res A) (obs : res B) : bool :=
  match model, obs with
  | Ok a, Ok b => eqb a b
  | Err _, Err _ => true
  | _, _ => false
  end.

(* family ad: (value, DAG-CBOR bytes the real encoder wrote for it): the model writes
   the same bytes, and reads them back to the value through both load paths *)
Definition ad_case_ok (c : ad * bytes) : bool :=
  let '(a, b) := c in
  wf_ad a && bytes_eqb (ad_encode a) b &&
  res_match ad_eqb (typed_load_ad b) (Ok a) &&
  res_match ad_eqb (n <- generic_load b ;; unwrap_ad n) (Ok a).

Definition chunk_case_ok (c : chunk * bytes) : bool :=
  let '(x, b) := c in
  wf_chunk x && bytes_eqb (chunk_encode x) b &&
  res_match chunk_eqb (typed_load_chunk b) (Ok x) &&
  res_match chunk_eqb (n <- generic_load b ;; unwrap_chunk n) (Ok x).

(* family dec: arbitrary bytes through the real decoders:
   (input, did the generic decode succeed, the real re-encoding of the generic node when it
    differs from the input (None = identical to the input), BytesToAdvertisement: value or
    error, BytesToEntryChunk: value or error).  The generic node itself is compared through
    its re-encoding: [encode] is injective up to map order (C13 proofs), so equal
    re-encodings mean the model decoded the node the real decoder decoded.  A node holding
    a float is not compared (float values are not modelled). *)
Fixpoint has_float (n : node) : bool :=
  match n with
  | NFloat => true
  | NList l => existsb has_float l
  | NMap m => existsb (fun kv => has_float (snd kv)) m
  | _ => false
  end.

Definition dec_case_ok (c : bytes * bool * option bytes * res ad * res chunk) : bool :=
  let '(b, gen_ok, reenc, obs_ad, obs_chunk) := c in
  match decode b with
  | Ok n => gen_ok && (has_float n || bytes_eqb (encode n) (match reenc with Some r => r | None => b end))
  | _ => negb gen_ok
  end &&
  res_match ad_eqb (typed_load_ad b) obs_ad &&
  res_match chunk_eqb (typed_load_chunk b) obs_chunk.

(* family node: generic nodes built by the harness: (node, bytes the real encoder wrote) *)
Definition node_case_ok (c : node * bytes) : bool :=
  let '(n, b) := c in
  bytes_eqb (encode n) b && res_match node_eqb (decode b) (Ok (norm n)).

(* family validate: (value, Validate() == nil) *)
Definition validate_case_ok (c : ad * bool) : bool := Bool.eqb (validate (fst c)) (snd c).
