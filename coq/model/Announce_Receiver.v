(* announce.Receiver and its duplicate filter (announce/receiver.go, string_lru.go):
   executable definitions only.  Used by C09 (delivery rule) and C16 (shutdown).

   Part 1: the LRU of string_lru.go.
   Part 2: sequential semantics of the API (one call at a time, each call either
           returns or blocks until the harness cancels its context); Go's select
           picks among ready cases at random, so a step yields the *set* of
           possible outcomes and a history is accepted if some choice explains it.
   Part 3 (C16_ReceiverClose.v) gives the thread-level transition system. *)
From Coq Require Export List NArith Bool.
Export ListNotations.
Open Scope N_scope.

(* ---------------------------------------------------------------- *)
(* Part 1: stringLRU.  Most recently used first.                    *)

Fixpoint memN (c : N) (l : list N) : bool :=
  match l with [] => false | x :: r => (c =? x) || memN c r end.
Fixpoint removeN (c : N) (l : list N) : list N :=
  match l with [] => [] | x :: r => if c =? x then r else x :: removeN c r end.

(* stringLRU.update: returns (hit, new contents) *)
Definition lru_update (cap : nat) (c : N) (l : list N) : bool * list N :=
  if memN c l then (true, c :: removeN c l)
  else (false, c :: (if Nat.eqb (length l) cap then removelast l else l)).

(* stringLRU.remove *)
Definition lru_remove (c : N) (l : list N) : list N := removeN c l.

(* ---------------------------------------------------------------- *)
(* Part 2: sequential semantics                                      *)

Record ann := { a_cid : N; a_peer : N; a_addrs : list (N * bool) (* address id, is-public *) }.

Record cfg := { cap : nat; filter_ips : bool }.

Record rst := { closed : bool; out : option ann; lru : list N }.

Definition rinit : rst := {| closed := false; out := None; lru := [] |}.

Inductive op :=
| OClose
| ODirect (allowed : bool) (a : ann) (cancelled : bool)
| ONext (cancelled : bool)
| OUncache (c : N).

Inductive outcome :=
| RNil            (* returned nil / no value *)
| RClosed         (* ErrClosed *)
| RCtx            (* context error, context was already cancelled when called *)
| RBlocked        (* did not return until the caller cancelled its context, then ctx error *)
| RAnn (a : ann)  (* Next returned this announcement *)
| RHung.          (* never returned, even after cancellation: never produced by the model *)

Definition filter_addrs (c : cfg) (a : ann) : ann :=
  if filter_ips c
  then {| a_cid := a_cid a; a_peer := a_peer a; a_addrs := filter (fun x => snd x) (a_addrs a) |}
  else a.

Definition set_closed (s : rst) := {| closed := true; out := out s; lru := lru s |}.
Definition set_out (s : rst) o := {| closed := closed s; out := o; lru := lru s |}.
Definition set_lru (s : rst) l := {| closed := closed s; out := out s; lru := l |}.

Definition seq_step (c : cfg) (s : rst) (o : op) : list (outcome * rst) :=
  match o with
  | OClose => [(RNil, set_closed s)]
  | OUncache k => [(RNil, set_lru s (lru_remove k (lru s)))]
  | ODirect allowed a cancelled =>
    if negb allowed then [(RNil, s)]                      (* not allowed: ignored, filter untouched *)
    else if closed s then [(RClosed, s)]
    else
      let '(hit, l') := lru_update (cap c) (a_cid a) (lru s) in
      let s1 := set_lru s l' in
      if hit then [(RNil, s1)]                             (* duplicate: ignored, recency refreshed *)
      else
        let a' := filter_addrs c a in
        match out s1 with
        | None => (RNil, set_out s1 (Some a')) :: (if cancelled then [(RCtx, s1)] else [])
        | Some _ => if cancelled then [(RCtx, s1)] else [(RBlocked, s1)]
        end
  | ONext cancelled =>
    let r_out := match out s with Some a => [(RAnn a, set_out s None)] | None => [] end in
    let r_done := if closed s then [(RClosed, s)] else [] in
    let r_ctx := if cancelled then [(RCtx, s)] else [] in
    match r_out ++ r_done ++ r_ctx with
    | [] => [(RBlocked, s)]
    | l => l
    end
  end.

(* equality on observables *)
Definition addr_eqb (x y : N * bool) := (fst x =? fst y) && Bool.eqb (snd x) (snd y).
Fixpoint addrs_eqb (x y : list (N * bool)) : bool :=
  match x, y with
  | [], [] => true
  | a :: x', b :: y' => addr_eqb a b && addrs_eqb x' y'
  | _, _ => false
  end.
Definition ann_eqb (x y : ann) : bool :=
  (a_cid x =? a_cid y) && (a_peer x =? a_peer y) && addrs_eqb (a_addrs x) (a_addrs y).
Definition outcome_eqb (x y : outcome) : bool :=
  match x, y with
  | RNil, RNil | RClosed, RClosed | RCtx, RCtx | RBlocked, RBlocked | RHung, RHung => true
  | RAnn a, RAnn b => ann_eqb a b
  | _, _ => false
  end.

(* acceptor over sets of states *)
Definition step_set (c : cfg) (ss : list rst) (o : op) (r : outcome) : list rst :=
  flat_map (fun s => map snd (filter (fun p => outcome_eqb (fst p) r) (seq_step c s o))) ss.

Fixpoint accepts_from (c : cfg) (ss : list rst) (h : list (op * outcome)) : bool :=
  match h with
  | [] => match ss with [] => false | _ => true end
  | (o, r) :: rest =>
    match step_set c ss o r with
    | [] => false
    | ss' => accepts_from c ss' rest
    end
  end.

Definition accepts (c : cfg) (h : list (op * outcome)) : bool := accepts_from c [rinit] h.

(* index of the first call the model cannot explain (for shrinking / reporting) *)
Fixpoint first_reject (c : cfg) (ss : list rst) (i : nat) (h : list (op * outcome)) : option nat :=
  match h with
  | [] => None
  | (o, r) :: rest =>
    match step_set c ss o r with
    | [] => Some i
    | ss' => first_reject c ss' (S i) rest
    end
  end.

(* LRU-only histories (exhaustive small-capacity cases through the verif hook) *)
Inductive lop := LUpdate (c : N) | LRemove (c : N).
Definition lru_step (cap : nat) (l : list N) (o : lop) : bool * list N :=
  match o with
  | LUpdate c => lru_update cap c l
  | LRemove c => (memN c l, lru_remove c l)
  end.
Fixpoint lru_run (cap : nat) (l : list N) (ops : list lop) : list bool * list N :=
  match ops with
  | [] => ([], l)
  | o :: r => let '(b, l') := lru_step cap l o in
              let '(bs, lf) := lru_run cap l' r in (b :: bs, lf)
  end.

Fixpoint listN_eqb (a b : list N) : bool :=
  match a, b with
  | [], [] => true
  | x :: a', y :: b' => (x =? y) && listN_eqb a' b'
  | _, _ => false
  end.
Fixpoint listb_eqb (a b : list bool) : bool :=
  match a, b with
  | [], [] => true
  | x :: a', y :: b' => Bool.eqb x y && listb_eqb a' b'
  | _, _ => false
  end.

(* a case: capacity, ops, observed results, observed final keys (MRU first) *)
Definition lru_case_ok (c : nat * list lop * list bool * list N) : bool :=
  let '(cap, ops, rs, keys) := c in
  let '(rs', keys') := lru_run cap [] ops in
  listb_eqb rs rs' && listN_eqb keys keys'.
