(* C02 -- only bytes that hash to the requested CID are ever stored or reported.
   Executable definitions only.  Builds on Model.C01_ChainSync (links, views, depth and
   stop rules, the segment loop); what changes is the publisher: it is an ADVERSARY that
   answers the i-th block request of a sync with any body, or with an error, and the local
   store now holds bodies.

   What is modelled (dagsync/ipnisync/sync.go)

     * fetchBlock L377-L405: the local presence test lsys.Load (read + hash check of an
       untrusted link system + decode); otherwise the request, the tee of the body into an
       UNCOMMITTED write buffer, multihash.SumStream with the requested CID's own function and
       length, the comparison with the CID's digest, and only then the commit; a mismatch or
       a transport / status error fails the fetch with nothing committed ([fetch_block]);
     * walkFetch's read opener: after a successful fetch the block is read back from the
       store (trusted: not hashed again) and decoded; its links come from the STORED BODY
       ([fwalk]);
     * Syncer.Sync: the hook is replayed over the traversal order only after the whole walk
       succeeded; handler.handle with the segment loop, as in C01 but over [fwalk].

   [body], [hashes_to] and [links_of] are parameters: nothing is assumed about the hash
   function (no collision freedom is needed: "hashes to" is the only notion the property
   uses).  The case checker instantiates them symbolically: a body is a content number,
   content j hashes to CID j only, and decodes to block j's links. *)
From Lib Require Import Bytes.
From Model Require Import C01_ChainSync.
Open Scope N_scope.

Section Fetch.
Variable body : Type.
Variable hashes_to : body -> cid -> bool.           (* SumStream(body, c.MhType, c.MhLength) == c.Hash() *)
Variable links_of : body -> option (list edge).     (* dag-json decode; None = not decodable *)
Variable verifiable : cid -> bool.                  (* the hash function the CID names is available:
                                                       the traversal link system's HasherChooser
                                                       (multihash.GetHasher) accepts its code *)

(* the destination store: the newest entry of a key is the one a read returns *)
Definition bstore := list (cid * body).

Fixpoint bget (s : bstore) (c : cid) : option body :=
  match s with
  | [] => None
  | (k, b) :: r => if k =? c then Some b else bget r c
  end.

Definition is_some {A} (o : option A) : bool := match o with Some _ => true | None => false end.

(* lsys.Load succeeds: stored, hashes to its key (untrusted link system), decodable *)
Definition local_ok (s : bstore) (c : cid) : option body :=
  match bget s c with
  | Some b => if hashes_to b c && is_some (links_of b) then Some b else None
  | None => None
  end.

(* the adversary: the answer to the i-th block request of the run; None = no 200 answer *)
Definition responder := nat -> option body.

(* fetchBlock: (requests so far, store, the block if it can now be read) *)
Definition fetch_block (resp : responder) (reqs : list cid) (c : cid) (s : bstore)
  : list cid * bstore * option body :=
  match local_ok s c with
  | Some b => (reqs, s, Some b)
  | None =>
    match resp (length reqs) with
    | Some b => if hashes_to b c then (reqs ++ [c], (c, b) :: s, Some b)
                else (reqs ++ [c], s, None)            (* digest mismatch: buffer dropped *)
    | None => (reqs ++ [c], s, None)
    end
  end.

Inductive fres := FOk | FBad (c : cid) | FUndecodable (c : cid) | FUnverifiable (c : cid) | FFuel.

Record fout := FO {
  f_order : list cid;
  f_reqs : list cid;       (* every block request of the run so far, in order *)
  f_store : bstore;
  f_res : fres }.

Fixpoint fwalk (fuel : nat) (resp : responder) (v : view) (stop : option cid) (lim : option nat)
         (c : cid) (reqs : list cid) (s : bstore) : fout :=
  match fuel with
  | O => FO [] reqs s FFuel
  | S f =>
    (* LinkSystem.Load chooses the hasher BEFORE it opens the storage: a CID whose hash
       function is not available is refused without a request, whatever the store holds *)
    if negb (verifiable c) then FO [] reqs s (FUnverifiable c) else
    match fetch_block resp reqs c s with
    | (reqs1, s1, None) => FO [] reqs1 s1 (FBad c)
    | (reqs1, s1, Some b) =>
      match links_of b with
      | None => FO [] reqs1 s1 (FUndecodable c)
      | Some es =>
        (fix go (l : list cid) (acc : fout) : fout :=
           match l with
           | [] => acc
           | e :: r =>
             if is_stop stop e || negb (deeper lim) then go r acc
             else
               let o := fwalk f resp v stop (dec_lim lim) e (f_reqs acc) (f_store acc) in
               let acc' := FO (f_order acc ++ f_order o) (f_reqs o) (f_store o) (f_res o) in
               match f_res o with
               | FOk => go r acc'
               | _ => acc'
               end
           end) (follow v es) (FO [c] reqs1 s1 FOk)
      end
    end
  end.

(* ---- handler.handle over the adversarial publisher ---- *)

Record fhout := FHO {
  fh_hooks : list cid;
  fh_reqs : list cid;
  fh_store : bstore;
  fh_count : nat;
  fh_err : option fres }.

(* the prescribed hook reads the block it is given from the local store *)
Definition fnominated (s : bstore) (h : hook_kind) (order : list cid) : option cid :=
  match h with
  | HNominate =>
    match rev order with
    | [] => None
    | lastc :: _ =>
      match bget s lastc with
      | Some b => match links_of b with
                  | Some es => match first_kind EPrev es with
                               | Some p => Some p
                               | None => first_kind ENext es
                               end
                  | None => None
                  end
      | None => None
      end
    end
  | _ => None
  end.

Definition fhandle_plain (fuel : nat) (resp : responder) (v : view) (stop : option cid)
           (lim : option nat) (h : hook_kind) (c : cid) (reqs : list cid) (s : bstore) : fhout :=
  let o := fwalk fuel resp v stop lim c reqs s in
  match f_res o with
  | FOk => FHO (calls_of h (f_order o)) (f_reqs o) (f_store o) (length (f_order o)) None
  | e => FHO [] (f_reqs o) (f_store o) 0 (Some e)
  end.

Fixpoint fseg_loop (fuel wfuel : nat) (resp : responder) (v : view) (stop : option cid)
         (orig : option nat) (segdl : nat) (h : hook_kind) (nd dsf : nat) (next : cid)
         (acc : fhout) : fhout :=
  match fuel with
  | O => FHO (fh_hooks acc) (fh_reqs acc) (fh_store acc) 0 (Some FFuel)
  | S f =>
    let o := fwalk wfuel resp v stop (Some nd) next (fh_reqs acc) (fh_store acc) in
    match f_res o with
    | FOk =>
      let acc' := FHO (fh_hooks acc ++ f_order o) (f_reqs o) (f_store o)
                      (fh_count acc + length (f_order o)) None in
      let dsf' := (dsf + nd)%nat in
      match fnominated (f_store o) h (f_order o) with
      | None => acc'
      | Some n =>
        if is_stop stop n then acc'
        else match orig with
             | None => fseg_loop f wfuel resp v stop orig segdl h nd dsf' n acc'
             | Some D =>
               if (D <=? dsf')%nat then acc'
               else let rem := (D - dsf')%nat in
                    let nd' := if (rem <? segdl)%nat then rem else nd in
                    fseg_loop f wfuel resp v stop orig segdl h nd' dsf' n acc'
             end
      end
    | e => FHO (fh_hooks acc) (f_reqs o) (f_store o) 0 (Some e)
    end
  end.

(* one sync request with its options already resolved (C01 proves how) *)
Record fsync := FSYNC {
  fs_view : view;
  fs_stop : option cid;
  fs_lim : option nat;
  fs_segdl : Z;
  fs_hook : hook_kind;
  fs_head : cid }.

Definition fhandle (fuel : nat) (resp : responder) (q : fsync) (s : bstore) : fhout :=
  if seg_enabled (fs_segdl q) (fs_hook q) (fs_lim q)
  then fseg_loop fuel fuel resp (fs_view q) (fs_stop q) (fs_lim q) (Z.to_nat (fs_segdl q)) (fs_hook q)
                 (Z.to_nat (fs_segdl q)) 0 (fs_head q) (FHO [] [] s 0 None)
  else fhandle_plain fuel resp (fs_view q) (fs_stop q) (fs_lim q) (fs_hook q) (fs_head q) [] s.

(* any sequence of syncs, each against its own adversary *)
Fixpoint fsyncs (fuel : nat) (l : list (responder * fsync)) (s : bstore) : bstore :=
  match l with
  | [] => s
  | (resp, q) :: r => fsyncs fuel r (fh_store (fhandle fuel resp q s))
  end.

(* every entry of the store hashes to the CID it is stored under *)
Definition sound_entry (e : cid * body) : bool := hashes_to (snd e) (fst e).
Definition sound (s : bstore) : bool := forallb sound_entry s.

(* what makes an answer bad for a requested CID *)
Definition bad_answer (a : option body) (c : cid) : bool :=
  match a with Some b => negb (hashes_to b c) | None => true end.

End Fetch.

(* ================================================================ *)
(* The symbolic instance used by the cases: a body is a content number; the content of
   block j is j, hashes to CID j only and decodes to block j's links; any other number is
   a corrupt body (the harness checks by real hashing that it hashes to no block's CID). *)

Definition sym_hashes_to (b : N) (c : cid) : bool := b =? c.
Definition sym_links_of (d : dag) (b : N) : option (list edge) := dag_get d b.

Definition sym_verifiable (unavailable : list cid) (c : cid) : bool := negb (memb c unavailable).

Definition sym_responder (script : list (option N)) : responder N :=
  fun i => nth i script None.

Definition fres_ok (r : option fres) : bool := match r with None => true | Some _ => false end.

Definition nstore_eqb (a b : list (cid * N)) : bool :=
  list_eqb (fun x y => (fst x =? fst y) && (snd x =? snd y)) a b.

(* the newest entry per key, keys in the order given *)
Definition store_view (s : bstore N) (keys : list cid) : list (cid * N) :=
  flat_map (fun k => match bget N s k with Some b => [(k, b)] | None => [] end) keys.

Definition keys_of (s : bstore N) : list cid := map fst s.

(* dag, the blocks whose CID names an unavailable hash function, initial store, syncs (resolved options, the answers the proxy gave in request order,
   observed: ok?, hook log, request log), final store as sorted (key, content) pairs *)
Definition fcase := (dag * list cid * list (cid * N) *
                     list (fsync * list (option N) * (bool * list cid * list cid)) *
                     list (cid * N))%type.

Fixpoint run_fsyncs (d : dag) (un : list cid) (l : list (fsync * list (option N) * (bool * list cid * list cid)))
         (s : bstore N) : bool * bstore N :=
  match l with
  | [] => (true, s)
  | (q, script, (ok, hooks, reqs)) :: r =>
    let o := fhandle N sym_hashes_to (sym_links_of d) (sym_verifiable un) (S (length d)) (sym_responder script) q s in
    let '(rest, s') := run_fsyncs d un r (fh_store N o) in
    (Bool.eqb (fres_ok (fh_err N o)) ok && cids_eqb (fh_hooks N o) hooks && cids_eqb (fh_reqs N o) reqs && rest, s')
  end.

Definition fcase_ok (c : fcase) : bool :=
  let '(d, un, s0, syncs, final) := c in
  let '(ok, s') := run_fsyncs d un syncs s0 in
  ok && nstore_eqb (store_view s' (map fst final)) final &&
  subset (keys_of s') (map fst final).
