(* Glue between the two models of announce.Receiver: executable definitions only.

   C09 (Announce_Receiver.seq_step): calls are atomic; allow filter -> closed -> duplicate
   filter -> delivery.  C16 (C16_ReceiverClose.stepf): any number of goroutines, one step per
   synchronisation operation; the filter is read and written only between Lock and Unlock
   of announceMutex (announceCheck, UncacheCid), the closed flag is written only there
   (Close).

   The filter machine below is the part of the C09 model that lives in the critical
   sections: state = (closed, filter contents).  [lin] reads off an execution of the C16
   system the filter operations in the order in which their critical-section steps were
   scheduled (the lock-acquisition order): the linearisation of the concurrent calls. *)
From Coq Require Import List NArith Bool.
From Lib Require Import LTS.
From Model Require Import Announce_Receiver C16_ReceiverClose.
Import ListNotations.
Open Scope N_scope.

Inductive fop :=
| FDirect (allowed : bool) (c : N)     (* announceCheck of an announcement *)
| FUncache (c : N)
| FClose.

Inductive fres :=
| FIgnored      (* source not allowed *)
| FClosed       (* ErrClosed *)
| FDup          (* already seen: ignored, recency refreshed *)
| FPass         (* goes on to be delivered *)
| FDone.        (* un-cache / close *)

Definition fstate := (bool * list N)%type.    (* closed flag, filter contents (MRU first) *)

Definition filt_step (cap0 : nat) (s : fstate) (o : fop) : fres * fstate :=
  match o with
  | FDirect false _ => (FIgnored, s)
  | FDirect true c =>
    if fst s then (FClosed, s)
    else let '(hit, l') := lru_update cap0 c (snd s) in
         ((if hit then FDup else FPass), (false, l'))
  | FUncache c => (FDone, (fst s, lru_remove c (snd s)))
  | FClose => (FDone, (true, snd s))
  end.

Fixpoint filt_run (cap0 : nat) (s : fstate) (ops : list fop) : list fres * fstate :=
  match ops with
  | [] => ([], s)
  | o :: r => let '(x, s1) := filt_step cap0 s o in
              let '(xs, s2) := filt_run cap0 s1 r in (x :: xs, s2)
  end.

(* the filter operation a C09 call performs *)
Definition op_fop (o : Announce_Receiver.op) : option fop :=
  match o with
  | ODirect allowed a _ => Some (FDirect allowed (a_cid a))
  | OUncache k => Some (FUncache k)
  | OClose => Some FClose
  | ONext _ => None
  end.

(* the duplicate-filter history (C09_Receiver's lop) of a sequence of filter operations:
   only announcements that are allowed and arrive before Close touch the filter *)
Fixpoint fops_lops (cl : bool) (ops : list fop) : list lop :=
  match ops with
  | [] => []
  | FDirect true c :: r => if cl then fops_lops cl r else LUpdate c :: fops_lops cl r
  | FDirect false _ :: r => fops_lops cl r
  | FUncache c :: r => LRemove c :: fops_lops cl r
  | FClose :: r => fops_lops true r
  end.

(* the filter operation a step of the C16 system performs, if any: the linearisation point
   of a Direct is the step that decides its fate (not allowed / closed / filter update) *)
Definition lin_label (s : st) (l : label) : list fop :=
  match l with
  | Step t _ =>
    match threads s t with
    | Some th =>
      let k := call_cid (t_call th) in
      match t_pc th with
      | DiAllow => if call_allowed (t_call th) then [] else [FDirect false k]
      | DiCheck => if C16_ReceiverClose.closed s then [FDirect true k] else []
      | DiUpdate => [FDirect true k]
      | UnRemove => [FUncache k]
      | ClSet => [FClose]
      | _ => []
      end
    | None => []
    end
  | _ => []
  end.

Fixpoint lin (s : st) (ls : list label) : list fop :=
  match ls with
  | [] => []
  | l :: r => match stepf s l with
              | Some s' => lin_label s l ++ lin s' r
              | None => []
              end
  end.

Definition fstate_of (s : st) : fstate := (C16_ReceiverClose.closed s, C16_ReceiverClose.lru s).

(* where a Direct goes after its linearisation step, by the filter's verdict *)
Definition pc_after (r : fres) : option pc :=
  match r with
  | FClosed => Some DiUnlockClosed
  | FDup => Some DiUnlockDup
  | FPass => Some DiUnlockGo
  | _ => None
  end.

(* ---- case checker: an observed execution of overlapping calls is accepted if one of the
   given linearisations (sequential histories) is accepted by the C09 model ---- *)
Definition lin_case_ok (c : cfg * list (list (Announce_Receiver.op * outcome))) : bool :=
  existsb (accepts (fst c)) (snd c).
