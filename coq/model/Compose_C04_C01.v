(* Bridge between the abstract chain walk of C04 (positions h, h-1, .., 1 = oldest) and the
   models that own the walk: C01 (CIDs, links, ipld traversal, segment loop) and C02
   (tee / compare / commit of one block).  Definitions only.

   A chain [ch] (C01: newest block first, no block twice) of length n gives the bijection
     position p in 1..n   <->   CID  nth (n - p) ch
   (position n = newest = first element; position 1 = oldest = last element).  C04's
   "latest-synced position 0" is C01's "no latest sync". *)
From Coq Require Import List Bool Arith NArith ZArith.
From Lib Require Import Bytes.
From Model Require C01_ChainSync C02_FetchVerify C04_SyncFailure.
Import ListNotations.

Module C1 := C01_ChainSync.
Module C2 := C02_FetchVerify.
Module C4 := C04_SyncFailure.

Local Open Scope nat_scope.

Definition cid_of (ch : list C1.cid) (p : nat) : C1.cid := nth (length ch - p) ch 0%N.

Definition cids (ch : list C1.cid) (l : list nat) : list C1.cid := map (cid_of ch) l.

(* a position of the chain *)
Definition in_range (ch : list C1.cid) (p : nat) : Prop := 1 <= p <= length ch.

(* stop position / latest-synced position: 0 = none *)
Definition stop_of (ch : list C1.cid) (s : nat) : option C1.cid :=
  match s with O => None | _ => Some (cid_of ch s) end.

(* the blocks of l the store lacks, in order: C04's counterpart of C01's [missing] *)
Definition miss (store l : list nat) : list nat := filter (fun p => negb (C4.mem p store)) l.

(* the block requests of a log that the publisher answered with the block (un-faulted, at a
   URL it serves): C01's [o_reqs] / [h_reqs] counts exactly these.  Log order is kept. *)
Definition answered1 (w : C4.world) (q : C4.req) : list nat :=
  match q with
  | (_, np, C4.Blk p, Some C4.FOk) =>
      match C4.genuine w np with C4.XOkGood => [p] | _ => [] end
  | _ => []
  end.
Definition answered (w : C4.world) (l : list C4.req) : list nat := flat_map (answered1 w) l.

(* what C02's responder returns for a request whose C04 outcome is x: the genuine content
   (symbolic instance: content number = CID), a body [b] that does not hash to the CID, or no
   200 answer *)
Definition c02_answer (x : C4.xres) (c : C1.cid) (b : N) : option N :=
  match x with
  | C4.XOkGood => Some c
  | C4.XOkBad => Some b
  | _ => None
  end.

Definition is_good (x : C4.xres) : bool := match x with C4.XOkGood => true | _ => false end.

(* a fault that fails the request outright on a syncer with one address, whatever follows *)
Definition hard (f : C4.fault) : bool :=
  match f with
  | C4.FStatus c => negb ((c =? 404)%N || (c =? 403)%N)
  | C4.FTransport | C4.FCorrupt | C4.FTruncated | C4.FStallHdr | C4.FStallBody | C4.FCtxCancel => true
  | _ => false
  end.

(* C01's view of a SyncAdChain call with the head queried and no per-call options, on a
   subscriber without depth limits: what C04's explicit sync is *)
Definition c01_call (head : C1.cid) : C1.adcall :=
  C1.ADCALL None None false 0%Z 0%Z None (Some head).

Definition c01_state (ch : list C1.cid) (store : list nat) (latest : nat) : C1.substate :=
  C1.ST (stop_of ch latest) (cids ch store).

(* ---------------------------------------------------------------------------------- *)
(* One checker for both models: a fault-free explicit sync on a fresh subscriber, observed
   once, must be what C04's model AND C01's model predict.  The chain is n, n-1, .., 1 with
   CID = position. *)

Definition nat_chain (n : nat) : list C1.cid := map N.of_nat (C4.down n n).

Record both_case := {
  bc_c04 : C4.hcase;               (* the history (one op) with what was observed, C04 form *)
  bc_n : nat;                      (* chain length *)
  bc_segdl : Z;                    (* the subscriber's SegmentDepthLimit as configured (-1 = default) *)
  bc_head : nat;
  bc_reqs : list nat;              (* block requests the publisher answered, in order *)
  bc_hooks : list nat;
  bc_store : list nat;             (* store keys afterwards *)
  bc_latest : nat
}.

Definition both_case_ok (c : both_case) : bool :=
  let ch := nat_chain (bc_n c) in
  let h4 := bc_c04 c in
  let cfg := C1.CFG 0 0 (bc_segdl c) 0 true C1.HNominate None in
  let st := C1.ST (match C4.hc_latest0 h4 with O => None | p => Some (N.of_nat p) end)
                  (map N.of_nat (C4.hc_store0 h4)) in
  let o := C1.sync_ad_chain (C1.chain_world C1.EPrev [] ch ch) cfg (c01_call (N.of_nat (bc_head c))) st in
  C4.hist_case_ok h4
  && C1.retv_eqb (C1.r_ret o) (C1.ROk (N.of_nat (bc_head c)))
  && C1.cids_eqb (C1.r_reqs o) (map N.of_nat (bc_reqs c))
  && C1.cids_eqb (C1.r_hooks o) (map N.of_nat (bc_hooks c))
  && C1.set_eqb (C1.s_store (C1.r_state o)) (map N.of_nat (bc_store c))
  && option_eqb N.eqb (C1.s_latest (C1.r_state o))
                (match bc_latest c with O => None | p => Some (N.of_nat p) end).
