(* dagsync.Subscriber sync-finished notifications as transition systems
   (dagsync/subscriber.go: distributeEvents, OnSyncFinished and its cancel func,
   sendSyncFinishedEvent, asyncSyncAdChain's error event, SyncAdChain, doClose).

   Two layers, both executable, both over arbitrary label sequences (= all schedules):

   1. the delivery CORE: inEvents (capacity 1), the distributor goroutine that owns the
      listener list, the unbuffered add/remove rendez-vous, one unbounded FIFO
      (chanqueue) per listener, readers of any speed.  Senders, close(inEvents) and
      close(closing) are labels of the core, i.e. an arbitrary environment.
   2. the SYNC layer on top of it: explicit and announce-triggered sync goroutines
      (per-publisher syncMutex / asyncMutex, latest-sync map, the explicit-sync gate and
      the two wait groups of doClose) which are the only senders, and the closer.

   Granularity: one step per synchronisation operation of the skeletons that
   harness/cmd/astgen regenerates from the source (gen/Gen_Sync_dagsync.v); the
   `expected_*` literals at the end are the skeletons this model was written against. *)
From Coq Require Import List NArith Bool Arith.
From Lib Require Import SyncSkel LTS.
Import ListNotations.
Open Scope N_scope.

(* ------------------------------------------------------------------ *)
(* Events                                                              *)

Record event := {
  e_sid : nat;        (* ghost: the sync (thread id) that produced it *)
  e_async : bool;     (* ghost: produced by an announce-triggered sync *)
  e_pub : N;          (* SyncFinished.PeerID *)
  e_cid : N;          (* SyncFinished.Cid *)
  e_cnt : N;          (* SyncFinished.Count *)
  e_err : bool        (* SyncFinished.Err != nil *)
}.

Definition event_eqb (a b : event) : bool :=
  Nat.eqb (e_sid a) (e_sid b) && Bool.eqb (e_async a) (e_async b) && N.eqb (e_pub a) (e_pub b) &&
  N.eqb (e_cid a) (e_cid b) && N.eqb (e_cnt a) (e_cnt b) && Bool.eqb (e_err a) (e_err b).

(* ------------------------------------------------------------------ *)
(* 1. Delivery core                                                    *)

Record listener := {
  l_reg : bool;             (* the distributor has appended it to its list (at some point) *)
  l_start : nat;            (* ghost: number of events forwarded before it was added *)
  l_end : option nat;       (* ghost: number of events forwarded when its input was closed *)
  l_q : list event;         (* chanqueue buffer *)
  l_got : list event;       (* ghost: what the reader has taken so far *)
  l_in_closed : bool;       (* cq.In() has been closed *)
  l_out_closed : bool       (* the reader has observed cq.Out() closed *)
}.

Inductive dpc :=
| DSelect                               (* in the select *)
| DFwd (e : event) (rest : list nat)    (* forwarding e; rest = listeners still to send to *)
| DAdded | DRemoved                     (* after append / after removal (yield points) *)
| DClosing (rest : list nat)            (* inEvents closed: closing the listener channels *)
| DDone.

Record core := {
  in_ev : option event;     (* inEvents, capacity 1 *)
  in_closed : bool;
  closing : bool;           (* s.closing has been closed *)
  d_pc : dpc;
  d_list : list nat;        (* outEventsChans *)
  lst : nat -> option listener;
  next_lid : nat;
  fwd : list event;         (* ghost: global forward order = order of receipt from inEvents *)
  p_dist : bool;            (* the distributor panicked: send on / close of a closed listener channel *)
  p_env : bool              (* a sender or closer panicked: send on closed inEvents, double close *)
}.

Inductive clabel :=
| LSend (e : event)       (* h.subscriber.inEvents <- e *)
| LCloseIn                (* close(s.inEvents) *)
| LClosing                (* close(s.closing) *)
| LNew                    (* chanqueue.New in OnSyncFinished *)
| LAdd (l : nat)          (* s.addEventChan <- ch  meets  ch := <-s.addEventChan *)
| LAddClosed (l : nat)    (* repaired OnSyncFinished: <-s.closing chosen instead; closes its own queue *)
| LRm (l : nat)           (* s.rmEventChan <- ch  meets  ch := <-s.rmEventChan *)
| LRead (l : nat)         (* the reader takes one notification, or observes the close *)
| LDist.                  (* the distributor's next operation *)

Definition updl (f : nat -> option listener) (l : nat) (x : listener) : nat -> option listener :=
  fun y => if Nat.eqb y l then Some x else f y.

Definition set_lst (s : core) f :=
  {| in_ev := in_ev s; in_closed := in_closed s; closing := closing s; d_pc := d_pc s; d_list := d_list s;
     lst := f; next_lid := next_lid s; fwd := fwd s; p_dist := p_dist s; p_env := p_env s |}.
Definition set_dpc (s : core) p :=
  {| in_ev := in_ev s; in_closed := in_closed s; closing := closing s; d_pc := p; d_list := d_list s;
     lst := lst s; next_lid := next_lid s; fwd := fwd s; p_dist := p_dist s; p_env := p_env s |}.
Definition set_dlist (s : core) dl :=
  {| in_ev := in_ev s; in_closed := in_closed s; closing := closing s; d_pc := d_pc s; d_list := dl;
     lst := lst s; next_lid := next_lid s; fwd := fwd s; p_dist := p_dist s; p_env := p_env s |}.
Definition set_in (s : core) v :=
  {| in_ev := v; in_closed := in_closed s; closing := closing s; d_pc := d_pc s; d_list := d_list s;
     lst := lst s; next_lid := next_lid s; fwd := fwd s; p_dist := p_dist s; p_env := p_env s |}.
Definition set_in_closed (s : core) :=
  {| in_ev := in_ev s; in_closed := true; closing := closing s; d_pc := d_pc s; d_list := d_list s;
     lst := lst s; next_lid := next_lid s; fwd := fwd s; p_dist := p_dist s; p_env := p_env s |}.
Definition set_closing (s : core) :=
  {| in_ev := in_ev s; in_closed := in_closed s; closing := true; d_pc := d_pc s; d_list := d_list s;
     lst := lst s; next_lid := next_lid s; fwd := fwd s; p_dist := p_dist s; p_env := p_env s |}.
Definition set_p_env (s : core) :=
  {| in_ev := in_ev s; in_closed := in_closed s; closing := closing s; d_pc := d_pc s; d_list := d_list s;
     lst := lst s; next_lid := next_lid s; fwd := fwd s; p_dist := p_dist s; p_env := true |}.
Definition set_p_dist (s : core) :=
  {| in_ev := in_ev s; in_closed := in_closed s; closing := closing s; d_pc := d_pc s; d_list := d_list s;
     lst := lst s; next_lid := next_lid s; fwd := fwd s; p_dist := true; p_env := p_env s |}.
(* the distributor takes e from inEvents *)
Definition take_event (s : core) (e : event) :=
  {| in_ev := None; in_closed := in_closed s; closing := closing s; d_pc := DFwd e (d_list s); d_list := d_list s;
     lst := lst s; next_lid := next_lid s; fwd := (fwd s ++ [e])%list; p_dist := p_dist s; p_env := p_env s |}.
Definition new_listener_state (s : core) :=
  {| in_ev := in_ev s; in_closed := in_closed s; closing := closing s; d_pc := d_pc s; d_list := d_list s;
     lst := updl (lst s) (next_lid s)
              {| l_reg := false; l_start := 0; l_end := None; l_q := []; l_got := [];
                 l_in_closed := false; l_out_closed := false |};
     next_lid := S (next_lid s); fwd := fwd s; p_dist := p_dist s; p_env := p_env s |}.

Definition l_push (x : listener) (e : event) : listener :=
  {| l_reg := l_reg x; l_start := l_start x; l_end := l_end x; l_q := (l_q x ++ [e])%list; l_got := l_got x;
     l_in_closed := l_in_closed x; l_out_closed := l_out_closed x |}.
Definition l_close (x : listener) (n : nat) : listener :=
  {| l_reg := l_reg x; l_start := l_start x; l_end := Some n; l_q := l_q x; l_got := l_got x;
     l_in_closed := true; l_out_closed := l_out_closed x |}.
Definition l_register (x : listener) (n : nat) : listener :=
  {| l_reg := true; l_start := n; l_end := l_end x; l_q := l_q x; l_got := l_got x;
     l_in_closed := l_in_closed x; l_out_closed := l_out_closed x |}.
Definition l_take (x : listener) (e : event) (r : list event) : listener :=
  {| l_reg := l_reg x; l_start := l_start x; l_end := l_end x; l_q := r; l_got := (l_got x ++ [e])%list;
     l_in_closed := l_in_closed x; l_out_closed := l_out_closed x |}.
Definition l_see_closed (x : listener) : listener :=
  {| l_reg := l_reg x; l_start := l_start x; l_end := l_end x; l_q := l_q x; l_got := l_got x;
     l_in_closed := l_in_closed x; l_out_closed := true |}.

Fixpoint memn (x : nat) (l : list nat) : bool :=
  match l with [] => false | y :: r => Nat.eqb x y || memn x r end.

(* outEventsChans[i] = outEventsChans[len-1]; truncate *)
Fixpoint swap_remove (x : nat) (l : list nat) : list nat :=
  match l with
  | [] => []
  | y :: r =>
    if Nat.eqb x y then match r with [] => [] | _ => last r 0%nat :: removelast r end
    else y :: swap_remove x r
  end.

Definition cstep (s : core) (lb : clabel) : option core :=
  match lb with
  | LSend e =>
    if in_closed s then Some (set_p_env s)                 (* send on closed channel panics *)
    else match in_ev s with None => Some (set_in s (Some e)) | Some _ => None end
  | LCloseIn => if in_closed s then Some (set_p_env s) else Some (set_in_closed s)
  | LClosing => if closing s then Some (set_p_env s) else Some (set_closing s)
  | LNew => Some (new_listener_state s)
  | LAdd l =>
    match d_pc s, lst s l with
    | DSelect, Some x =>
      if l_reg x || l_in_closed x then None
      else Some (set_dpc (set_dlist (set_lst s (updl (lst s) l (l_register x (List.length (fwd s)))))
                                    (d_list s ++ [l])%list) DAdded)
    | _, _ => None
    end
  | LAddClosed l =>
    match lst s l with
    | Some x =>
      if l_reg x || l_in_closed x || negb (closing s) then None
      else Some (set_lst s (updl (lst s) l (l_close x 0)))
    | None => None
    end
  | LRm l =>
    match d_pc s with
    | DSelect =>
      if memn l (d_list s) then
        match lst s l with
        | Some x =>
          let s1 := set_dlist s (swap_remove l (d_list s)) in
          let s2 := if l_in_closed x then set_p_dist s1 else s1 in
          Some (set_dpc (set_lst s2 (updl (lst s) l (l_close x (List.length (fwd s))))) DRemoved)
        | None => None
        end
      else Some (set_dpc s DRemoved)
    | _ => None
    end
  | LRead l =>
    match lst s l with
    | Some x =>
      match l_q x with
      | e :: r => Some (set_lst s (updl (lst s) l (l_take x e r)))
      | [] => if l_in_closed x && negb (l_out_closed x)
              then Some (set_lst s (updl (lst s) l (l_see_closed x))) else None
      end
    | None => None
    end
  | LDist =>
    match d_pc s with
    | DSelect =>
      match in_ev s with
      | Some e => Some (take_event s e)
      | None => if in_closed s then Some (set_dpc (set_dlist s []) (DClosing (d_list s))) else None
      end
    | DFwd e [] => Some (set_dpc s DSelect)
    | DFwd e (l :: rest) =>
      match lst s l with
      | Some x =>
        let s1 := if l_in_closed x then set_p_dist s else s in
        Some (set_dpc (set_lst s1 (updl (lst s) l (l_push x e))) (DFwd e rest))
      | None => None
      end
    | DAdded | DRemoved => Some (set_dpc s DSelect)
    | DClosing [] => Some (set_dpc s DDone)
    | DClosing (l :: rest) =>
      match lst s l with
      | Some x =>
        let s1 := if l_in_closed x then set_p_dist s else s in
        Some (set_dpc (set_lst s1 (updl (lst s) l (l_close x (List.length (fwd s))))) (DClosing rest))
      | None => None
      end
    | DDone => None
    end
  end.

Definition cinit : core :=
  {| in_ev := None; in_closed := false; closing := false; d_pc := DSelect; d_list := [];
     lst := fun _ => None; next_lid := 0; fwd := []; p_dist := false; p_env := false |}.

Definition creach (s : core) : Prop := reachable cstep cinit s.

(* what the distributor still owes listener l of the event it is forwarding *)
Definition pending (s : core) (l : nat) : list event :=
  match d_pc s with
  | DFwd e rest => if memn l rest then [e] else []
  | _ => []
  end.

(* the slice of the global forward order a listener is entitled to *)
Definition seg (x : listener) (f : list event) : list event :=
  skipn (l_start x) (firstn (match l_end x with Some n => n | None => List.length f end) f).

(* the distributor's own steps to get back to the select (or to its end) *)
Definition dist_rank (s : core) : nat :=
  match d_pc s with
  | DSelect => 0
  | DFwd _ rest => S (List.length rest)
  | DAdded | DRemoved => 1
  | DClosing rest => S (List.length rest)
  | DDone => 0
  end%nat.

Fixpoint run_dist (n : nat) (s : core) : option core :=
  match n with
  | O => Some s
  | S k => match cstep s LDist with Some s' => run_dist k s' | None => None end
  end.

(* ------------------------------------------------------------------ *)
(* 2. Sync layer                                                       *)

Inductive kind :=
| KExp (p c : N) (upd : bool)     (* SyncAdChain; upd = head queried from the publisher (updateLatest) *)
| KAsync (p c : N).               (* goroutine started by watch for an announcement *)

Inductive pc :=
| PLockA       (* hnd.asyncMutex.Lock() *)
| PCheck       (* everything before handle: may return early *)
| PLock        (* h.syncMutex.Lock() in handle *)
| PRun         (* syncer.Sync ... : succeeds with a block count, or fails *)
| PUnlock      (* deferred h.syncMutex.Unlock(): the sync is complete *)
| PSetLatest   (* latestSyncHandler.setLatestSync *)
| PSend        (* inEvents <- SyncFinished{Cid, PeerID, Count} *)
| PSendErr     (* inEvents <- SyncFinished{Cid, PeerID, Err} *)
| PWgDone      (* expSyncWG.Done() / asyncWG.Done() *)
| PUnlockA     (* deferred hnd.asyncMutex.Unlock() *)
| PFin.

Record thread := {
  t_kind : kind;
  t_pc : pc;
  t_out : option (bool * N);      (* ghost: result of handle: ok?, count *)
  t_ev : option event             (* ghost: the event this sync has sent *)
}.

Record st := {
  co : core;
  latest : N -> option N;
  sync_mu : N -> option nat;
  async_mu : N -> option nat;
  exp_closed : bool;
  watch_done : bool;              (* receiver closed and watch exited: no more announce-triggered syncs *)
  stage : nat;                    (* doClose progress: 0 not started .. 6 inEvents closed *)
  threads : nat -> option thread;
  next_tid : nat;
  sent_log : list event;                  (* ghost: order of sends on inEvents *)
  done_log : list (N * nat * bool * bool);  (* ghost: (publisher, sync, async?, produces an event?) in order of completion *)
  latest_log : list (N * N * nat)         (* ghost: (publisher, cid, sync) in order of setLatestSync *)
}.

Inductive label :=
| Spawn (k : kind)
| Step (t : nat) (choice : nat)
| Closer                          (* the next step of doClose *)
| Core (lb : clabel).             (* LNew, LAdd, LAddClosed, LRm, LRead, LDist only *)

Definition updt (f : nat -> option thread) (t : nat) (x : thread) : nat -> option thread :=
  fun y => if Nat.eqb y t then Some x else f y.
Definition updN {A} (f : N -> option A) (p : N) (v : option A) : N -> option A :=
  fun y => if N.eqb y p then v else f y.

Definition k_pub (k : kind) : N := match k with KExp p _ _ => p | KAsync p _ => p end.
Definition k_cid (k : kind) : N := match k with KExp _ c _ => c | KAsync _ c => c end.
Definition k_async (k : kind) : bool := match k with KAsync _ _ => true | _ => false end.
Definition k_upd (k : kind) : bool := match k with KExp _ _ u => u | KAsync _ _ => true end.

Definition set_pc (th : thread) (p : pc) : thread :=
  {| t_kind := t_kind th; t_pc := p; t_out := t_out th; t_ev := t_ev th |}.
Definition set_out (th : thread) (p : pc) (o : bool * N) : thread :=
  {| t_kind := t_kind th; t_pc := p; t_out := Some o; t_ev := t_ev th |}.
Definition set_ev (th : thread) (p : pc) (e : event) : thread :=
  {| t_kind := t_kind th; t_pc := p; t_out := t_out th; t_ev := Some e |}.

Definition w_threads (s : st) f :=
  {| co := co s; latest := latest s; sync_mu := sync_mu s; async_mu := async_mu s; exp_closed := exp_closed s;
     watch_done := watch_done s; stage := stage s; threads := f; next_tid := next_tid s;
     sent_log := sent_log s; done_log := done_log s; latest_log := latest_log s |}.
Definition w_sync_mu (s : st) m :=
  {| co := co s; latest := latest s; sync_mu := m; async_mu := async_mu s; exp_closed := exp_closed s;
     watch_done := watch_done s; stage := stage s; threads := threads s; next_tid := next_tid s;
     sent_log := sent_log s; done_log := done_log s; latest_log := latest_log s |}.
Definition w_async_mu (s : st) m :=
  {| co := co s; latest := latest s; sync_mu := sync_mu s; async_mu := m; exp_closed := exp_closed s;
     watch_done := watch_done s; stage := stage s; threads := threads s; next_tid := next_tid s;
     sent_log := sent_log s; done_log := done_log s; latest_log := latest_log s |}.
Definition w_co (s : st) c :=
  {| co := c; latest := latest s; sync_mu := sync_mu s; async_mu := async_mu s; exp_closed := exp_closed s;
     watch_done := watch_done s; stage := stage s; threads := threads s; next_tid := next_tid s;
     sent_log := sent_log s; done_log := done_log s; latest_log := latest_log s |}.
Definition w_done (s : st) (d : N * nat * bool * bool) :=
  {| co := co s; latest := latest s; sync_mu := sync_mu s; async_mu := async_mu s; exp_closed := exp_closed s;
     watch_done := watch_done s; stage := stage s; threads := threads s; next_tid := next_tid s;
     sent_log := sent_log s; done_log := (done_log s ++ [d])%list; latest_log := latest_log s |}.
Definition w_latest (s : st) (p c : N) (t : nat) :=
  {| co := co s; latest := updN (latest s) p (Some c); sync_mu := sync_mu s; async_mu := async_mu s;
     exp_closed := exp_closed s; watch_done := watch_done s; stage := stage s; threads := threads s;
     next_tid := next_tid s; sent_log := sent_log s; done_log := done_log s;
     latest_log := (latest_log s ++ [(p, c, t)])%list |}.
Definition w_sent (s : st) c (e : event) :=
  {| co := c; latest := latest s; sync_mu := sync_mu s; async_mu := async_mu s; exp_closed := exp_closed s;
     watch_done := watch_done s; stage := stage s; threads := threads s; next_tid := next_tid s;
     sent_log := (sent_log s ++ [e])%list; done_log := done_log s; latest_log := latest_log s |}.
Definition w_stage (s : st) c (ec wd : bool) :=
  {| co := c; latest := latest s; sync_mu := sync_mu s; async_mu := async_mu s; exp_closed := ec;
     watch_done := wd; stage := S (stage s); threads := threads s; next_tid := next_tid s;
     sent_log := sent_log s; done_log := done_log s; latest_log := latest_log s |}.

Definition goto (s : st) (t : nat) (th : thread) (p : pc) : option st :=
  Some (w_threads s (updt (threads s) t (set_pc th p))).

(* between expSyncWG.Add and Done / asyncWG.Add and Done *)
Definition exp_active (th : thread) : bool :=
  negb (k_async (t_kind th)) && match t_pc th with PFin => false | _ => true end.
Definition async_active (th : thread) : bool :=
  k_async (t_kind th) && match t_pc th with PFin | PUnlockA => false | _ => true end.

(* WaitGroup.Wait returns iff no goroutine is between Add and Done *)
Definition none_active (s : st) (f : thread -> bool) : bool :=
  forallb (fun t => match threads s t with Some th => negb (f th) | None => true end) (seq 0 (next_tid s)).

Definition mk_event (t : nat) (k : kind) (n : N) (err : bool) : event :=
  {| e_sid := t; e_async := k_async k; e_pub := k_pub k; e_cid := k_cid k; e_cnt := n; e_err := err |}.

Definition out_cnt (th : thread) : N := match t_out th with Some (_, n) => n | None => 0 end.
Definition out_ok (th : thread) : bool := match t_out th with Some (ok, _) => ok | None => false end.

(* does this sync produce a notification?  ok and updating, or failed and announce-triggered *)
Definition sends (th : thread) : bool :=
  match t_out th with
  | Some (true, _) => k_upd (t_kind th)
  | Some (false, _) => k_async (t_kind th)
  | None => false
  end.

(* where a sync goes once handle has returned and (fx) / or (code as found) the
   per-publisher sync lock has been released *)
Definition after_handle (th : thread) : pc :=
  match t_out th with
  | Some (true, _) => if k_upd (t_kind th) then PSetLatest else PWgDone
  | Some (false, _) => if k_async (t_kind th) then PSendErr else PWgDone
  | None => PWgDone
  end.

(* fx = false: the code before commit 37072b2: handle takes and releases syncMutex, the
               latest-sync update and the event follow the release;
   fx = true : the code now: the callers of handle hold syncMutex until the latest-sync
               update and the event have been made. *)
Definition step_thread (fx : bool) (s : st) (t : nat) (th : thread) (choice : nat) : option st :=
  let k := t_kind th in
  let p := k_pub k in
  match t_pc th with
  | PLockA =>
    match async_mu s p with
    | None => goto (w_async_mu s (updN (async_mu s) p (Some t))) t th PCheck
    | Some _ => None
    end
  | PCheck =>
    (* errors, nothing to do, cancelled context: return without a sync *)
    match choice with O => goto s t th PLock | _ => goto s t th PWgDone end
  | PLock =>
    match sync_mu s p with
    | None => goto (w_sync_mu s (updN (sync_mu s) p (Some t))) t th PRun
    | Some _ => None
    end
  | PRun =>
    match choice with
    | 1%nat => goto s t th PUnlock            (* nothing to do (stop = head), no head, error before handle *)
    | _ =>
      let o := match choice with O => (false, 0) | S n => (true, N.of_nat (Nat.pred n)) end in
      let th' := set_out th PUnlock o in
      let s1 := w_done s (p, t, k_async k, sends th') in
      Some (w_threads s1 (updt (threads s) t
              (if fx then set_pc th' (match after_handle th' with PWgDone => PUnlock | q => q end) else th')))
    end
  | PUnlock =>
    goto (w_sync_mu s (updN (sync_mu s) p None)) t th (if fx then PWgDone else after_handle th)
  | PSetLatest => goto (w_latest s p (k_cid k) t) t th PSend
  | PSend =>
    let e := mk_event t k (out_cnt th) false in
    match cstep (co s) (LSend e) with
    | Some c => Some (w_threads (w_sent s c e) (updt (threads s) t (set_ev th (if fx then PUnlock else PWgDone) e)))
    | None => None
    end
  | PSendErr =>
    let e := mk_event t k 0 true in
    match cstep (co s) (LSend e) with
    | Some c => Some (w_threads (w_sent s c e) (updt (threads s) t (set_ev th (if fx then PUnlock else PWgDone) e)))
    | None => None
    end
  | PWgDone => if k_async k then goto s t th PUnlockA else goto s t th PFin
  | PUnlockA => goto (w_async_mu s (updN (async_mu s) p None)) t th PFin
  | PFin => None
  end.

Definition new_thread (s : st) (k : kind) : thread :=
  {| t_kind := k;
     t_pc := match k with
             | KExp _ _ _ => if exp_closed s then PFin else PCheck     (* "shutdown" *)
             | KAsync _ _ => PLockA
             end;
     t_out := None; t_ev := None |}.

Definition closer_step (s : st) : option st :=
  match stage s with
  | 0%nat => match cstep (co s) LClosing with Some c => Some (w_stage s c (exp_closed s) (watch_done s)) | None => None end
  | 1%nat => Some (w_stage s (co s) true (watch_done s))                      (* expSyncClosed = true *)
  | 2%nat => if none_active s exp_active then Some (w_stage s (co s) (exp_closed s) (watch_done s)) else None
  | 3%nat => Some (w_stage s (co s) (exp_closed s) true)                      (* receiver.Close(); <-watchDone *)
  | 4%nat => if none_active s async_active then Some (w_stage s (co s) (exp_closed s) (watch_done s)) else None
  | 5%nat => match cstep (co s) LCloseIn with Some c => Some (w_stage s c (exp_closed s) (watch_done s)) | None => None end
  | _ => None
  end.

Definition core_label_ok (lb : clabel) : bool :=
  match lb with LSend _ | LCloseIn | LClosing => false | _ => true end.

Definition stepf (fx : bool) (s : st) (l : label) : option st :=
  match l with
  | Spawn k =>
    if k_async k && watch_done s then None else
    Some {| co := co s; latest := latest s; sync_mu := sync_mu s; async_mu := async_mu s;
            exp_closed := exp_closed s; watch_done := watch_done s; stage := stage s;
            threads := updt (threads s) (next_tid s) (new_thread s k); next_tid := S (next_tid s);
            sent_log := sent_log s; done_log := done_log s; latest_log := latest_log s |}
  | Step t choice =>
    match threads s t with
    | Some th => step_thread fx s t th choice
    | None => None
    end
  | Closer => closer_step s
  | Core lb =>
    if core_label_ok lb then
      match cstep (co s) lb with Some c => Some (w_co s c) | None => None end
    else None
  end.

Definition init : st :=
  {| co := cinit; latest := fun _ => None; sync_mu := fun _ => None; async_mu := fun _ => None;
     exp_closed := false; watch_done := false; stage := 0; threads := fun _ => None; next_tid := 0;
     sent_log := []; done_log := []; latest_log := [] |}.

Definition reach (fx : bool) (s : st) : Prop := reachable (stepf fx) init s.

(* orders per publisher: events sent, and completed syncs that produce an event *)
Definition sent_of (p : N) (s : st) : list nat :=
  map e_sid (filter (fun e => N.eqb (e_pub e) p) (sent_log s)).
Definition done_of (p : N) (s : st) : list nat :=
  map (fun d => snd (fst (fst d))) (filter (fun d => snd d && N.eqb (fst (fst (fst d))) p) (done_log s)).

Fixpoint prefixb (a b : list nat) : bool :=
  match a, b with
  | [], _ => true
  | x :: a', y :: b' => Nat.eqb x y && prefixb a' b'
  | _ :: _, [] => false
  end.

Definition opt_list {A} (o : option A) : list A := match o with Some x => [x] | None => [] end.

(* ------------------------------------------------------------------ *)
(* 3. Acceptor for observed runs (harness/cmd/c14)                     *)

(* One listener as observed from outside:
   window for its registration  [o_lo, o_hi]  = number of events the distributor had taken
     from inEvents when OnSyncFinished was called / had returned;
   o_cancel = Some (lo, hi): the same two counts around the call of its cancel func;
   o_recv: what was read from its channel, in order; o_closed: the channel was then seen closed. *)
Record obs_listener := {
  o_lo : nat; o_hi : nat;
  o_cancel : option (nat * nat);
  o_recv : list event;
  o_closed : bool
}.

Definition slice (a b : nat) (f : list event) : list event := skipn a (firstn b f).

Fixpoint list_event_eqb (a b : list event) : bool :=
  match a, b with
  | [], [] => true
  | x :: a', y :: b' => event_eqb x y && list_event_eqb a' b'
  | _, _ => false
  end.

Fixpoint ev_prefixb (a b : list event) : bool :=
  match a, b with
  | [], _ => true
  | x :: a', y :: b' => event_eqb x y && ev_prefixb a' b'
  | _ :: _, [] => false
  end.

(* a listener's observation is explained by the theorems: there are a start in its
   registration window and an end (in its cancel window, or the end of the run) such that
   what it read is exactly (channel seen closed) or a prefix of (reader stopped early)
   the global forward order between the two. *)
Definition listener_ok (f : list event) (o : obs_listener) : bool :=
  existsb (fun a =>
    existsb (fun b =>
      if o_closed o then list_event_eqb (o_recv o) (slice a b f)
      else ev_prefixb (o_recv o) (slice a b f))
      (match o_cancel o with
       | Some (lo, hi) => seq lo (S (hi - lo))
       | None => [List.length f]
       end))
    (seq (o_lo o) (S (o_hi o - o_lo o))).

Fixpoint nodup_sid (seen : list nat) (f : list event) : bool :=
  match f with
  | [] => true
  | e :: r => negb (memn (e_sid e) seen) && nodup_sid (e_sid e :: seen) r
  end.

(* case = (global forward order, listeners); the forward order carries each sync once *)
Definition valid_delivery (c : list event * list obs_listener) : bool :=
  nodup_sid [] (fst c) && forallb (listener_ok (fst c)) (snd c).

(* a notification is the one its sync owes: publisher, CID and block count of that very sync
   (the conclusion of one_event_per_updating_sync); case = (observed event, (sync id, kind, blocks
   that sync fetched)) *)
Definition valid_event (c : event * (nat * kind * N)) : bool :=
  event_eqb (fst c) (mk_event (fst (fst (snd c))) (snd (fst (snd c))) (snd (snd c)) false).

(* completion order vs. event order of one publisher's announce-triggered syncs:
   case = (sync ids in order of completion, sync ids in order of their events) *)
Definition valid_order (c : list nat * list nat) : bool := prefixb (snd c) (fst c).

(* ------------------------------------------------------------------ *)
(* 4. The skeletons this model was written against                     *)
Open Scope string_scope.

(* Projection used for the functions that other pending repairs also touch
   (SyncAdChain, syncEntries, asyncSyncAdChain, watch, handle): keep every
   synchronisation operation and the calls named by `keep`, drop other calls,
   jumps, and control structure that becomes empty.  The functions only this
   property's repairs touch are compared in full (skel_same_shape). *)
Fixpoint projop (keep : string -> bool) (a : sop) {struct a} : list sop :=
  let fix pl (x : list sop) {struct x} : list sop :=
    match x with [] => [] | b :: r => (projop keep b ++ pl r)%list end in
  let fix pll (x : list (list sop)) {struct x} : list (list sop) :=
    match x with [] => [] | c :: r => pl c :: pll r end in
  match a with
  | SCall n => if keep n then [a] else []
  | SReturn | SBreak | SContinue => []
  | SIf _ t e => match pl t, pl e with [], [] => [] | t', e' => [SIf "" t' e'] end
  | SDefer x => match pl x with [] => [] | x' => [SDefer x'] end
  | SFor x => match pl x with [] => [] | x' => [SFor x'] end
  | SFunc x => match pl x with [] => [] | x' => [SFunc x'] end
  | SGo x => [SGo (pl x)]
  | SSelect d cs => [SSelect d (pll cs)]
  | SSwitch cs => if forallb (fun c => match c with [] => true | _ => false end) (pll cs) then [] else [SSwitch (pll cs)]
  | SOnce o x => [SOnce o (pl x)]
  | o => [o]
  end.
Definition proj (keep : string -> bool) (x : skel) : skel := flat_map (projop keep) x.

Definition keep_calls (n : string) : bool :=
  mem n ["handle"; "sendSyncFinishedEvent"; "asyncSyncFailed"; "asyncSyncAdChain"; "doClose"; "syncEntries"].

Definition same_proj (x y : skel) : bool := skel_eqb (proj keep_calls x) y.

(* --- compared in full --- *)
Definition expected_distributeEvents : skel :=
  [SFor [SSelect false
           [[SRecv "s.inEvents";
             SIf "" [SFor [SClose "ch"]; SReturn] [];
             SCall "verifYield";
             SFor [SSend "ch"]];
            [SRecv "s.addEventChan"; SCall "verifYield"];
            [SRecv "s.rmEventChan";
             SFor [SIf "" [SClose "ch"; SBreak] []];
             SCall "verifYield"]]]].

(* the code as found: registration has no shutdown alternative *)
Definition expected_OnSyncFinished_v0 : skel :=
  [SCall "verifYield";
   SSend "s.addEventChan";
   SFunc [SIf "" [SReturn] [];
          SCall "verifYield";
          SSelect false [[SSend "s.rmEventChan"]; [SRecv "s.closing"]]];
   SReturn].

(* repaired (pending/C15-fix-onsyncfinished-after-close): label LAddClosed *)
Definition expected_OnSyncFinished : skel :=
  [SCall "verifYield";
   SSelect false [[SSend "s.addEventChan"]; [SRecv "s.closing"; SCall "Close"; SReturn]];
   SFunc [SIf "" [SReturn] [];
          SCall "verifYield";
          SSelect false [[SSend "s.rmEventChan"]; [SRecv "s.closing"]]];
   SReturn].

Definition expected_sendSyncFinishedEvent : skel :=
  [SCall "setLatestSync"; SCall "verifYield"; SSend "h.subscriber.inEvents"; SCall "verifYield"].

Definition expected_doClose_v0 : skel :=
  [SClose "s.closing"; SCall "verifYield";
   SLock "s.expSyncMutex"; SUnlock "s.expSyncMutex"; SCall "verifYield";
   SWgWait "s.expSyncWG"; SCall "verifYield";
   SIf "" [SCall "Close"; SRecv "s.watchDone"] []; SCall "verifYield";
   SWgWait "s.asyncWG"; SCall "verifYield";
   SClose "s.inEvents"; SCall "verifYield";
   SCall "Close";
   SReturn].

(* --- compared after projection --- *)
Definition expected_SyncAdChain : skel :=
  [SLock "s.expSyncMutex";
   SIf "" [SUnlock "s.expSyncMutex"] [];
   SWgAdd "s.expSyncWG";
   SUnlock "s.expSyncMutex";
   SDefer [SWgDone "s.expSyncWG"];
   SLock "hnd.syncMutex";
   SDeferUnlock "hnd.syncMutex";
   SCall "handle";
   SIf "" [SCall "sendSyncFinishedEvent"] []].

Definition expected_asyncSyncAdChain : skel :=
  [SAtomic "Swap" "h.pendingMsg";
   SLock "h.syncMutex";
   SDeferUnlock "h.syncMutex";
   SIf "" [SCall "asyncSyncFailed"] [];
   SCall "handle";
   SIf "" [SCall "asyncSyncFailed"] [];
   SCall "sendSyncFinishedEvent"].

(* the error notification of a failed announce-triggered sync (PSendErr) *)
Definition expected_asyncSyncFailed : skel := [SSend "h.subscriber.inEvents"].

Definition expected_handle : skel :=
  [SLock "h.subscriber.scopedBlockHookMutex"; SUnlock "h.subscriber.scopedBlockHookMutex";
   SDefer [SLock "h.subscriber.scopedBlockHookMutex"; SUnlock "h.subscriber.scopedBlockHookMutex"]].

Definition expected_watch : skel :=
  [SDefer [SClose "s.watchDone"];
   SDefer [SCancel "cancel"];
   SFor [SAtomic "Swap" "hnd.pendingMsg";
         SWgAdd "s.asyncWG";
         SGo [SLock "hnd.asyncMutex";
              SDeferUnlock "hnd.asyncMutex";
              SIf "" [SSelect false [[SSend "s.syncSem"; SDefer [SRecv "s.syncSem"]];
                                     [SRecv "ctx.Done()"]]] [];
              SCall "asyncSyncAdChain";
              SWgDone "s.asyncWG"]]].

Definition full_of (gen : list (string * skel)) (n : string) (e : skel) : bool :=
  skel_same_shape (lookup_or_nil n gen) e.
Definition proj_of (gen : list (string * skel)) (n : string) (e : skel) : bool :=
  same_proj (lookup_or_nil n gen) e.

(* what every variant of the sync layer needs *)
(* with pending/C15-fix-close-waits-for-distributor the distributor signals its exit *)
Definition expected_distributeEvents_signalling : skel :=
  SDefer [SClose "s.distDone"] :: expected_distributeEvents.

Definition tie_common (gen : list (string * skel)) : bool :=
  (full_of gen "Subscriber.distributeEvents" expected_distributeEvents ||
   full_of gen "Subscriber.distributeEvents" expected_distributeEvents_signalling) &&
  full_of gen "handler.sendSyncFinishedEvent" expected_sendSyncFinishedEvent &&
  (full_of gen "Subscriber.OnSyncFinished" expected_OnSyncFinished_v0 ||
   full_of gen "Subscriber.OnSyncFinished" expected_OnSyncFinished) &&
  proj_of gen "Subscriber.watch" expected_watch.

(* with the event sent inside the per-publisher sync lock (stepf true) *)
Definition tie_ok (gen : list (string * skel)) : bool :=
  tie_common gen &&
  proj_of gen "Subscriber.SyncAdChain" expected_SyncAdChain &&
  proj_of gen "handler.asyncSyncAdChain" expected_asyncSyncAdChain &&
  full_of gen "handler.asyncSyncFailed" expected_asyncSyncFailed &&
  proj_of gen "handler.handle" expected_handle.

(* keep only the lock operations on mutex m *)
Fixpoint only_mutex_op (m : string) (a : sop) {struct a} : list sop :=
  let fix pl (x : list sop) {struct x} : list sop :=
    match x with [] => [] | b :: r => (only_mutex_op m b ++ pl r)%list end in
  let fix pll (x : list (list sop)) {struct x} : list (list sop) :=
    match x with [] => [] | c :: r => pl c :: pll r end in
  match a with
  | SLock n | SUnlock n | SDeferUnlock n => if String.eqb n m then [a] else []
  | SIf c t e => [SIf c (pl t) (pl e)]
  | SDefer x => [SDefer (pl x)]
  | SFor x => [SFor (pl x)]
  | SFunc x => [SFunc (pl x)]
  | SGo x => [SGo (pl x)]
  | SSelect d cs => [SSelect d (pll cs)]
  | SSwitch cs => [SSwitch (pll cs)]
  | SOnce o x => [SOnce o (pl x)]
  | o => [o]
  end.
Definition only_mutex (m : string) (x : skel) : skel := flat_map (only_mutex_op m) x.

(* which callees may block / take which mutex *)
Definition sub_env (name : string) : option callee :=
  if String.eqb name "handle" then Some {| c_blocks := true; c_locks := [] |}
  else if String.eqb name "sendSyncFinishedEvent" then Some {| c_blocks := true; c_locks := [] |}
  else if String.eqb name "asyncSyncAdChain" then Some {| c_blocks := true; c_locks := [] |}
  else if String.eqb name "syncEntries" then Some {| c_blocks := true; c_locks := ["s.expSyncMutex"] |}
  else if String.eqb name "SyncAdChain" then Some {| c_blocks := true; c_locks := ["s.expSyncMutex"] |}
  else if String.eqb name "doClose" then Some {| c_blocks := true; c_locks := ["s.expSyncMutex"] |}
  else if String.eqb name "Close" then Some {| c_blocks := true; c_locks := [] |}
  else if String.eqb name "GetHead" then Some {| c_blocks := true; c_locks := [] |}
  else None.

Definition gate_funcs : list string :=
  ["Subscriber.SyncAdChain"; "Subscriber.syncEntries"; "Subscriber.doClose"].

(* every return path of the functions that use the explicit-sync gate releases
   expSyncMutex, and nothing blocks while it is held *)
Definition gate_ok (gen : list (string * skel)) : bool :=
  forallb (fun n => balanced_nonblocking sub_env 400 (only_mutex "s.expSyncMutex" (lookup_or_nil n gen))) gate_funcs.

(* every return path of the sync functions releases every mutex it took *)
Definition locks_balanced (gen : list (string * skel)) : bool :=
  forallb (fun n => balanced 400 (lookup_or_nil n gen))
          ["Subscriber.SyncAdChain"; "Subscriber.syncEntries"; "Subscriber.doClose";
           "handler.asyncSyncAdChain"; "handler.asyncSyncFailed"; "handler.sendSyncFinishedEvent";
           "Subscriber.OnSyncFinished"].
