(* Bridge between the concurrent cache model (C07, over C06's records) and the model of
   the result expansion (C17).  Executable definitions only.

   C06's [rec] carries what convergence needs: the advertisement time and a tag that
   identifies the version of the *model.ProviderInfo object.  C17's [record] carries what
   the expansion needs: the provider's AddrInfo and its ExtendedProviders.  Both describe
   the SAME Go object: a readProviderInfo is built by apiToCacheInfo from one
   *ProviderInfo at publication (provider pointer + the per-context index derived from that
   very pointer) and GetResults reaches both through the one pointer a single map lookup
   returned.  So the extended-provider structure is a function of the record's identity:
   [payload : rec -> record], a parameter of everything below.

   What GetResults(pid, ctxID, metadata) returns once getReadOnly has returned
   (provider_cache.go L161-L243):  error -> the error;  rpi == nil -> nil results;
   otherwise the expansion of rpi, which is C17's [get_results].  The context ID and the
   metadata are pure inputs of that last stage; the C07 transition system does not carry
   them, the theorems quantify over them. *)
From stdpp Require Import gmap.
From Lib Require Bytes.
From Model Require C17_GetResults.
From Model Require Import C06_PCache C07_PCacheConc.

Section Bridge.
  Variable payload : rec -> C17_GetResults.record.

  Definition expand (v : option rec) (pid : N) (ctx : Bytes.bytes) (md : C17_GetResults.mbytes)
    : Bytes.res (list C17_GetResults.result) :=
    C17_GetResults.get_results_opt (option_map payload v) pid ctx md.

  (* the value a GetResults call hands back, from the point at which its goroutine stopped *)
  Definition getresults_return (th : thread) (ctx : Bytes.bytes) (md : C17_GetResults.mbytes)
    : option (Bytes.res (list C17_GetResults.result)) :=
    match t_call th, t_pc th with
    | CGetResults pid, Fin (ResGet v) => Some (expand v pid ctx md)
    | CGetResults _, Fin ResErr => Some (Bytes.Err 0%N)      (* context done while waiting *)
    | _, _ => None
    end.
End Bridge.
