(* C12 — double-hash encryption (dhash/dhash.go) and the reader-privacy find workflow
   (find/client/dhash_client.go).  Executable definitions only.

   SHA-256 and AES-GCM are NOT implemented here.  Every function takes a record of
   primitives [prims]; the byte RECIPES (what is concatenated, in what order, with which
   prefixes, where the nonce/ciphertext boundary is, which length checks exist) are
   concrete.  Two instances are used:
     - [ideal sha seal open]   total functions, used by the theorems (laws about them are
                               premises of the theorems, never axioms);
     - [table_prims t]         finite lookup tables written by the harness with the
                               results Go's crypto/sha256 and crypto/aes+cipher gave for the
                               queries of one case; a query the table lacks yields the
                               distinguished outcome [Panic EMiss], which never matches
                               an observation, so a recipe changed on either side shows.

   The model is of the code WITH pending/C12-fix-*.diff applied.  The functions of the
   unrepaired code that differ are kept with suffix [_v0]. *)
From Coq Require Import String Ascii.
From Lib Require Import Bytes Varint.
From Coq Require Import List.
Import ListNotations.
Open Scope N_scope.

(* ------------------------------------------------------------------ *)
(* constants of dhash.go                                                *)

Definition str_bytes (s : String.string) : bytes :=
  List.map Ascii.N_of_ascii (String.list_ascii_of_string s).

Definition nonce_len : nat := 12.
(* each prefix is 64 bytes: the tag followed by NULs *)
Definition second_prefix : bytes := str_bytes "CR_DOUBLEHASH"%string ++ repeat 0 51.
Definition key_prefix    : bytes := str_bytes "CR_ENCRYPTIONKEY"%string ++ repeat 0 48.
Definition nonce_prefix  : bytes := str_bytes "CR_NONCE"%string ++ repeat 0 56.
Definition DBL_SHA2_256 : N := 86.  (* 0x56 *)
Definition SHA2_256 : N := 18.      (* 0x12 *)
Definition IDENTITY : N := 0.

(* error / panic classes (coarse) *)
Definition EAuth : N := 10.         (* cipher: message authentication failed *)
Definition ETooShort : N := 11.     (* encrypted value too short *)
Definition EBadNonce : N := 12.     (* nonce length is not nonceLen *)
Definition EMhTooShort : N := 20.
Definition EMhTooLong : N := 21.
Definition EMhLength : N := 22.
Definition EMhInconsistent : N := 23.
Definition EVarint : N := 24.
Definition EStore : N := 30.        (* the store returned an error *)
Definition PSliceBounds : N := 1.   (* slice bounds out of range *)
Definition PNonceSize : N := 2.     (* crypto/cipher: incorrect nonce length given to GCM *)
Definition EMiss : N := 99.         (* table-mode primitive asked a query the table lacks *)

(* ------------------------------------------------------------------ *)
(* primitives                                                           *)

Record prims := {
  p_sha  : bytes -> res bytes;                    (* crypto/sha256 of the whole input *)
  p_seal : bytes -> bytes -> bytes -> res bytes;  (* key nonce plaintext -> ciphertext||tag *)
  p_open : bytes -> bytes -> bytes -> res bytes   (* key nonce ciphertext -> plaintext | Err EAuth;
                                                     only ever called with a 12-byte nonce *)
}.

Definition ideal (sha : bytes -> bytes) (seal : bytes -> bytes -> bytes -> bytes)
           (open : bytes -> bytes -> bytes -> option bytes) : prims :=
  {| p_sha := fun x => Ok (sha x);
     p_seal := fun k n p => Ok (seal k n p);
     p_open := fun k n c => match open k n c with Some p => Ok p | None => Err EAuth end |}.

(* laws the theorems name as premises (never axioms) *)
Definition law_sha_len (sha : bytes -> bytes) : Prop := forall x, length (sha x) = 32%nat.
(* all the wrappers need of the digest length: at least the 12 bytes the nonce takes *)
Definition law_sha_min (sha : bytes -> bytes) : Prop := forall x, (12 <= length (sha x))%nat.
Definition law_collision_free (sha : bytes -> bytes) : Prop := forall a b, sha a = sha b -> a = b.
(* the second-hash digest is not embedded in its own preimage *)
Definition law_no_self_hash (sha : bytes -> bytes) : Prop := forall x d, sha (x ++ d) <> d.
(* AES-GCM output carries a 16-byte tag, so it is never empty *)
Definition law_seal_nonempty (seal : bytes -> bytes -> bytes -> bytes) : Prop :=
  forall k n p, seal k n p <> [].
Definition law_round_trip (seal : bytes -> bytes -> bytes -> bytes)
           (open : bytes -> bytes -> bytes -> option bytes) : Prop :=
  forall k n p, open k n (seal k n p) = Some p.
(* symbolic AEAD: only the genuine sealing of p under (k,n) opens to p ... *)
Definition law_authentic (seal : bytes -> bytes -> bytes -> bytes)
           (open : bytes -> bytes -> bytes -> option bytes) : Prop :=
  forall k n c p, open k n c = Some p -> c = seal k n p.
(* ... and sealings under different keys / nonces / plaintexts are different terms *)
Definition law_seal_injective (seal : bytes -> bytes -> bytes -> bytes) : Prop :=
  forall k n p k' n' p', seal k n p = seal k' n' p' -> k = k' /\ n = n' /\ p = p'.
(* ciphertext integrity relative to the list of (key, nonce, plaintext) triples that
   were ever sealed by key holders: nothing else opens *)
Definition law_int_ctxt (seal : bytes -> bytes -> bytes -> bytes)
           (open : bytes -> bytes -> bytes -> option bytes)
           (sealed : list (bytes * bytes * bytes)) : Prop :=
  forall k n c p, open k n c = Some p -> In (k, n, p) sealed /\ c = seal k n p.

(* ------------------------------------------------------------------ *)
(* dhash.go: hashing, key and nonce derivation, AES wrappers            *)

Fixpoint le_bytes (k : nat) (n : N) : bytes :=
  match k with O => [] | S k' => (n mod 256) :: le_bytes k' (n / 256) end.
(* binary.LittleEndian.PutUint64 *)
Definition le64 (n : N) : bytes := le_bytes 8 n.

(* SHA256(payload, dest) = h.Sum(dest) *)
Definition sha256_dest (P : prims) (payload dest : bytes) : res bytes :=
  d <- p_sha P payload ;; Ok (dest ++ d).

(* deriveKey *)
Definition derive_key (P : prims) (pass : bytes) : res bytes :=
  p_sha P (key_prefix ++ pass).

(* sha256Multiple(nil, noncePrefix, le64(len payload), payload, passphrase)[:nonceLen] *)
Definition derive_nonce (P : prims) (payload pass : bytes) : res bytes :=
  h <- p_sha P (nonce_prefix ++ le64 (N.of_nat (length payload)) ++ payload ++ pass) ;;
  Ok (firstn nonce_len h).

(* EncryptAES: returns (nonce, ciphertext||tag) *)
Definition encrypt_aes (P : prims) (payload pass : bytes) : res (bytes * bytes) :=
  k <- derive_key P pass ;;
  n <- derive_nonce P payload pass ;;
  c <- p_seal P k n payload ;;
  Ok (n, c).

(* DecryptAES, unrepaired: cipher.AEAD.Open panics when len(nonce) != NonceSize() *)
Definition decrypt_aes_v0 (P : prims) (nonce ct pass : bytes) : res bytes :=
  k <- derive_key P pass ;;
  if Nat.eqb (length nonce) nonce_len then p_open P k nonce ct else Panic PNonceSize.

(* DecryptAES with pending/C12-fix-decryptaes-nonce-length.diff *)
Definition decrypt_aes (P : prims) (nonce ct pass : bytes) : res bytes :=
  if negb (Nat.eqb (length nonce) nonce_len) then Err EBadNonce
  else k <- derive_key P pass ;; p_open P k nonce ct.

(* EncryptValueKey / EncryptMetadata: append(nonce, encrypted...) *)
Definition encrypt_blob (P : prims) (payload pass : bytes) : res bytes :=
  '(n, c) <- encrypt_aes P payload pass ;; Ok (n ++ c).
Definition encrypt_value_key (P : prims) (vk mh : bytes) : res bytes := encrypt_blob P vk mh.
Definition encrypt_metadata (P : prims) (md vk : bytes) : res bytes := encrypt_blob P md vk.

(* DecryptValueKey, unrepaired: valKey[nonceLen:] panics when len(valKey) < nonceLen *)
Definition decrypt_value_key_v0 (P : prims) (evk mh : bytes) : res bytes :=
  if Nat.ltb (length evk) nonce_len then Panic PSliceBounds
  else decrypt_aes_v0 P (firstn nonce_len evk) (skipn nonce_len evk) mh.

(* DecryptValueKey with pending/C12-fix-decryptvaluekey-short-input.diff *)
Definition decrypt_value_key (P : prims) (evk mh : bytes) : res bytes :=
  if Nat.leb (length evk) nonce_len then Err ETooShort
  else decrypt_aes P (firstn nonce_len evk) (skipn nonce_len evk) mh.

(* DecryptMetadata (length check present in the original) *)
Definition decrypt_metadata_v0 (P : prims) (emd vk : bytes) : res bytes :=
  if Nat.leb (length emd) nonce_len then Err ETooShort
  else decrypt_aes_v0 P (firstn nonce_len emd) (skipn nonce_len emd) vk.
Definition decrypt_metadata (P : prims) (emd vk : bytes) : res bytes :=
  if Nat.leb (length emd) nonce_len then Err ETooShort
  else decrypt_aes P (firstn nonce_len emd) (skipn nonce_len emd) vk.

(* the recipe as pure functions of total primitives (what [ideal] computes) *)
Definition ideal_key (sha : bytes -> bytes) (pass : bytes) : bytes := sha (key_prefix ++ pass).
Definition ideal_nonce (sha : bytes -> bytes) (payload pass : bytes) : bytes :=
  firstn nonce_len (sha (nonce_prefix ++ le64 (N.of_nat (length payload)) ++ payload ++ pass)).
Definition ideal_blob (sha : bytes -> bytes) (seal : bytes -> bytes -> bytes -> bytes) (payload pass : bytes) : bytes :=
  ideal_nonce sha payload pass ++ seal (ideal_key sha pass) (ideal_nonce sha payload pass) payload.
(* the (key, nonce, plaintext) triples sealed when the (payload, passphrase) pairs of
   [honest] are encrypted *)
Definition sealed_of (sha : bytes -> bytes) (honest : list (bytes * bytes)) : list (bytes * bytes * bytes) :=
  map (fun pp : bytes * bytes => let '(p, pass) := pp in (ideal_key sha pass, ideal_nonce sha p pass, p)) honest.

(* ------------------------------------------------------------------ *)
(* go-multihash v0.2.3 binary layout: varint code || varint length || digest *)

Definition max_int32 : N := 2147483647.

Definition mh_encode (code : N) (digest : bytes) : bytes :=
  enc code ++ enc (N.of_nat (length digest)) ++ digest.

Definition uvarint (buf : bytes) : res (N * bytes) :=
  match dec_rest buf with
  | Ok x => Ok x
  | Err _ => Err EVarint
  | Panic c => Panic c
  end.

(* readMultihashFromBuf: (bytes the multihash occupies, code, digest) *)
Definition mh_read (buf : bytes) : res (nat * N * bytes) :=
  if Nat.ltb (length buf) 2 then Err EMhTooShort else
  '(code, r1) <- uvarint buf ;;
  '(len, r2) <- uvarint r1 ;;
  if max_int32 <? len then Err EMhTooLong else
  if N.of_nat (length r2) <? len then Err EMhLength else
  let l := N.to_nat len in
  Ok ((length buf - length r2 + l)%nat, code, firstn l r2).

(* MHFromBytes *)
Definition mh_from_bytes (buf : bytes) : res (nat * bytes) :=
  '(nr, _, _) <- mh_read buf ;; Ok (nr, firstn nr buf).

(* multihash.Cast / Decode, as used by peer.IDFromBytes *)
Definition mh_cast (buf : bytes) : res unit :=
  '(rlen, _, _) <- mh_read buf ;;
  if Nat.eqb (length buf) rlen then Ok tt else Err EMhInconsistent.

(* a byte string libp2p accepts as a peer ID *)
Definition valid_peer_id (pid : bytes) : Prop := mh_cast pid = Ok tt.

(* SecondMultihash *)
Definition second_multihash (P : prims) (mh : bytes) : res bytes :=
  d <- p_sha P (second_prefix ++ mh) ;; Ok (mh_encode DBL_SHA2_256 d).

(* CreateValueKey / SplitValueKey *)
Definition create_value_key (pid ctx : bytes) : bytes := pid ++ ctx.

Definition split_value_key (vk : bytes) : res (bytes * bytes) :=
  '(nr, m) <- mh_from_bytes vk ;;
  _ <- mh_cast m ;;
  Ok (m, skipn nr vk).

(* ------------------------------------------------------------------ *)
(* DHashClient.FindAsync / Find over an abstract store                  *)

Record store := {
  s_find_mh : bytes -> res (list (list bytes));  (* FindMultihash: groups of encrypted value keys; Ok [] = not found *)
  s_find_md : bytes -> res bytes                 (* FindMetadata: encrypted metadata; Ok [] = not found *)
}.

(* provider information: None = WithMetadataOnly(true) (no pcache);
   Some f = pcache whose sources know provider pid iff f pid = Some a (a = address tag) *)
Definition provider_src := option (bytes -> option N).

(* one ProviderResult: provider ID, context ID, metadata, address tag (0 = no addresses) *)
Definition presult := (bytes * bytes * bytes * N)%type.

Definition is_nil {A} (l : list A) : bool := match l with [] => true | _ => false end.

(* fetchMetadata; Ok [] = nothing usable *)
Definition fetch_metadata (dec_md : bytes -> bytes -> res bytes) (P : prims) (st : store) (vk : bytes) : res bytes :=
  h <- sha256_dest P vk [] ;;
  emd <- s_find_md st h ;;
  if is_nil emd then Ok [] else dec_md emd vk.

(* body of the loop over encrypted value keys: errors are logged and skipped, a panic
   is a panic of the whole call *)
Definition find_one (dec_vk dec_md : bytes -> bytes -> res bytes)
           (P : prims) (st : store) (ps : provider_src) (mh evk : bytes) : res (list presult) :=
  match dec_vk evk mh with
  | Panic c => Panic c
  | Err _ => Ok []
  | Ok vk =>
    match split_value_key vk with
    | Panic c => Panic c
    | Err _ => Ok []
    | Ok (pid, ctx) =>
      match fetch_metadata dec_md P st vk with
      | Panic c => Panic c
      | Err _ => Ok []
      | Ok md =>
        if is_nil md then Ok [] else
        match ps with
        | None => Ok [(pid, ctx, md, 0)]
        | Some known => match known pid with
                        | Some a => Ok [(pid, ctx, md, a)]
                        | None => Ok []
                        end
        end
      end
    end
  end.

Fixpoint find_loop (f : bytes -> res (list presult)) (evks : list bytes) : res (list presult) :=
  match evks with
  | [] => Ok []
  | e :: r => a <- f e ;; b <- find_loop f r ;; Ok (a ++ b)
  end.

Definition find_gen (dec_vk dec_md : bytes -> bytes -> res bytes)
           (P : prims) (st : store) (ps : provider_src) (mh : bytes) : res (list presult) :=
  smh <- second_multihash P mh ;;
  groups <- s_find_mh st smh ;;
  find_loop (find_one dec_vk dec_md P st ps mh) (concat groups).

Definition find (P : prims) := find_gen (decrypt_value_key P) (decrypt_metadata P) P.
Definition find_v0 (P : prims) := find_gen (decrypt_value_key_v0 P) (decrypt_metadata_v0 P) P.

(* ------------------------------------------------------------------ *)
(* a store held as association tables, and the store an indexer builds from a plaintext
   index through EncryptValueKey / EncryptMetadata / SecondMultihash / SHA256 *)

Fixpoint assoc {V} (k : bytes) (t : list (bytes * V)) : option V :=
  match t with
  | [] => None
  | (k', v) :: r => if bytes_eqb k k' then Some v else assoc k r
  end.

Definition table_store (mht : list (bytes * res (list (list bytes)))) (mdt : list (bytes * res bytes)) : store :=
  {| s_find_mh := fun k => match assoc k mht with Some r => r | None => Ok [] end;
     s_find_md := fun k => match assoc k mdt with Some r => r | None => Ok [] end |}.

Definition entry := (bytes * bytes * bytes)%type.          (* provider ID, context ID, metadata *)
Definition index := list (bytes * list entry).              (* multihash -> entries *)

Fixpoint mapM {A B} (f : A -> res B) (l : list A) : res (list B) :=
  match l with
  | [] => Ok []
  | x :: r => y <- f x ;; ys <- mapM f r ;; Ok (y :: ys)
  end.

Definition index_mh_row (P : prims) (row : bytes * list entry) : res (bytes * res (list (list bytes))) :=
  let '(mh, es) := row in
  smh <- second_multihash P mh ;;
  evks <- mapM (fun e : entry => let '(pid, ctx, _) := e in encrypt_value_key P (create_value_key pid ctx) mh) es ;;
  Ok (smh, Ok [evks]).

Definition index_md_row (P : prims) (e : entry) : res (bytes * res bytes) :=
  let '(pid, ctx, md) := e in
  let vk := create_value_key pid ctx in
  h <- sha256_dest P vk [] ;;
  emd <- encrypt_metadata P md vk ;;
  Ok (h, Ok emd).

Definition index_store (P : prims) (idx : index) : res store :=
  mht <- mapM (index_mh_row P) idx ;;
  mdt <- mapM (index_md_row P) (concat (map snd idx)) ;;
  Ok (table_store mht mdt).

Definition entry_result (ps : provider_src) (e : entry) : list presult :=
  let '(pid, ctx, md) := e in
  match ps with
  | None => [(pid, ctx, md, 0)]
  | Some known => match known pid with Some a => [(pid, ctx, md, a)] | None => [] end
  end.

Definition entries_for (idx : index) (mh : bytes) : list entry :=
  match assoc mh idx with Some es => es | None => [] end.

Definition all_entries (idx : index) : list entry := concat (map snd idx).

(* an index as an indexer holds it: provider IDs are peer IDs, metadata is never empty
   (an advertisement without metadata is invalid), and metadata is a function of
   (provider, context ID).  A multihash listed twice is looked up by its first row, in the
   index and in the store alike. *)
Definition wf_index (idx : index) : Prop :=
  (forall pid ctx md, In (pid, ctx, md) (all_entries idx) -> valid_peer_id pid /\ md <> []) /\
  (forall pid ctx md md', In (pid, ctx, md) (all_entries idx) -> In (pid, ctx, md') (all_entries idx) -> md = md').

(* a store that answers or fails but does not itself panic *)
Definition store_total (st : store) : Prop :=
  (forall k, is_panic (s_find_mh st k) = false) /\ (forall k, is_panic (s_find_md st k) = false).

(* the smallest hostile store: one encrypted value key, of zero bytes *)
Definition hostile_store : store :=
  {| s_find_mh := fun _ => Ok [[ [] ]]; s_find_md := fun _ => Ok [] |}.

(* ------------------------------------------------------------------ *)
(* table-lookup primitives (correspondence runs)                        *)

Record table := {
  t_sha  : list (bytes * bytes);
  t_seal : list (bytes * (bytes * (bytes * bytes)));          (* key, (nonce, (plaintext, result)) *)
  t_open : list (bytes * (bytes * (bytes * option bytes)))    (* key, (nonce, (ciphertext, result)) *)
}.

Fixpoint assoc3 {V} (k n x : bytes) (t : list (bytes * (bytes * (bytes * V)))) : option V :=
  match t with
  | [] => None
  | (k', (n', (x', v))) :: r =>
    if bytes_eqb k k' && bytes_eqb n n' && bytes_eqb x x' then Some v else assoc3 k n x r
  end.

Definition table_prims (t : table) : prims :=
  {| p_sha := fun x => match assoc x (t_sha t) with Some d => Ok d | None => Panic EMiss end;
     p_seal := fun k n p => match assoc3 k n p (t_seal t) with Some c => Ok c | None => Panic EMiss end;
     p_open := fun k n c => match assoc3 k n c (t_open t) with
                            | Some (Some p) => Ok p
                            | Some None => Err EAuth
                            | None => Panic EMiss
                            end |}.

(* ------------------------------------------------------------------ *)
(* case checkers                                                        *)

Inductive call :=
| CSha256 (payload dest : bytes)
| CSecondMultihash (mh : bytes)
| CEncryptAES (payload pass : bytes)          (* result [nonce; ciphertext] *)
| CEncryptValueKey (vk mh : bytes)
| CEncryptMetadata (md vk : bytes)
| CDecryptAES (nonce ct pass : bytes)
| CDecryptValueKey (evk mh : bytes)
| CDecryptMetadata (emd vk : bytes)
| CCreateValueKey (pid ctx : bytes)
| CSplitValueKey (vk : bytes).                (* result [peer ID; context ID] *)

Definition one (r : res bytes) : res (list bytes) := x <- r ;; Ok [x].

Definition run_call (P : prims) (c : call) : res (list bytes) :=
  match c with
  | CSha256 p d => one (sha256_dest P p d)
  | CSecondMultihash mh => one (second_multihash P mh)
  | CEncryptAES p pass => '(n, c) <- encrypt_aes P p pass ;; Ok [n; c]
  | CEncryptValueKey vk mh => one (encrypt_value_key P vk mh)
  | CEncryptMetadata md vk => one (encrypt_metadata P md vk)
  | CDecryptAES n c pass => one (decrypt_aes P n c pass)
  | CDecryptValueKey evk mh => one (decrypt_value_key P evk mh)
  | CDecryptMetadata emd vk => one (decrypt_metadata P emd vk)
  | CCreateValueKey pid ctx => Ok [create_value_key pid ctx]
  | CSplitValueKey vk => '(pid, ctx) <- split_value_key vk ;; Ok [pid; ctx]
  end.

(* model outcome against observed outcome: values byte-exact, errors by class
   Ok | Err | Panic; a table miss never matches *)
Definition res_matches {A} (eqb : A -> A -> bool) (m o : res A) : bool :=
  match m, o with
  | Ok a, Ok b => eqb a b
  | Err _, Err _ => true
  | Panic c, Panic _ => negb (c =? EMiss)
  | _, _ => false
  end.

Definition call_case := (table * call * res (list bytes))%type.
Definition CC (t : table) (c : call) (o : res (list bytes)) : call_case := (t, c, o).

Definition call_case_ok (c : call_case) : bool :=
  let '(t, cl, obs) := c in
  res_matches (list_eqb bytes_eqb) (run_call (table_prims t) cl) obs.

Definition presult_eqb (a b : presult) : bool :=
  let '(p1, c1, m1, a1) := a in
  let '(p2, c2, m2, a2) := b in
  bytes_eqb p1 p2 && bytes_eqb c1 c2 && bytes_eqb m1 m2 && (a1 =? a2).

Record find_case := FC {
  fc_table : table;
  fc_mht : list (bytes * res (list (list bytes)));   (* what the fake DHStoreAPI holds *)
  fc_mdt : list (bytes * res bytes);
  fc_known : option (list (bytes * N));                (* provider source: None = metadata only *)
  fc_mh : bytes;
  fc_obs : res (list presult)
}.

Definition known_of (k : option (list (bytes * N))) : provider_src :=
  match k with None => None | Some t => Some (fun pid => assoc pid t) end.

Definition find_case_ok (c : find_case) : bool :=
  res_matches (list_eqb presult_eqb)
    (find (table_prims (fc_table c)) (table_store (fc_mht c) (fc_mdt c)) (known_of (fc_known c)) (fc_mh c))
    (fc_obs c).

(* ------------------------------------------------------------------ *)
(* The HTTP dhstore client (find/client/dhstore_http.go): what the server is asked.

   FindMultihash(dhmh) GETs  <base>/encrypted/multihash/<base58 of dhmh>,
   FindMetadata(hvk)   GETs  <base>/metadata/<base58 of hvk>;
   200 -> the JSON body's EncryptedMultihashResults / EncryptedMetadata, 404 -> nothing and
   no error, anything else (other status, unreadable or undecodable body) -> an error: the
   [store] of this model is that interface ([Ok []] = 404, [Err] = every failure), so the
   only behaviour the HTTP layer adds is the request path, a function of the key alone. *)

Definition b58_alphabet : bytes := str_bytes "123456789ABCDEFGHJKLMNPQRSTUVWXYZabcdefghijkmnopqrstuvwxyz"%string.

Fixpoint be_value (b : bytes) (acc : N) : N :=
  match b with [] => acc | x :: r => be_value r (acc * 256 + x) end.

Fixpoint b58_digits (fuel : nat) (n : N) (acc : bytes) : bytes :=
  match fuel with
  | O => acc
  | S f => if n =? 0 then acc else b58_digits f (n / 58) (nth (N.to_nat (n mod 58)) b58_alphabet 0 :: acc)
  end.

Fixpoint leading_zeros (b : bytes) : nat :=
  match b with 0 :: r => S (leading_zeros r) | _ => 0%nat end.

(* mr-tron/base58 Encode (Bitcoin alphabet): a '1' per leading zero byte, then the digits *)
Definition b58 (b : bytes) : bytes :=
  repeat 49 (leading_zeros b) ++ b58_digits (2 * length b) (be_value b 0) [].

Inductive query := QMh (k : bytes) | QMd (k : bytes).

Definition mh_path_prefix : bytes := str_bytes "/encrypted/multihash/"%string.
Definition md_path_prefix : bytes := str_bytes "/metadata/"%string.

Definition request_path (q : query) : bytes :=
  match q with
  | QMh k => mh_path_prefix ++ b58 k
  | QMd k => md_path_prefix ++ b58 k
  end.

(* the store queries one loop iteration makes: the metadata lookup, when the value key
   decrypts and splits *)
Definition find_one_queries (P : prims) (mh evk : bytes) : res (list query) :=
  match decrypt_value_key P evk mh with
  | Panic c => Panic c
  | Err _ => Ok []
  | Ok vk =>
    match split_value_key vk with
    | Panic c => Panic c
    | Err _ => Ok []
    | Ok _ => h <- sha256_dest P vk [] ;; Ok [QMd h]
    end
  end.

Fixpoint queries_loop (f : bytes -> res (list query)) (evks : list bytes) : res (list query) :=
  match evks with
  | [] => Ok []
  | e :: r => a <- f e ;; b <- queries_loop f r ;; Ok (a ++ b)
  end.

(* every query FindAsync sends to the store, in order *)
Definition find_queries (P : prims) (st : store) (mh : bytes) : res (list query) :=
  smh <- second_multihash P mh ;;
  match s_find_mh st smh with
  | Ok groups => qs <- queries_loop (find_one_queries P mh) (concat groups) ;; Ok (QMh smh :: qs)
  | Err _ => Ok [QMh smh]
  | Panic c => Panic c
  end.

(* family hfind: the find workflow through the real HTTP dhstore client against a scripted
   server; compared: the results and the request paths the server received *)
Record hfind_case := HFC {
  hf_table : table;
  hf_mht : list (bytes * res (list (list bytes)));
  hf_mdt : list (bytes * res bytes);
  hf_known : option (list (bytes * N));
  hf_mh : bytes;
  hf_obs : res (list presult);
  hf_paths : list bytes
}.

Definition hfind_case_ok (c : hfind_case) : bool :=
  let P := table_prims (hf_table c) in
  let st := table_store (hf_mht c) (hf_mdt c) in
  res_matches (list_eqb presult_eqb) (find P st (known_of (hf_known c)) (hf_mh c)) (hf_obs c) &&
  match find_queries P st (hf_mh c) with
  | Ok qs => list_eqb bytes_eqb (map request_path qs) (hf_paths c)
  | _ => false
  end.
