(* Glue between C05 (advertisement signatures, model/C05_AdSignature.v) and C13 (IPLD schema
   layer and DAG-CBOR, model/C13_IpldSchema.v, C13_DagCbor.v).  Executable definitions only.

   The two models describe the same Go struct schema.Advertisement with two records:

     field                     C05                                   C13
     PreviousID                option bytes (CID bytes)              option bytes      same
     Provider, Addresses,      bytes / list bytes                    same              same
     ContextID, Metadata, IsRm
     Entries                   option bytes (None = nil interface,   bytes             C13 has no nil link
                               which only a hand-built value has)
     Signature (ad, entries)   option (envelope pubkey sigt): what   bytes             bridged below
                               libp2p's UnmarshalEnvelope gives,
                               None = does not parse
     ExtendedProvider          option {providers; override}          option {provs; override}  same

   Bridge for signatures: the protobuf layer of an envelope is modelled by neither side, so
   it enters as two Section variables
       env_encode : envelope -> bytes          (record.Envelope.Marshal)
       env_decode : bytes -> option envelope   (record.UnmarshalEnvelope)
   with the named laws [env_round_trip] (unmarshal after marshal gives the envelope back)
   and [env_empty] (the empty byte string is not an envelope: an unsigned advertisement has
   an empty Signature).  [of_c13] is then the ABSTRACTION the C05 model is of the bytes C13
   carries (signature bytes -> parsed envelope), [to_c13] its section on signed values.
   In the case files env_decode is a table: the signature byte strings of the case and what
   libp2p's UnmarshalEnvelope + key.Verify made of them. *)
From Lib Require Import Bytes SymCrypto.
From Model Require C05_AdSignature C13_DagCbor C13_IpldSchema.
From Coq Require Import List.
Import ListNotations.
Open Scope N_scope.

Module A := C05_AdSignature.
Module S := C13_IpldSchema.

Section Bridge.
  Variables pubkey sigt : Type.
  Variable env_encode : envelope pubkey sigt -> bytes.
  Variable env_decode : bytes -> option (envelope pubkey sigt).

  Definition env_round_trip : Prop := forall e, env_decode (env_encode e) = Some e.
  Definition env_empty : Prop := env_decode [] = None.

  Definition wire_bytes (w : option (envelope pubkey sigt)) : bytes :=
    match w with Some e => env_encode e | None => [] end.

  (* C05 value -> C13 value *)
  Definition prov_to_c13 (p : A.provider pubkey sigt) : S.provider :=
    {| S.p_id := A.p_id p; S.p_addrs := A.p_addrs p; S.p_meta := A.p_md p; S.p_sig := wire_bytes (A.p_sig p) |}.
  Definition ext_to_c13 (x : A.ext pubkey sigt) : S.extprov :=
    {| S.x_provs := map prov_to_c13 (A.x_providers x); S.x_override := A.x_override x |}.
  Definition to_c13 (a : A.ad pubkey sigt) : S.ad :=
    {| S.a_prev := A.a_prev a; S.a_provider := A.a_provider a; S.a_addrs := A.a_addrs a;
       S.a_sig := wire_bytes (A.a_sig a);
       S.a_entries := match A.a_entries a with Some e => e | None => [] end;
       S.a_ctx := A.a_ctx a; S.a_meta := A.a_md a; S.a_isrm := A.a_rm a;
       S.a_ext := option_map ext_to_c13 (A.a_ext a) |}.

  (* C13 value -> C05 value: parse the signature fields *)
  Definition prov_of_c13 (p : S.provider) : A.provider pubkey sigt :=
    A.Provider (S.p_id p) (S.p_addrs p) (S.p_meta p) (env_decode (S.p_sig p)).
  Definition ext_of_c13 (x : S.extprov) : A.ext pubkey sigt :=
    A.Ext (map prov_of_c13 (S.x_provs x)) (S.x_override x).
  Definition of_c13 (c : S.ad) : A.ad pubkey sigt :=
    A.Ad (S.a_prev c) (S.a_provider c) (S.a_addrs c) (env_decode (S.a_sig c)) (Some (S.a_entries c))
         (S.a_ctx c) (S.a_meta c) (S.a_isrm c) (option_map ext_of_c13 (S.a_ext c)).

  (* the wire: Advertisement.ToNode + dagcbor.Encode, and BytesToAdvertisement /
     lsys.Load with the typed prototype followed by VerifySignature *)
  Definition wire_encode (a : A.ad pubkey sigt) : bytes := S.ad_encode (to_c13 a).

  Variable peerid : Type.
  Variable verify : pubkey -> bytes -> sigt -> bool.
  Variable peer_id : pubkey -> peerid.
  Variable peerid_eqb : peerid -> peerid -> bool.
  Variable H : bytes -> res bytes.
  Variable decode_pid : bytes -> option peerid.

  Definition wire_verify (strict : bool) (w : bytes) : res peerid :=
    c <- S.typed_load_ad w ;;
    A.verify_gen verify peer_id peerid_eqb H decode_pid strict (of_c13 c).
End Bridge.

Arguments wire_bytes {pubkey sigt} env_encode w.
Arguments prov_to_c13 {pubkey sigt} env_encode p.
Arguments ext_to_c13 {pubkey sigt} env_encode x.
Arguments to_c13 {pubkey sigt} env_encode a.
Arguments prov_of_c13 {pubkey sigt} env_decode p.
Arguments ext_of_c13 {pubkey sigt} env_decode x.
Arguments of_c13 {pubkey sigt} env_decode c.
Arguments wire_encode {pubkey sigt} env_encode a.
Arguments wire_verify {pubkey sigt} env_decode {peerid} verify peer_id peerid_eqb H decode_pid strict w.
Arguments env_round_trip {pubkey sigt} env_encode env_decode.
Arguments env_empty {pubkey sigt} env_decode.

(* ------------------------------------------------------------------ *)
(* case checker: real DAG-CBOR bytes of a real (signed, possibly tampered) advertisement
   through C13's typed decoder, the abstraction, and C05's verification, against what
   schema.BytesToAdvertisement + VerifySignature did *)

Record wcase := WC {
  wc_H : list (bytes * bytes);                     (* sha256 of the payloads *)
  wc_ids : list (bytes * N);                       (* peer.Decode of the ID strings *)
  wc_envs : list (bytes * option A.wenv);          (* UnmarshalEnvelope of the signature byte strings *)
  wc_wire : bytes;                                 (* what the real dag-cbor encoder wrote *)
  wc_obs : res N
}.

Definition table_env_decode (t : list (bytes * option A.wenv)) (b : bytes) : option (envelope Sym.pubkey Sym.sigt) :=
  match A.assocb b t with
  | Some (Some w) => Some (A.sym_env w)
  | _ => None
  end.

Definition sym_wire_verify (c : wcase) : res N :=
  wire_verify (table_env_decode (wc_envs c)) Sym.verify Sym.peer_id Sym.peerid_eqb
              (A.table_H (wc_H c)) (A.ids_decode (wc_ids c)) true (wc_wire c).

(* the C13 decoder never panics and verification panics only without entries, which a
   decoded advertisement always has: Ok | Err *)
Definition wire_case_ok (c : wcase) : bool := A.res_matches N.eqb (sym_wire_verify c) (wc_obs c).
