(* C17 — pcache.ProviderCache.GetResults (pcache/provider_cache.go L161-L243) and the
   per-context index built by apiToCacheInfo (L511-L535).  Executable definitions only.

   What is modelled
     * a provider record as a source delivers it: the provider's own AddrInfo, an optional
       ExtendedProviders with the chain-level Providers / Metadatas lists (of independent
       lengths) and the Contextual sets (ContextID, Override, Providers, Metadatas);
     * byte strings that the code tests with `== nil` / `len(x) == 0` / bytes.Equal carry a
       nil flag ([mbytes] = option bytes, None = Go nil);
     * an AddrInfo is its peer ID plus a tag that stands for the address list (the harness
       gives every entry of a record a distinct tag, so a result names the entry it came from);
     * apiToCacheInfo's map keyed by ContextID: a later set with the same ID replaces an
       earlier one.

   [get_results_v0] is the code as it stood before pending/C17-fix-*.diff (index out of
   range => Panic; contextual branch substitutes on nil only); [get_results] is the
   repaired code.  [spec_results] is written from the property text and shares nothing
   with either but the record types. *)
From Lib Require Import Bytes.
Open Scope N_scope.

Definition mbytes := option bytes.

Definition mlen (m : mbytes) : nat := match m with None => 0%nat | Some b => length b end.
Definition mcontent (m : mbytes) : bytes := match m with None => [] | Some b => b end.
(* len(x) == 0 *)
Definition mempty (m : mbytes) : bool := Nat.eqb (mlen m) 0.
(* x == nil *)
Definition mnil (m : mbytes) : bool := match m with None => true | Some _ => false end.
(* bytes.Equal: nil and empty are equal *)
Definition mequal (a b : mbytes) : bool := bytes_eqb (mcontent a) (mcontent b).

Record addrinfo := AI { ai_id : N; ai_tag : N }.

Record ctxext := CX {
  cx_id : bytes;                 (* ContextID (a Go string) *)
  cx_override : bool;
  cx_provs : list addrinfo;
  cx_mds : list mbytes }.

Record extprov := XP {
  xp_provs : list addrinfo;
  xp_mds : list mbytes;
  xp_ctxs : list ctxext }.

Record record := REC {
  r_main : addrinfo;
  r_ext : option extprov }.      (* None: ExtendedProviders == nil *)

(* model.ProviderResult *)
Record result := PR {
  pr_ctx : bytes;
  pr_md : mbytes;
  pr_prov : addrinfo }.

(* ---------------------------------------------------------------- *)
(* apiToCacheInfo: cxps[cxp.ContextID] = ... in list order; then the lookup
   rpi.ctxExtended[string(ctxID)].                                    *)

Definition ctx_index_lookup (ctx : bytes) (l : list ctxext) : option ctxext :=
  fold_left (fun acc c => if bytes_eqb (cx_id c) ctx then Some c else acc) l None.

(* ---------------------------------------------------------------- *)
(* The code before the repairs.                                      *)

Definition PANIC_INDEX : N := 1.

(* for i, xpinfo := range provs { xmd := mds[i]; ... }
   [nil_only] = true is the contextual loop (`if xmd == nil`), false the chain-level
   loop (`if len(xmd) == 0`). *)
Fixpoint expand_v0 (nil_only : bool) (pid : N) (ctx : bytes) (md : mbytes)
         (provs : list addrinfo) (mds : list mbytes) (i : nat) : res (list result) :=
  match provs with
  | [] => Ok []
  | p :: ps =>
    match nth_error mds i with
    | None => Panic PANIC_INDEX                       (* index out of range *)
    | Some xmd =>
      if (ai_id p =? pid) && (mempty xmd || mequal xmd md)
      then expand_v0 nil_only pid ctx md ps mds (S i)
      else
        let xmd' := if (if nil_only then mnil xmd else mempty xmd) then md else xmd in
        rest <- expand_v0 nil_only pid ctx md ps mds (S i) ;;
        Ok (PR ctx xmd' p :: rest)
    end
  end.

Definition get_results_v0 (r : record) (pid : N) (ctx : bytes) (md : mbytes) : res (list result) :=
  let first := PR ctx md (r_main r) in
  match r_ext r with
  | None => Ok [first]
  | Some x =>
    match ctx_index_lookup ctx (xp_ctxs x) with
    | Some c =>
      cpart <- expand_v0 true pid ctx md (cx_provs c) (cx_mds c) 0 ;;
      if cx_override c then Ok (first :: cpart)
      else
        xpart <- expand_v0 false pid ctx md (xp_provs x) (xp_mds x) 0 ;;
        Ok (first :: cpart ++ xpart)
    | None =>
      xpart <- expand_v0 false pid ctx md (xp_provs x) (xp_mds x) 0 ;;
      Ok (first :: xpart)
    end
  end.

(* ---------------------------------------------------------------- *)
(* The repaired code (pending/C17-fix-metadata-index.diff,
   pending/C17-fix-contextual-empty-metadata.diff).                  *)

(* var xmd []byte; if i < len(mds) { xmd = mds[i] } *)
Definition md_at (mds : list mbytes) (i : nat) : mbytes :=
  match nth_error mds i with Some m => m | None => None end.

Fixpoint expand (pid : N) (ctx : bytes) (md : mbytes)
         (provs : list addrinfo) (mds : list mbytes) (i : nat) : list result :=
  match provs with
  | [] => []
  | p :: ps =>
    let xmd := md_at mds i in
    if (ai_id p =? pid) && (mempty xmd || mequal xmd md)
    then expand pid ctx md ps mds (S i)
    else PR ctx (if mempty xmd then md else xmd) p :: expand pid ctx md ps mds (S i)
  end.

Definition get_results (r : record) (pid : N) (ctx : bytes) (md : mbytes) : res (list result) :=
  let first := PR ctx md (r_main r) in
  match r_ext r with
  | None => Ok [first]
  | Some x =>
    match ctx_index_lookup ctx (xp_ctxs x) with
    | Some c =>
      let cpart := expand pid ctx md (cx_provs c) (cx_mds c) 0 in
      if cx_override c then Ok (first :: cpart)
      else Ok (first :: cpart ++ expand pid ctx md (xp_provs x) (xp_mds x) 0)
    | None => Ok (first :: expand pid ctx md (xp_provs x) (xp_mds x) 0)
    end
  end.

(* rpi == nil (provider unknown to every source): nil results, nil error *)
Definition get_results_opt (r : option record) (pid : N) (ctx : bytes) (md : mbytes) : res (list result) :=
  match r with None => Ok [] | Some r => get_results r pid ctx md end.

(* ---------------------------------------------------------------- *)
(* The specification, from the property text.

   "The expanded result list starts with the provider itself, then contains each
    context-level extended provider registered for that context ID, then, unless that
    context overrides them, each chain-level extended provider; the provider's own entry
    is skipped where it adds no new metadata, and the looked-up metadata is substituted
    where an extended provider has none of its own (absent or empty)."

   An extended provider entry is a provider paired with the metadata at the same position
   of the metadata list; where the metadata list is shorter the entry has no metadata of
   its own; surplus metadata entries belong to no provider.                              *)

Fixpoint entries (provs : list addrinfo) (mds : list mbytes) : list (addrinfo * mbytes) :=
  match provs with
  | [] => []
  | p :: ps =>
    match mds with
    | [] => (p, None) :: entries ps []
    | m :: ms => (p, m) :: entries ps ms
    end
  end.

(* has metadata of its own: present and not empty *)
Definition has_own (m : mbytes) : bool :=
  match m with Some (_ :: _) => true | _ => false end.

(* the entry adds no new metadata: none of its own, or the same bytes as looked up *)
Definition adds_nothing (m md : mbytes) : bool :=
  negb (has_own m) || bytes_eqb (mcontent m) (mcontent md).

Definition spec_entry (pid : N) (ctx : bytes) (md : mbytes) (e : addrinfo * mbytes) : list result :=
  let '(p, m) := e in
  if (ai_id p =? pid) && adds_nothing m md then []
  else [PR ctx (if has_own m then m else md) p].

Definition spec_set (pid : N) (ctx : bytes) (md : mbytes) (provs : list addrinfo) (mds : list mbytes) : list result :=
  flat_map (spec_entry pid ctx md) (entries provs mds).

(* the set registered for a context ID: the last one the record lists under that ID *)
Definition registered (ctx : bytes) (l : list ctxext) : option ctxext :=
  last (map Some (filter (fun c => bytes_eqb (cx_id c) ctx) l)) None.

Definition spec_results (r : record) (pid : N) (ctx : bytes) (md : mbytes) : list result :=
  PR ctx md (r_main r) ::
  match r_ext r with
  | None => []
  | Some x =>
    let chain := spec_set pid ctx md (xp_provs x) (xp_mds x) in
    match registered ctx (xp_ctxs x) with
    | None => chain
    | Some c =>
      spec_set pid ctx md (cx_provs c) (cx_mds c) ++ (if cx_override c then [] else chain)
    end
  end.

(* ---------------------------------------------------------------- *)
(* A history of lookups on one cached record.  GetResults reads the record and writes
   nothing, so the model of a history is the map of the model of one call over the calls:
   the k-th answer depends on the record and on the k-th arguments only.               *)
Definition run_calls (r : record) (pid : N) (calls : list (bytes * mbytes)) : list (res (list result)) :=
  map (fun c : bytes * mbytes => get_results r pid (fst c) (snd c)) calls.

(* ---------------------------------------------------------------- *)
(* Case checker used by the generated case files.                    *)

Definition mbytes_eqb (a b : mbytes) : bool := option_eqb bytes_eqb a b.   (* nil <> empty *)
Definition ai_eqb (a b : addrinfo) : bool := (ai_id a =? ai_id b) && (ai_tag a =? ai_tag b).
Definition result_eqb (a b : result) : bool :=
  bytes_eqb (pr_ctx a) (pr_ctx b) && mbytes_eqb (pr_md a) (pr_md b) && ai_eqb (pr_prov a) (pr_prov b).
Definition res_results_eqb (a b : res (list result)) : bool :=
  match a, b with
  | Ok x, Ok y => list_eqb result_eqb x y
  | Err _, Err _ => true
  | Panic _, Panic _ => true
  | _, _ => false
  end.

(* a case: the record the cache received (None: unknown provider), the looked-up
   provider, context ID, metadata, and what the real GetResults did.
   It is accepted when the model of the repaired code gives the observed result AND
   the specification does.                                                        *)
Definition gr_case : Type := option record * N * bytes * mbytes * res (list result).

Definition GRC (r : option record) (pid : N) (ctx : bytes) (md : mbytes) (obs : res (list result)) : gr_case :=
  (r, pid, ctx, md, obs).

Definition get_results_case_ok (c : gr_case) : bool :=
  let '(r, pid, ctx, md, obs) := c in
  res_results_eqb (get_results_opt r pid ctx md) obs &&
  match r with
  | Some r' => res_results_eqb (Ok (spec_results r' pid ctx md)) obs
  | None => true
  end.

(* the same against the unrepaired code's model (used by the harness when it runs
   against a tree without the fixes, to show the old model explains the old code) *)
Definition get_results_v0_case_ok (c : gr_case) : bool :=
  let '(r, pid, ctx, md, obs) := c in
  match r with
  | Some r' => res_results_eqb (get_results_v0 r' pid ctx md) obs
  | None => res_results_eqb (Ok []) obs
  end.
