(* dagsync.Subscriber: the announce queue, the per-publisher sync serialisation and
   the handler map, as a thread-level transition system (dagsync/subscriber.go:
   watch + the goroutine it spawns, handler.asyncSyncAdChain, handler.handle,
   Subscriber.SyncAdChain, handler.sendSyncFinishedEvent, getOrCreateHandler,
   RemoveHandler / idleHandlerCleaner).

   Threads: the single watcher (tid 0), any number of handler goroutines, any number
   of explicit SyncAdChain callers.  A schedule is an arbitrary list of labels, so
   theorems over `reachable` quantify over all interleavings, any number of
   publishers, announcements, handlers and threads.

   Granularity: one step per shared-state operation between two consecutive
   verifYield points of the source; `yield_after` (second component of `stepo`) says
   at which named yield point the thread is seen next, which is what the runtime
   correspondence (harness/cmd/c08) checks step by step against the real code.

   Two source variants are modelled by `variant`:
     lockfix = false : stop CID (latest sync) read BEFORE h.syncMutex is taken, latest
                       written and the event sent AFTER it is released (code before
                       pending/C08-fix-sync-lock-window.diff);
     lockfix = true  : both inside the critical section (repaired code);
     reffix  = false : RemoveHandler / idleHandlerCleaner delete any handler;
     reffix  = true  : handlers carry a use count, only unused handlers are deleted
                       (pending/C08-fix-busy-handler-removal.diff).
   The theorems are about `fixed`; the `_refuted` lemmas are about `v0`.

   Advertisements of a publisher are numbered 1,2,3,... in chain order (0 = none).
   Ghost fields (not read by any non-ghost update): ptaker, gtodo, goal, lsrc,
   ordered, regress, nexp, lastRecv, lastTaken, sem holders (the code has a counter). *)
From Coq Require Import List Bool Arith.
From Lib Require Import SyncSkel LTS.
Import ListNotations.
Local Open Scope nat_scope.

Record variant := { lockfix : bool; reffix : bool }.
Definition fixed : variant := {| lockfix := true; reffix := true |}.
Definition v0 : variant := {| lockfix := false; reffix := false |}.

Inductive kind := KWatcher | KAsync | KExplicit | KEntries.   (* KEntries: a SyncEntries / SyncOneEntry / SyncHAMTEntries caller *)

Inductive pc :=
(* watcher *)
| WNext | WGet | WSwap | WSpawn | WRelease
(* spawned goroutine, up to and including the take of the pending message *)
| GStart | GAcq | GTake
(* explicit SyncAdChain: getOrCreateHandler *)
| EGet
(* common part of asyncSyncAdChain / SyncAdChain *)
| PLockS | PRead | PCmp | PHandle | PReport | PUnlocking | PHandled | PSend
| PUnlockS | PRelSem | PUnlockA | PRelH
| Fin.

Record thread := {
  t_kind : kind;
  t_pc : pc;
  t_pub : nat;            (* publisher *)
  t_h : nat;              (* handler object *)
  t_msg : nat;            (* head to sync to: taken announcement / GetHead result *)
  t_stop : nat;           (* latest sync as read by this thread *)
  t_ok : bool;            (* the sync succeeded *)
  t_todo : list nat       (* block-hook calls still to make *)
}.

Record event := { e_pub : nat; e_head : nat; e_err : bool }.

Record st := {
  hmap : nat -> option nat;       (* s.handlers: publisher -> handler *)
  next_hid : nat;
  hpub : nat -> nat;              (* handler.peerID *)
  pending : nat -> option nat;    (* handler.pendingMsg *)
  ptaker : nat -> option nat;     (* ghost: who will take the pending message *)
  amu : nat -> option nat;        (* handler.asyncMutex holder *)
  smu : nat -> option nat;        (* handler.syncMutex holder *)
  refs : nat -> list nat;         (* handler use count, as the list of users *)
  sem : list nat;                 (* s.syncSem, as the list of permit holders *)
  latest : nat -> nat;            (* latestSyncHandler *)
  lsrc : nat -> bool;             (* ghost: latest was last written by an explicit sync *)
  pubhead : nat -> nat;           (* the publisher's current head *)
  lastRecv : nat -> nat;          (* ghost: last announcement the watcher queued *)
  lastTaken : nat -> nat;         (* ghost: last announcement taken by a goroutine *)
  events : list event;            (* inEvents, newest first *)
  hooks : list (nat * nat * nat); (* block-hook calls (session tid, publisher, ad), newest first *)
  ehooks : list (nat * nat * nat); (* block-hook calls of entries syncs (session tid, publisher, block), newest first *)
  gtodo : nat -> list nat;        (* ghost: hook calls the running session still owes *)
  goal : nat -> nat;              (* ghost: head up to which ads are reported or owed *)
  closing : bool;                 (* Subscriber.Close has closed s.closing (doClose has begun) *)
  panicked : bool;                (* nil dereference in asyncSyncAdChain *)
  ordered : bool;                 (* ghost: announcements arrived in chain order *)
  regress : bool;                 (* ghost: some sync was given a stop beyond its head *)
  nexp : bool;                    (* ghost: an explicit sync was started *)
  next_tid : nat;
  threads : nat -> option thread
}.

Definition set_hmap (s : st) (v : nat -> option nat) : st :=
  {| hmap := v; next_hid := next_hid s; hpub := hpub s; pending := pending s; ptaker := ptaker s; amu := amu s; smu := smu s; refs := refs s; sem := sem s; latest := latest s; lsrc := lsrc s; pubhead := pubhead s; lastRecv := lastRecv s; lastTaken := lastTaken s; events := events s; hooks := hooks s; ehooks := ehooks s; gtodo := gtodo s; goal := goal s; closing := closing s; panicked := panicked s; ordered := ordered s; regress := regress s; nexp := nexp s; next_tid := next_tid s; threads := threads s |}.
Definition set_next_hid (s : st) (v : nat) : st :=
  {| hmap := hmap s; next_hid := v; hpub := hpub s; pending := pending s; ptaker := ptaker s; amu := amu s; smu := smu s; refs := refs s; sem := sem s; latest := latest s; lsrc := lsrc s; pubhead := pubhead s; lastRecv := lastRecv s; lastTaken := lastTaken s; events := events s; hooks := hooks s; ehooks := ehooks s; gtodo := gtodo s; goal := goal s; closing := closing s; panicked := panicked s; ordered := ordered s; regress := regress s; nexp := nexp s; next_tid := next_tid s; threads := threads s |}.
Definition set_hpub (s : st) (v : nat -> nat) : st :=
  {| hmap := hmap s; next_hid := next_hid s; hpub := v; pending := pending s; ptaker := ptaker s; amu := amu s; smu := smu s; refs := refs s; sem := sem s; latest := latest s; lsrc := lsrc s; pubhead := pubhead s; lastRecv := lastRecv s; lastTaken := lastTaken s; events := events s; hooks := hooks s; ehooks := ehooks s; gtodo := gtodo s; goal := goal s; closing := closing s; panicked := panicked s; ordered := ordered s; regress := regress s; nexp := nexp s; next_tid := next_tid s; threads := threads s |}.
Definition set_pending (s : st) (v : nat -> option nat) : st :=
  {| hmap := hmap s; next_hid := next_hid s; hpub := hpub s; pending := v; ptaker := ptaker s; amu := amu s; smu := smu s; refs := refs s; sem := sem s; latest := latest s; lsrc := lsrc s; pubhead := pubhead s; lastRecv := lastRecv s; lastTaken := lastTaken s; events := events s; hooks := hooks s; ehooks := ehooks s; gtodo := gtodo s; goal := goal s; closing := closing s; panicked := panicked s; ordered := ordered s; regress := regress s; nexp := nexp s; next_tid := next_tid s; threads := threads s |}.
Definition set_ptaker (s : st) (v : nat -> option nat) : st :=
  {| hmap := hmap s; next_hid := next_hid s; hpub := hpub s; pending := pending s; ptaker := v; amu := amu s; smu := smu s; refs := refs s; sem := sem s; latest := latest s; lsrc := lsrc s; pubhead := pubhead s; lastRecv := lastRecv s; lastTaken := lastTaken s; events := events s; hooks := hooks s; ehooks := ehooks s; gtodo := gtodo s; goal := goal s; closing := closing s; panicked := panicked s; ordered := ordered s; regress := regress s; nexp := nexp s; next_tid := next_tid s; threads := threads s |}.
Definition set_amu (s : st) (v : nat -> option nat) : st :=
  {| hmap := hmap s; next_hid := next_hid s; hpub := hpub s; pending := pending s; ptaker := ptaker s; amu := v; smu := smu s; refs := refs s; sem := sem s; latest := latest s; lsrc := lsrc s; pubhead := pubhead s; lastRecv := lastRecv s; lastTaken := lastTaken s; events := events s; hooks := hooks s; ehooks := ehooks s; gtodo := gtodo s; goal := goal s; closing := closing s; panicked := panicked s; ordered := ordered s; regress := regress s; nexp := nexp s; next_tid := next_tid s; threads := threads s |}.
Definition set_smu (s : st) (v : nat -> option nat) : st :=
  {| hmap := hmap s; next_hid := next_hid s; hpub := hpub s; pending := pending s; ptaker := ptaker s; amu := amu s; smu := v; refs := refs s; sem := sem s; latest := latest s; lsrc := lsrc s; pubhead := pubhead s; lastRecv := lastRecv s; lastTaken := lastTaken s; events := events s; hooks := hooks s; ehooks := ehooks s; gtodo := gtodo s; goal := goal s; closing := closing s; panicked := panicked s; ordered := ordered s; regress := regress s; nexp := nexp s; next_tid := next_tid s; threads := threads s |}.
Definition set_refs (s : st) (v : nat -> list nat) : st :=
  {| hmap := hmap s; next_hid := next_hid s; hpub := hpub s; pending := pending s; ptaker := ptaker s; amu := amu s; smu := smu s; refs := v; sem := sem s; latest := latest s; lsrc := lsrc s; pubhead := pubhead s; lastRecv := lastRecv s; lastTaken := lastTaken s; events := events s; hooks := hooks s; ehooks := ehooks s; gtodo := gtodo s; goal := goal s; closing := closing s; panicked := panicked s; ordered := ordered s; regress := regress s; nexp := nexp s; next_tid := next_tid s; threads := threads s |}.
Definition set_sem (s : st) (v : list nat) : st :=
  {| hmap := hmap s; next_hid := next_hid s; hpub := hpub s; pending := pending s; ptaker := ptaker s; amu := amu s; smu := smu s; refs := refs s; sem := v; latest := latest s; lsrc := lsrc s; pubhead := pubhead s; lastRecv := lastRecv s; lastTaken := lastTaken s; events := events s; hooks := hooks s; ehooks := ehooks s; gtodo := gtodo s; goal := goal s; closing := closing s; panicked := panicked s; ordered := ordered s; regress := regress s; nexp := nexp s; next_tid := next_tid s; threads := threads s |}.
Definition set_latest (s : st) (v : nat -> nat) : st :=
  {| hmap := hmap s; next_hid := next_hid s; hpub := hpub s; pending := pending s; ptaker := ptaker s; amu := amu s; smu := smu s; refs := refs s; sem := sem s; latest := v; lsrc := lsrc s; pubhead := pubhead s; lastRecv := lastRecv s; lastTaken := lastTaken s; events := events s; hooks := hooks s; ehooks := ehooks s; gtodo := gtodo s; goal := goal s; closing := closing s; panicked := panicked s; ordered := ordered s; regress := regress s; nexp := nexp s; next_tid := next_tid s; threads := threads s |}.
Definition set_lsrc (s : st) (v : nat -> bool) : st :=
  {| hmap := hmap s; next_hid := next_hid s; hpub := hpub s; pending := pending s; ptaker := ptaker s; amu := amu s; smu := smu s; refs := refs s; sem := sem s; latest := latest s; lsrc := v; pubhead := pubhead s; lastRecv := lastRecv s; lastTaken := lastTaken s; events := events s; hooks := hooks s; ehooks := ehooks s; gtodo := gtodo s; goal := goal s; closing := closing s; panicked := panicked s; ordered := ordered s; regress := regress s; nexp := nexp s; next_tid := next_tid s; threads := threads s |}.
Definition set_pubhead (s : st) (v : nat -> nat) : st :=
  {| hmap := hmap s; next_hid := next_hid s; hpub := hpub s; pending := pending s; ptaker := ptaker s; amu := amu s; smu := smu s; refs := refs s; sem := sem s; latest := latest s; lsrc := lsrc s; pubhead := v; lastRecv := lastRecv s; lastTaken := lastTaken s; events := events s; hooks := hooks s; ehooks := ehooks s; gtodo := gtodo s; goal := goal s; closing := closing s; panicked := panicked s; ordered := ordered s; regress := regress s; nexp := nexp s; next_tid := next_tid s; threads := threads s |}.
Definition set_lastRecv (s : st) (v : nat -> nat) : st :=
  {| hmap := hmap s; next_hid := next_hid s; hpub := hpub s; pending := pending s; ptaker := ptaker s; amu := amu s; smu := smu s; refs := refs s; sem := sem s; latest := latest s; lsrc := lsrc s; pubhead := pubhead s; lastRecv := v; lastTaken := lastTaken s; events := events s; hooks := hooks s; ehooks := ehooks s; gtodo := gtodo s; goal := goal s; closing := closing s; panicked := panicked s; ordered := ordered s; regress := regress s; nexp := nexp s; next_tid := next_tid s; threads := threads s |}.
Definition set_lastTaken (s : st) (v : nat -> nat) : st :=
  {| hmap := hmap s; next_hid := next_hid s; hpub := hpub s; pending := pending s; ptaker := ptaker s; amu := amu s; smu := smu s; refs := refs s; sem := sem s; latest := latest s; lsrc := lsrc s; pubhead := pubhead s; lastRecv := lastRecv s; lastTaken := v; events := events s; hooks := hooks s; ehooks := ehooks s; gtodo := gtodo s; goal := goal s; closing := closing s; panicked := panicked s; ordered := ordered s; regress := regress s; nexp := nexp s; next_tid := next_tid s; threads := threads s |}.
Definition set_events (s : st) (v : list event) : st :=
  {| hmap := hmap s; next_hid := next_hid s; hpub := hpub s; pending := pending s; ptaker := ptaker s; amu := amu s; smu := smu s; refs := refs s; sem := sem s; latest := latest s; lsrc := lsrc s; pubhead := pubhead s; lastRecv := lastRecv s; lastTaken := lastTaken s; events := v; hooks := hooks s; ehooks := ehooks s; gtodo := gtodo s; goal := goal s; closing := closing s; panicked := panicked s; ordered := ordered s; regress := regress s; nexp := nexp s; next_tid := next_tid s; threads := threads s |}.
Definition set_hooks (s : st) (v : list (nat * nat * nat)) : st :=
  {| hmap := hmap s; next_hid := next_hid s; hpub := hpub s; pending := pending s; ptaker := ptaker s; amu := amu s; smu := smu s; refs := refs s; sem := sem s; latest := latest s; lsrc := lsrc s; pubhead := pubhead s; lastRecv := lastRecv s; lastTaken := lastTaken s; events := events s; hooks := v; ehooks := ehooks s; gtodo := gtodo s; goal := goal s; closing := closing s; panicked := panicked s; ordered := ordered s; regress := regress s; nexp := nexp s; next_tid := next_tid s; threads := threads s |}.
Definition set_ehooks (s : st) (v : list (nat * nat * nat)) : st :=
  {| hmap := hmap s; next_hid := next_hid s; hpub := hpub s; pending := pending s; ptaker := ptaker s; amu := amu s; smu := smu s; refs := refs s; sem := sem s; latest := latest s; lsrc := lsrc s; pubhead := pubhead s; lastRecv := lastRecv s; lastTaken := lastTaken s; events := events s; hooks := hooks s; ehooks := v; gtodo := gtodo s; goal := goal s; closing := closing s; panicked := panicked s; ordered := ordered s; regress := regress s; nexp := nexp s; next_tid := next_tid s; threads := threads s |}.
Definition set_gtodo (s : st) (v : nat -> list nat) : st :=
  {| hmap := hmap s; next_hid := next_hid s; hpub := hpub s; pending := pending s; ptaker := ptaker s; amu := amu s; smu := smu s; refs := refs s; sem := sem s; latest := latest s; lsrc := lsrc s; pubhead := pubhead s; lastRecv := lastRecv s; lastTaken := lastTaken s; events := events s; hooks := hooks s; ehooks := ehooks s; gtodo := v; goal := goal s; closing := closing s; panicked := panicked s; ordered := ordered s; regress := regress s; nexp := nexp s; next_tid := next_tid s; threads := threads s |}.
Definition set_goal (s : st) (v : nat -> nat) : st :=
  {| hmap := hmap s; next_hid := next_hid s; hpub := hpub s; pending := pending s; ptaker := ptaker s; amu := amu s; smu := smu s; refs := refs s; sem := sem s; latest := latest s; lsrc := lsrc s; pubhead := pubhead s; lastRecv := lastRecv s; lastTaken := lastTaken s; events := events s; hooks := hooks s; ehooks := ehooks s; gtodo := gtodo s; goal := v; closing := closing s; panicked := panicked s; ordered := ordered s; regress := regress s; nexp := nexp s; next_tid := next_tid s; threads := threads s |}.
Definition set_closing (s : st) (v : bool) : st :=
  {| hmap := hmap s; next_hid := next_hid s; hpub := hpub s; pending := pending s; ptaker := ptaker s; amu := amu s; smu := smu s; refs := refs s; sem := sem s; latest := latest s; lsrc := lsrc s; pubhead := pubhead s; lastRecv := lastRecv s; lastTaken := lastTaken s; events := events s; hooks := hooks s; ehooks := ehooks s; gtodo := gtodo s; goal := goal s; closing := v; panicked := panicked s; ordered := ordered s; regress := regress s; nexp := nexp s; next_tid := next_tid s; threads := threads s |}.
Definition set_panicked (s : st) (v : bool) : st :=
  {| hmap := hmap s; next_hid := next_hid s; hpub := hpub s; pending := pending s; ptaker := ptaker s; amu := amu s; smu := smu s; refs := refs s; sem := sem s; latest := latest s; lsrc := lsrc s; pubhead := pubhead s; lastRecv := lastRecv s; lastTaken := lastTaken s; events := events s; hooks := hooks s; ehooks := ehooks s; gtodo := gtodo s; goal := goal s; closing := closing s; panicked := v; ordered := ordered s; regress := regress s; nexp := nexp s; next_tid := next_tid s; threads := threads s |}.
Definition set_ordered (s : st) (v : bool) : st :=
  {| hmap := hmap s; next_hid := next_hid s; hpub := hpub s; pending := pending s; ptaker := ptaker s; amu := amu s; smu := smu s; refs := refs s; sem := sem s; latest := latest s; lsrc := lsrc s; pubhead := pubhead s; lastRecv := lastRecv s; lastTaken := lastTaken s; events := events s; hooks := hooks s; ehooks := ehooks s; gtodo := gtodo s; goal := goal s; closing := closing s; panicked := panicked s; ordered := v; regress := regress s; nexp := nexp s; next_tid := next_tid s; threads := threads s |}.
Definition set_regress (s : st) (v : bool) : st :=
  {| hmap := hmap s; next_hid := next_hid s; hpub := hpub s; pending := pending s; ptaker := ptaker s; amu := amu s; smu := smu s; refs := refs s; sem := sem s; latest := latest s; lsrc := lsrc s; pubhead := pubhead s; lastRecv := lastRecv s; lastTaken := lastTaken s; events := events s; hooks := hooks s; ehooks := ehooks s; gtodo := gtodo s; goal := goal s; closing := closing s; panicked := panicked s; ordered := ordered s; regress := v; nexp := nexp s; next_tid := next_tid s; threads := threads s |}.
Definition set_nexp (s : st) (v : bool) : st :=
  {| hmap := hmap s; next_hid := next_hid s; hpub := hpub s; pending := pending s; ptaker := ptaker s; amu := amu s; smu := smu s; refs := refs s; sem := sem s; latest := latest s; lsrc := lsrc s; pubhead := pubhead s; lastRecv := lastRecv s; lastTaken := lastTaken s; events := events s; hooks := hooks s; ehooks := ehooks s; gtodo := gtodo s; goal := goal s; closing := closing s; panicked := panicked s; ordered := ordered s; regress := regress s; nexp := v; next_tid := next_tid s; threads := threads s |}.
Definition set_next_tid (s : st) (v : nat) : st :=
  {| hmap := hmap s; next_hid := next_hid s; hpub := hpub s; pending := pending s; ptaker := ptaker s; amu := amu s; smu := smu s; refs := refs s; sem := sem s; latest := latest s; lsrc := lsrc s; pubhead := pubhead s; lastRecv := lastRecv s; lastTaken := lastTaken s; events := events s; hooks := hooks s; ehooks := ehooks s; gtodo := gtodo s; goal := goal s; closing := closing s; panicked := panicked s; ordered := ordered s; regress := regress s; nexp := nexp s; next_tid := v; threads := threads s |}.
Definition set_threads (s : st) (v : nat -> option thread) : st :=
  {| hmap := hmap s; next_hid := next_hid s; hpub := hpub s; pending := pending s; ptaker := ptaker s; amu := amu s; smu := smu s; refs := refs s; sem := sem s; latest := latest s; lsrc := lsrc s; pubhead := pubhead s; lastRecv := lastRecv s; lastTaken := lastTaken s; events := events s; hooks := hooks s; ehooks := ehooks s; gtodo := gtodo s; goal := goal s; closing := closing s; panicked := panicked s; ordered := ordered s; regress := regress s; nexp := nexp s; next_tid := next_tid s; threads := v |}.

(* named yield points of dagsync/subscriber.go (build tag verif) and the harness's own
   block hook / end-of-thread observations *)
Inductive ypoint :=
| YWatchSwapped | YAsyncStart | YAsyncLocked | YAsyncSem | YAsyncTaken
| YLatestRead | YStopRead | YHandleLocked | YHook (a : nat) | YHandleUnlocking
| YAsyncHandled | YSyncHandled | YLatestSet | YEventSent | YExit.

Inductive label :=
| Publish (p : nat)                 (* the publisher appends an advertisement *)
| Recv (p c : nat)                  (* receiver.Next returns an announcement of head c *)
| Spawn (p : nat)                   (* a caller enters SyncAdChain for publisher p *)
| SpawnE (p n : nat)                (* a caller enters SyncEntries for an entries chain of n blocks of publisher p *)
| Remove (p : nat) (removed : bool) (* RemoveHandler(p) / the idle cleaner, and what it returned *)
| CloseBegin                        (* Subscriber.Close: doClose closes s.closing (and then waits for the
                                       explicit syncs).  No goroutine of this model reads s.closing: the
                                       semaphore wait ends only with a slot or with the watcher's context,
                                       which is cancelled after the explicit syncs are done and the receiver
                                       is closed -- from there on it is C15's model *)
| AnnRejected (p c : nat)           (* an announcement of head c the receiver's allow filter rejected:
                                       it never reaches receiver.Next and leaves no trace *)
| Step (t : nat) (ok : bool).       (* thread t performs its next operation; ok: the sync succeeds
                                       (at PHandle) / the sync client can be created (at PCmp) *)

Definition updf {A} (f : nat -> A) (k : nat) (v : A) : nat -> A :=
  fun x => if Nat.eqb x k then v else f x.

Definition watcher_tid : nat := 0.

Definition mk_thread k p pu h m stp ok td : thread :=
  {| t_kind := k; t_pc := p; t_pub := pu; t_h := h; t_msg := m; t_stop := stp; t_ok := ok; t_todo := td |}.
Definition set_pc (th : thread) (p : pc) : thread :=
  mk_thread (t_kind th) p (t_pub th) (t_h th) (t_msg th) (t_stop th) (t_ok th) (t_todo th).
Definition set_h (th : thread) (h : nat) : thread :=
  mk_thread (t_kind th) (t_pc th) (t_pub th) h (t_msg th) (t_stop th) (t_ok th) (t_todo th).
Definition set_msg (th : thread) (m : nat) : thread :=
  mk_thread (t_kind th) (t_pc th) (t_pub th) (t_h th) m (t_stop th) (t_ok th) (t_todo th).
Definition set_stop (th : thread) (x : nat) : thread :=
  mk_thread (t_kind th) (t_pc th) (t_pub th) (t_h th) (t_msg th) x (t_ok th) (t_todo th).
Definition set_ok (th : thread) (b : bool) : thread :=
  mk_thread (t_kind th) (t_pc th) (t_pub th) (t_h th) (t_msg th) (t_stop th) b (t_todo th).
Definition set_todo (th : thread) (l : list nat) : thread :=
  mk_thread (t_kind th) (t_pc th) (t_pub th) (t_h th) (t_msg th) (t_stop th) (t_ok th) l.

Definition put (s : st) (t : nat) (th : thread) : st := set_threads s (updf (threads s) t (Some th)).

Definition is_nil {A} (l : list A) : bool := match l with [] => true | _ => false end.
Definition is_explicit (k : kind) : bool := match k with KExplicit => true | _ => false end.
Definition is_entries (k : kind) : bool := match k with KEntries => true | _ => false end.
Definition remove_tid (t : nat) (l : list nat) : list nat := remove Nat.eq_dec t l.

(* the advertisements a walk from `head` reports when given stop `stop`, in the order
   the block hook sees them: head, head-1, ... down to stop+1; when the stop is not
   below the head the traversal never meets it and runs to the start of the chain *)
Fixpoint desc (a n : nat) : list nat :=
  match n with O => [] | S k => a :: desc (a - 1) k end.
Definition walk (stop head : nat) : list nat :=
  if stop <? head then desc head (head - stop) else desc head head.

Section Step.
  Variable v : variant.
  Variable cap : nat.    (* MaxAsyncConcurrency; 0 = no semaphore *)

  (* s.getOrCreateHandler(p) by thread t (under handlersMutex: atomic) *)
  Definition get_handler (s : st) (t : nat) (p : nat) : st * nat :=
    match hmap s p with
    | Some h => ((if reffix v then set_refs s (updf (refs s) h (t :: refs s h)) else s), h)
    | None =>
      let h := next_hid s in
      let s1 := set_hmap s (updf (hmap s) p (Some h)) in
      let s2 := set_hpub s1 (updf (hpub s1) h p) in
      let s3 := set_next_hid s2 (S h) in
      ((if reffix v then set_refs s3 (updf (refs s3) h [t]) else s3), h)
    end.

  (* where a thread goes when it stops syncing: the deferred unlocks / releases *)
  Definition exit_locked (k : kind) : pc :=      (* leaving while inside the critical section (repaired code) *)
    PUnlockS.
  Definition exit_unlocked (k : kind) : pc :=    (* not holding syncMutex *)
    match k with KAsync => PRelSem | _ => PRelH end.
  Definition exit_pc (k : kind) : pc := if lockfix v then exit_locked k else exit_unlocked k.

  Definition step_thread (s : st) (t : nat) (th : thread) (ok : bool) : option (st * option ypoint) :=
    let p := t_pub th in
    let h := t_h th in
    match t_pc th with
    (* ---- watcher: for { Next; getOrCreateHandler; Swap; spawn or continue } *)
    | WNext => None                      (* blocked in receiver.Next: see Recv *)
    | WGet =>
      let '(s1, h1) := get_handler s t p in
      Some (put s1 t (set_pc (set_h th h1) WSwap), None)
    | WSwap =>
      let old := pending s h in
      let s1 := set_pending s (updf (pending s) h (Some (t_msg th))) in
      let s2 := set_lastRecv s1 (updf (lastRecv s1) p (t_msg th)) in
      match old with
      | None => Some (put (set_ptaker s2 (updf (ptaker s2) h (Some t))) t (set_pc th WSpawn), Some YWatchSwapped)
      | Some _ => Some (put s2 t (set_pc th WRelease), Some YWatchSwapped)
      end
    | WSpawn =>
      let g := next_tid s in
      let s1 := set_next_tid s (S g) in
      let s2 := put s1 g (mk_thread KAsync GStart p h 0 0 false []) in
      let s3 := set_ptaker s2 (updf (ptaker s2) h (Some g)) in
      let s4 := if reffix v then set_refs s3 (updf (refs s3) h (g :: remove_tid t (refs s3 h))) else s3 in
      Some (put s4 t (set_pc th WNext), Some YAsyncStart)
    | WRelease =>
      let s1 := if reffix v then set_refs s (updf (refs s) h (remove_tid t (refs s h))) else s in
      Some (put s1 t (set_pc th WNext), None)
    (* ---- spawned goroutine *)
    | GStart =>
      match amu s h with
      | None => Some (put (set_amu s (updf (amu s) h (Some t))) t (set_pc th GAcq), Some YAsyncLocked)
      | Some _ => None
      end
    | GAcq =>
      match cap with
      | O => Some (put s t (set_pc th GTake), Some YAsyncSem)
      | _ => if List.length (sem s) <? cap
             then Some (put (set_sem s (t :: sem s)) t (set_pc th GTake), Some YAsyncSem)
             else None
      end
    | GTake =>
      match pending s h with
      | Some m =>
        let s1 := set_pending s (updf (pending s) h None) in
        let s2 := set_ptaker s1 (updf (ptaker s1) h None) in
        let s3 := set_lastTaken s2 (updf (lastTaken s2) p m) in
        Some (put s3 t (set_pc (set_msg th m) (if lockfix v then PLockS else PRead)), Some YAsyncTaken)
      | None => Some (put (set_panicked s true) t (set_pc th Fin), Some YExit)   (* amsg.Cid with amsg == nil *)
      end
    (* ---- explicit SyncAdChain *)
    | EGet =>
      let '(s1, h1) := get_handler s t p in
      (* syncEntries reads no stop CID: it goes for the sync lock in both variants *)
      Some (put s1 t (set_pc (set_h th h1)
              (match t_kind th with
               | KEntries => PLockS
               | _ => if lockfix v then PLockS else PRead
               end)), None)
    (* ---- common *)
    | PLockS =>
      match smu s h with
      | None =>
        let s1 := set_smu s (updf (smu s) h (Some t)) in
        match t_kind th with
        | KEntries => Some (put s1 t (set_pc th PHandle), Some YHandleLocked)
        | _ =>
          if lockfix v then Some (put s1 t (set_pc th PRead), None)
          else Some (put s1 t (set_pc th PHandle), Some YHandleLocked)
        end
      | Some _ => None
      end
    | PRead =>
      Some (put s t (set_pc (set_stop th (latest s p)) PCmp),
            Some (if is_explicit (t_kind th) then YStopRead else YLatestRead))
    | PCmp =>
      (* explicit: GetHead; announce-triggered: the taken message *)
      let head := if is_explicit (t_kind th) then pubhead s p else t_msg th in
      let th1 := set_msg th head in
      if (head =? 0) || (t_stop th =? head) then
        Some (put s t (set_pc th1 (exit_pc (t_kind th))), None)
      else
        let go_on :=
          let s1 := set_regress s (regress s || (head <? t_stop th)) in
          if lockfix v then Some (put s1 t (set_pc th1 PHandle), Some YHandleLocked)
          else Some (put s1 t (set_pc th1 PLockS), None) in
        (* ok = false here: h.makeSyncer fails for the announced addresses; asyncSyncFailed
           un-caches the CID and sends the error event, nothing is synced.  (SyncAdChain
           calls makeSyncer before this point and just returns the error: not modelled.) *)
        if ok then go_on
        else match t_kind th with
             | KAsync =>
               let s1 := set_events s ({| e_pub := p; e_head := head; e_err := true |} :: events s) in
               Some (put s1 t (set_pc th1 (exit_pc KAsync)), None)
             | _ => go_on
             end
    | PHandle =>
      if ok then
        match t_kind th with
        | KEntries =>
          (* the entries chain of t_msg blocks, numbered in reverse traversal order *)
          Some (put s t (set_pc (set_todo (set_ok th true) (desc (t_msg th) (t_msg th))) PReport), None)
        | _ =>
          let w := walk (t_stop th) (t_msg th) in
          let s1 := set_gtodo s (updf (gtodo s) p w) in
          let s2 := set_goal s1 (updf (goal s1) p (t_msg th)) in
          Some (put s2 t (set_pc (set_todo (set_ok th true) w) PReport), None)
        end
      else
        Some (put s t (set_pc (set_ok th false) PUnlocking), Some YHandleUnlocking)
    | PReport =>
      match t_todo th with
      | a :: r =>
        match t_kind th with
        | KEntries =>
          Some (put (set_ehooks s ((t, p, a) :: ehooks s)) t (set_todo th r), Some (YHook a))
        | _ =>
          let s1 := set_hooks s ((t, p, a) :: hooks s) in
          let s2 := set_gtodo s1 (updf (gtodo s1) p r) in
          Some (put s2 t (set_todo th r), Some (YHook a))
        end
      | [] => Some (put s t (set_pc th PUnlocking), Some YHandleUnlocking)
      end
    | PUnlocking =>
      let s1 := if lockfix v then s else set_smu s (updf (smu s) h None) in
      match t_kind th with
      | KExplicit =>
        if t_ok th then Some (put s1 t (set_pc th PHandled), Some YSyncHandled)
        else Some (put s1 t (set_pc th (exit_pc KExplicit)), None)
      | KEntries =>
        (* syncEntries returns: no latest sync, no event *)
        Some (put s1 t (set_pc th (exit_pc KEntries)), None)
      | _ => Some (put s1 t (set_pc th PHandled), Some YAsyncHandled)
      end
    | PHandled =>
      if t_ok th then
        let s1 := set_latest s (updf (latest s) p (t_msg th)) in
        let s2 := set_lsrc s1 (updf (lsrc s1) p (is_explicit (t_kind th))) in
        Some (put s2 t (set_pc th PSend), Some YLatestSet)
      else
        let s1 := set_events s ({| e_pub := p; e_head := t_msg th; e_err := true |} :: events s) in
        Some (put s1 t (set_pc th (exit_pc (t_kind th))), None)
    | PSend =>
      let s1 := set_events s ({| e_pub := p; e_head := t_msg th; e_err := false |} :: events s) in
      Some (put s1 t (set_pc th (exit_pc (t_kind th))), Some YEventSent)
    | PUnlockS =>
      Some (put (set_smu s (updf (smu s) h None)) t (set_pc th (exit_unlocked (t_kind th))), None)
    | PRelSem =>
      let s1 := match cap with O => s | _ => set_sem s (remove_tid t (sem s)) end in
      Some (put s1 t (set_pc th PUnlockA), None)
    | PUnlockA =>
      Some (put (set_amu s (updf (amu s) h None)) t (set_pc th PRelH), None)
    | PRelH =>
      let s1 := if reffix v then set_refs s (updf (refs s) h (remove_tid t (refs s h))) else s in
      Some (put s1 t (set_pc th Fin), Some YExit)
    | Fin => None
    end.

  Definition stepo (s : st) (l : label) : option (st * option ypoint) :=
    match l with
    | Publish p => Some (set_pubhead s (updf (pubhead s) p (S (pubhead s p))), None)
    | Recv p c =>
      match threads s watcher_tid with
      | Some th =>
        match t_pc th, c with
        | WNext, S _ =>
          let s1 := set_ordered s (ordered s && (lastRecv s p <=? c) && (c <=? pubhead s p)) in
          Some (put s1 watcher_tid (mk_thread KWatcher WGet p 0 c 0 false []), None)
        | _, _ => None
        end
      | None => None
      end
    | Spawn p =>
      let t := next_tid s in
      let s1 := set_nexp (set_next_tid s (S t)) true in
      Some (put s1 t (mk_thread KExplicit EGet p 0 0 0 false []), None)
    | SpawnE p n =>
      match n with
      | O => None
      | S _ =>
        let t := next_tid s in
        let s1 := set_next_tid s (S t) in
        Some (put s1 t (mk_thread KEntries EGet p 0 n 0 false []), None)
      end
    | Remove p removed =>
      match hmap s p with
      | None => if removed then None else Some (s, None)
      | Some h =>
        let busy := reffix v && negb (is_nil (refs s h)) in
        if removed then (if busy then None else Some (set_hmap s (updf (hmap s) p None), None))
        else (if busy then Some (s, None) else None)
      end
    | CloseBegin => if closing s then None else Some (set_closing s true, None)
    | AnnRejected _ _ => Some (s, None)
    | Step t ok =>
      match threads s t with
      | Some th => step_thread s t th ok
      | None => None
      end
    end.

  Definition stepf (s : st) (l : label) : option st :=
    match stepo s l with Some (s', _) => Some s' | None => None end.
End Step.

Definition watcher_thread : thread := mk_thread KWatcher WNext 0 0 0 0 false [].

Definition init : st :=
  {| hmap := fun _ => None; next_hid := 0; hpub := fun _ => 0;
     pending := fun _ => None; ptaker := fun _ => None;
     amu := fun _ => None; smu := fun _ => None; refs := fun _ => [];
     sem := []; latest := fun _ => 0; lsrc := fun _ => false; pubhead := fun _ => 0;
     lastRecv := fun _ => 0; lastTaken := fun _ => 0; events := []; hooks := []; ehooks := [];
     gtodo := fun _ => []; goal := fun _ => 0;
     closing := false; panicked := false; ordered := true; regress := false; nexp := false;
     next_tid := 1;
     threads := fun t => if Nat.eqb t 0 then Some watcher_thread else None |}.

Definition reach (v : variant) (cap : nat) (s : st) : Prop := reachable (stepf v cap) init s.

(* ------------------------------------------------------------------ *)
(* state predicates the theorems are about                             *)

(* a thread is inside handler.handle (between handle:locked and handle:unlocking) *)
Definition in_session (p : pc) : bool :=
  match p with PHandle | PReport | PUnlocking => true | _ => false end.

(* an announce-triggered goroutine that holds a semaphore permit *)
Definition has_permit (p : pc) : bool :=
  match p with
  | GTake | PLockS | PRead | PCmp | PHandle | PReport | PUnlocking | PHandled | PSend | PUnlockS | PRelSem => true
  | _ => false
  end.

(* a goroutine (or the watcher about to spawn it) that still has to take the pending message *)
Definition pretake (th : thread) : bool :=
  match t_pc th with GStart | GAcq | GTake | WSpawn => true | _ => false end.

(* nothing can happen but a new announcement / a new explicit sync / a publish *)
Definition idle_pc (p : pc) : bool := match p with WNext | Fin => true | _ => false end.
Definition quiescent (s : st) : Prop :=
  forall t th, threads s t = Some th -> idle_pc (t_pc th) = true.

Definition enabled (v : variant) (cap : nat) (s : st) (t : nat) : Prop :=
  exists ok s', stepf v cap s (Step t ok) = Some s'.

(* advertisements reported to the block hook for publisher p, newest first *)
Definition ads_of (p : nat) (l : list (nat * nat * nat)) : list nat :=
  map (fun x => snd x) (filter (fun x => Nat.eqb (snd (fst x)) p) l).
(* the session (thread) of each hook call for publisher p, newest first *)
Definition sess_of (p : nat) (l : list (nat * nat * nat)) : list nat :=
  map (fun x => fst (fst x)) (filter (fun x => Nat.eqb (snd (fst x)) p) l).

(* consecutive duplicates removed: the sequence of sessions as the hook sees them *)
Fixpoint compress (l : list nat) : list nat :=
  match l with
  | [] => []
  | a :: r => match r with
              | [] => [a]
              | b :: _ => if Nat.eqb a b then compress r else a :: compress r
              end
  end.

Definition err_event (p m : nat) : event := {| e_pub := p; e_head := m; e_err := true |}.

(* ------------------------------------------------------------------ *)
(* runtime correspondence: a trace observed on the real Subscriber      *)

Definition ypoint_eqb (a b : ypoint) : bool :=
  match a, b with
  | YWatchSwapped, YWatchSwapped | YAsyncStart, YAsyncStart | YAsyncLocked, YAsyncLocked
  | YAsyncSem, YAsyncSem | YAsyncTaken, YAsyncTaken | YLatestRead, YLatestRead
  | YStopRead, YStopRead | YHandleLocked, YHandleLocked | YHandleUnlocking, YHandleUnlocking
  | YAsyncHandled, YAsyncHandled | YSyncHandled, YSyncHandled | YLatestSet, YLatestSet
  | YEventSent, YEventSent | YExit, YExit => true
  | YHook x, YHook y => Nat.eqb x y
  | _, _ => false
  end.
Definition oypoint_eqb (a b : option ypoint) : bool :=
  match a, b with
  | None, None => true
  | Some x, Some y => ypoint_eqb x y
  | _, _ => false
  end.

(* run a trace of (label, yield point seen next); index of the first rejected step *)
Fixpoint run_obs (v : variant) (cap : nat) (s : st) (tr : list (label * option ypoint)) (i : nat)
  : st * option nat :=
  match tr with
  | [] => (s, None)
  | (l, y) :: r =>
    match stepo v cap s l with
    | Some (s', y') => if oypoint_eqb y y' then run_obs v cap s' r (S i) else (s, Some i)
    | None => (s, Some i)
    end
  end.

Record observed := {
  o_npub : nat;
  o_latest : list nat;                 (* GetLatestSync per publisher 0..npub-1 *)
  o_hooks : list (nat * nat * nat);    (* block-hook calls of ad-chain syncs, oldest first *)
  o_ehooks : list (nat * nat * nat);   (* block-hook calls of entries syncs, oldest first *)
  o_events : list (nat * nat * bool);  (* SyncFinished events, oldest first *)
  o_quiescent : bool                   (* the run ended with nothing left to do *)
}.

Fixpoint list_eqb {A} (eqb : A -> A -> bool) (x y : list A) : bool :=
  match x, y with
  | [], [] => true
  | a :: x', b :: y' => eqb a b && list_eqb eqb x' y'
  | _, _ => false
  end.
Definition triple_eqb (a b : nat * nat * nat) : bool :=
  Nat.eqb (fst (fst a)) (fst (fst b)) && Nat.eqb (snd (fst a)) (snd (fst b)) && Nat.eqb (snd a) (snd b).
Definition ev_eqb (a : event) (b : nat * nat * bool) : bool :=
  Nat.eqb (e_pub a) (fst (fst b)) && Nat.eqb (e_head a) (snd (fst b)) && Bool.eqb (e_err a) (snd b).
Fixpoint evs_eqb (x : list event) (y : list (nat * nat * bool)) : bool :=
  match x, y with
  | [], [] => true
  | a :: x', b :: y' => ev_eqb a b && evs_eqb x' y'
  | _, _ => false
  end.

Definition all_idle (s : st) : bool :=
  forallb (fun t => match threads s t with Some th => idle_pc (t_pc th) | None => true end)
          (seq 0 (next_tid s)).

(* decidable forms of the theorems' conclusions, evaluated on every state of an
   accepted trace of the repaired code *)
Definition sessions_of_pub (s : st) (p : nat) : list nat :=
  filter (fun t => match threads s t with
                   | Some th => in_session (t_pc th) && Nat.eqb (t_pub th) p
                   | None => false end) (seq 0 (next_tid s)).
Definition permits_in_use (s : st) : list nat :=
  filter (fun t => match threads s t with
                   | Some th => match t_kind th with KAsync => has_permit (t_pc th) | _ => false end
                   | None => false end) (seq 0 (next_tid s)).
Definition state_ok (cap npub : nat) (s : st) : bool :=
  negb (panicked s) &&
  forallb (fun p => List.length (sessions_of_pub s p) <=? 1) (seq 0 npub) &&
  match cap with O => true | _ => List.length (permits_in_use s) <=? cap end.

Fixpoint states_ok (v : variant) (cap npub : nat) (s : st) (tr : list (label * option ypoint)) : bool :=
  state_ok cap npub s &&
  match tr with
  | [] => true
  | (l, _) :: r => match stepo v cap s l with
                   | Some (s', _) => states_ok v cap npub s' r
                   | None => true
                   end
  end.

Definition perm_seq (l : list nat) (n : nat) : bool :=   (* l is a permutation of 1..n *)
  Nat.eqb (List.length l) n && forallb (fun k => existsb (Nat.eqb k) l) (seq 1 n).

Definition final_ok (npub : nat) (s : st) : bool :=
  forallb (fun p =>
    (* last announcement acted on *)
    Nat.eqb (lastTaken s p) (lastRecv s p) &&
    (* latest = last announced head, or an error event for it, or an explicit sync wrote latest since *)
    ((lastRecv s p =? 0) || (latest s p =? lastRecv s p)
       || existsb (fun e => ev_eqb e (p, lastRecv s p, true)) (events s) || lsrc s p) &&
    (* every advertisement up to latest reported exactly once, unless a sync was given a stop beyond its head *)
    (regress s || perm_seq (ads_of p (hooks s)) (latest s p)))
  (seq 0 npub).

Record tcase := {
  c_variant : variant;
  c_cap : nat;
  c_trace : list (label * option ypoint);
  c_obs : observed
}.

Definition mkcase (lf rf : bool) (cap : nat) (tr : list (label * option ypoint))
    (npub : nat) (lat : list nat) (hk ehk : list (nat * nat * nat)) (ev : list (nat * nat * bool)) (q : bool) : tcase :=
  {| c_variant := {| lockfix := lf; reffix := rf |}; c_cap := cap; c_trace := tr;
     c_obs := {| o_npub := npub; o_latest := lat; o_hooks := hk; o_ehooks := ehk; o_events := ev; o_quiescent := q |} |}.

(* 0 = accepted; otherwise a code saying what differs (printed by the harness on replay) *)
Definition trace_verdict (c : tcase) : nat :=
  let '(s, bad) := run_obs (c_variant c) (c_cap c) init (c_trace c) 0 in
  match bad with
  | Some i => 1000 + i
  | None =>
    let o := c_obs c in
    if negb (list_eqb Nat.eqb (map (latest s) (seq 0 (o_npub o))) (o_latest o)) then 1
    else if negb (list_eqb triple_eqb (rev (hooks s)) (o_hooks o)) then 2
    else if negb (list_eqb triple_eqb (rev (ehooks s)) (o_ehooks o)) then 7
    else if negb (evs_eqb (rev (events s)) (o_events o)) then 3
    else if negb (Bool.eqb (all_idle s) (o_quiescent o)) then 4
    else if lockfix (c_variant c) && reffix (c_variant c) then
      (if negb (states_ok (c_variant c) (c_cap c) (o_npub o) init (c_trace c)) then 5
       else if o_quiescent o && negb (final_ok (o_npub o) s) then 6
       else 0)
    else 0
  end.

Definition trace_case_ok (c : tcase) : bool := Nat.eqb (trace_verdict c) 0.

(* ------------------------------------------------------------------ *)
(* the skeletons this model was written against (repaired code); ties are up to
   conditions (skel_same_shape).  SCall "verifYield" marks a named yield point: the
   model's steps are the operations between two consecutive ones. *)
Open Scope string_scope.

Definition expected_watch : skel :=
  [SDefer [SClose "s.watchDone"];
   SDefer [SCancel "cancel"];
   SFor [SIf "err != nil" [SBreak] [];
         SCall "verifYield";                          (* watch:next *)
         SCall "getOrCreateHandler";                  (* WGet *)
         SAtomic "Swap" "hnd.pendingMsg";             (* WSwap *)
         SCall "verifYield";                          (* watch:swapped *)
         SIf "oldMsg != nil" [SCall "releaseHandler"; SContinue] [];   (* WRelease *)
         SWgAdd "s.asyncWG";
         SGo [SDefer [SCall "releaseHandler"];        (* PRelH, runs last *)
              SCall "verifYield";                     (* async:start *)
              SLock "hnd.asyncMutex";                 (* GStart *)
              SDeferUnlock "hnd.asyncMutex";          (* PUnlockA *)
              SCall "verifYield";                     (* async:locked *)
              SIf "s.syncSem != nil"
                  [SSelect false [[SSend "s.syncSem"; SDefer [SRecv "s.syncSem"]];   (* GAcq / PRelSem *)
                                  [SRecv "ctx.Done()"]]] [];
              SCall "verifYield";                     (* async:sem *)
              SCall "asyncSyncAdChain";
              SWgDone "s.asyncWG"]]].

Definition expected_asyncSyncAdChain : skel :=
  [SIf "ctx.Err() != nil" [SReturn] [];
   SAtomic "Swap" "h.pendingMsg";                     (* GTake *)
   SCall "verifYield";                                (* async:taken *)
   SLock "h.syncMutex";                               (* PLockS *)
   SDeferUnlock "h.syncMutex";                        (* PUnlockS *)
   SCall "GetLatestSync";                             (* PRead *)
   SCall "verifYield";                                (* async:latest-read *)
   SIf "latestSyncLink != nil" [SIf "stopAtCid == nextCid" [SReturn] []]   (* PCmp *)
       [SIf "h.subscriber.firstSyncDepth != 0" [SCall "recursionLimit"] []];
   SCall "makeSyncer";
   SIf "err != nil" [SCall "asyncSyncFailed"; SReturn] [];        (* PCmp with ok = false: error event *)
   SCall "ExploreRecursiveWithStopNode";
   SCall "handle";                                    (* PHandle, PReport, PUnlocking *)
   SCall "verifYield";                                (* async:handled *)
   SIf "err != nil" [SCall "asyncSyncFailed"; SReturn] [];        (* PHandled, error event *)
   SCall "sendSyncFinishedEvent"].                    (* PHandled, PSend *)

Definition expected_asyncSyncFailed : skel :=
  [SSend "h.subscriber.inEvents"].

Definition expected_handle : skel :=
  [SCall "verifYield";                                (* handle:locked -- the caller holds h.syncMutex *)
   SLock "h.subscriber.scopedBlockHookMutex";
   SUnlock "h.subscriber.scopedBlockHookMutex";
   SDefer [SLock "h.subscriber.scopedBlockHookMutex";
           SUnlock "h.subscriber.scopedBlockHookMutex";
           SCall "verifYield"];                       (* handle:unlocking *)
   SIf "segdl > 0 && bh != nil" [SCall "getRecursionLimit"] [];
   SIf "!syncBySegment" [SIf "err != nil" [SReturn] []; SReturn] [];
   SFor [SCall "withRecursionLimit";
         SIf "!ok" [SReturn] [];
         SCall "reset";
         SIf "err != nil" [SReturn] [];
         SIf "segSync.err != nil" [SReturn] [];
         SIf "" [SBreak] [];
         SIf "" [SBreak] [];
         SSwitch [[SContinue]; [SIf "" [SBreak] []]; [SReturn]]];
   SReturn].

Definition expected_SyncAdChain : skel :=
  [SLock "s.expSyncMutex";
   SIf "s.expSyncClosed" [SUnlock "s.expSyncMutex"; SReturn] [];
   SWgAdd "s.expSyncWG";
   SUnlock "s.expSyncMutex";
   SDefer [SWgDone "s.expSyncWG"];
   SCall "getSyncOpts";
   SCall "removeIDFromAddrs";
   SIf "err != nil" [SReturn] [];
   SCall "getOrCreateHandler";                        (* EGet *)
   SDefer [SCall "releaseHandler"];                   (* PRelH *)
   SCall "makeSyncer";
   SIf "err != nil" [SReturn] [];
   SLock "hnd.syncMutex";                             (* PLockS *)
   SDeferUnlock "hnd.syncMutex";                      (* PUnlockS *)
   SIf "opts.depthLimit != 0" [SCall "recursionLimit"] [];
   SIf "opts.resync" [] [SIf "opts.stopAdCid != cid.Undef" [] [SCall "GetLatestSync"]];   (* PRead *)
   SCall "verifYield";                                (* sync:stop-read *)
   SIf "nextCid == cid.Undef" [SIf "err != nil" [SReturn] []; SIf "nextCid == cid.Undef" [SReturn] []] [];   (* PCmp: GetHead *)
   SIf "stopLnk != nil" [SIf "stopAtCid == nextCid" [SReturn] []]
       [SIf "" [SCall "recursionLimit"] []];
   SIf "ctx.Err() != nil" [SReturn] [];
   SCall "ExploreRecursiveWithStopNode";
   SCall "handle";                                    (* PHandle, PReport, PUnlocking *)
   SIf "err != nil" [SReturn] [];
   SCall "verifYield";                                (* sync:handled *)
   SIf "updateLatest" [SCall "sendSyncFinishedEvent"] [];   (* PHandled, PSend *)
   SReturn].

Definition expected_sendSyncFinishedEvent : skel :=
  [SCall "setLatestSync";                             (* PHandled *)
   SCall "verifYield";                                (* event:latest-set *)
   SSend "h.subscriber.inEvents";                     (* PSend *)
   SCall "verifYield"].                               (* event:sent *)

Definition expected_syncEntries : skel :=
  [SIf "entCid == cid.Undef" [SReturn] [];
   SLock "s.expSyncMutex";
   SIf "s.expSyncClosed" [SUnlock "s.expSyncMutex"; SReturn] [];
   SWgAdd "s.expSyncWG";
   SUnlock "s.expSyncMutex";
   SDefer [SWgDone "s.expSyncWG"];
   SCall "removeIDFromAddrs";
   SIf "err != nil" [SReturn] [];
   SCall "getOrCreateHandler";                        (* EGet *)
   SDefer [SCall "releaseHandler"];                   (* PRelH *)
   SCall "makeSyncer";
   SIf "err != nil" [SReturn] [];
   SLock "hnd.syncMutex";                             (* PLockS: the SAME lock as the ad-chain syncs *)
   SCall "handle";                                    (* PHandle, PReport, PUnlocking *)
   SUnlock "hnd.syncMutex";                           (* PUnlockS *)
   SIf "err != nil" [SReturn] [];
   SReturn].

Definition expected_getOrCreateHandler : skel :=
  [SLock "s.handlersMutex"; SDeferUnlock "s.handlersMutex"; SReturn].

Definition expected_releaseHandler : skel :=
  [SLock "s.handlersMutex"; SUnlock "s.handlersMutex"].

Definition expected_RemoveHandler : skel :=
  [SLock "s.handlersMutex"; SDeferUnlock "s.handlersMutex"; SIf "!ok || hnd.users != 0" [SReturn] []; SReturn].

Definition expected_idleHandlerCleaner : skel :=
  [SDefer [SClose "s.cleanerDone"];
   SFor [SSelect false [[SRecv "t.C"; SLock "s.handlersMutex"; SUnlock "s.handlersMutex"];
                        [SRecv "s.closing"; SReturn]]]].

Definition expected : list (string * skel) :=
  [("Subscriber.watch", expected_watch);
   ("handler.asyncSyncAdChain", expected_asyncSyncAdChain);
   ("handler.asyncSyncFailed", expected_asyncSyncFailed);
   ("handler.handle", expected_handle);
   ("Subscriber.SyncAdChain", expected_SyncAdChain);
   ("Subscriber.syncEntries", expected_syncEntries);
   ("handler.sendSyncFinishedEvent", expected_sendSyncFinishedEvent);
   ("Subscriber.getOrCreateHandler", expected_getOrCreateHandler);
   ("Subscriber.releaseHandler", expected_releaseHandler);
   ("Subscriber.RemoveHandler", expected_RemoveHandler);
   ("Subscriber.idleHandlerCleaner", expected_idleHandlerCleaner)].

Definition tie_ok (gen : list (string * skel)) : bool :=
  forallb (fun e => skel_same_shape (lookup_or_nil (fst e) gen) (snd e)) expected.

(* bodies of the goroutines a function starts (the path analyses of SyncSkel do not
   descend into `go`) *)
Fixpoint spawned_op (fuel : nat) (o : sop) {struct fuel} : list skel :=
  match fuel with
  | O => []
  | S f =>
    let many := flat_map (spawned_op f) in
    match o with
    | SGo b => b :: many b
    | SDefer b | SFor b | SFunc b | SOnce _ b => many b
    | SIf _ a b => (many a ++ many b)%list
    | SSelect _ cs | SSwitch cs => flat_map many cs
    | _ => []
    end
  end.
Definition spawned (b : skel) : list skel := flat_map (spawned_op 20) b.

(* callee summaries: which callees may block, which take a mutex themselves *)
Definition c08_env (name : string) : option callee :=
  if String.eqb name "getOrCreateHandler" then Some {| c_blocks := false; c_locks := ["s.handlersMutex"] |}
  else if String.eqb name "releaseHandler" then Some {| c_blocks := false; c_locks := ["s.handlersMutex"] |}
  else if String.eqb name "handle" then Some {| c_blocks := true; c_locks := [] |}
  else if String.eqb name "asyncSyncAdChain" then Some {| c_blocks := true; c_locks := ["h.syncMutex"] |}
  else if String.eqb name "sendSyncFinishedEvent" then Some {| c_blocks := true; c_locks := [] |}
  else if String.eqb name "asyncSyncFailed" then Some {| c_blocks := true; c_locks := [] |}
  else if String.eqb name "makeSyncer" then Some {| c_blocks := true; c_locks := [] |}
  else None.

(* every return path of the functions of interest (and of the goroutine watch starts)
   releases every mutex it took, and never takes one it holds *)
Definition of_interest : list string :=
  ["Subscriber.watch"; "handler.asyncSyncAdChain"; "handler.asyncSyncFailed"; "handler.handle"; "Subscriber.SyncAdChain";
   "handler.sendSyncFinishedEvent"; "Subscriber.getOrCreateHandler"; "Subscriber.releaseHandler";
   "Subscriber.RemoveHandler"; "Subscriber.idleHandlerCleaner"; "Subscriber.syncEntries"].
Definition balance_ok (gen : list (string * skel)) : bool :=
  forallb (fun n => let b := lookup_or_nil n gen in
                    balanced 300 b && forallb (balanced 300) (spawned b)) of_interest.

(* every function that calls handler.handle takes the per-publisher sync lock (and no other
   lock named ...Mutex of the handler) before the call: handle installs and removes the
   publisher's scoped block hook and relies on being the only sync of that publisher *)
Fixpoint flat_op (fuel : nat) (o : sop) {struct fuel} : list sop :=
  match fuel with
  | O => [o]
  | S f =>
    let many := flat_map (flat_op f) in
    o :: match o with
         | SGo b | SDefer b | SFor b | SFunc b | SOnce _ b => many b
         | SIf _ a b => (many a ++ many b)%list
         | SSelect _ cs | SSwitch cs => flat_map many cs
         | _ => []
         end
  end.
Definition flat (b : skel) : list sop := flat_map (flat_op 20) b.
Definition is_sync_lock (o : sop) : bool :=
  match o with
  | SLock m => String.eqb m "h.syncMutex" || String.eqb m "hnd.syncMutex"
  | _ => false
  end.
Definition is_call_handle (o : sop) : bool :=
  match o with SCall n => String.eqb n "handle" | _ => false end.
Fixpoint locked_before_handle (held : bool) (l : list sop) : bool :=
  match l with
  | [] => true
  | o :: r =>
    if is_call_handle o then held && locked_before_handle held r
    else locked_before_handle (held || is_sync_lock o) r
  end.
Definition handle_callers_ok (gen : list (string * skel)) : bool :=
  forallb (fun e => locked_before_handle false (flat (snd e))) gen &&
  (* and there are such callers: SyncAdChain, syncEntries, asyncSyncAdChain *)
  (3 <=? List.length (filter (fun e => existsb is_call_handle (flat (snd e))) gen))%nat.

(* nothing blocks while s.handlersMutex is held (so getOrCreateHandler / releaseHandler /
   RemoveHandler / the cleaner are atomic steps of the model) *)
Definition handlers_mutex_fns : list string :=
  ["Subscriber.getOrCreateHandler"; "Subscriber.releaseHandler"; "Subscriber.RemoveHandler";
   "Subscriber.idleHandlerCleaner"].
Definition handlers_mutex_ok (gen : list (string * skel)) : bool :=
  forallb (fun n => balanced_nonblocking c08_env 300 (lookup_or_nil n gen)) handlers_mutex_fns.
Close Scope string_scope.
