(* C03 -- a chain head is accepted only when signed by the expected publisher.

   dagsync/ipnisync/head/signedhead.go  NewSignedHead, Sign, Validate
   dagsync/ipnisync/sync.go             Syncer.GetHead
   dagsync/ipnisync/publisher.go        ServeHTTP "head" / newEncodedSignedHead
   dagsync/subscriber.go                removeIDFromAddrs, SyncAdChain (head query path)

   Concrete: the signed payload  Cid.Bytes() ++ topic bytes  (lib/Cid.v layout), the
   empty-signature / empty-key / bad-key / bad-signature order of Validate, the
   signer-equals-expected comparison of GetHead (skipped when the Syncer was built
   without a peer ID), removeIDFromAddrs, and what SyncAdChain does around the head
   query (request log, latest-sync).
   Abstract (Section variables): signature scheme and peer IDs (lib/SymCrypto.v); the
   chain sync that follows an accepted head (C01/C02's subject) as a function giving the
   block requests it makes and whether it succeeds.
   Not modelled: DAG-JSON / bindnode encoding of the head and HTTP: a response is [None]
   (no usable head: transport error, non-200, undecodable body) or [Some signed_head]. *)
From Lib Require Import Bytes Varint Cid SymCrypto.
Open Scope N_scope.

Definition ENoSig := 60.        (* head.ErrNoSignature *)
Definition ENoKey := 61.        (* head.ErrNoPubkey *)
Definition EBadKey := 62.       (* ic.UnmarshalPublicKey failed *)
Definition EBadSig := 63.       (* head.ErrBadSignature, or the verifier's own error *)
Definition ENoHead := 64.       (* fetch / decode failed *)
Definition EUnexpectedSigner := 65.   (* "found head signed by an unexpected peer" *)
Definition EEmptyPeerID := 66.  (* removeIDFromAddrs: "empty peer id" *)
Definition ESyncFailed := 67.   (* "sync handler failed" *)

(* the topic as the signature sees it: an absent topic and an empty one contribute
   nothing (Sign / Validate: `if topicLen != 0`) *)
Definition topic_bytes (t : option bytes) : bytes := match t with None => [] | Some b => b end.

(* what is signed: the binary CID followed, without separator, by the topic *)
Definition payload (c : cid) (t : option bytes) : bytes := (Cid.fmt c ++ topic_bytes t)%list.

Definition cid_eqb (a b : cid) : bool :=
  match a, b with
  | CidV0 d, CidV0 d' => bytes_eqb d d'
  | CidV1 co m d, CidV1 co' m' d' => (co =? co') && (m =? m') && bytes_eqb d d'
  | _, _ => false
  end.

Section C03.
  Variables privkey pubkey sigt peerid : Type.
  Variable pub : privkey -> pubkey.
  Variable sign : privkey -> bytes -> sigt.
  Variable verify : pubkey -> bytes -> sigt -> bool.
  Variable peer_id : pubkey -> peerid.
  Variable peerid_eqb : peerid -> peerid -> bool.

  (* SignedHead.Pubkey / .Sig are byte strings: empty, not a key, or a key; empty or not *)
  Inductive keyfield := KEmpty | KBad | KKey (pk : pubkey).
  Inductive sigfield := SEmpty | SBytes (s : sigt).

  Record signed_head := SignedHead {
    sh_cid : cid;                 (* Head (a defined CID: a decoded link always is) *)
    sh_topic : option bytes;      (* Topic *string *)
    sh_key : keyfield;
    sh_sig : sigfield
  }.

  (* NewSignedHead(headCid, topic, privKey): an empty topic is stored as absent *)
  Definition new_signed_head (c : cid) (topic : bytes) (k : privkey) : signed_head :=
    let t := if is_nil topic then None else Some topic in
    SignedHead c t (KKey (pub k)) (SBytes (sign k (payload c t))).

  (* SignedHead.Validate: the signer's peer ID *)
  Definition validate_head (sh : signed_head) : res peerid :=
    match sh_sig sh with
    | SEmpty => Err ENoSig
    | SBytes s =>
      match sh_key sh with
      | KEmpty => Err ENoKey
      | KBad => Err EBadKey
      | KKey pk =>
        if verify pk (payload (sh_cid sh) (sh_topic sh)) s then Ok (peer_id pk) else Err EBadSig
      end
    end.

  (* Syncer.GetHead.  expected = the peer ID the Syncer was created for; None = created
     without one ("Cannot verify publisher signature without peer ID": check skipped) *)
  Definition get_head (expected : option peerid) (resp : option signed_head) : res cid :=
    match resp with
    | None => Err ENoHead
    | Some sh =>
      signer <- validate_head sh ;;
      match expected with
      | None => Ok (sh_cid sh)
      | Some e => if peerid_eqb signer e then Ok (sh_cid sh) else Err EUnexpectedSigner
      end
    end.

  (* Publisher.ServeHTTP for "head": nothing (204) without a root, else the freshly signed
     head for the root *)
  Definition serve_head (root : option cid) (topic : bytes) (k : privkey) : option signed_head :=
    match root with
    | None => None
    | Some c => Some (new_signed_head c topic k)
    end.

  (* ---- subscriber path ---- *)

  (* peer.AddrInfo as SyncAdChain sees it: the ID (may be empty) and, per address, the
     /p2p/ ID it ends with (if any) *)
  Record addr_info := AddrInfo { ai_id : option peerid; ai_addrs : list (option peerid) }.

  Fixpoint first_some {A} (l : list (option A)) : option A :=
    match l with
    | [] => None
    | Some a :: _ => Some a
    | None :: r => first_some r
    end.

  (* removeIDFromAddrs: the ID the sync is for *)
  Definition remove_id (ai : addr_info) : res peerid :=
    match ai_id ai with
    | Some i => Ok i
    | None => match first_some (ai_addrs ai) with Some i => Ok i | None => Err EEmptyPeerID end
    end.

  Inductive request := RqHead | RqBlock (c : cid).
  Record sub_state := SubState {
    st_latest : option cid;        (* GetLatestSync of the publisher *)
    st_reqs : list request         (* requests sent to the publisher so far *)
  }.

  (* the chain sync after an accepted head: block requests made, success *)
  Variable chain_sync : cid -> option cid -> list cid * bool.

  (* SyncAdChain without an explicit head (the only caller of GetHead) *)
  Definition sync_ad_chain (ai : addr_info) (resp : option signed_head) (st : sub_state)
    : res cid * sub_state :=
    match remove_id ai with
    | Err e => (Err e, st)
    | Panic e => (Panic e, st)
    | Ok id =>
      let st1 := SubState (st_latest st) (st_reqs st ++ [RqHead]) in
      match get_head (Some id) resp with
      | Err e => (Err e, st1)
      | Panic e => (Panic e, st1)
      | Ok c =>
        if option_eqb cid_eqb (st_latest st) (Some c) then (Ok c, st1)   (* head is the stop node *)
        else
          let '(blocks, ok) := chain_sync c (st_latest st) in
          let reqs := (st_reqs st1 ++ List.map RqBlock blocks)%list in
          if ok then (Ok c, SubState (Some c) reqs)
          else (Err ESyncFailed, SubState (st_latest st) reqs)
      end
    end.

  (* the expected-peer argument GetHead runs with on the subscriber path *)
  Definition subscriber_expected (ai : addr_info) : res (option peerid) :=
    id <- remove_id ai ;; Ok (Some id).
End C03.

Arguments KEmpty {pubkey}.
Arguments KBad {pubkey}.
Arguments KKey {pubkey} pk.
Arguments SEmpty {sigt}.
Arguments SBytes {sigt} s.
Arguments SignedHead {pubkey sigt} _ _ _ _.
Arguments sh_cid {pubkey sigt} _.
Arguments sh_topic {pubkey sigt} _.
Arguments sh_key {pubkey sigt} _.
Arguments sh_sig {pubkey sigt} _.
Arguments new_signed_head {privkey pubkey sigt} pub sign c topic k.
Arguments validate_head {pubkey sigt peerid} verify peer_id sh.
Arguments get_head {pubkey sigt peerid} verify peer_id peerid_eqb expected resp.
Arguments serve_head {privkey pubkey sigt} pub sign root topic k.
Arguments AddrInfo {peerid} _ _.
Arguments ai_id {peerid} _.
Arguments ai_addrs {peerid} _.
Arguments remove_id {peerid} ai.
Arguments sync_ad_chain {pubkey sigt peerid} verify peer_id peerid_eqb chain_sync ai resp st.
Arguments subscriber_expected {peerid} ai.

(* ------------------------------------------------------------------ *)
(* Case checkers: the model on the symbolic instance against the real functions.  The
   harness decodes the bytes it serves with the real head.Decode and names the key by
   its pool index and the signature by (signer, message) -- confirmed with the real
   verifier over the harness' own  cid bytes ++ topic  layout. *)

Inductive wkey := WKEmpty | WKBad | WKKey (k : N).
Inductive wsig := WSEmpty | WSSig (k : N) (m : bytes) | WSJunk (n : N).
Record whead := WHead { wh_cid : cid; wh_topic : option bytes; wh_key : wkey; wh_sig : wsig }.

Definition sym_head (w : whead) : signed_head Sym.pubkey Sym.sigt :=
  SignedHead (wh_cid w) (wh_topic w)
    match wh_key w with WKEmpty => KEmpty | WKBad => KBad | WKKey k => KKey k end
    match wh_sig w with WSEmpty => SEmpty | WSSig k m => SBytes (Sym.Sig k m) | WSJunk n => SBytes (Sym.Junk n) end.

Definition obytes_eqb := option_eqb bytes_eqb.

Definition key_eqb (a b : keyfield Sym.pubkey) : bool :=
  match a, b with
  | KEmpty, KEmpty => true | KBad, KBad => true | KKey x, KKey y => x =? y | _, _ => false
  end.
Definition sigf_eqb (a b : sigfield Sym.sigt) : bool :=
  match a, b with
  | SEmpty, SEmpty => true | SBytes x, SBytes y => Sym.sig_eqb x y | _, _ => false
  end.
Definition head_eqb (a b : signed_head Sym.pubkey Sym.sigt) : bool :=
  cid_eqb (sh_cid a) (sh_cid b) && obytes_eqb (sh_topic a) (sh_topic b) &&
  key_eqb (sh_key a) (sh_key b) && sigf_eqb (sh_sig a) (sh_sig b).

(* observed outcome with a coarse error class *)
Inductive obs (A : Type) := OOk (a : A) | OErr (class : N) | OPanic.
Arguments OOk {A} a.
Arguments OErr {A} class.
Arguments OPanic {A}.

(* error classes the harness can tell apart on Validate: 60 no signature, 61 no key,
   0 anything else; at the other levels only Ok / Err *)
Definition class_of (e : N) : N := if (e =? ENoSig) || (e =? ENoKey) then e else 0.

Definition agrees {A} (eqb : A -> A -> bool) (classes : bool) (m : res A) (o : obs A) : bool :=
  match m, o with
  | Ok a, OOk b => eqb a b
  | Err e, OErr c => if classes then class_of e =? c else true
  | Panic _, OPanic => true
  | _, _ => false
  end.

(* payload layout: Cid.Bytes() ++ topic, against the bytes the harness signed and the real
   Validate accepted *)
Record payload_case := PayloadCase { pc_cid : cid; pc_topic : option bytes; pc_cidbytes : bytes; pc_out : bytes }.
Definition payload_case_ok (c : payload_case) : bool :=
  bytes_eqb (Cid.fmt (pc_cid c)) (pc_cidbytes c) && bytes_eqb (payload (pc_cid c) (pc_topic c)) (pc_out c) &&
  cid_wf (pc_cid c).

(* head.Decode(bytes).Validate() *)
Record validate_case := ValidateCase { vc_head : whead; vc_obs : obs N }.
Definition validate_case_ok (c : validate_case) : bool :=
  agrees N.eqb true (validate_head Sym.verify Sym.peer_id (sym_head (vc_head c))) (vc_obs c).

(* Syncer.GetHead against a server returning the bytes *)
Record gethead_case := GetHeadCase { gc_expected : option N; gc_resp : option whead; gc_obs : obs cid }.
Definition gethead_case_ok (c : gethead_case) : bool :=
  agrees cid_eqb false
    (get_head Sym.verify Sym.peer_id Sym.peerid_eqb (gc_expected c) (option_map sym_head (gc_resp c))) (gc_obs c).

(* Publisher: what it serves for "head" *)
Record serve_case := ServeCase { sv_root : option cid; sv_topic : bytes; sv_key : N; sv_obs : option whead }.
Definition serve_case_ok (c : serve_case) : bool :=
  option_eqb head_eqb (serve_head Sym.pub Sym.sign (sv_root c) (sv_topic c) (sv_key c)) (option_map sym_head (sv_obs c)).

(* Subscriber.SyncAdChain (no explicit head) against a server returning the bytes *)
Record sub_case := SubCase {
  sc_id : option N; sc_addr_ids : list (option N);      (* peer.AddrInfo given *)
  sc_latest0 : option cid;                              (* GetLatestSync before *)
  sc_resp : option whead;
  sc_sync : list cid * bool;     (* the block requests the sync made and whether it succeeded (observed; abstract in the model) *)
  sc_obs : obs cid;              (* SyncAdChain result *)
  sc_obs_heads : N;              (* head requests seen by the server *)
  sc_obs_blocks : list cid;      (* block requests seen after the head request *)
  sc_obs_latest : option cid     (* GetLatestSync after *)
}.

Definition is_block_of (c : cid) (r : request) : bool :=
  match r with RqBlock c' => cid_eqb c c' | RqHead => false end.
Fixpoint count_heads (l : list request) : N :=
  match l with [] => 0 | RqHead :: r => 1 + count_heads r | _ :: r => count_heads r end.
Fixpoint blocks_of (l : list request) : list cid :=
  match l with [] => [] | RqBlock c :: r => c :: blocks_of r | RqHead :: r => blocks_of r end.

Definition sub_case_ok (c : sub_case) : bool :=
  let '(r, st) :=
    sync_ad_chain Sym.verify Sym.peer_id Sym.peerid_eqb (fun _ _ => sc_sync c)
                  (AddrInfo (sc_id c) (sc_addr_ids c)) (option_map sym_head (sc_resp c))
                  (SubState (sc_latest0 c) []) in
  agrees cid_eqb false r (sc_obs c) &&
  (count_heads (st_reqs st) =? sc_obs_heads c) &&
  list_eqb cid_eqb (blocks_of (st_reqs st)) (sc_obs_blocks c) &&
  option_eqb cid_eqb (st_latest st) (sc_obs_latest c) &&
  (* an accepted new head is followed by the request for that very block *)
  match r, sc_obs_blocks c with
  | Ok h, b :: _ => cid_eqb h b
  | Ok h, [] => option_eqb cid_eqb (sc_latest0 c) (Some h)
  | _, _ => true
  end.

(* ---- histories on ONE Syncer / ONE Subscriber ---- *)

(* several head queries through the same ipnisync Syncer: GetHead keeps no state, so
   every step must be judged as if it were the first *)
Record gethist_case := GetHeadHist { gh_expected : option N; gh_steps : list (option whead * obs cid) }.
Definition gethist_case_ok (c : gethist_case) : bool :=
  forallb (fun s => gethead_case_ok (GetHeadCase (gh_expected c) (fst s) (snd s))) (gh_steps c).

(* several SyncAdChain calls on the same Subscriber (one handler, one cached Syncer, one
   store): latest-sync is threaded through; blocks fetched by earlier steps are local *)
Record sub_step := SubStep {
  ss_resp : option whead;
  ss_sync : list cid * bool;
  ss_obs : obs cid;
  ss_heads : N;
  ss_blocks : list cid;
  ss_latest : option cid
}.
Record subhist_case := SubHist {
  hh_id : option N; hh_addr_ids : list (option N); hh_latest0 : option cid; hh_steps : list sub_step
}.

Definition mem_cid (c : cid) (l : list cid) : bool := existsb (cid_eqb c) l.

Fixpoint subhist_ok (id : option N) (addrs : list (option N)) (latest : option cid) (have : list cid)
         (steps : list sub_step) : bool :=
  match steps with
  | [] => true
  | s :: rest =>
    let '(r, st) :=
      sync_ad_chain Sym.verify Sym.peer_id Sym.peerid_eqb (fun _ _ => ss_sync s)
                    (AddrInfo id addrs) (option_map sym_head (ss_resp s)) (SubState latest []) in
    agrees cid_eqb false r (ss_obs s) &&
    (count_heads (st_reqs st) =? ss_heads s) &&
    list_eqb cid_eqb (blocks_of (st_reqs st)) (ss_blocks s) &&
    option_eqb cid_eqb (st_latest st) (ss_latest s) &&
    match r, ss_blocks s with
    | Ok h, b :: _ => cid_eqb h b || mem_cid h have
    | Ok h, [] => option_eqb cid_eqb latest (Some h) || mem_cid h have
    | _, _ => true
    end &&
    subhist_ok id addrs (st_latest st) (have ++ ss_blocks s) rest
  end.

Definition subhist_case_ok (c : subhist_case) : bool :=
  subhist_ok (hh_id c) (hh_addr_ids c) (hh_latest0 c) [] (hh_steps c).

(* ---- the publisher under concurrency ---- *)

(* Publisher.SetRoot and Publisher.ServeHTTP("head") share the root under p.lock.  A head
   request READS the root in its critical section, then signs and writes the response
   outside it; SetRoot may run in between.  Events of a schedule, in the order they
   happen: *)
Inductive pub_ev :=
| PSetRoot (r : option cid)     (* SetRoot returned (None = cid.Undef) *)
| PRead (i : N)                 (* request i went through its critical section *)
| PServe (i : N).               (* request i wrote its response *)

Record pub_state := PubState { p_root : option cid; p_pend : list (N * option cid) }.

Fixpoint plookup (i : N) (l : list (N * option cid)) : option (option cid) :=
  match l with
  | [] => None
  | (j, r) :: t => if j =? i then Some r else plookup i t
  end.

(* the root after a prefix of a schedule *)
Fixpoint root_after (evs : list pub_ev) (root : option cid) : option cid :=
  match evs with
  | [] => root
  | PSetRoot r :: t => root_after t r
  | _ :: t => root_after t root
  end.

Section PubRun.
  Variables privkey pubkey sigt : Type.
  Variable pub : privkey -> pubkey.
  Variable sign : privkey -> bytes -> sigt.

  (* what each request is answered with: the head signed for the root IT READ *)
  Fixpoint pub_run (topic : bytes) (k : privkey) (evs : list pub_ev) (st : pub_state)
    : list (N * option (signed_head pubkey sigt)) :=
    match evs with
    | [] => []
    | PSetRoot r :: t => pub_run topic k t (PubState r (p_pend st))
    | PRead i :: t => pub_run topic k t (PubState (p_root st) ((i, p_root st) :: p_pend st))
    | PServe i :: t =>
      match plookup i (p_pend st) with
      | Some r => (i, serve_head pub sign r topic k) :: pub_run topic k t st
      | None => pub_run topic k t st      (* a response without a request: not a run *)
      end
    end.
End PubRun.
Arguments pub_run {privkey pubkey sigt} pub sign topic k evs st.

(* observed schedule: the harness drives the real Publisher with a private key whose Sign
   waits on a latch, so the order of events is known *)
Inductive pub_obs :=
| OSetRoot (r : option cid)
| ORead (i : N)
| OServe (i : N) (resp : option whead).     (* None = 204 No Content *)
Record pubsched_case := PubSched { ps_topic : bytes; ps_key : N; ps_events : list pub_obs }.

Fixpoint pubsched_ok (topic : bytes) (k : N) (evs : list pub_obs) (st : pub_state) : bool :=
  match evs with
  | [] => true
  | OSetRoot r :: t => pubsched_ok topic k t (PubState r (p_pend st))
  | ORead i :: t => pubsched_ok topic k t (PubState (p_root st) ((i, p_root st) :: p_pend st))
  | OServe i resp :: t =>
    match plookup i (p_pend st) with
    | Some r => option_eqb head_eqb (serve_head Sym.pub Sym.sign r topic k) (option_map sym_head resp)
    | None => false
    end && pubsched_ok topic k t st
  end.
Definition pubsched_case_ok (c : pubsched_case) : bool :=
  pubsched_ok (ps_topic c) (ps_key c) (ps_events c) (PubState None []).
