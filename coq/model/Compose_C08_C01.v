(* Bridge between the abstract walk of C08 (a session with head h and stop s reports the
   chain positions h, h-1, .., s+1; positions 1 = oldest) and the model that owns the walk,
   C01 (CIDs, links, ipld traversal, segment loop).  Definitions only.  The bijection
   position <-> CID of a duplicate-free chain (cid_of, cids, stop_of, in_range) is the one
   of Compose_C04_C01. *)
From Coq Require Import List Bool Arith NArith ZArith.
From Lib Require Import Bytes.
From Model Require C01_ChainSync C08_AnnounceQueue.
From Model Require Export Compose_C04_C01.
Import ListNotations.

Module C8 := C08_AnnounceQueue.

Local Open Scope nat_scope.

(* block-hook calls made by session (thread) t, newest first / in the order they were made *)
Definition ads_by (t : nat) (l : list (nat * nat * nat)) : list nat :=
  map (fun x => snd x) (filter (fun x => Nat.eqb (fst (fst x)) t) l).
Definition session_log (s : C8.st) (t : nat) : list nat := rev (ads_by t (C8.hooks s)).

(* all block-hook calls for publisher p in the order they were made *)
Definition publisher_log (s : C8.st) (p : nat) : list nat := rev (C8.ads_of p (C8.hooks s)).

(* the subscriber configurations the C08 abstraction covers: no depth limit of any kind
   (AdsDepthLimit 0, FirstSyncDepth 0), strict selector, no WithLastKnownSync function; any
   segment size; the prescribed hook *)
Definition c08_cfg (segdl : Z) : C1.subcfg := C1.CFG 0 0 segdl 0 true C1.HNominate None.

(* a sync session of the C08 model as a SyncAdChain call of C01: no explicit stop, no
   resync, no per-call depth / segment size / hook.  An announce-triggered session syncs to
   the announced head (C01: a given head); an explicit one to the queried head. *)
Definition c08_call (explicit : bool) (head : C1.cid) : C1.adcall :=
  if explicit then C1.ADCALL None None false 0%Z 0%Z None (Some head)
  else C1.ADCALL (Some head) None false 0%Z 0%Z None None.

(* ---------------------------------------------------------------------------------- *)
(* run-time: for every session of an accepted trace, the observed hook calls of that
   session are what C01's handle computes (segment loop included) on the chain n, .., 1
   whose CIDs are the positions *)

Definition obs_by (t : nat) (l : list (nat * nat * nat)) : list nat :=
  map (fun x => snd x) (filter (fun x => Nat.eqb (fst (fst x)) t) l).

Definition c01_session_hooks (n head stop : nat) (segdl : Z) : list C1.cid :=
  let ch := nat_chain n in
  C1.h_hooks (C1.handle (C1.chain_world C1.EPrev [] ch ch) C1.VPrev
                        (match stop with O => None | _ => Some (N.of_nat stop) end)
                        None segdl C1.HNominate (N.of_nat head) []).

Definition session_c01_ok (s : C8.st) (o : C8.observed) (t : nat) : bool :=
  match C8.threads s t with
  | Some th =>
    if C8.t_ok th && C8.is_nil (C8.t_todo th) && negb (C8.is_entries (C8.t_kind th)) then
      let n := C8.pubhead s (C8.t_pub th) in
      (* in range; a stop that is not below the head never stops the traversal *)
      (C8.t_msg th <=? n) && (C8.t_stop th <=? n) &&
      C1.cids_eqb (map N.of_nat (obs_by t (C8.o_hooks o)))
                  (c01_session_hooks n (C8.t_msg th) (C8.t_stop th) (-1)) &&
      C1.cids_eqb (c01_session_hooks n (C8.t_msg th) (C8.t_stop th) 2)
                  (c01_session_hooks n (C8.t_msg th) (C8.t_stop th) (-1))
    else true
  | None => true
  end.

Definition trace_c01_ok (c : C8.tcase) : bool :=
  let '(s, bad) := C8.run_obs (C8.c_variant c) (C8.c_cap c) C8.init (C8.c_trace c) 0 in
  match bad with
  | Some _ => false
  | None => forallb (session_c01_ok s (C8.c_obs c)) (seq 0 (C8.next_tid s))
  end.

Definition trace_both_ok (c : C8.tcase) : bool := C8.trace_case_ok c && trace_c01_ok c.
