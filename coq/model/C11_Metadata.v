(* C11 -- go-libipni metadata: binary encoding of a set of transport protocols.

   Model of /repo/metadata/{metadata,bitswap,ipfs_trustless_gateway,graphsync_filecoinv1,
   unknown,counting_reader}.go WITH the pending repairs C11-fix-1..5 applied
   (functions without suffix), and of the decode path as it was before the repairs
   (suffix _v0; only used for the `_refuted` lemmas).

   Executable definitions only; proofs are in proofs/C11_Metadata.v.

   What is written out byte by byte: go-varint (Lib.Varint), the three fixed/structured
   protocol encodings, the unknown protocol (code, size, payload kept whole), the decode
   loop, Validate, New (sort by ID), Get, Protocols, and the canonical DAG-CBOR form of the
   graphsync-filecoin payload { PieceCID: link, VerifiedDeal: bool, FastRetrieval: bool }
   together with the acceptance rule of go-cid's Cast for the link.

   Ghost allocation: every function of the decode path returns, next to its result, the
   number of bytes the Go code allocates for buffers whose size depends on the input
   (make([]byte, ..) in the three ReadFrom, the tee and re-encode buffers of the graphsync
   reader, 32 per appended protocol for the growing slice).  Allocation inside the
   third-party DAG-CBOR decoder on a payload it rejects is NOT part of the counter. *)
From Lib Require Import Bytes Varint.
From Gen Require Gen_Consts.
Open Scope N_scope.

(* ------------------------------------------------------------------ *)
(* constants                                                           *)

Definition id_bitswap : N := 2304.     (* multicodec.TransportBitswap             0x0900 *)
Definition id_graphsync : N := 2320.   (* multicodec.TransportGraphsyncFilecoinv1 0x0910 *)
Definition id_gateway : N := 2336.     (* multicodec.TransportIpfsGatewayHttp     0x0920 *)

(* metadata.MaxMetadataSize, regenerated from the source on every run *)
Definition max_metadata_size : N := Z.to_N Gen_Consts.metadata_MaxMetadataSize.

(* Largest link (multibase byte + CID bytes) that passes the allocation budget of
   ipld-prime's dagcbor.Unmarshal inside this 3-entry map: 10 MiB minus the charges for
   the three keys (8+8, 12+8, 13+8) and the two booleans.  Tied to the implementation by
   the `lim` cases of the harness. *)
Definition gs_link_max : N := 10485701.

(* error classes (coarse; the harness compares Ok / Err / Panic only) *)
Definition EEOF := 10.
Definition EShort := 11.
Definition EMismatch := 12.
Definition ETooLong := 13.
Definition ECbor := 14.
Definition ECid := 15.
Definition EEmpty := 16.
Definition EUnsorted := 17.
Definition ETrailing := 18.
Definition EOutOfFuel := 999.   (* never returned: proofs/C11 unmarshal_total_no_panic *)
Definition PMakeslice := 1.     (* v0 only: makeslice: len out of range *)

(* ------------------------------------------------------------------ *)
(* protocols                                                           *)

Inductive proto :=
| PBitswap
| PGateway
| PGraphsync (cid : bytes) (vd fr : bool)   (* PieceCID as its binary form, VerifiedDeal, FastRetrieval *)
| PUnknown (code : N) (raw : bytes).        (* Unknown{Code, Payload}: Payload is the WHOLE encoding *)

Definition id_of (p : proto) : N :=
  match p with
  | PBitswap => id_bitswap
  | PGateway => id_gateway
  | PGraphsync _ _ _ => id_graphsync
  | PUnknown c _ => c
  end.

Definition proto_eqb (a b : proto) : bool :=
  match a, b with
  | PBitswap, PBitswap => true
  | PGateway, PGateway => true
  | PGraphsync c v f, PGraphsync c' v' f' => bytes_eqb c c' && Bool.eqb v v' && Bool.eqb f f'
  | PUnknown c r, PUnknown c' r' => (c =? c') && bytes_eqb r r'
  | _, _ => false
  end.

(* ------------------------------------------------------------------ *)
(* CBOR pieces needed for the graphsync-filecoin payload               *)

(* big-endian, k bytes *)
Fixpoint be (k : nat) (n : N) : bytes :=
  match k with O => [] | S k' => be k' (n / 256) ++ [n mod 256] end.

Definition from_be (l : bytes) : N := fold_left (fun a x => 256 * a + x) l 0.

(* minimal head of major type `major` with argument n (refmt's encoder) *)
Definition cbor_head (major n : N) : bytes :=
  if n <? 24 then [32 * major + n]
  else if n <? 256 then [32 * major + 24; n]
  else if n <? 65536 then (32 * major + 25) :: be 2 n
  else if n <? 4294967296 then (32 * major + 26) :: be 4 n
  else (32 * major + 27) :: be 8 n.

(* strict reader for a byte-string head (major type 2): only the minimal form.
   Returns the declared length and the number of head bytes. *)
Definition rd_bytes_head (b : bytes) : option (N * nat) :=
  match b with
  | [] => None
  | h :: r =>
    if (64 <=? h) && (h <? 88) then Some (h - 64, 1%nat)
    else if h =? 88 then
      match r with
      | x :: _ => if (24 <=? x) && (x <? 256) then Some (x, 2%nat) else None
      | [] => None
      end
    else if h =? 89 then
      let l := firstn 2 r in
      if Nat.eqb (length l) 2 && wf_bytes l && (256 <=? from_be l) then Some (from_be l, 3%nat) else None
    else if h =? 90 then
      let l := firstn 4 r in
      if Nat.eqb (length l) 4 && wf_bytes l && (65536 <=? from_be l) then Some (from_be l, 5%nat) else None
    else if h =? 91 then
      let l := firstn 8 r in
      if Nat.eqb (length l) 8 && wf_bytes l && (4294967296 <=? from_be l) then Some (from_be l, 9%nat) else None
    else None
  end.

(* strip_prefix p b = Some r  <->  b = p ++ r *)
Fixpoint strip_prefix (p b : bytes) : option bytes :=
  match p with
  | [] => Some b
  | x :: p' => match b with
               | y :: b' => if x =? y then strip_prefix p' b' else None
               | [] => None
               end
  end.

(* a3 68 "PieceCID" d8 2a : map(3), key, tag(42) *)
Definition gs_pre : bytes := [163; 104; 80; 105; 101; 99; 101; 67; 73; 68; 216; 42].
(* 6c "VerifiedDeal" *)
Definition gs_mid : bytes := [108; 86; 101; 114; 105; 102; 105; 101; 100; 68; 101; 97; 108].
(* 6d "FastRetrieval" *)
Definition gs_end : bytes := [109; 70; 97; 115; 116; 82; 101; 116; 114; 105; 101; 118; 97; 108].

Definition cbor_bool (b : bool) : N := if b then 245 else 244.
Definition rd_bool (x : N) : option bool :=
  if x =? 244 then Some false else if x =? 245 then Some true else None.

(* go-multihash readMultihashFromBuf + the "whole buffer" requirement of cid.Cast *)
Definition mh_ok (m : bytes) : bool :=
  Nat.leb 2 (length m) &&
  match dec m with
  | Ok (_, k2) =>
    let m2 := skipn k2 m in
    match dec m2 with
    | Ok (len, k3) => (len <=? 2147483647) && (N.of_nat (length m2 - k3) =? len)
    | _ => false
    end
  | _ => false
  end.

(* go-cid Cast: CIDv0 = exactly 12 20 + 32 bytes; CIDv1 = 01, codec varint, multihash
   that fills the rest *)
Definition cid_ok (d : bytes) : bool :=
  if Nat.ltb 2 (length d) && (nth 0 d 0 =? 18) && (nth 1 d 0 =? 32) then Nat.eqb (length d) 34
  else match dec d with
       | Ok (v, n) =>
         (v =? 1) &&
         match dec (skipn n d) with
         | Ok (_, cn) => mh_ok (skipn cn (skipn n d))
         | _ => false
         end
       | _ => false
       end.

(* what dagcbor.Encode writes for the struct (keys in length-first order, which is the
   declaration order) *)
Definition gs_enc (cid : bytes) (vd fr : bool) : bytes :=
  gs_pre ++ cbor_head 2 (1 + N.of_nat (length cid)) ++ [0] ++ cid
  ++ gs_mid ++ [cbor_bool vd] ++ gs_end ++ [cbor_bool fr].

(* The repaired reader: lenient decode, then "re-encode and compare with the bytes
   consumed".  Its accepted language is exactly the canonical encodings, so the model is
   the strict parser.  Returns the value and the number of bytes consumed. *)
Definition gs_dec (b : bytes) : res (bytes * bool * bool * nat) :=
  match strip_prefix gs_pre b with
  | None => Err ECbor
  | Some b1 =>
    match rd_bytes_head b1 with
    | None => Err ECbor
    | Some (n, k) =>
      if (n =? 0) || (gs_link_max <? n) then Err ECbor
      else
        let b2 := skipn k b1 in
        if N.of_nat (length b2) <? n then Err EEOF
        else match b2 with
             | 0 :: b3 =>
               let cid := firstn (N.to_nat n - 1) b3 in
               if cid_ok cid then
                 match strip_prefix gs_mid (skipn (N.to_nat n - 1) b3) with
                 | Some (x :: b4) =>
                   match rd_bool x, strip_prefix gs_end b4 with
                   | Some vd, Some (y :: _) =>
                     match rd_bool y with
                     | Some fr => Ok (cid, vd, fr, (12 + k + N.to_nat n + 13 + 1 + 14 + 1)%nat)
                     | None => Err ECbor
                     end
                   | _, _ => Err ECbor
                   end
                 | _ => Err ECbor
                 end
               else Err ECid
             | _ => Err ECbor    (* multibase prefix must be 0 *)
             end
    end
  end.

(* ------------------------------------------------------------------ *)
(* MarshalBinary of one protocol                                       *)

Definition enc_proto (p : proto) : bytes :=
  match p with
  | PBitswap => enc id_bitswap
  | PGateway => enc id_gateway ++ enc 0
  | PGraphsync c vd fr => enc id_graphsync ++ gs_enc c vd fr
  | PUnknown _ raw => raw
  end.

(* ------------------------------------------------------------------ *)
(* New / sort.Sort(m): order by ID.  Go's sort.Sort is an insertion sort up to 12
   elements, which keeps the order of equal IDs; the model is the stable sort. *)

Fixpoint insert (p : proto) (l : list proto) : list proto :=
  match l with
  | [] => [p]
  | q :: r => if id_of p <=? id_of q then p :: l else q :: insert p r
  end.
Fixpoint new (ps : list proto) : list proto :=
  match ps with [] => [] | p :: r => insert p (new r) end.

Definition marshal_raw (m : list proto) : bytes := concat (map enc_proto m).
(* MarshalBinary: sort, then concatenate *)
Definition marshal (m : list proto) : bytes := marshal_raw (new m).

Definition get (m : list proto) (id : N) : option proto := find (fun p => id_of p =? id) m.
Definition protocols (m : list proto) : list N := map id_of m.

(* Validate (repaired: lastID advances) *)
Fixpoint sorted_from (last : N) (l : list proto) : bool :=
  match l with
  | [] => true
  | p :: r => negb (id_of p <? last) && sorted_from (id_of p) r
  end.
Definition validate (m : list proto) : res (list proto) :=
  match m with
  | [] => Err EEmpty
  | _ => if sorted_from 0 m then Ok m else Err EUnsorted
  end.

(* ------------------------------------------------------------------ *)
(* ReadFrom of each protocol: (result with bytes consumed, ghost allocation) *)

(* r.Read(buf) on a bytes.Buffer holding `data`, len(buf) = n > 0 *)
Definition read_fixed (want : bytes) (p : proto) (data : bytes) : res (proto * nat) * N :=
  let n := length want in
  let buf := firstn n data in
  ( if Nat.eqb (length buf) 0 then Err EEOF
    else if negb (Nat.eqb (length buf) n) then Err EShort
    else if bytes_eqb buf want then Ok (p, n) else Err EMismatch
  , N.of_nat n).

Definition read_bitswap := read_fixed (enc id_bitswap) PBitswap.
Definition read_gateway := read_fixed (enc id_gateway ++ enc 0) PGateway.

Definition read_unknown (data : bytes) : res (proto * nat) * N :=
  match dec data with
  | Ok (v, k1) =>
    match dec (skipn k1 data) with
    | Ok (size, k2) =>
      if max_metadata_size <? size then (Err ETooLong, 0)     (* C11-fix-3 *)
      else
        let hdr := (length (enc v) + length (enc size))%nat in   (* codeSize + sizeSize *)
        let body := firstn (N.to_nat size) (skipn (k1 + k2) data) in
        let n := length body in
        ( if Nat.eqb n 0 && (0 <? size) then Err EEOF
          else if negb (N.of_nat n =? size) then Err EShort
          else Ok (PUnknown v (enc v ++ enc size ++ body), (hdr + n)%nat)
        , N.of_nat hdr + size)
    | Err c => (Err c, 0)
    | Panic c => (Panic c, 0)
    end
  | Err c => (Err c, 0)
  | Panic c => (Panic c, 0)
  end.

Definition read_graphsync (data : bytes) : res (proto * nat) * N :=
  match dec data with
  | Ok (v, k1) =>
    if negb (v =? id_graphsync) then (Err EMismatch, 0)
    else match gs_dec (skipn k1 data) with
         | Ok (c, vd, fr, k) => (Ok (PGraphsync c vd fr, (k1 + k)%nat), 3 * N.of_nat k)
         | Err c => (Err c, 3 * N.of_nat (length data))
         | Panic c => (Panic c, 0)
         end
  | Err c => (Err c, 0)
  | Panic c => (Panic c, 0)
  end.

(* metadataContext.newTransport + ReadFrom *)
Definition read_by_id (id : N) (data : bytes) : res (proto * nat) * N :=
  if id =? id_bitswap then read_bitswap data
  else if id =? id_graphsync then read_graphsync data
  else if id =? id_gateway then read_gateway data
  else read_unknown data.

(* ------------------------------------------------------------------ *)
(* UnmarshalBinary (repaired loop): result, ghost allocation, and whether the failure
   (if any) happened inside the graphsync-filecoin reader *)

Fixpoint parse_all (fuel : nat) (data : bytes) : res (list proto) * N * bool :=
  match data with
  | [] => (Ok [], 0, false)
  | _ :: _ =>
    match fuel with
    | O => (Err EOutOfFuel, 0, false)
    | S f =>
      match dec data with
      | Ok (id, _) =>
        match read_by_id id data with
        | (Ok (p, n), a) =>
          match parse_all f (skipn n data) with
          | (Ok l, a', g) => (Ok (p :: l), a + 32 + a', g)
          | (e, a', g) => (e, a + 32 + a', g)
          end
        | (Err c, a) => (Err c, a, id =? id_graphsync)
        | (Panic c, a) => (Panic c, a, false)
        end
      | Err c => (Err c, 0, false)
      | Panic c => (Panic c, 0, false)
      end
    end
  end.

Definition unmarshal_full (b : bytes) : res (list proto) * N * bool :=
  match parse_all (length b) b with
  | (Ok l, a, g) => (validate l, a, g)
  | r => r
  end.
Definition unmarshal (b : bytes) : res (list proto) := fst (fst (unmarshal_full b)).
Definition unmarshal_alloc (b : bytes) : N := snd (fst (unmarshal_full b)).

(* ------------------------------------------------------------------ *)
(* The per-protocol entry points: Bitswap / IpfsGatewayHttp / GraphsyncFilecoinV1 /
   Unknown .ReadFrom and .UnmarshalBinary called directly (not through Metadata) *)

Inductive pkind := KBitswap | KGateway | KGraphsync | KUnknown.

Definition kind_of (p : proto) : pkind :=
  match p with
  | PBitswap => KBitswap | PGateway => KGateway
  | PGraphsync _ _ _ => KGraphsync | PUnknown _ _ => KUnknown
  end.

(* X.ReadFrom(reader over data): result with bytes consumed, ghost allocation.
   Unknown.ReadFrom takes whatever code it finds (also a registered one). *)
Definition proto_read (k : pkind) (data : bytes) : res (proto * nat) * N :=
  match k with
  | KBitswap => read_bitswap data
  | KGateway => read_gateway data
  | KGraphsync => read_graphsync data
  | KUnknown => read_unknown data
  end.

(* X.UnmarshalBinary(data).  Bitswap and the gateway compare the whole input with their
   fixed encoding; graphsync-filecoin reads and then rejects trailing bytes (C11-fix-2);
   Unknown reads and IGNORES whatever follows the declared payload. *)
Definition proto_unmarshal (k : pkind) (data : bytes) : res proto :=
  match k with
  | KBitswap => if bytes_eqb data (enc id_bitswap) then Ok PBitswap else Err EMismatch
  | KGateway => if bytes_eqb data (enc id_gateway ++ enc 0) then Ok PGateway else Err EMismatch
  | KGraphsync =>
    match fst (read_graphsync data) with
    | Ok (p, n) => if Nat.eqb n (length data) then Ok p else Err ETrailing
    | Err c => Err c
    | Panic c => Panic c
    end
  | KUnknown =>
    match fst (read_unknown data) with
    | Ok (p, _) => Ok p
    | Err c => Err c
    | Panic c => Panic c
    end
  end.

(* Metadata.Equal: same number of protocols, pairwise the same ID and the same encoding *)
Definition proto_equal (a b : proto) : bool :=
  (id_of a =? id_of b) && bytes_eqb (enc_proto a) (enc_proto b).
Definition equal (m1 m2 : list proto) : bool := list_eqb proto_equal m1 m2.

(* ------------------------------------------------------------------ *)
(* well-formedness of protocol values (what a caller may hand to New) *)

Definition known_id (c : N) : bool := (c =? id_bitswap) || (c =? id_graphsync) || (c =? id_gateway).

(* Unknown{Code, Payload}: Payload = varint(Code) ++ varint(len body) ++ body, body within
   the size limit, Code not one of the registered IDs *)
Definition wf_unknown (code : N) (raw : bytes) : bool :=
  wf_bytes raw && negb (known_id code) &&
  match dec raw with
  | Ok (v, k1) =>
    (v =? code) &&
    match dec (skipn k1 raw) with
    | Ok (size, k2) => (size <=? max_metadata_size) && (N.of_nat (length raw - k1 - k2) =? size)
    | _ => false
    end
  | _ => false
  end.

Definition wf_proto (p : proto) : bool :=
  match p with
  | PBitswap | PGateway => true
  | PGraphsync c _ _ => wf_bytes c && cid_ok c && (1 + N.of_nat (length c) <=? gs_link_max)
  | PUnknown code raw => wf_unknown code raw
  end.

(* builds the Payload of an Unknown from code and body, as the harness and the
   repository's tests do *)
Definition mk_unknown (code : N) (body : bytes) : proto :=
  PUnknown code (enc code ++ enc (N.of_nat (length body)) ++ body).

(* ------------------------------------------------------------------ *)
(* The decode path BEFORE the repairs (for the _refuted lemmas only)   *)

Definition max_alloc : N := 2 ^ 48.   (* runtime.maxAlloc on linux/amd64 *)

(* firstn with a binary count (the declared size may be astronomically large here) *)
Fixpoint firstnN (n : N) (l : bytes) : bytes :=
  match l with
  | [] => []
  | x :: r => if n =? 0 then [] else x :: firstnN (n - 1) r
  end.

Definition read_unknown_v0 (data : bytes) : res (proto * nat) * N :=
  match dec data with
  | Ok (v, k1) =>
    match dec (skipn k1 data) with
    | Ok (size, k2) =>
      let hdr := (length (enc v) + length (enc size))%nat in
      let total := N.of_nat hdr + size in
      (* int(size) wraps to a negative length at 2^63 - hdr *)
      if (max_alloc <? total) then (Panic PMakeslice, 0)
      else
        let body := firstnN size (skipn (k1 + k2) data) in
        let n := length body in
        ( if Nat.eqb n 0 && (0 <? size) then Err EEOF
          else if negb (N.of_nat n =? size) then Err EShort
          else Ok (PUnknown v (enc v ++ enc size ++ body), (hdr + n)%nat)
        , total)
    | Err c => (Err c, 0)
    | Panic c => (Panic c, 0)
    end
  | Err c => (Err c, 0)
  | Panic c => (Panic c, 0)
  end.

(* dagcbor.Decode without DontParseBeyondEnd: anything after the object is an error.
   (The leniency of the decoder towards non-canonical input is not modelled in v0.) *)
Definition read_graphsync_v0 (data : bytes) : res (proto * nat) * N :=
  match dec data with
  | Ok (v, k1) =>
    if negb (v =? id_graphsync) then (Err EMismatch, 0)
    else match gs_dec (skipn k1 data) with
         | Ok (c, vd, fr, k) =>
           if Nat.ltb (k1 + k) (length data) then (Err ETrailing, 0)
           else (Ok (PGraphsync c vd fr, (k1 + k)%nat), 0)
         | Err c => (Err c, 0)
         | Panic c => (Panic c, 0)
         end
  | Err c => (Err c, 0)
  | Panic c => (Panic c, 0)
  end.

Definition read_by_id_v0 (id : N) (data : bytes) : res (proto * nat) * N :=
  if id =? id_bitswap then read_bitswap data
  else if id =? id_graphsync then read_graphsync_v0 data
  else if id =? id_gateway then read_gateway data
  else read_unknown_v0 data.

(* Validate before the repair: lastID is never updated, so the order check cannot fail *)
Definition validate_v0 (m : list proto) : res (list proto) :=
  match m with [] => Err EEmpty | _ => Ok m end.

(* for read < len(data) { data = data[read:]; ...; read += tLen } *)
Fixpoint um_loop_v0 (fuel : nat) (data : bytes) (read : nat) (acc : list proto) (al : N)
  : res (list proto) * N :=
  if Nat.ltb read (length data) then
    match fuel with
    | O => (Err EOutOfFuel, al)
    | S f =>
      let data' := skipn read data in
      match dec data' with
      | Ok (id, _) =>
        match read_by_id_v0 id data' with
        | (Ok (p, n), a) => um_loop_v0 f data' (read + n) (acc ++ [p]) (al + a)
        | (Err c, a) => (Err c, al + a)
        | (Panic c, a) => (Panic c, al + a)
        end
      | Err c => (Err c, al)
      | Panic c => (Panic c, al)
      end
    end
  else (validate_v0 acc, al).

Definition unmarshal_v0_full (b : bytes) := um_loop_v0 (S (length b)) b 0 [] 0.
Definition unmarshal_v0 (b : bytes) : res (list proto) := fst (unmarshal_v0_full b).

(* ------------------------------------------------------------------ *)
(* checkers for the generated cases                                    *)

(* Byte strings and numbers in the case files are written as primitive-integer literals
   (coqc reads those about ten times faster than string or N literals, which is what
   bounds the number of cases per run).  The few definitions that unpack them (B, U,
   EncCaseI, DecCaseI) are emitted by the harness at the top of every case file, so that
   nothing in this development depends on Coq's Uint63 library. *)

Inductive obs (A : Type) := OOk (a : A) | OErr | OPanic.
Arguments OOk {A} a.
Arguments OErr {A}.
Arguments OPanic {A}.

Definition obs_match {A} (eqb : A -> A -> bool) (r : res A) (o : obs A) : bool :=
  match r, o with
  | Ok a, OOk b => eqb a b
  | Err _, OErr => true
  | Panic _, OPanic => true
  | _, _ => false
  end.

Definition protos_eqb := list_eqb proto_eqb.

(* EncCase: protocols in construction order; observed MarshalBinary; observed
   UnmarshalBinary of those bytes; observed Protocols(); observed Get(id) as the index (in
   construction order) of the protocol returned; observed Validate() == nil *)
Inductive enc_case :=
  EncCase (ins : list proto) (m : obs bytes) (d : obs (list proto)) (ids : list N)
          (gets : list (N * option nat)) (valid : bool).

Definition get_ok (ins : list proto) (g : N * option nat) : bool :=
  match snd g, get (new ins) (fst g) with
  | None, None => true
  | Some i, Some q => match nth_error ins i with Some p => proto_eqb p q | None => false end
  | _, _ => false
  end.

Definition enc_case_ok (c : enc_case) : bool :=
  match c with
  | EncCase ins m d ids gets valid =>
    obs_match bytes_eqb (Ok (marshal ins)) m
    && obs_match protos_eqb (unmarshal (marshal ins)) d
    && list_eqb N.eqb (protocols (new ins)) ids
    && forallb (get_ok ins) gets
    && Bool.eqb (is_ok (validate (new ins))) valid
  end.

(* DecCase: input, observed UnmarshalBinary, observed bytes allocated.  The allocation
   is compared with the ghost counter unless the input was rejected inside the DAG-CBOR
   decoder (whose internal allocation is not modelled). *)
Inductive dec_case := DecCase (b : bytes) (d : obs (list proto)) (alloc : N).

Definition dec_case_ok (c : dec_case) : bool :=
  match c with
  | DecCase b d alloc =>
    match unmarshal_full b with
    | (r, a, g) =>
      obs_match protos_eqb r d
      && (g || (alloc <=? 256 * a + 65536))
      && match r with Ok m => bytes_eqb (marshal m) b | _ => true end
    end
  end.

(* PDecCase: protocol kind, entry point (false = UnmarshalBinary, true = ReadFrom), input,
   observed result, observed byte count (ReadFrom, on success) *)
Inductive pdec_case := PDecCase (k : pkind) (readfrom : bool) (b : bytes) (d : obs (list proto)) (n : nat).

Definition pdec_case_ok (c : pdec_case) : bool :=
  match c with
  | PDecCase k false b d _ =>
    obs_match protos_eqb (match proto_unmarshal k b with Ok p => Ok [p] | Err e => Err e | Panic e => Panic e end) d
  | PDecCase k true b d n =>
    match fst (proto_read k b) with
    | Ok (p, n') => obs_match protos_eqb (Ok [p]) d && Nat.eqb n n'
    | Err e => obs_match protos_eqb (Err e) d
    | Panic e => obs_match protos_eqb (Panic e) d
    end
  end.

(* EqCase: two protocol lists in construction order, observed New(a).Equal(New(b)) *)
Inductive eq_case := EqCase (a b : list proto) (r : bool).
Definition eq_case_ok (c : eq_case) : bool :=
  match c with EqCase a b r => Bool.eqb (equal (new a) (new b)) r end.

(* HeldCase: the protocols in the order the Go value HOLDS them when MarshalBinary is called
   (however it came to hold them: New, Swap, the caller reordering the slice it gave to New,
   a failed UnmarshalBinary), what MarshalBinary wrote, what UnmarshalBinary made of that,
   and Protocols() afterwards (MarshalBinary sorts the receiver) *)
Inductive held_case := HeldCase (held : list proto) (m : obs bytes) (d : obs (list proto)) (after : list N).
Definition held_case_ok (c : held_case) : bool :=
  match c with
  | HeldCase held m d after =>
    obs_match bytes_eqb (Ok (marshal held)) m
    && obs_match protos_eqb (unmarshal (marshal held)) d
    && list_eqb N.eqb (protocols (new held)) after
  end.

Inductive lim_case := LimGsLink (n : N) (ok : bool).
Definition lim_case_ok (c : lim_case) : bool :=
  match c with LimGsLink n ok => Bool.eqb (n <=? gs_link_max) ok end.
