(* C06 — pcache.ProviderCache: Refresh, the miss path of Get (fetchMissing), List, Len
   (pcache/provider_cache.go).  Executable definitions only.

   State of the writer and of the reader snapshot:
     st_seq                      pc.seq
     st_write : gmap N entry     pc.write  (provider id -> cacheInfo)
     st_rm, st_ru                the readOnly snapshot: main map m and update map u;
                                 a value None is Go's nil *readProviderInfo (negative entry)
   A provider record is its LastAdvertisementTime (None = missing / unparseable) and a tag
   standing for the rest of the record (the harness gives every version of every record at
   every source a distinct tag).  Times are Z: 0 is 1970-01-01 (what the code substitutes for
   a missing time on the update and miss paths), -1 is Go's zero time.Time (what a NEW entry
   gets from time.Parse failing in Refresh).  Wall clock: every op carries its own [now].

   [fixed] selects the publication rule:
     false  the code before pending/C06-fix-*.diff: an entry is published when
            updateSeq == seq (e_upd)
     true   the repaired code: an entry is published when it has unpublished changes
            (e_dirty), whichever refresh made them
   Both fields are maintained so that one step function serves both.

   [need_merge] (the merge policy) and [ttl] are parameters: the theorems hold for any
   policy; [real_need_merge] is pcache.needMerge. *)
From stdpp Require Import gmap.
From Coq Require Import ZArith NArith.

Record rec := Rec { r_time : option Z; r_tag : N }.

Definition eff_time (r : rec) : Z := default 0%Z (r_time r).
Definition raw_time (r : rec) : Z := default (-1)%Z (r_time r).

Record entry := Entry {
  e_prov : option rec;        (* cinfo.provider; None = negative entry *)
  e_expires : option Z;       (* cinfo.expiresAt; None = zero time *)
  e_last : Z;                 (* cinfo.lastUpdate *)
  e_seq : N;                  (* cinfo.seq: last refresh that saw it *)
  e_upd : N;                  (* cinfo.updateSeq (unrepaired code) *)
  e_dirty : bool }.           (* cinfo.unpublished (repaired code) *)

Record state := State {
  st_seq : N;
  st_write : gmap N entry;
  st_rm : gmap N (option rec);
  st_ru : gmap N (option rec) }.

Definition init : state := State 0 ∅ ∅ ∅.

Inductive src_outcome :=
| Reports (l : list (N * rec))   (* FetchAll answered with these records *)
| Fails                          (* FetchAll returned an error, context still live *)
| CancelledHere.                 (* the caller's context was cancelled during this call *)

Inductive fetch_outcome :=
| Found (r : rec)
| NotFound                       (* nil, nil  or a 404 *)
| FetchFails.                    (* any other error, context still live *)

Inductive op :=
| ORefresh (now : Z) (outs : list src_outcome)
| OGet (now : Z) (pid : N) (outs : list fetch_outcome)   (* outs: what each source would answer *)
| OWait.                         (* a Refresh request that found one in progress and waited *)

Inductive result :=
| RRefresh (err : bool) (calls : nat)        (* error returned?; number of sources asked *)
| RGet (r : option rec) (calls : nat).       (* record returned; number of sources asked *)

(* pcache.needMerge *)
Definition real_need_merge (u m : nat) : bool := Nat.ltb (m * 2) (u * (u + 1)).

(* the reader's view: u over m *)
Definition view_of (ru rm : gmap N (option rec)) (pid : N) : option (option rec) :=
  (ru ∪ rm) !! pid.
Definition view (s : state) (pid : N) : option (option rec) := view_of (st_ru s) (st_rm s) pid.
Definition vis (v : option (option rec)) : option rec :=
  match v with Some (Some r) => Some r | _ => None end.
Definition visible (s : state) (pid : N) : option rec := vis (view s pid).

(* List(): provider id -> record, negative entries removed *)
Definition listing (s : state) : gmap N rec := omap id (st_ru s ∪ st_rm s).
(* Len() *)
Definition len (s : state) : nat := size (st_rm s) + size (st_ru s).

Section Model.
  Variable fixed : bool.
  Variable need_merge : nat -> nat -> bool.
  Variable ttl : Z.

  (* ---- Refresh: one fetched record against the write map (L282-L313) *)
  Definition apply_entry (seq' : N) (oe : option entry) (r : rec) : entry :=
    match oe with
    | None => Entry (Some r) None (raw_time r) seq' seq' true
    | Some e =>
      let t := eff_time r in
      if (e_last e <? t)%Z
      then Entry (Some r) None t seq' seq' true
      else Entry (e_prov e) None (e_last e) seq' (e_upd e) (e_dirty e)
    end.

  Definition apply_info (seq' : N) (w : gmap N entry) (pr : N * rec) : gmap N entry :=
    <[pr.1 := apply_entry seq' (w !! pr.1) pr.2]> w.

  (* the loop over the sources; returns the write map, whether the context was found
     cancelled, and how many sources were asked *)
  Fixpoint walk (seq' : N) (outs : list src_outcome) (w : gmap N entry) (calls : nat)
    : gmap N entry * bool * nat :=
    match outs with
    | [] => (w, false, calls)
    | Reports l :: rest => walk seq' rest (fold_left (apply_info seq') l w) (S calls)
    | Fails :: rest => walk seq' rest w (S calls)
    | CancelledHere :: _ => (w, true, S calls)
    end.

  (* publication rule (L338) *)
  Definition publish_now (seq' : N) (e : entry) : bool :=
    if fixed then e_dirty e else (e_upd e =? seq')%N.

  (* the loop over pc.write (L324-L342): what happens to the entry ... *)
  Definition settle (now : Z) (seq' : N) (e : entry) : option entry :=
    if (e_seq e =? seq')%N
    then Some (if publish_now seq' e
               then Entry (e_prov e) (e_expires e) (e_last e) (e_seq e) (e_upd e) false
               else e)
    else match e_expires e with
         | None => Some (Entry (e_prov e) (Some (now + ttl)%Z) (e_last e) (e_seq e) (e_upd e) (e_dirty e))
         | Some x => if (x <? now)%Z then None else Some e
         end.

  (* ... and to the update map *)
  Definition upd_of (now : Z) (seq' : N) (oe : option entry) (ou : option (option rec))
    : option (option rec) :=
    match oe with
    | None => ou
    | Some e =>
      if (e_seq e =? seq')%N
      then (if publish_now seq' e then Some (e_prov e) else ou)
      else match e_expires e with
           | Some x => if (x <? now)%Z then Some None else ou
           | None => ou
           end
    end.

  (* merge decision and main-map regeneration (L346-L363, L490-L506) *)
  Definition merged (w : gmap N entry) (updates rm : gmap N (option rec)) : gmap N (option rec) :=
    merge (fun oe ov => match oe with Some _ => Some (default None ov) | None => None end)
          w (updates ∪ rm).

  Definition finish (seq' : N) (w : gmap N entry) (updates rm : gmap N (option rec)) : state :=
    if need_merge (size updates) (size rm)
    then State seq' w (merged w updates rm) ∅
    else State seq' w rm updates.

  Definition refresh (now : Z) (outs : list src_outcome) (s : state) : state * result :=
    let seq' := (st_seq s + 1)%N in
    let '(w1, cancelled, calls) := walk seq' outs (st_write s) 0 in
    if cancelled
    then (State seq' w1 (st_rm s) (st_ru s), RRefresh true calls)
    else
      let w2 := omap (settle now seq') w1 in
      let updates := merge (upd_of now seq') w1 (st_ru s) in
      (finish seq' w2 updates (st_rm s), RRefresh false calls).

  (* ---- fetchMissing (L409-L509) *)
  Definition fetch_fold (acc : Z * option rec) (o : fetch_outcome) : Z * option rec :=
    match o with
    | Found r => let t := eff_time r in if (acc.1 <? t)%Z then (t, Some r) else acc
    | NotFound | FetchFails => acc
    end.

  (* the body of fetchMissing once it has decided to ask the sources *)
  Definition miss_entry (s : state) (now : Z) (outs : list fetch_outcome) : entry :=
    let '(last, prov) := fold_left fetch_fold outs ((-1)%Z, None) in
    Entry prov (match prov with None => Some (now + ttl)%Z | Some _ => None end)
          last (st_seq s) (st_seq s) false.

  Definition miss (now : Z) (pid : N) (outs : list fetch_outcome) (s : state) : state * result :=
    let e := miss_entry s now outs in
    (finish (st_seq s) (<[pid := e]> (st_write s)) (<[pid := e_prov e]> (st_ru s)) (st_rm s),
     RGet (e_prov e) (length outs)).

  Definition get (now : Z) (pid : N) (outs : list fetch_outcome) (s : state) : state * result :=
    match view s pid with
    | Some v => (s, RGet v 0)                 (* hit, positive or negative *)
    | None => miss now pid outs s
    end.

  (* fetchMissing as a concurrent caller meets it (C07): the caller missed in the snapshot
     it had loaded, took the write slot, and now looks again: an entry stored meanwhile and
     present in the current snapshot is returned; otherwise the sources are asked, even if
     the current snapshot holds a stale negative marker for the provider *)
  Definition fetch_missing (now : Z) (pid : N) (outs : list fetch_outcome) (s : state) : state * result :=
    match st_write s !! pid, view s pid with
    | Some _, Some v => (s, RGet v 0)
    | _, _ => miss now pid outs s
    end.

  Definition step (s : state) (o : op) : state * result :=
    match o with
    | ORefresh now outs => refresh now outs s
    | OGet now pid outs => get now pid outs s
    | OWait => (s, RRefresh false 0)
    end.

  Definition run (ops : list op) (s : state) : state := fold_left (fun s o => (step s o).1) ops s.
End Model.

(* ---------------------------------------------------------------- *)
(* Case checker.  A history with what the real cache did after every op:
   the op's result, List() (sorted by provider id), Len().             *)

Definition rec_eqb (a b : rec) : bool :=
  match r_time a, r_time b with
  | Some x, Some y => (x =? y)%Z
  | None, None => true
  | _, _ => false
  end && (r_tag a =? r_tag b)%N.

Definition orec_eqb (a b : option rec) : bool :=
  match a, b with
  | Some x, Some y => rec_eqb x y
  | None, None => true
  | _, _ => false
  end.

Definition result_eqb (a b : result) : bool :=
  match a, b with
  | RRefresh e1 c1, RRefresh e2 c2 => Bool.eqb e1 e2 && Nat.eqb c1 c2
  | RGet r1 c1, RGet r2 c2 => orec_eqb r1 r2 && Nat.eqb c1 c2
  | _, _ => false
  end.

Definition listing_ok (s : state) (obs : list (N * rec)) : bool :=
  forallb (fun pr : N * rec => orec_eqb (listing s !! pr.1) (Some pr.2)) obs &&
  Nat.eqb (size (listing s)) (length obs).

(* [None]: List/Len could not be observed right after this step (another request ran
   before the harness could look) *)
Definition obs_step : Type := op * result * option (list (N * rec) * nat).

Definition OBS (o : op) (r : result) (l : list (N * rec)) (n : nat) : obs_step := (o, r, Some (l, n)).
Definition OBSR (o : op) (r : result) : obs_step := (o, r, None).

Definition case_ttl : Z := 500.

Fixpoint accepts (fixed : bool) (s : state) (h : list obs_step) : bool :=
  match h with
  | [] => true
  | (o, r, v) :: rest =>
    let '(s', r') := step fixed real_need_merge case_ttl s o in
    result_eqb r' r &&
    match v with Some (l, n) => listing_ok s' l && Nat.eqb (len s') n | None => true end &&
    accepts fixed s' rest
  end.

Definition pcache_case_ok (h : list obs_step) : bool := accepts true init h.
Definition pcache_v0_case_ok (h : list obs_step) : bool := accepts false init h.
