(* dagsync.Subscriber shutdown as a transition system (dagsync/subscriber.go: Close, doClose,
   the explicit-sync gate of SyncAdChain / syncEntries, watch and the goroutines it starts,
   Announce, OnSyncFinished and its cancel func, distributeEvents, idleHandlerCleaner).

   Any number of goroutines calling Close, SyncAdChain/SyncEntries, Announce; the watcher, the
   goroutines it starts, the idle-handler cleaner and the event distributor with its
   listeners (the delivery core of model/C14_Events.v).  A schedule is an arbitrary label
   sequence, so `reach` covers every point of a sync at which Close can start, every number
   of concurrent Close callers and every order relative to the other calls.

   fx = false: the code as found.
   fx = true : with pending/C15-fix-onsyncfinished-after-close (registration gives up when
               s.closing is closed) and pending/C15-fix-close-waits-for-distributor (doClose
               waits for distributeEvents to return).

   A sync is a finite number of transport steps (one block each: block hook + store write)
   fixed when it is started; theorems hold for every such number.  The per-publisher locks
   (asyncMutex, syncMutex: C08, C14) are abstracted: they are ordered asyncMutex < semaphore <
   syncMutex, every critical section is finite, so they delay but never block. *)
From Coq Require Import List NArith Bool Arith.
From Lib Require Import SyncSkel LTS.
From Model Require Import C14_Events.
Import ListNotations.
Local Close Scope string_scope.
Local Open Scope list_scope.
Local Open Scope nat_scope.

Inductive result := RNil | ROk | RFail | RShutdown | RErrClosed.

Inductive kind :=
| KClose
| KExp (fuel : nat) (upd : bool)    (* SyncAdChain (upd: an event is owed on success) / SyncEntries *)
| KAnn (fuel : nat)                 (* Announce; the sync it triggers has `fuel` transport steps *)
| KAsync (fuel : nat).              (* goroutine started by watch *)

Inductive pc :=
(* Close / doClose *)
| COnce                (* closeOnce.Do *)
| CClosing             (* close(s.closing) *)
| CLock | CSet | CUnlock        (* expSyncMutex.Lock(); expSyncClosed = true; Unlock() *)
| CWaitExp             (* expSyncWG.Wait() *)
| CRecvClose           (* receiver.Close() *)
| CWaitWatch           (* <-s.watchDone *)
| CWaitAsync           (* asyncWG.Wait() *)
| CCloseIn             (* close(s.inEvents) *)
| CWaitDist            (* fx: <-s.distDone *)
| CPeerstore           (* httpPeerstore.Close() *)
| COnceDone            (* Once.Do returns: the Once is done *)
(* SyncAdChain / syncEntries *)
| ELock | ECheck | EAdd | EUnlock | ERefuse
| EBody (left : nat)   (* getOrCreateHandler .. handle: `left` blocks still to fetch *)
| ESetLatest | ESend | EDone
(* Announce -> Receiver.Direct *)
| NCheck | NPut
(* goroutine started by watch *)
| ASem                 (* select { syncSem <- ; <-ctx.Done() } *)
| ACtx                 (* asyncSyncAdChain: if ctx.Err() != nil return *)
| ABody (left : nat)
| ASetLatest | ASend | ASendErr
| AWgDone              (* asyncWG.Done() *)
| ASemRel              (* deferred <-s.syncSem *)
| Fin (r : result).

Record thread := {
  t_kind : kind;
  t_pc : pc;
  t_sem : bool;        (* holds a slot of syncSem *)
  t_blocks : nat;      (* ghost: blocks fetched so far *)
  t_late : bool        (* ghost: the call started after Close had returned *)
}.

Inductive once_st := ONot | ORunning (runner : nat) | ODone.
Inductive wpc := WNext | WGot (fuel : nat) | WCancel | WCloseDone | WEnd.
Inductive icpc := ICWait | ICWork | ICEnd.

Record st := {
  co : core;                 (* inEvents, s.closing, distributor, listeners: model/C14_Events.v *)
  once : once_st;
  exp_mu : option nat;       (* expSyncMutex holder *)
  exp_closed : bool;
  has_recv : bool;           (* created with RecvAnnounce *)
  recv_closed : bool;        (* receiver closed: r.done closed *)
  out : option nat;          (* receiver's outChan (capacity 1): fuel of the announced sync *)
  w_pc : wpc;                (* watch goroutine *)
  ctx_cancelled : bool;      (* watch's deferred cancel() has run *)
  watch_done : bool;
  sem_cap : nat;             (* 0 = no semaphore *)
  sem_used : nat;
  ic_pc : icpc;              (* idleHandlerCleaner *)
  stage : nat;               (* ghost: progress of doClose, 0 (not started) .. 12 (Once done) *)
  threads : nat -> option thread;
  next_tid : nat
}.

Inductive label :=
| Spawn (k : kind)                 (* an API call starts (KClose, KExp, KAnn) *)
| Step (t : nat) (choice : nat)
| Watcher (choice : nat)
| Cleaner (choice : nat)
| Core (lb : clabel).              (* listeners, readers, the distributor *)

Definition updt (f : nat -> option thread) (t : nat) (x : thread) : nat -> option thread :=
  fun y => if Nat.eqb y t then Some x else f y.

Definition set_pc (th : thread) (p : pc) : thread :=
  {| t_kind := t_kind th; t_pc := p; t_sem := t_sem th; t_blocks := t_blocks th; t_late := t_late th |}.
Definition set_pc_sem (th : thread) (p : pc) (b : bool) : thread :=
  {| t_kind := t_kind th; t_pc := p; t_sem := b; t_blocks := t_blocks th; t_late := t_late th |}.
Definition set_block (th : thread) (p : pc) : thread :=
  {| t_kind := t_kind th; t_pc := p; t_sem := t_sem th; t_blocks := S (t_blocks th); t_late := t_late th |}.

(* one generic updater keeps the step function readable *)
Record upd := {
  u_co : option core; u_once : option once_st; u_exp_mu : option (option nat); u_exp_closed : option bool;
  u_recv_closed : option bool; u_out : option (option nat); u_w_pc : option wpc; u_ctx : option bool;
  u_watch_done : option bool; u_sem_used : option nat; u_ic : option icpc; u_stage : option nat
}.
Definition u0 : upd :=
  {| u_co := None; u_once := None; u_exp_mu := None; u_exp_closed := None; u_recv_closed := None; u_out := None;
     u_w_pc := None; u_ctx := None; u_watch_done := None; u_sem_used := None; u_ic := None; u_stage := None |}.
Definition ov {A} (o : option A) (d : A) : A := match o with Some x => x | None => d end.

Definition apply_upd (s : st) (u : upd) (f : nat -> option thread) (n : nat) : st :=
  {| co := ov (u_co u) (co s); once := ov (u_once u) (once s); exp_mu := ov (u_exp_mu u) (exp_mu s);
     exp_closed := ov (u_exp_closed u) (exp_closed s); has_recv := has_recv s;
     recv_closed := ov (u_recv_closed u) (recv_closed s); out := ov (u_out u) (out s);
     w_pc := ov (u_w_pc u) (w_pc s); ctx_cancelled := ov (u_ctx u) (ctx_cancelled s);
     watch_done := ov (u_watch_done u) (watch_done s); sem_cap := sem_cap s;
     sem_used := ov (u_sem_used u) (sem_used s); ic_pc := ov (u_ic u) (ic_pc s);
     stage := ov (u_stage u) (stage s); threads := f; next_tid := n |}.

(* thread t moves to pc p, the rest of the state changes by u *)
Definition go (s : st) (t : nat) (th : thread) (p : pc) (u : upd) : option st :=
  Some (apply_upd s u (updt (threads s) t (set_pc th p)) (next_tid s)).
Definition go_th (s : st) (t : nat) (th' : thread) (u : upd) : option st :=
  Some (apply_upd s u (updt (threads s) t th') (next_tid s)).

Definition w_stage (n : nat) : upd :=
  {| u_co := None; u_once := None; u_exp_mu := None; u_exp_closed := None; u_recv_closed := None; u_out := None;
     u_w_pc := None; u_ctx := None; u_watch_done := None; u_sem_used := None; u_ic := None; u_stage := Some n |}.
Definition with_co (u : upd) c : upd :=
  {| u_co := Some c; u_once := u_once u; u_exp_mu := u_exp_mu u; u_exp_closed := u_exp_closed u;
     u_recv_closed := u_recv_closed u; u_out := u_out u; u_w_pc := u_w_pc u; u_ctx := u_ctx u;
     u_watch_done := u_watch_done u; u_sem_used := u_sem_used u; u_ic := u_ic u; u_stage := u_stage u |}.
Definition with_once (u : upd) o : upd :=
  {| u_co := u_co u; u_once := Some o; u_exp_mu := u_exp_mu u; u_exp_closed := u_exp_closed u;
     u_recv_closed := u_recv_closed u; u_out := u_out u; u_w_pc := u_w_pc u; u_ctx := u_ctx u;
     u_watch_done := u_watch_done u; u_sem_used := u_sem_used u; u_ic := u_ic u; u_stage := u_stage u |}.
Definition with_mu (u : upd) m : upd :=
  {| u_co := u_co u; u_once := u_once u; u_exp_mu := Some m; u_exp_closed := u_exp_closed u;
     u_recv_closed := u_recv_closed u; u_out := u_out u; u_w_pc := u_w_pc u; u_ctx := u_ctx u;
     u_watch_done := u_watch_done u; u_sem_used := u_sem_used u; u_ic := u_ic u; u_stage := u_stage u |}.
Definition with_exp_closed (u : upd) : upd :=
  {| u_co := u_co u; u_once := u_once u; u_exp_mu := u_exp_mu u; u_exp_closed := Some true;
     u_recv_closed := u_recv_closed u; u_out := u_out u; u_w_pc := u_w_pc u; u_ctx := u_ctx u;
     u_watch_done := u_watch_done u; u_sem_used := u_sem_used u; u_ic := u_ic u; u_stage := u_stage u |}.
Definition with_recv_closed (u : upd) : upd :=
  {| u_co := u_co u; u_once := u_once u; u_exp_mu := u_exp_mu u; u_exp_closed := u_exp_closed u;
     u_recv_closed := Some true; u_out := u_out u; u_w_pc := u_w_pc u; u_ctx := u_ctx u;
     u_watch_done := u_watch_done u; u_sem_used := u_sem_used u; u_ic := u_ic u; u_stage := u_stage u |}.
Definition with_out (u : upd) o : upd :=
  {| u_co := u_co u; u_once := u_once u; u_exp_mu := u_exp_mu u; u_exp_closed := u_exp_closed u;
     u_recv_closed := u_recv_closed u; u_out := Some o; u_w_pc := u_w_pc u; u_ctx := u_ctx u;
     u_watch_done := u_watch_done u; u_sem_used := u_sem_used u; u_ic := u_ic u; u_stage := u_stage u |}.
Definition with_sem (u : upd) n : upd :=
  {| u_co := u_co u; u_once := u_once u; u_exp_mu := u_exp_mu u; u_exp_closed := u_exp_closed u;
     u_recv_closed := u_recv_closed u; u_out := u_out u; u_w_pc := u_w_pc u; u_ctx := u_ctx u;
     u_watch_done := u_watch_done u; u_sem_used := Some n; u_ic := u_ic u; u_stage := u_stage u |}.

Definition is_exp (k : kind) : bool := match k with KExp _ _ => true | _ => false end.
Definition is_async (k : kind) : bool := match k with KAsync _ => true | _ => false end.
Definition is_close (k : kind) : bool := match k with KClose => true | _ => false end.

(* between expSyncWG.Add(1) and Done() *)
Definition exp_active (th : thread) : bool :=
  match t_pc th with EUnlock | EBody _ | ESetLatest | ESend | EDone => true | _ => false end.
(* between asyncWG.Add(1) (done by watch before `go`) and Done() *)
Definition async_active (th : thread) : bool :=
  match t_pc th with ASem | ACtx | ABody _ | ASetLatest | ASend | ASendErr | AWgDone => true | _ => false end.

Definition none_active (s : st) (f : thread -> bool) : bool :=
  forallb (fun t => match threads s t with Some th => negb (f th) | None => true end) (seq 0 (next_tid s)).

Definition dummy_event (t : nat) (err : bool) : event :=
  {| e_sid := t; e_async := false; e_pub := 0%N; e_cid := 0%N; e_cnt := 0%N; e_err := err |}.

Definition first_pc (k : kind) : pc :=
  match k with KClose => COnce | KExp _ _ => ELock | KAnn _ => NCheck | KAsync _ => ASem end.

Definition k_fuel (k : kind) : nat := match k with KExp f _ => f | KAnn f => f | KAsync f => f | KClose => 0 end.
Definition k_upd (k : kind) : bool := match k with KExp _ u => u | KAsync _ => true | _ => false end.

Definition step_thread (fx : bool) (s : st) (t : nat) (th : thread) (choice : nat) : option st :=
  match t_pc th with
  (* ---- Close ---- *)
  | COnce =>
    match once s with
    | ONot => go s t th CClosing (with_once (w_stage 1) (ORunning t))
    | ORunning _ => None                          (* a later caller waits inside Once.Do *)
    | ODone => go s t th (Fin RNil) u0
    end
  | CClosing =>
    match cstep (co s) LClosing with Some c => go s t th CLock (with_co (w_stage 2) c) | None => None end
  | CLock => match exp_mu s with None => go s t th CSet (with_mu (w_stage 3) (Some t)) | Some _ => None end
  | CSet => go s t th CUnlock (with_exp_closed (w_stage 4))
  | CUnlock => go s t th CWaitExp (with_mu (w_stage 5) None)
  | CWaitExp =>
    if none_active s exp_active
    then (if has_recv s then go s t th CRecvClose (w_stage 6) else go s t th CWaitAsync (w_stage 8))
    else None
  | CRecvClose => go s t th CWaitWatch (with_recv_closed (w_stage 7))
  | CWaitWatch => if watch_done s then go s t th CWaitAsync (w_stage 8) else None
  | CWaitAsync => if none_active s async_active then go s t th CCloseIn (w_stage 9) else None
  | CCloseIn =>
    match cstep (co s) LCloseIn with
    | Some c => if fx then go s t th CWaitDist (with_co (w_stage 10) c) else go s t th CPeerstore (with_co (w_stage 11) c)
    | None => None
    end
  | CWaitDist => match d_pc (co s) with DDone => go s t th CPeerstore (w_stage 11) | _ => None end
  | CPeerstore => go s t th COnceDone (w_stage 11)
  | COnceDone => go s t th (Fin RNil) (with_once (w_stage 12) ODone)
  (* ---- explicit sync ---- *)
  | ELock => match exp_mu s with None => go s t th ECheck (with_mu u0 (Some t)) | Some _ => None end
  | ECheck => if exp_closed s then go s t th ERefuse u0 else go s t th EAdd u0
  | ERefuse => go s t th (Fin RShutdown) (with_mu u0 None)
  | EAdd => go s t th EUnlock u0
  | EUnlock => go s t th (EBody (k_fuel (t_kind th))) (with_mu u0 None)
  | EBody (S n) =>
    match choice with
    | O => go_th s t (set_block th (EBody n)) u0            (* one block: hook call + store write *)
    | _ => go s t th EDone u0                               (* the sync fails / the caller's context ends *)
    end
  | EBody O => if k_upd (t_kind th) then go s t th ESetLatest u0 else go s t th EDone u0
  | ESetLatest => go s t th ESend u0
  | ESend =>
    match cstep (co s) (LSend (dummy_event t false)) with Some c => go s t th EDone (with_co u0 c) | None => None end
  | EDone => go s t th (Fin ROk) u0
  (* ---- Announce ---- *)
  | NCheck =>
    if has_recv s then (if recv_closed s then go s t th (Fin RErrClosed) u0 else go s t th NPut u0)
    else go s t th (Fin RNil) u0
  | NPut =>
    match choice with
    | O => match out s with None => go s t th (Fin RNil) (with_out u0 (Some (k_fuel (t_kind th)))) | Some _ => None end
    | _ => if recv_closed s then go s t th (Fin RErrClosed) u0 else None
    end
  (* ---- goroutine started by watch ---- *)
  | ASem =>
    match sem_cap s with
    | O => go s t th ACtx u0
    | _ =>
      match choice with
      | O => if sem_used s <? sem_cap s
             then go_th s t (set_pc_sem th ACtx true) (with_sem u0 (S (sem_used s))) else None
      | _ => if ctx_cancelled s then go s t th ACtx u0 else None
      end
    end
  | ACtx => if ctx_cancelled s then go s t th AWgDone u0 else go s t th (ABody (k_fuel (t_kind th))) u0
  | ABody (S n) =>
    match choice with
    | O => go_th s t (set_block th (ABody n)) u0
    | _ => go s t th ASendErr u0                            (* transport error, or the cancelled context *)
    end
  | ABody O => go s t th ASetLatest u0
  | ASetLatest => go s t th ASend u0
  | ASend =>
    match cstep (co s) (LSend (dummy_event t false)) with Some c => go s t th AWgDone (with_co u0 c) | None => None end
  | ASendErr =>
    match cstep (co s) (LSend (dummy_event t true)) with Some c => go s t th AWgDone (with_co u0 c) | None => None end
  | AWgDone => go s t th ASemRel u0
  | ASemRel =>
    if t_sem th then go_th s t (set_pc_sem th (Fin RNil) false) (with_sem u0 (pred (sem_used s)))
    else go s t th (Fin RNil) u0
  | Fin _ => None
  end.

Definition new_thread (k : kind) (late : bool) : thread :=
  {| t_kind := k; t_pc := first_pc k; t_sem := false; t_blocks := 0; t_late := late |}.

Definition upd_w (p : wpc) : upd :=
  {| u_co := None; u_once := None; u_exp_mu := None; u_exp_closed := None; u_recv_closed := None; u_out := None;
     u_w_pc := Some p; u_ctx := None; u_watch_done := None; u_sem_used := None; u_ic := None; u_stage := None |}.
Definition upd_w_ctx (p : wpc) : upd :=
  {| u_co := None; u_once := None; u_exp_mu := None; u_exp_closed := None; u_recv_closed := None; u_out := None;
     u_w_pc := Some p; u_ctx := Some true; u_watch_done := None; u_sem_used := None; u_ic := None; u_stage := None |}.
Definition upd_w_done (p : wpc) : upd :=
  {| u_co := None; u_once := None; u_exp_mu := None; u_exp_closed := None; u_recv_closed := None; u_out := None;
     u_w_pc := Some p; u_ctx := None; u_watch_done := Some true; u_sem_used := None; u_ic := None; u_stage := None |}.
Definition upd_ic (p : icpc) : upd :=
  {| u_co := None; u_once := None; u_exp_mu := None; u_exp_closed := None; u_recv_closed := None; u_out := None;
     u_w_pc := None; u_ctx := None; u_watch_done := None; u_sem_used := None; u_ic := Some p; u_stage := None |}.

Definition watcher_step (s : st) (choice : nat) : option st :=
  if negb (has_recv s) then None else
  match w_pc s with
  | WNext =>
    match choice with
    | O => match out s with
           | Some f => Some (apply_upd s (with_out (upd_w (WGot f)) None) (threads s) (next_tid s))
           | None => None
           end
    | _ => if recv_closed s then Some (apply_upd s (upd_w WCancel) (threads s) (next_tid s)) else None
    end
  | WGot f =>      (* getOrCreateHandler, pending slot (C08), asyncWG.Add(1), go func *)
    Some (apply_upd s (upd_w WNext) (updt (threads s) (next_tid s) (new_thread (KAsync f) false)) (S (next_tid s)))
  | WCancel => Some (apply_upd s (upd_w_ctx WCloseDone) (threads s) (next_tid s))
  | WCloseDone => Some (apply_upd s (upd_w_done WEnd) (threads s) (next_tid s))
  | WEnd => None
  end.

Definition cleaner_step (s : st) (choice : nat) : option st :=
  match ic_pc s with
  | ICWait =>
    match choice with
    | O => Some (apply_upd s (upd_ic ICWork) (threads s) (next_tid s))          (* timer fired *)
    | _ => if closing (co s) then Some (apply_upd s (upd_ic ICEnd) (threads s) (next_tid s)) else None
    end
  | ICWork => Some (apply_upd s (upd_ic ICWait) (threads s) (next_tid s))
  | ICEnd => None
  end.

Definition core_label_ok (fx : bool) (lb : clabel) : bool :=
  match lb with
  | LSend _ | LCloseIn | LClosing => false
  | LAddClosed _ => fx
  | _ => true
  end.

(* Close has returned to at least one caller / the Once is done *)
Definition close_returned (s : st) : bool := match once s with ODone => true | _ => false end.

Definition stepf (fx : bool) (s : st) (l : label) : option st :=
  match l with
  | Spawn k =>
    if is_async k then None else
    Some (apply_upd s u0 (updt (threads s) (next_tid s) (new_thread k (close_returned s))) (S (next_tid s)))
  | Step t choice => match threads s t with Some th => step_thread fx s t th choice | None => None end
  | Watcher c => watcher_step s c
  | Cleaner c => cleaner_step s c
  | Core lb =>
    if core_label_ok fx lb then
      match cstep (co s) lb with
      | Some c => Some (apply_upd s (with_co u0 c) (threads s) (next_tid s))
      | None => None
      end
    else None
  end.

Definition init (recv : bool) (cap : nat) : st :=
  {| co := cinit; once := ONot; exp_mu := None; exp_closed := false; has_recv := recv; recv_closed := false;
     out := None; w_pc := WNext; ctx_cancelled := false; watch_done := false; sem_cap := cap; sem_used := 0;
     ic_pc := ICWait; stage := 0; threads := fun _ => None; next_tid := 0 |}.

Definition reach (fx recv : bool) (cap : nat) (s : st) : Prop := reachable (stepf fx) (init recv cap) s.

(* ---- what must stop once Close has returned ---- *)

Definition is_some_ev (o : option event) : bool := match o with Some _ => true | None => false end.

(* a block-hook call and store write, a notification put on inEvents, or the distributor
   taking / handing a notification to a listener *)
Definition activity (s : st) (l : label) : bool :=
  match l with
  | Step t choice =>
    match threads s t with
    | Some th =>
      match t_pc th with
      | EBody (S _) | ABody (S _) => Nat.eqb choice 0
      | ESend | ASend | ASendErr => true
      | _ => false
      end
    | None => false
    end
  | Core LDist =>
    match d_pc (co s) with
    | DFwd _ (_ :: _) => true
    | DSelect => is_some_ev (in_ev (co s))
    | _ => false
    end
  | _ => false
  end.


(* ------------------------------------------------------------------ *)
(* Acceptor for observed sequential API histories (harness/cmd/c15): each call runs to
   completion before the next.  Before the first Close calls succeed; afterwards they are
   refused as late_calls_refused / registration_returns_when_closing say (fx = true):
   SyncAdChain "shutdown", Announce ErrClosed, OnSyncFinished an already closed channel,
   the cancel func and Close return nil. *)
Inductive call := CallClose | CallSync | CallAnnounce | CallListen | CallCancel.
Inductive outcome := ONil | OOk | OShutdown | OErrClosed | OOpenChan | OClosedChan | OBlocked | OOther.

Definition outcome_eqb (a b : outcome) : bool :=
  match a, b with
  | ONil, ONil | OOk, OOk | OShutdown, OShutdown | OErrClosed, OErrClosed | OOpenChan, OOpenChan
  | OClosedChan, OClosedChan | OBlocked, OBlocked | OOther, OOther => true
  | _, _ => false
  end.

Definition expected_outcome (closed : bool) (c : call) : outcome :=
  match c with
  | CallClose => ONil
  | CallSync => if closed then OShutdown else OOk
  | CallAnnounce => if closed then OErrClosed else ONil
  | CallListen => if closed then OClosedChan else OOpenChan
  | CallCancel => ONil
  end.

Fixpoint seq_ok (closed : bool) (h : list (call * outcome)) : bool :=
  match h with
  | [] => true
  | (c, o) :: r =>
    outcome_eqb o (expected_outcome closed c) &&
    seq_ok (closed || match c with CallClose => true | _ => false end) r
  end.

Definition seq_case_ok (h : list (call * outcome)) : bool := seq_ok false h.

(* ------------------------------------------------------------------ *)
(* The skeletons this model (fx = true) was written against            *)
Open Scope string_scope.

Definition expected_Close : skel :=
  [SFunc [SCall "doClose"]; SOnce "s.closeOnce" [SCall "doClose"]; SReturn].

Definition expected_doClose : skel :=
  [SClose "s.closing"; SCall "verifYield";
   SLock "s.expSyncMutex"; SUnlock "s.expSyncMutex"; SCall "verifYield";
   SWgWait "s.expSyncWG"; SCall "verifYield";
   SIf "" [SCall "Close"; SRecv "s.watchDone"] []; SCall "verifYield";
   SWgWait "s.asyncWG"; SCall "verifYield";
   SClose "s.inEvents"; SCall "verifYield";
   SRecv "s.distDone";
   SCall "Close";
   SReturn].

Definition expected_idleHandlerCleaner : skel :=
  [SFor [SSelect false [[SRecv "t.C"; SLock "s.handlersMutex"; SUnlock "s.handlersMutex"];
                        [SRecv "s.closing"; SReturn]]]].

Definition expected_Announce : skel := [SIf "" [SReturn] []; SReturn].

(* the explicit-sync gate: first five synchronisation operations of SyncAdChain / syncEntries *)
Definition expected_gate : skel :=
  [SLock "s.expSyncMutex";
   SIf "" [SUnlock "s.expSyncMutex"] [];
   SWgAdd "s.expSyncWG";
   SUnlock "s.expSyncMutex";
   SDefer [SWgDone "s.expSyncWG"]].

Definition gate_of (gen : list (string * skel)) (n : string) : bool :=
  skel_eqb (firstn 5 (proj keep_calls (lookup_or_nil n gen))) expected_gate.

Definition tie_ok15 (gen : list (string * skel)) : bool :=
  full_of gen "Subscriber.Close" expected_Close &&
  full_of gen "Subscriber.doClose" expected_doClose &&
  full_of gen "Subscriber.OnSyncFinished" expected_OnSyncFinished &&
  full_of gen "Subscriber.distributeEvents" expected_distributeEvents_signalling &&
  full_of gen "Subscriber.idleHandlerCleaner" expected_idleHandlerCleaner &&
  full_of gen "Subscriber.Announce" expected_Announce &&
  proj_of gen "Subscriber.watch" expected_watch &&
  gate_of gen "Subscriber.SyncAdChain" && gate_of gen "Subscriber.syncEntries" &&
  full_of gen "handler.sendSyncFinishedEvent" expected_sendSyncFinishedEvent &&
  full_of gen "handler.asyncSyncFailed" expected_asyncSyncFailed.
