(* dagsync.Subscriber shutdown as a transition system (dagsync/subscriber.go: Close, doClose,
   the explicit-sync gate of SyncAdChain / syncEntries, watch and the goroutines it starts,
   Announce, OnSyncFinished and its cancel func, distributeEvents, idleHandlerCleaner).

   Any number of goroutines calling Close, SyncAdChain/SyncEntries, Announce; the watcher, the
   goroutines it starts, the idle-handler cleaner and the event distributor with its
   listeners (the delivery core of model/C14_Events.v).  A schedule is an arbitrary label
   sequence, so `reach` covers every point of a sync at which Close can start, every number
   of concurrent Close callers and every order relative to the other calls.

   fx = false: the code as found.
   fx = true : with the repairs: OnSyncFinished gives up when s.closing is closed (91425bb),
               doClose waits for distributeEvents to return (c96087d) and for
               idleHandlerCleaner to return (pending/C15-fix-close-waits-for-cleaner).

   A sync is a finite number of transport steps (one block each: block hook + store write)
   fixed when it is started; theorems hold for every such number.  The per-publisher locks
   (asyncMutex, syncMutex: C08, C14) are abstracted: they are ordered asyncMutex < semaphore <
   syncMutex, every critical section is finite, so they delay but never block. *)
From Coq Require Import List NArith Bool Arith.
From Lib Require Import SyncSkel LTS.
From Model Require Import C14_Events.
Import ListNotations.
Local Close Scope string_scope.
Local Open Scope list_scope.
Local Open Scope nat_scope.

Inductive result := RNil | ROk | RFail | RShutdown | RErrClosed.

Inductive kind :=
| KClose
| KExp (fuel : nat) (upd : bool)    (* SyncAdChain (upd: an event is owed on success) / SyncEntries *)
| KAnn (fuel : nat)                 (* Announce; the sync it triggers has `fuel` transport steps *)
| KAsync (fuel : nat).              (* goroutine started by watch *)

Inductive pc :=
(* Close / doClose *)
| COnce                (* closeOnce.Do *)
| CClosing             (* close(s.closing) *)
| CLock | CSet | CUnlock        (* expSyncMutex.Lock(); expSyncClosed = true; Unlock() *)
| CWaitExp             (* expSyncWG.Wait() *)
| CRecvClose           (* receiver.Close() *)
| CWaitWatch           (* <-s.watchDone *)
| CWaitAsync           (* asyncWG.Wait() *)
| CCloseIn             (* close(s.inEvents) *)
| CWaitDist            (* fx: <-s.distDone *)
| CWaitIC              (* fx: <-s.cleanerDone *)
| CPeerstore           (* httpPeerstore.Close() *)
| COnceDone            (* Once.Do returns: the Once is done *)
(* SyncAdChain / syncEntries *)
| ELock | ECheck | EAdd | EUnlock | ERefuse
| EBody (left : nat)   (* getOrCreateHandler .. handle: `left` blocks still to fetch *)
| ESetLatest | ESend | EDone
(* Announce -> Receiver.Direct *)
| NCheck | NPut
(* goroutine started by watch *)
| ASem                 (* select { syncSem <- ; <-ctx.Done() } *)
| ACtx                 (* asyncSyncAdChain: if ctx.Err() != nil return *)
| ABody (left : nat)
| ASetLatest | ASend | ASendErr
| AWgDone              (* asyncWG.Done() *)
| ASemRel              (* deferred <-s.syncSem *)
| Fin (r : result).

Record thread := {
  t_kind : kind;
  t_pc : pc;
  t_sem : bool;        (* holds a slot of syncSem *)
  t_blocks : nat;      (* ghost: blocks fetched so far *)
  t_late : bool        (* ghost: the call started after Close had returned *)
}.

Inductive once_st := ONot | ORunning (runner : nat) | ODone.
Inductive wpc := WNext | WGot (fuel : nat) | WCancel | WCloseDone | WEnd.
Inductive icpc := ICWait | ICWork | ICEnd.

Record st := {
  co : core;                 (* inEvents, s.closing, distributor, listeners: model/C14_Events.v *)
  once : once_st;
  exp_mu : option nat;       (* expSyncMutex holder *)
  exp_closed : bool;
  has_recv : bool;           (* created with RecvAnnounce *)
  recv_closed : bool;        (* receiver closed: r.done closed *)
  out : option nat;          (* receiver's outChan (capacity 1): fuel of the announced sync *)
  w_pc : wpc;                (* watch goroutine *)
  ctx_cancelled : bool;      (* watch's deferred cancel() has run *)
  watch_done : bool;
  sem_cap : nat;             (* 0 = no semaphore *)
  sem_used : nat;
  ic_pc : icpc;              (* idleHandlerCleaner *)
  stage : nat;               (* ghost: progress of doClose, 0 (not started) .. 13 (Once done) *)
  threads : nat -> option thread;
  next_tid : nat
}.

Inductive label :=
| Spawn (k : kind)                 (* an API call starts (KClose, KExp, KAnn) *)
| Step (t : nat) (choice : nat)
| Watcher (choice : nat)
| Cleaner (choice : nat)
| Core (lb : clabel).              (* listeners, readers, the distributor *)

Definition updt (f : nat -> option thread) (t : nat) (x : thread) : nat -> option thread :=
  fun y => if Nat.eqb y t then Some x else f y.

Definition set_pc (th : thread) (p : pc) : thread :=
  {| t_kind := t_kind th; t_pc := p; t_sem := t_sem th; t_blocks := t_blocks th; t_late := t_late th |}.
Definition set_pc_sem (th : thread) (p : pc) (b : bool) : thread :=
  {| t_kind := t_kind th; t_pc := p; t_sem := b; t_blocks := t_blocks th; t_late := t_late th |}.
Definition set_block (th : thread) (p : pc) : thread :=
  {| t_kind := t_kind th; t_pc := p; t_sem := t_sem th; t_blocks := S (t_blocks th); t_late := t_late th |}.

(* one generic updater keeps the step function readable *)
Record upd := {
  u_co : option core; u_once : option once_st; u_exp_mu : option (option nat); u_exp_closed : option bool;
  u_recv_closed : option bool; u_out : option (option nat); u_w_pc : option wpc; u_ctx : option bool;
  u_watch_done : option bool; u_sem_used : option nat; u_ic : option icpc; u_stage : option nat
}.
Definition u0 : upd :=
  {| u_co := None; u_once := None; u_exp_mu := None; u_exp_closed := None; u_recv_closed := None; u_out := None;
     u_w_pc := None; u_ctx := None; u_watch_done := None; u_sem_used := None; u_ic := None; u_stage := None |}.
Definition ov {A} (o : option A) (d : A) : A := match o with Some x => x | None => d end.

Definition apply_upd (s : st) (u : upd) (f : nat -> option thread) (n : nat) : st :=
  {| co := ov (u_co u) (co s); once := ov (u_once u) (once s); exp_mu := ov (u_exp_mu u) (exp_mu s);
     exp_closed := ov (u_exp_closed u) (exp_closed s); has_recv := has_recv s;
     recv_closed := ov (u_recv_closed u) (recv_closed s); out := ov (u_out u) (out s);
     w_pc := ov (u_w_pc u) (w_pc s); ctx_cancelled := ov (u_ctx u) (ctx_cancelled s);
     watch_done := ov (u_watch_done u) (watch_done s); sem_cap := sem_cap s;
     sem_used := ov (u_sem_used u) (sem_used s); ic_pc := ov (u_ic u) (ic_pc s);
     stage := ov (u_stage u) (stage s); threads := f; next_tid := n |}.

(* thread t moves to pc p, the rest of the state changes by u *)
Definition go (s : st) (t : nat) (th : thread) (p : pc) (u : upd) : option st :=
  Some (apply_upd s u (updt (threads s) t (set_pc th p)) (next_tid s)).
Definition go_th (s : st) (t : nat) (th' : thread) (u : upd) : option st :=
  Some (apply_upd s u (updt (threads s) t th') (next_tid s)).

Definition w_stage (n : nat) : upd :=
  {| u_co := None; u_once := None; u_exp_mu := None; u_exp_closed := None; u_recv_closed := None; u_out := None;
     u_w_pc := None; u_ctx := None; u_watch_done := None; u_sem_used := None; u_ic := None; u_stage := Some n |}.
Definition with_co (u : upd) c : upd :=
  {| u_co := Some c; u_once := u_once u; u_exp_mu := u_exp_mu u; u_exp_closed := u_exp_closed u;
     u_recv_closed := u_recv_closed u; u_out := u_out u; u_w_pc := u_w_pc u; u_ctx := u_ctx u;
     u_watch_done := u_watch_done u; u_sem_used := u_sem_used u; u_ic := u_ic u; u_stage := u_stage u |}.
Definition with_once (u : upd) o : upd :=
  {| u_co := u_co u; u_once := Some o; u_exp_mu := u_exp_mu u; u_exp_closed := u_exp_closed u;
     u_recv_closed := u_recv_closed u; u_out := u_out u; u_w_pc := u_w_pc u; u_ctx := u_ctx u;
     u_watch_done := u_watch_done u; u_sem_used := u_sem_used u; u_ic := u_ic u; u_stage := u_stage u |}.
Definition with_mu (u : upd) m : upd :=
  {| u_co := u_co u; u_once := u_once u; u_exp_mu := Some m; u_exp_closed := u_exp_closed u;
     u_recv_closed := u_recv_closed u; u_out := u_out u; u_w_pc := u_w_pc u; u_ctx := u_ctx u;
     u_watch_done := u_watch_done u; u_sem_used := u_sem_used u; u_ic := u_ic u; u_stage := u_stage u |}.
Definition with_exp_closed (u : upd) : upd :=
  {| u_co := u_co u; u_once := u_once u; u_exp_mu := u_exp_mu u; u_exp_closed := Some true;
     u_recv_closed := u_recv_closed u; u_out := u_out u; u_w_pc := u_w_pc u; u_ctx := u_ctx u;
     u_watch_done := u_watch_done u; u_sem_used := u_sem_used u; u_ic := u_ic u; u_stage := u_stage u |}.
Definition with_recv_closed (u : upd) : upd :=
  {| u_co := u_co u; u_once := u_once u; u_exp_mu := u_exp_mu u; u_exp_closed := u_exp_closed u;
     u_recv_closed := Some true; u_out := u_out u; u_w_pc := u_w_pc u; u_ctx := u_ctx u;
     u_watch_done := u_watch_done u; u_sem_used := u_sem_used u; u_ic := u_ic u; u_stage := u_stage u |}.
Definition with_out (u : upd) o : upd :=
  {| u_co := u_co u; u_once := u_once u; u_exp_mu := u_exp_mu u; u_exp_closed := u_exp_closed u;
     u_recv_closed := u_recv_closed u; u_out := Some o; u_w_pc := u_w_pc u; u_ctx := u_ctx u;
     u_watch_done := u_watch_done u; u_sem_used := u_sem_used u; u_ic := u_ic u; u_stage := u_stage u |}.
Definition with_sem (u : upd) n : upd :=
  {| u_co := u_co u; u_once := u_once u; u_exp_mu := u_exp_mu u; u_exp_closed := u_exp_closed u;
     u_recv_closed := u_recv_closed u; u_out := u_out u; u_w_pc := u_w_pc u; u_ctx := u_ctx u;
     u_watch_done := u_watch_done u; u_sem_used := Some n; u_ic := u_ic u; u_stage := u_stage u |}.

Definition is_exp (k : kind) : bool := match k with KExp _ _ => true | _ => false end.
Definition is_async (k : kind) : bool := match k with KAsync _ => true | _ => false end.
Definition is_close (k : kind) : bool := match k with KClose => true | _ => false end.

(* between expSyncWG.Add(1) and Done() *)
Definition exp_active (th : thread) : bool :=
  match t_pc th with EUnlock | EBody _ | ESetLatest | ESend | EDone => true | _ => false end.
(* between asyncWG.Add(1) (done by watch before `go`) and Done() *)
Definition async_active (th : thread) : bool :=
  match t_pc th with ASem | ACtx | ABody _ | ASetLatest | ASend | ASendErr | AWgDone => true | _ => false end.

Definition none_active (s : st) (f : thread -> bool) : bool :=
  forallb (fun t => match threads s t with Some th => negb (f th) | None => true end) (seq 0 (next_tid s)).

Definition dummy_event (t : nat) (err : bool) : event :=
  {| e_sid := t; e_async := false; e_pub := 0%N; e_cid := 0%N; e_cnt := 0%N; e_err := err |}.

Definition first_pc (k : kind) : pc :=
  match k with KClose => COnce | KExp _ _ => ELock | KAnn _ => NCheck | KAsync _ => ASem end.

Definition k_fuel (k : kind) : nat := match k with KExp f _ => f | KAnn f => f | KAsync f => f | KClose => 0 end.
Definition k_upd (k : kind) : bool := match k with KExp _ u => u | KAsync _ => true | _ => false end.

Definition step_thread (fx : bool) (s : st) (t : nat) (th : thread) (choice : nat) : option st :=
  match t_pc th with
  (* ---- Close ---- *)
  | COnce =>
    match once s with
    | ONot => go s t th CClosing (with_once (w_stage 1) (ORunning t))
    | ORunning _ => None                          (* a later caller waits inside Once.Do *)
    | ODone => go s t th (Fin RNil) u0
    end
  | CClosing =>
    match cstep (co s) LClosing with Some c => go s t th CLock (with_co (w_stage 2) c) | None => None end
  | CLock => match exp_mu s with None => go s t th CSet (with_mu (w_stage 3) (Some t)) | Some _ => None end
  | CSet => go s t th CUnlock (with_exp_closed (w_stage 4))
  | CUnlock => go s t th CWaitExp (with_mu (w_stage 5) None)
  | CWaitExp =>
    if none_active s exp_active
    then (if has_recv s then go s t th CRecvClose (w_stage 6) else go s t th CWaitAsync (w_stage 8))
    else None
  | CRecvClose => go s t th CWaitWatch (with_recv_closed (w_stage 7))
  | CWaitWatch => if watch_done s then go s t th CWaitAsync (w_stage 8) else None
  | CWaitAsync => if none_active s async_active then go s t th CCloseIn (w_stage 9) else None
  | CCloseIn =>
    match cstep (co s) LCloseIn with
    | Some c => if fx then go s t th CWaitDist (with_co (w_stage 10) c) else go s t th CPeerstore (with_co (w_stage 12) c)
    | None => None
    end
  | CWaitDist => match d_pc (co s) with DDone => go s t th CWaitIC (w_stage 11) | _ => None end
  | CWaitIC => match ic_pc s with ICEnd => go s t th CPeerstore (w_stage 12) | _ => None end
  | CPeerstore => go s t th COnceDone (w_stage 12)
  | COnceDone => go s t th (Fin RNil) (with_once (w_stage 13) ODone)
  (* ---- explicit sync ---- *)
  | ELock => match exp_mu s with None => go s t th ECheck (with_mu u0 (Some t)) | Some _ => None end
  | ECheck => if exp_closed s then go s t th ERefuse u0 else go s t th EAdd u0
  | ERefuse => go s t th (Fin RShutdown) (with_mu u0 None)
  | EAdd => go s t th EUnlock u0
  | EUnlock => go s t th (EBody (k_fuel (t_kind th))) (with_mu u0 None)
  | EBody (S n) =>
    match choice with
    | O => go_th s t (set_block th (EBody n)) u0            (* one block: hook call + store write *)
    | _ => go s t th EDone u0                               (* the sync fails / the caller's context ends *)
    end
  | EBody O => if k_upd (t_kind th) then go s t th ESetLatest u0 else go s t th EDone u0
  | ESetLatest => go s t th ESend u0
  | ESend =>
    match cstep (co s) (LSend (dummy_event t false)) with Some c => go s t th EDone (with_co u0 c) | None => None end
  | EDone => go s t th (Fin ROk) u0
  (* ---- Announce ---- *)
  | NCheck =>
    if has_recv s then (if recv_closed s then go s t th (Fin RErrClosed) u0 else go s t th NPut u0)
    else go s t th (Fin RNil) u0
  | NPut =>
    match choice with
    | O => match out s with None => go s t th (Fin RNil) (with_out u0 (Some (k_fuel (t_kind th)))) | Some _ => None end
    | _ => if recv_closed s then go s t th (Fin RErrClosed) u0 else None
    end
  (* ---- goroutine started by watch ---- *)
  | ASem =>
    match sem_cap s with
    | O => go s t th ACtx u0
    | _ =>
      match choice with
      | O => if sem_used s <? sem_cap s
             then go_th s t (set_pc_sem th ACtx true) (with_sem u0 (S (sem_used s))) else None
      | _ => if ctx_cancelled s then go s t th ACtx u0 else None
      end
    end
  | ACtx => if ctx_cancelled s then go s t th AWgDone u0 else go s t th (ABody (k_fuel (t_kind th))) u0
  | ABody (S n) =>
    match choice with
    | O => go_th s t (set_block th (ABody n)) u0
    | _ => go s t th ASendErr u0                            (* transport error, or the cancelled context *)
    end
  | ABody O => go s t th ASetLatest u0
  | ASetLatest => go s t th ASend u0
  | ASend =>
    match cstep (co s) (LSend (dummy_event t false)) with Some c => go s t th AWgDone (with_co u0 c) | None => None end
  | ASendErr =>
    match cstep (co s) (LSend (dummy_event t true)) with Some c => go s t th AWgDone (with_co u0 c) | None => None end
  | AWgDone => go s t th ASemRel u0
  | ASemRel =>
    if t_sem th then go_th s t (set_pc_sem th (Fin RNil) false) (with_sem u0 (pred (sem_used s)))
    else go s t th (Fin RNil) u0
  | Fin _ => None
  end.

Definition new_thread (k : kind) (late : bool) : thread :=
  {| t_kind := k; t_pc := first_pc k; t_sem := false; t_blocks := 0; t_late := late |}.

Definition upd_w (p : wpc) : upd :=
  {| u_co := None; u_once := None; u_exp_mu := None; u_exp_closed := None; u_recv_closed := None; u_out := None;
     u_w_pc := Some p; u_ctx := None; u_watch_done := None; u_sem_used := None; u_ic := None; u_stage := None |}.
Definition upd_w_ctx (p : wpc) : upd :=
  {| u_co := None; u_once := None; u_exp_mu := None; u_exp_closed := None; u_recv_closed := None; u_out := None;
     u_w_pc := Some p; u_ctx := Some true; u_watch_done := None; u_sem_used := None; u_ic := None; u_stage := None |}.
Definition upd_w_done (p : wpc) : upd :=
  {| u_co := None; u_once := None; u_exp_mu := None; u_exp_closed := None; u_recv_closed := None; u_out := None;
     u_w_pc := Some p; u_ctx := None; u_watch_done := Some true; u_sem_used := None; u_ic := None; u_stage := None |}.
Definition upd_ic (p : icpc) : upd :=
  {| u_co := None; u_once := None; u_exp_mu := None; u_exp_closed := None; u_recv_closed := None; u_out := None;
     u_w_pc := None; u_ctx := None; u_watch_done := None; u_sem_used := None; u_ic := Some p; u_stage := None |}.

Definition watcher_step (s : st) (choice : nat) : option st :=
  if negb (has_recv s) then None else
  match w_pc s with
  | WNext =>
    match choice with
    | O => match out s with
           | Some f => Some (apply_upd s (with_out (upd_w (WGot f)) None) (threads s) (next_tid s))
           | None => None
           end
    | _ => if recv_closed s then Some (apply_upd s (upd_w WCancel) (threads s) (next_tid s)) else None
    end
  | WGot f =>      (* getOrCreateHandler, pending slot (C08), asyncWG.Add(1), go func *)
    Some (apply_upd s (upd_w WNext) (updt (threads s) (next_tid s) (new_thread (KAsync f) false)) (S (next_tid s)))
  | WCancel => Some (apply_upd s (upd_w_ctx WCloseDone) (threads s) (next_tid s))
  | WCloseDone => Some (apply_upd s (upd_w_done WEnd) (threads s) (next_tid s))
  | WEnd => None
  end.

Definition cleaner_step (s : st) (choice : nat) : option st :=
  match ic_pc s with
  | ICWait =>
    match choice with
    | O => Some (apply_upd s (upd_ic ICWork) (threads s) (next_tid s))          (* timer fired *)
    | _ => if closing (co s) then Some (apply_upd s (upd_ic ICEnd) (threads s) (next_tid s)) else None
    end
  | ICWork => Some (apply_upd s (upd_ic ICWait) (threads s) (next_tid s))
  | ICEnd => None
  end.

Definition core_label_ok (fx : bool) (lb : clabel) : bool :=
  match lb with
  | LSend _ | LCloseIn | LClosing => false
  | LAddClosed _ => fx
  | _ => true
  end.

(* Close has returned to at least one caller / the Once is done *)
Definition close_returned (s : st) : bool := match once s with ODone => true | _ => false end.

Definition stepf (fx : bool) (s : st) (l : label) : option st :=
  match l with
  | Spawn k =>
    if is_async k then None else
    Some (apply_upd s u0 (updt (threads s) (next_tid s) (new_thread k (close_returned s))) (S (next_tid s)))
  | Step t choice => match threads s t with Some th => step_thread fx s t th choice | None => None end
  | Watcher c => watcher_step s c
  | Cleaner c => cleaner_step s c
  | Core lb =>
    if core_label_ok fx lb then
      match cstep (co s) lb with
      | Some c => Some (apply_upd s (with_co u0 c) (threads s) (next_tid s))
      | None => None
      end
    else None
  end.

Definition init (recv : bool) (cap : nat) : st :=
  {| co := cinit; once := ONot; exp_mu := None; exp_closed := false; has_recv := recv; recv_closed := false;
     out := None; w_pc := WNext; ctx_cancelled := false; watch_done := false; sem_cap := cap; sem_used := 0;
     ic_pc := ICWait; stage := 0; threads := fun _ => None; next_tid := 0 |}.

Definition reach (fx recv : bool) (cap : nat) (s : st) : Prop := reachable (stepf fx) (init recv cap) s.

(* ---- what must stop once Close has returned ---- *)

Definition is_some_ev (o : option event) : bool := match o with Some _ => true | None => false end.

(* a block-hook call and store write, a notification put on inEvents, or the distributor
   taking / handing a notification to a listener *)
Definition activity (s : st) (l : label) : bool :=
  match l with
  | Step t choice =>
    match threads s t with
    | Some th =>
      match t_pc th with
      | EBody (S _) | ABody (S _) => Nat.eqb choice 0
      | ESend | ASend | ASendErr => true
      | _ => false
      end
    | None => false
    end
  | Core LDist =>
    match d_pc (co s) with
    | DFwd _ (_ :: _) => true
    | DSelect => is_some_ev (in_ev (co s))
    | _ => false
    end
  | _ => false
  end.


(* ------------------------------------------------------------------ *)
(* Acceptor for observed sequential API histories (harness/cmd/c15): each call runs to
   completion before the next.  Before the first Close calls succeed; afterwards they are
   refused as late_calls_refused / registration_returns_when_closing say (fx = true):
   SyncAdChain "shutdown", Announce ErrClosed, OnSyncFinished an already closed channel,
   the cancel func and Close return nil. *)
Inductive call := CallClose | CallSync | CallAnnounce | CallListen | CallCancel.
Inductive outcome := ONil | OOk | OShutdown | OErrClosed | OOpenChan | OClosedChan | OBlocked | OOther.

Definition outcome_eqb (a b : outcome) : bool :=
  match a, b with
  | ONil, ONil | OOk, OOk | OShutdown, OShutdown | OErrClosed, OErrClosed | OOpenChan, OOpenChan
  | OClosedChan, OClosedChan | OBlocked, OBlocked | OOther, OOther => true
  | _, _ => false
  end.

Definition expected_outcome (closed : bool) (c : call) : outcome :=
  match c with
  | CallClose => ONil
  | CallSync => if closed then OShutdown else OOk
  | CallAnnounce => if closed then OErrClosed else ONil
  | CallListen => if closed then OClosedChan else OOpenChan
  | CallCancel => ONil
  end.

Fixpoint seq_ok (closed : bool) (h : list (call * outcome)) : bool :=
  match h with
  | [] => true
  | (c, o) :: r =>
    outcome_eqb o (expected_outcome closed c) &&
    seq_ok (closed || match c with CallClose => true | _ => false end) r
  end.

Definition seq_case_ok (h : list (call * outcome)) : bool := seq_ok false h.

(* The same for a subscriber created without an announcement receiver: Announce has nothing
   to queue on and returns nil before and after Close (step NCheck with has_recv = false). *)
Definition expected_outcome_norecv (closed : bool) (c : call) : outcome :=
  match c with
  | CallAnnounce => ONil
  | _ => expected_outcome closed c
  end.

Fixpoint seq_ok_norecv (closed : bool) (h : list (call * outcome)) : bool :=
  match h with
  | [] => true
  | (c, o) :: r =>
    outcome_eqb o (expected_outcome_norecv closed c) &&
    seq_ok_norecv (closed || match c with CallClose => true | _ => false end) r
  end.

Definition seq_case_ok_norecv (h : list (call * outcome)) : bool := seq_ok_norecv false h.

(* ------------------------------------------------------------------ *)
(* Trace acceptor: replays an observed run on the transition system (stepf true).

   The harness records, in real-time order, every passage of a verif yield point together
   with the goroutine that made it, and the start / return of every API call.  A yield point
   lies between two operations of the code, so for every model step we say which points the
   goroutine passes BEFORE the step's operation (pre) and which it passes AFTER it and before
   its next operation (post).  Replay: an observed passage must be the next owed post point
   or the next pre point of the actor's pending step; if the actor has neither, it takes
   model steps (each must be enabled in the model) until the passage is explained.  An
   operation is thus replayed no earlier than the model needs it; when a step is not enabled,
   other actors whose next step needs no further passage are advanced first (operations
   that really happened but have not been observed yet), and if that does not help the
   trace is rejected.  The trace is accepted iff every entry is explained and the final
   observables (call results, blocks fetched, notifications forwarded, everything ended)
   are those of the model. *)

Inductive yp :=
| YCloseClosing | YCloseExpBlocked | YCloseExpWaited | YCloseRecvClosed | YCloseAsyncWaited | YCloseInClosed
| YListenAdding | YListenCancelling | YSyncStopRead | YSyncHandled | YDistForward | YDistAdded | YDistRemoved
| YWatchNext | YWatchSwapped | YAsyncStart | YAsyncLocked | YAsyncSem | YAsyncTaken | YLatestRead | YAsyncHandled
| YLatestSet | YEventSent | YHandleLocked | YHandleUnlocking.

Definition yp_code (p : yp) : nat :=
  match p with
  | YCloseClosing => 0 | YCloseExpBlocked => 1 | YCloseExpWaited => 2 | YCloseRecvClosed => 3 | YCloseAsyncWaited => 4
  | YCloseInClosed => 5 | YListenAdding => 6 | YListenCancelling => 7 | YSyncStopRead => 8 | YSyncHandled => 9
  | YDistForward => 10 | YDistAdded => 11 | YDistRemoved => 12 | YWatchNext => 13 | YWatchSwapped => 14
  | YAsyncStart => 15 | YAsyncLocked => 16 | YAsyncSem => 17 | YAsyncTaken => 18 | YLatestRead => 19
  | YAsyncHandled => 20 | YLatestSet => 21 | YEventSent => 22 | YHandleLocked => 23 | YHandleUnlocking => 24
  end.
Definition yp_eqb (a b : yp) : bool := Nat.eqb (yp_code a) (yp_code b).

Inductive actor := AThread (key : nat) | AWatch | ADist | AReg (key : nat).
Definition actor_eqb (a b : actor) : bool :=
  match a, b with
  | AThread x, AThread y | AReg x, AReg y => Nat.eqb x y
  | AWatch, AWatch | ADist, ADist => true
  | _, _ => false
  end.

Inductive obs :=
| OCall (key : nat) (k : kind) (admitted : bool) (fails : option nat)
      (* an API call starts; admitted: a sync that got through the gate; fails = Some b: its transport fails after b blocks *)
| OGo (key : nat) (aborted : bool) (fails : option nat)
      (* a goroutine started by watch is first seen; aborted: it returns at its ctx.Err() check *)
| OAt (a : actor) (p : yp)
| ORet (key : nat) (r : result)
| OListen (key : nat)
| OListenRet (key : nat) (closed : bool)
| OCancel (key : nat)
| OCancelRet (key : nat).

(* points passed before the operation of the step at this program point *)
Definition pre_thread (s : st) (th : thread) : list yp :=
  match t_pc th with
  | CLock => [YCloseClosing]
  | CWaitExp => [YCloseExpBlocked]
  | CRecvClose => [YCloseExpWaited]
  | CWaitAsync => if has_recv s then [YCloseRecvClosed] else [YCloseExpWaited; YCloseRecvClosed]
  | CCloseIn => [YCloseAsyncWaited]
  | CWaitDist => [YCloseInClosed]
  | EBody (S _) => if Nat.eqb (t_blocks th) 0 then [YSyncStopRead; YHandleLocked] else []
  | ESend => [YLatestSet]
  | ASem => [YAsyncStart; YAsyncLocked]
  | ACtx => [YAsyncSem]
  | ABody (S _) => if Nat.eqb (t_blocks th) 0 then [YAsyncTaken; YLatestRead; YHandleLocked] else []
  | ASend => [YLatestSet]
  | _ => []
  end.

(* points passed after the operation of this step *)
Definition post_thread (th : thread) (choice : nat) : list yp :=
  match t_pc th with
  | EBody (S n) => match choice with
                   | O => match n with O => [YHandleUnlocking; YSyncHandled] | _ => [] end
                   | _ => [YHandleUnlocking]
                   end
  | ABody (S n) => match choice with
                   | O => match n with O => [YHandleUnlocking; YAsyncHandled] | _ => [] end
                   | _ => [YHandleUnlocking; YAsyncHandled]
                   end
  | ESend | ASend => [YEventSent]
  | _ => []
  end.

Definition pre_watch (s : st) : list yp := match w_pc s with WGot _ => [YWatchNext; YWatchSwapped] | _ => [] end.

Record rs := {
  ms : st;
  pre_left : list (actor * list yp);   (* pre points of the actor's pending step not yet observed *)
  owed : list (actor * list yp);       (* post points not yet observed *)
  amap : list (nat * nat);             (* key -> thread id *)
  fresh_async : list nat;              (* thread ids of goroutines started by watch, not yet seen *)
  aborts : list nat;                   (* keys of goroutines that return at their ctx check *)
  failsat : list (nat * nat);          (* key -> number of blocks after which the sync fails *)
  lmap : list (nat * nat);             (* listener key -> listener id *)
  reg_pending : list nat;              (* OnSyncFinished calls whose registration is not done *)
  can_pending : list nat               (* cancel calls whose removal is not done *)
}.

Fixpoint alookup {A} (a : actor) (l : list (actor * A)) : option A :=
  match l with [] => None | (b, v) :: r => if actor_eqb a b then Some v else alookup a r end.
Fixpoint aset {A} (a : actor) (v : A) (l : list (actor * A)) : list (actor * A) :=
  match l with
  | [] => [(a, v)]
  | (b, w) :: r => if actor_eqb a b then (a, v) :: r else (b, w) :: aset a v r
  end.
Fixpoint nlookup (k : nat) (l : list (nat * nat)) : option nat :=
  match l with [] => None | (x, v) :: r => if Nat.eqb k x then Some v else nlookup k r end.
Fixpoint rlookup (t : nat) (l : list (nat * nat)) : option nat :=   (* thread id -> key *)
  match l with [] => None | (x, v) :: r => if Nat.eqb t v then Some x else rlookup t r end.
Definition nmem (k : nat) (l : list nat) : bool := existsb (Nat.eqb k) l.
Fixpoint nremove (k : nat) (l : list nat) : list nat :=
  match l with [] => [] | x :: r => if Nat.eqb k x then r else x :: nremove k r end.

Definition lst_of {A} (o : option (list A)) : list A := match o with Some l => l | None => [] end.
Definition idle (r : rs) (a : actor) : bool :=
  match lst_of (alookup a (pre_left r)), lst_of (alookup a (owed r)) with [], [] => true | _, _ => false end.

Definition with_ms (r : rs) (s : st) : rs :=
  {| ms := s; pre_left := pre_left r; owed := owed r; amap := amap r; fresh_async := fresh_async r;
     aborts := aborts r; failsat := failsat r; lmap := lmap r; reg_pending := reg_pending r; can_pending := can_pending r |}.
Definition with_pre (r : rs) (a : actor) (l : list yp) : rs :=
  {| ms := ms r; pre_left := aset a l (pre_left r); owed := owed r; amap := amap r; fresh_async := fresh_async r;
     aborts := aborts r; failsat := failsat r; lmap := lmap r; reg_pending := reg_pending r; can_pending := can_pending r |}.
Definition with_owed (r : rs) (a : actor) (l : list yp) : rs :=
  {| ms := ms r; pre_left := pre_left r; owed := aset a l (owed r); amap := amap r; fresh_async := fresh_async r;
     aborts := aborts r; failsat := failsat r; lmap := lmap r; reg_pending := reg_pending r; can_pending := can_pending r |}.

Definition fxr : bool := true.   (* the acceptor replays the repaired code *)

(* one model step of thread t (its actor must be idle); registers post / next pre *)
Definition thread_step (r : rs) (key t : nat) (c : nat) : option rs :=
  match threads (ms r) t with
  | Some th =>
    match stepf fxr (ms r) (Step t c) with
    | Some s' =>
      let r1 := with_owed (with_ms r s') (AThread key) (post_thread th c) in
      let pre' := match threads s' t with Some th' => pre_thread s' th' | None => [] end in
      Some (with_pre r1 (AThread key) pre')
    | None => None
    end
  | None => None
  end.

Definition watch_step (r : rs) (c : nat) : option rs :=
  match stepf fxr (ms r) (Watcher c) with
  | Some s' =>
    let r1 := with_pre (with_ms r s') AWatch (pre_watch s') in
    (* the spawn step creates a thread nobody has seen yet *)
    match w_pc (ms r) with
    | WGot _ => Some {| ms := ms r1; pre_left := pre_left r1; owed := owed r1; amap := amap r1;
                        fresh_async := fresh_async r1 ++ [next_tid (ms r)]; aborts := aborts r1; failsat := failsat r1; lmap := lmap r1;
                        reg_pending := reg_pending r1; can_pending := can_pending r1 |}
    | _ => Some r1
    end
  | None => None
  end.

Definition dist_step (r : rs) : option rs :=
  match stepf fxr (ms r) (Core LDist) with
  | Some s' =>
    let post := match d_pc (co (ms r)) with DSelect => match in_ev (co (ms r)) with Some _ => [YDistForward] | None => [] end | _ => [] end in
    Some (with_owed (with_ms r s') ADist post)
  | None => None
  end.

Definition cleaner_exit (r : rs) : option rs :=
  match stepf fxr (ms r) (Cleaner 1) with Some s' => Some (with_ms r s') | None => None end.

Definition set_fail (r : rs) (key : nat) (f : option nat) : rs :=
  match f with
  | Some b => {| ms := ms r; pre_left := pre_left r; owed := owed r; amap := amap r; fresh_async := fresh_async r;
                 aborts := aborts r; failsat := (key, b) :: failsat r; lmap := lmap r;
                 reg_pending := reg_pending r; can_pending := can_pending r |}
  | None => r
  end.

(* the choices of a thread, in the order to try them; at a block step the plan decides *)
Definition choices (r : rs) (key : nat) (th : thread) : list nat :=
  match t_pc th with
  | EBody (S _) | ABody (S _) =>
    match nlookup key (failsat r) with
    | Some b => if Nat.eqb b (t_blocks th) then [1] else [0]
    | None => [0]
    end
  | _ => [0; 1]
  end.

Fixpoint first_step (r : rs) (key t : nat) (cs : list nat) : option rs :=
  match cs with
  | [] => None
  | c :: rest => match thread_step r key t c with Some r' => Some r' | None => first_step r key t rest end
  end.
Definition any_step (r : rs) (key t : nat) : option rs :=
  match threads (ms r) t with Some th => first_step r key t (choices r key th) | None => None end.

(* may this thread be moved when it is not its own observation that asks for it? *)
(* lz: do not let a closer close the receiver.  When that happens between close:exp-waited and
   close:receiver-closed is not observed, and it decides what goroutines that have not yet made
   their ctx check do: a catch-up first tries without it, and only if the step it is needed for
   is still not enabled with it. *)
Definition catchup_ok (lz : bool) (r : rs) (key : nat) (th : thread) : bool :=
  match t_pc th with
  | COnce => match once (ms r) with ONot => false | _ => true end     (* who wins the Once is observed *)
  | CRecvClose => negb lz
  | ACtx => if nmem key (aborts r) then ctx_cancelled (ms r) else true
  | Fin _ => false
  | _ => true
  end.

(* advance every idle actor other than `me` by the steps it can take (choice 0, then 1) *)
Fixpoint catchup_threads (lz : bool) (r : rs) (me : actor) (ts : list nat) : rs * bool :=
  match ts with
  | [] => (r, false)
  | t :: rest =>
    let '(r1, moved1) :=
      match rlookup t (amap r), threads (ms r) t with
      | Some key, Some th =>
        if actor_eqb me (AThread key) || negb (idle r (AThread key)) || negb (catchup_ok lz r key th) then (r, false)
        else match any_step r key t with
             | Some r' => (r', true)
             | None => (r, false)
             end
      | _, _ => (r, false)
      end in
    let '(r2, moved2) := catchup_threads lz r1 me rest in
    (r2, moved1 || moved2)
  end.

Definition catchup_round (lz : bool) (r : rs) (me : actor) : rs * bool :=
  let '(r1, m1) :=
    if actor_eqb me AWatch || negb (idle r AWatch) then (r, false)
    else match watch_step r 0 with
         | Some r' => (r', true)
         | None => match watch_step r 1 with Some r' => (r', true) | None => (r, false) end
         end in
  let '(r2, m2) :=
    if actor_eqb me ADist || negb (idle r1 ADist) then (r1, false)
    else match dist_step r1 with Some r' => (r', true) | None => (r1, false) end in
  let '(r3, m3) := match cleaner_exit r2 with Some r' => (r', true) | None => (r2, false) end in
  let '(r4, m4) := catchup_threads lz r3 me (seq 0 (next_tid (ms r3))) in
  (r4, m1 || m2 || m3 || m4).

Fixpoint catchup_l (lz : bool) (fuel : nat) (r : rs) (me : actor) : rs :=
  match fuel with
  | O => r
  | S f => let '(r', moved) := catchup_round lz r me in if moved then catchup_l lz f r' me else r'
  end.
Definition catchup := catchup_l false.

(* catch up until `enabled` holds: lazily first, eagerly if that is not enough *)
Definition catchup_for (r : rs) (me : actor) (enabled : rs -> bool) : rs :=
  let r1 := catchup_l true 40 r me in
  if enabled r1 then r1 else catchup 40 r me.

(* consume passage p of actor a from what it owes *)
Definition consume (r : rs) (a : actor) (p : yp) : option rs :=
  match lst_of (alookup a (owed r)) with
  | q :: rest => if yp_eqb p q then Some (with_owed r a rest) else None
  | [] =>
    match lst_of (alookup a (pre_left r)) with
    | q :: rest => if yp_eqb p q then Some (with_pre r a rest) else None
    | [] => None
    end
  end.

(* explain passage p of thread (key, t): take steps until it can be consumed *)
Fixpoint explain_thread (fuel : nat) (r : rs) (key t : nat) (p : yp) : option rs :=
  match fuel with
  | O => None
  | S f =>
    if negb (idle r (AThread key)) then consume r (AThread key) p
    else
      match any_step r key t with
      | Some r' => explain_thread f r' key t p
      | None =>
        (* not enabled: let the others do what they must have done already *)
        let r' := catchup_for r (AThread key) (fun x => match any_step x key t with Some _ => true | None => false end) in
        match any_step r' key t with
        | None => None
        | Some _ => explain_thread f r' key t p
        end
      end
  end.

Fixpoint explain_watch (fuel : nat) (r : rs) (p : yp) : option rs :=
  match fuel with
  | O => None
  | S f =>
    if negb (idle r AWatch) then consume r AWatch p
    else match watch_step r 0 with
         | Some r' => explain_watch f r' p
         | None =>
           let r' := catchup_for r AWatch (fun x => match watch_step x 0 with Some _ => true | None => false end) in
           match watch_step r' 0 with Some r'' => explain_watch f r'' p | None => None end
         end
  end.

(* the distributor back in its select *)
Fixpoint dist_to_select (fuel : nat) (r : rs) : option rs :=
  match fuel with
  | O => None
  | S f =>
    match d_pc (co (ms r)) with
    | DSelect => Some r
    | DDone => None
    | _ => if idle r ADist then match dist_step r with Some r' => dist_to_select f r' | None => None end else None
    end
  end.

Definition core_do (r : rs) (lb : clabel) : option rs :=
  match stepf fxr (ms r) (Core lb) with Some s' => Some (with_ms r s') | None => None end.

Definition first_opt (l : list nat) : option nat := match l with x :: _ => Some x | [] => None end.

Fixpoint explain_dist (fuel : nat) (r : rs) (p : yp) : option rs :=
  match fuel with
  | O => None
  | S f =>
    if negb (idle r ADist) then consume r ADist p
    else match p with
         | YDistAdded =>
           (* the rendez-vous of the oldest registration whose listen:adding has been seen *)
           match first_opt (filter (fun k => idle r (AReg k)) (reg_pending r)), dist_to_select 60 r with
           | Some k, Some r1 =>
             match nlookup k (lmap r1) with
             | Some l => match core_do r1 (LAdd l) with
                         | Some r2 => Some {| ms := ms r2; pre_left := pre_left r2; owed := owed r2; amap := amap r2;
                                              fresh_async := fresh_async r2; aborts := aborts r2; failsat := failsat r2; lmap := lmap r2;
                                              reg_pending := nremove k (reg_pending r2); can_pending := can_pending r2 |}
                         | None => None
                         end
             | None => None
             end
           | _, _ => None
           end
         | YDistRemoved =>
           match first_opt (filter (fun k => idle r (AReg k)) (can_pending r)), dist_to_select 60 r with
           | Some k, Some r1 =>
             match nlookup k (lmap r1) with
             | Some l => match core_do r1 (LRm l) with
                         | Some r2 => Some {| ms := ms r2; pre_left := pre_left r2; owed := owed r2; amap := amap r2;
                                              fresh_async := fresh_async r2; aborts := aborts r2; failsat := failsat r2; lmap := lmap r2;
                                              reg_pending := reg_pending r2; can_pending := nremove k (can_pending r2) |}
                         | None => None
                         end
             | None => None
             end
           | _, _ => None
           end
         | _ =>
           match dist_step r with
           | Some r' => explain_dist f r' p
           | None =>
             let r' := catchup_for r ADist (fun x => match dist_step x with Some _ => true | None => false end) in
             match dist_step r' with Some r'' => explain_dist f r'' p | None => None end
           end
         end
  end.

(* run thread t to its end; every point it would pass must have been observed *)
Fixpoint finish_thread (fuel : nat) (r : rs) (key t : nat) : option (rs * result) :=
  match fuel with
  | O => None
  | S f =>
    match threads (ms r) t with
    | Some th =>
      match t_pc th with
      | Fin res => if idle r (AThread key) then Some (r, res) else None
      | _ =>
        if negb (idle r (AThread key)) then None
        else match any_step r key t with
             | Some r' => finish_thread f r' key t
             | None =>
               let r' := catchup_for r (AThread key) (fun x => match any_step x key t with Some _ => true | None => false end) in
               match any_step r' key t with
               | None => None
               | Some _ => finish_thread f r' key t
               end
             end
      end
    | None => None
    end
  end.

Definition result_eqb (a b : result) : bool :=
  match a, b with
  | RNil, RNil | ROk, ROk | RFail, RFail | RShutdown, RShutdown | RErrClosed, RErrClosed => true
  | _, _ => false
  end.

Fixpoint run_steps (r : rs) (key t : nat) (n : nat) : option rs :=
  match n with
  | O => Some r
  | S k => match thread_step r key t 0 with Some r' => run_steps r' key t k | None => None end
  end.

Definition set_maps (r : rs) am fa ab lm rp cp : rs :=
  {| ms := ms r; pre_left := pre_left r; owed := owed r; amap := am; fresh_async := fa; aborts := ab; failsat := failsat r; lmap := lm;
     reg_pending := rp; can_pending := cp |}.

Definition replay_one (r : rs) (o : obs) : option rs :=
  match o with
  | OCall key k admitted fails =>
    let t := next_tid (ms r) in
    match stepf fxr (ms r) (Spawn k) with
    | Some s' =>
      let r1 := set_fail (set_maps (with_ms r s') ((key, t) :: amap r) (fresh_async r) (aborts r) (lmap r) (reg_pending r) (can_pending r)) key fails in
      if admitted then run_steps r1 key t 4      (* Lock, check, Add, Unlock: before anything else is observed *)
      else Some r1
    | None => None
    end
  | OGo key aborted fails =>
    (* the oldest goroutine watch has started and nobody has seen yet *)
    let r0 := match fresh_async r with
              | [] => catchup_for r (AThread key) (fun x => match fresh_async x with [] => false | _ => true end)
              | _ => r
              end in
    match fresh_async r0 with
    | t :: rest =>
      let pre := match threads (ms r0) t with Some th => pre_thread (ms r0) th | None => [] end in
      Some (with_pre (set_fail (set_maps r0 ((key, t) :: amap r0) rest (if aborted then key :: aborts r0 else aborts r0)
                               (lmap r0) (reg_pending r0) (can_pending r0)) key fails) (AThread key) pre)
    | [] => None
    end
  | OAt (AThread key) p =>
    match nlookup key (amap r) with
    | Some t =>
      match explain_thread 40 r key t p with
      | Some r' =>
        (* a goroutine that is not going to stop at its ctx check makes that check now *)
        match p, threads (ms r') t with
        | YAsyncSem, Some th =>
          if negb (nmem key (aborts r')) && idle r' (AThread key)
          then match t_pc th with ACtx => thread_step r' key t 0 | _ => Some r' end
          else Some r'
        | _, _ => Some r'
        end
      | None => None
      end
    | None => None
    end
  | OAt AWatch p => explain_watch 20 r p
  | OAt ADist p => explain_dist 80 r p
  | OAt (AReg key) p => consume r (AReg key) p
  | ORet key res =>
    match nlookup key (amap r) with
    | Some t => match finish_thread 60 r key t with
                | Some (r', res') => if result_eqb res res' then Some r' else None
                | None => None
                end
    | None => None
    end
  | OListen key =>
    let l := next_lid (co (ms r)) in
    match core_do r LNew with
    | Some r1 => Some (with_pre (set_maps r1 (amap r1) (fresh_async r1) (aborts r1) ((key, l) :: lmap r1)
                                          (reg_pending r1 ++ [key]) (can_pending r1)) (AReg key) [YListenAdding])
    | None => None
    end
  | OListenRet key closed =>
    if negb (idle r (AReg key)) then None else
    if nmem key (reg_pending r) then
      match nlookup key (lmap r) with
      | Some l =>
        let r0 := set_maps r (amap r) (fresh_async r) (aborts r) (lmap r) (nremove key (reg_pending r)) (can_pending r) in
        if closed then core_do r0 (LAddClosed l)
        else match dist_to_select 60 (catchup_for r0 (AReg key) (fun x => match dist_to_select 60 x with Some _ => true | None => false end)) with
             | Some r1 => match core_do r1 (LAdd l) with
                          | Some r2 => Some (with_owed r2 ADist (lst_of (alookup ADist (owed r2)) ++ [YDistAdded]))
                          | None => None
                          end
             | None => None
             end
      | None => None
      end
    else Some r
  | OCancel key =>
    Some (with_pre (set_maps r (amap r) (fresh_async r) (aborts r) (lmap r) (reg_pending r) (can_pending r ++ [key]))
                   (AReg key) [YListenCancelling])
  | OCancelRet key =>
    if negb (idle r (AReg key)) then None else
    if nmem key (can_pending r) then
      match nlookup key (lmap r) with
      | Some l =>
        let r0 := set_maps r (amap r) (fresh_async r) (aborts r) (lmap r) (reg_pending r) (nremove key (can_pending r)) in
        if closing (co (ms r0)) then Some r0       (* the <-s.closing case of the select *)
        else match dist_to_select 60 (catchup_for r0 (AReg key) (fun x => match dist_to_select 60 x with Some _ => true | None => false end)) with
             | Some r1 => match core_do r1 (LRm l) with
                          | Some r2 => Some (with_owed r2 ADist (lst_of (alookup ADist (owed r2)) ++ [YDistRemoved]))
                          | None => None
                          end
             | None => None
             end
      | None => None
      end
    else Some r
  end.

(* replay; on failure the index of the entry that could not be explained *)
Fixpoint replay (r : rs) (tr : list obs) (i : nat) : rs * option nat :=
  match tr with
  | [] => (r, None)
  | o :: rest => match replay_one r o with Some r' => replay r' rest (S i) | None => (r, Some i) end
  end.

Definition rs_init (recv : bool) (cap : nat) : rs :=
  {| ms := init recv cap; pre_left := []; owed := []; amap := []; fresh_async := []; aborts := []; failsat := [];
     lmap := []; reg_pending := []; can_pending := [] |}.

Record tcase := {
  c_recv : bool; c_cap : nat;
  c_trace : list obs;
  c_hooks : nat;          (* block-hook calls observed *)
  c_forwards : nat;       (* notifications the distributor took from inEvents *)
  c_closed : bool         (* a Close call returned *)
}.

Definition all_ended (s : st) : bool :=
  forallb (fun t => match threads s t with Some th => match t_pc th with Fin _ => true | _ => false end | None => true end)
          (seq 0 (next_tid s)).
Definition blocks_fetched (s : st) : nat :=
  fold_right (fun t acc => match threads s t with Some th => t_blocks th + acc | None => acc end) 0 (seq 0 (next_tid s)).
Definition all_idle (r : rs) : bool :=
  forallb (fun x => match snd x with [] => true | _ => false end) (owed r).

(* 0 = accepted; 1000+i = entry i not explained; other codes = which final observable differs *)
Definition trace_verdict (c : tcase) : nat :=
  let '(r, bad) := replay (rs_init (c_recv c) (c_cap c)) (c_trace c) 0 in
  match bad with
  | Some i => 1000 + i
  | None =>
    let r' := catchup 60 r (AReg 4999) in        (* what is left runs by itself *)
    let r'' := match dist_to_select 60 r' with Some x => x | None => r' end in
    let s := ms r'' in
    if negb (all_ended s) then 1
    else if negb (all_idle r'') then 2
    else if negb (Nat.eqb (blocks_fetched s) (c_hooks c)) then 3
    else if negb (Nat.eqb (List.length (fwd (co s))) (c_forwards c)) then 4
    else if negb (Bool.eqb (close_returned s) (c_closed c)) then 5
    else if c_closed c && negb (match d_pc (co s), ic_pc s with DDone, ICEnd => true | _, _ => false end) then 6
    else 0
  end.

Definition trace_case_ok (c : tcase) : bool := Nat.eqb (trace_verdict c) 0.

(* ------------------------------------------------------------------ *)
(* The skeletons this model (fx = true) was written against            *)
Open Scope string_scope.

Definition expected_Close : skel :=
  [SFunc [SCall "doClose"]; SOnce "s.closeOnce" [SCall "doClose"]; SReturn].

Definition expected_doClose : skel :=
  [SClose "s.closing"; SCall "verifYield";
   SLock "s.expSyncMutex"; SUnlock "s.expSyncMutex"; SCall "verifYield";
   SWgWait "s.expSyncWG"; SCall "verifYield";
   SIf "" [SCall "Close"; SRecv "s.watchDone"] []; SCall "verifYield";
   SWgWait "s.asyncWG"; SCall "verifYield";
   SClose "s.inEvents"; SCall "verifYield";
   SRecv "s.distDone";
   SRecv "s.cleanerDone";
   SCall "Close";
   SReturn].

Definition expected_idleHandlerCleaner : skel :=
  [SDefer [SClose "s.cleanerDone"];
   SFor [SSelect false [[SRecv "t.C"; SLock "s.handlersMutex"; SUnlock "s.handlersMutex"];
                        [SRecv "s.closing"; SReturn]]]].

Definition expected_Announce : skel := [SIf "" [SReturn] []; SReturn].

(* the explicit-sync gate: first five synchronisation operations of SyncAdChain / syncEntries *)
Definition expected_gate : skel :=
  [SLock "s.expSyncMutex";
   SIf "" [SUnlock "s.expSyncMutex"] [];
   SWgAdd "s.expSyncWG";
   SUnlock "s.expSyncMutex";
   SDefer [SWgDone "s.expSyncWG"]].

Definition gate_of (gen : list (string * skel)) (n : string) : bool :=
  skel_eqb (firstn 5 (proj keep_calls (lookup_or_nil n gen))) expected_gate.

Definition tie_ok15 (gen : list (string * skel)) : bool :=
  full_of gen "Subscriber.Close" expected_Close &&
  full_of gen "Subscriber.doClose" expected_doClose &&
  full_of gen "Subscriber.OnSyncFinished" expected_OnSyncFinished &&
  full_of gen "Subscriber.distributeEvents" expected_distributeEvents_signalling &&
  full_of gen "Subscriber.idleHandlerCleaner" expected_idleHandlerCleaner &&
  full_of gen "Subscriber.Announce" expected_Announce &&
  proj_of gen "Subscriber.watch" expected_watch &&
  gate_of gen "Subscriber.SyncAdChain" && gate_of gen "Subscriber.syncEntries" &&
  full_of gen "handler.sendSyncFinishedEvent" expected_sendSyncFinishedEvent &&
  full_of gen "handler.asyncSyncFailed" expected_asyncSyncFailed.
