(* Glue between C12 (reader-privacy find, model/C12_DHash.v) and C17 (extended-provider
   expansion of pcache.GetResults, model/C17_GetResults.v).  Executable definitions only.

   DHashClient.FindAsync turns every decrypted (provider ID, context ID, metadata) into
   results with pcache.GetResults(pid, ctxID, metadata): C12's find model abstracts that
   call into "provider known -> one result with an address tag".  Here the abstract
   provider source is instantiated with C17's record type directly:

       rsrc = option (bytes -> option G.record)     None: WithMetadataOnly(true), no pcache
                                                     Some f: f pid = the record the cache
                                                     holds for pid (None: no source knows it)

   and the last stage of the loop body is G.get_results_opt on that record.
   Bridges between the two models:
     * peer IDs: C12 has the ID's bytes (what SplitValueKey returns), C17 numbers
       ([ai_id : N]; the code compares peer.ID strings).  [pid_num : bytes -> N] names IDs;
       it is a Section variable, a table in the case files.  The theorems hold for every
       naming; for the comparisons `xpinfo.ID == pid` of GetResults to mean what they mean
       in Go the naming must be injective, which the harness's table is.
     * metadata: C12 has bytes, C17 [option bytes] (Go nil vs empty).  FindAsync hands
       GetResults the decrypted metadata only when len(metadata) > 0, i.e. [Some md].
     * a result: C17's [result] (context ID, metadata, AddrInfo = numbered ID + address
       tag); without a pcache the AddrInfo has the ID and no addresses (tag 0). *)
From Lib Require Import Bytes.
From Model Require C12_DHash C17_GetResults.
From Coq Require Import List.
Import ListNotations.
Open Scope N_scope.

Module D := C12_DHash.
Module G := C17_GetResults.

Definition rsrc := option (bytes -> option G.record).

Section Glue.
  Variable pid_num : bytes -> N.

  (* the last stage of the loop body of FindAsync *)
  Definition emit (src : rsrc) (pid ctx md : bytes) : res (list G.result) :=
    match src with
    | None => Ok [G.PR ctx (Some md) (G.AI (pid_num pid) 0)]
    | Some f => G.get_results_opt (f pid) (pid_num pid) ctx (Some md)
    end.

  (* the loop body, transcribed like D.find_one with GetResults in place of the abstract
     provider source *)
  Definition find_one_rec (P : D.prims) (st : D.store) (src : rsrc) (mh evk : bytes) : res (list G.result) :=
    match D.decrypt_value_key P evk mh with
    | Panic c => Panic c
    | Err _ => Ok []
    | Ok vk =>
      match D.split_value_key vk with
      | Panic c => Panic c
      | Err _ => Ok []
      | Ok (pid, ctx) =>
        match D.fetch_metadata (D.decrypt_metadata P) P st vk with
        | Panic c => Panic c
        | Err _ => Ok []
        | Ok md =>
          if D.is_nil md then Ok [] else
          match emit src pid ctx md with
          | Ok rs => Ok rs
          | Err _ => Ok []          (* "Error fetching provider infos": logged, skipped *)
          | Panic c => Panic c
          end
        end
      end
    end.

  Fixpoint find_loop_rec (f : bytes -> res (list G.result)) (evks : list bytes) : res (list G.result) :=
    match evks with
    | [] => Ok []
    | e :: r => a <- f e ;; b <- find_loop_rec f r ;; Ok (a ++ b)
    end.

  Definition find_rec (P : D.prims) (st : D.store) (src : rsrc) (mh : bytes) : res (list G.result) :=
    smh <- D.second_multihash P mh ;;
    groups <- D.s_find_mh st smh ;;
    find_loop_rec (find_one_rec P st src mh) (concat groups).

  (* what the IPNI rules give for one indexed entry *)
  Definition entry_expansion (src : rsrc) (e : D.entry) : list G.result :=
    let '(pid, ctx, md) := e in
    match src with
    | None => [G.PR ctx (Some md) (G.AI (pid_num pid) 0)]
    | Some f => match f pid with
                | Some r => G.spec_results r (pid_num pid) ctx (Some md)
                | None => []
                end
    end.
End Glue.

(* ------------------------------------------------------------------ *)
(* case checker *)

Record xfind_case := XFC {
  xf_table : D.table;
  xf_mht : list (bytes * res (list (list bytes)));
  xf_mdt : list (bytes * res bytes);
  xf_names : list (bytes * N);                      (* peer-ID bytes -> number *)
  xf_recs : option (list (bytes * G.record));       (* the provider records; None: metadata only *)
  xf_mh : bytes;
  xf_obs : res (list G.result)
}.

Definition names_of (t : list (bytes * N)) (pid : bytes) : N :=
  match D.assoc pid t with Some n => n | None => 999999 end.

Definition recs_of (t : option (list (bytes * G.record))) : rsrc :=
  match t with None => None | Some l => Some (fun pid => D.assoc pid l) end.

Definition xfind_case_ok (c : xfind_case) : bool :=
  let m := find_rec (names_of (xf_names c)) (D.table_prims (xf_table c)) (D.table_store (xf_mht c) (xf_mdt c))
                    (recs_of (xf_recs c)) (xf_mh c) in
  match m, xf_obs c with
  | Ok a, Ok b => list_eqb G.result_eqb a b
  | Err _, Err _ => true
  | Panic p, Panic _ => negb (p =? D.EMiss)
  | _, _ => false
  end.
