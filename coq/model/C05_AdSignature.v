(* C05 -- advertisement signatures (ingest/schema/envelope.go, types.go) over libp2p
   signed envelopes (core/record).  Executable definitions only.

   Concrete, byte level (this is go-libipni's own logic):
     - the two signed payloads, value by value in the order the code writes them, with no
       delimiters:   ad:  prev ++ entries ++ provider ++ concat addrs ++ metadata ++ [isRm]
                     ep:  prev ++ entries ++ provider ++ contextID ++ ep.ID ++ concat ep.addrs
                          ++ ep.metadata ++ [override]
       (a link is rendered as the bytes of its CID, a missing previous link as no bytes,
       a bool as one byte 1/0);
     - the digest wrapper multihash.Sum(.., SHA2_256, -1) = 0x12 0x20 ++ sha256 and the
       deprecated "old format" multihash.Encode(raw, SHA2_256) = 0x12 ++ uvarint len ++ raw,
       selected on verification by len(envelope payload) != 34;
     - domain and the two payload-type constants (REGENERATED from envelope.go, Gen_Consts);
     - Sign, signAd, SignWithExtendedProviders, VerifySignature statement by statement,
       including what is NOT compared: record.ConsumeTypedEnvelope never looks at the
       envelope's PayloadType, so neither does the model.
   Abstract (Section variables): the signature scheme and peer IDs (lib/SymCrypto.v), the
   hash [H] (a [res] so that the table instance of the case files can miss: Panic EMiss),
   peer.Decode of an ID string [decode_pid].  The protobuf framing of an envelope is not
   modelled: a signature field is [None] (does not parse as an envelope with a valid
   public key) or [Some envelope].

   [verify_signature] is VerifySignature WITH pending/C05-fix-ep-signer.diff;
   [verify_signature_v0] is the function as it was (extended-provider envelope keys
   dropped). *)
From Coq Require Import String.
From Lib Require Import Bytes Varint SymCrypto.
From Gen Require Import Gen_Consts.
From Coq Require Import List.
Import ListNotations.
Open Scope N_scope.

Definition sig_dom : bytes := bytes_of_string schema_adSignatureDomain.
Definition ad_codec : bytes := bytes_of_string schema_adSignatureCodec.
Definition ep_codec : bytes := bytes_of_string schema_epSignatureCodec.
Definition SHA2_256 : N := 18.
Definition sig_size : nat := 34.

(* multihash.Encode(digest, code) *)
Definition mh_encode (code : N) (d : bytes) : bytes := Varint.enc code ++ Varint.enc (lenN d) ++ d.

(* error classes (the harness compares Ok/Err/Panic; the classes document the path) *)
Definition EInvalidSig := 60.    (* "invalid signature": recomputed payload differs *)
Definition EMainMissing := 61.   (* "extended providers must contain provider from the encapsulating advertisement" *)
Definition ERmExt := 62.         (* "rm ads are not supported for extended provider signatures" *)
Definition EHasExt := 63.        (* Sign: "the ad can not be signed because it has extended providers" *)
Definition ENotNamed := 64.      (* entry not sealed by the identity it names / by the ad signer *)
Definition EBadPid := 65.        (* entry ID does not decode as a peer ID *)
Definition EFetch := 66.         (* extendedProviderKeyFetcher failed *)
Definition PNilEntries := 3.     (* ad.Entries.(cidlink.Link) on a nil interface *)
Definition EMiss := 99.          (* table-mode hash asked a query the table lacks *)

Section C05.
  Variables privkey pubkey sigt peerid : Type.
  Variable pub : privkey -> pubkey.
  Variable sign : privkey -> bytes -> sigt.
  Variable verify : pubkey -> bytes -> sigt -> bool.
  Variable peer_id : pubkey -> peerid.
  Variable peerid_eqb : peerid -> peerid -> bool.     (* Go string equality on peer.ID *)
  Variable H : bytes -> res bytes.                    (* crypto/sha256 *)
  Variable decode_pid : bytes -> option peerid.       (* peer.Decode of an ID string *)

  Definition wire := option (envelope pubkey sigt).

  (* schema.Provider *)
  Record provider := Provider {
    p_id : bytes;             (* ID, the string's bytes *)
    p_addrs : list bytes;     (* Addresses, each string's bytes *)
    p_md : bytes;
    p_sig : wire
  }.
  (* schema.ExtendedProvider *)
  Record ext := Ext { x_providers : list provider; x_override : bool }.
  (* schema.Advertisement *)
  Record ad := Ad {
    a_prev : option bytes;    (* PreviousID: CID bytes; None = nil link *)
    a_provider : bytes;
    a_addrs : list bytes;
    a_sig : wire;
    a_entries : option bytes; (* Entries: CID bytes; None = nil interface (never after decoding) *)
    a_ctx : bytes;
    a_md : bytes;
    a_rm : bool;
    a_ext : option ext
  }.

  Definition set_sig (a : ad) (w : wire) : ad :=
    Ad (a_prev a) (a_provider a) (a_addrs a) w (a_entries a) (a_ctx a) (a_md a) (a_rm a) (a_ext a).
  Definition set_ext (a : ad) (x : option ext) : ad :=
    Ad (a_prev a) (a_provider a) (a_addrs a) (a_sig a) (a_entries a) (a_ctx a) (a_md a) (a_rm a) x.
  Definition set_psig (p : provider) (w : wire) : provider :=
    Provider (p_id p) (p_addrs p) (p_md p) w.

  (* ---------------- payloads ---------------- *)

  (* cid.Undef.Bytes() is empty *)
  Definition link_bytes (l : option bytes) : bytes := match l with Some b => b | None => [] end.
  Definition flag (b : bool) : bytes := if b then [1] else [0].

  Definition ad_raw (a : ad) (ent : bytes) : bytes :=
    link_bytes (a_prev a) ++ ent ++ a_provider a ++ concat (a_addrs a) ++ a_md a ++ flag (a_rm a).

  Definition ep_raw (a : ad) (x : ext) (p : provider) (ent : bytes) : bytes :=
    link_bytes (a_prev a) ++ ent ++ a_provider a ++ a_ctx a ++ p_id p ++ concat (p_addrs p) ++ p_md p
    ++ flag (x_override x).

  (* multihash.Sum(raw, SHA2_256, -1) *)
  Definition sum256 (raw : bytes) : res bytes := d <- H raw ;; Ok (mh_encode SHA2_256 d).

  (* signaturePayload(ad, oldFormat) *)
  Definition signature_payload (a : ad) (old : bool) : res bytes :=
    match a_entries a with
    | None => Panic PNilEntries
    | Some ent => if old then Ok (mh_encode SHA2_256 (ad_raw a ent)) else sum256 (ad_raw a ent)
    end.

  (* extendedProviderSignaturePayload(ad, p) *)
  Definition ep_payload (a : ad) (x : ext) (p : provider) : res bytes :=
    if a_rm a then Err ERmExt else
    match a_entries a with
    | None => Panic PNilEntries
    | Some ent => sum256 (ep_raw a x p ent)
    end.

  (* ---------------- signing ---------------- *)

  Definition is_main (a : ad) (p : provider) : bool := bytes_eqb (p_id p) (a_provider a).

  (* signAd *)
  Definition sign_ad (k : privkey) (a : ad) : res ad :=
    pl <- signature_payload a false ;;
    e <- seal pub sign sig_dom ad_codec pl k ;;
    Ok (set_sig a (Some e)).

  (* Sign *)
  Definition sign_plain (a : ad) (k : privkey) : res ad :=
    match a_ext a with Some _ => Err EHasExt | None => sign_ad k a end.

  Fixpoint sign_eps (a : ad) (x : ext) (k : privkey) (fetch : bytes -> res privkey)
           (ps : list provider) : res (list provider) :=
    match ps with
    | [] => Ok []
    | p :: r =>
      pl <- ep_payload a x p ;;
      key <- (if is_main a p then Ok k else fetch (p_id p)) ;;
      e <- seal pub sign sig_dom ep_codec pl key ;;
      r' <- sign_eps a x k fetch r ;;
      Ok (set_psig p (Some e) :: r')
    end.

  (* SignWithExtendedProviders (the result on success; Go leaves a half-signed ad behind on error) *)
  Definition sign_with_eps (a : ad) (k : privkey) (fetch : bytes -> res privkey) : res ad :=
    a1 <- sign_ad k a ;;
    match a_ext a1 with
    | None => Ok a1
    | Some x =>
      ps <- sign_eps a1 x k fetch (x_providers x) ;;
      if negb (existsb (is_main a1) ps) && negb (is_nil ps) then Err EMainMissing
      else Ok (set_ext a1 (Some (Ext ps (x_override x))))
    end.

  (* ---------------- verification ---------------- *)

  (* the body of the loop over extended providers; returns whether the entry is the main
     provider's.  strict = with the pending fix. *)
  Definition ep_check (strict : bool) (a : ad) (x : ext) (signer : peerid) (p : provider) : res bool :=
    e <- consume verify (p_sig p) sig_dom ;;       (* ConsumeTypedEnvelope: PayloadType not compared *)
    gen <- ep_payload a x p ;;
    if negb (bytes_eqb gen (e_payload e)) then Err EInvalidSig else
    if strict then
      let s := peer_id (e_key e) in
      if is_main a p then (if peerid_eqb s signer then Ok true else Err ENotNamed)
      else match decode_pid (p_id p) with
           | None => Err EBadPid
           | Some id => if peerid_eqb s id then Ok false else Err ENotNamed
           end
    else Ok (is_main a p).

  Fixpoint verify_eps (strict : bool) (a : ad) (x : ext) (signer : peerid)
           (ps : list provider) (seen : bool) : res bool :=
    match ps with
    | [] => Ok seen
    | p :: r => m <- ep_check strict a x signer p ;; verify_eps strict a x signer r (seen || m)
    end.

  Definition verify_gen (strict : bool) (a : ad) : res peerid :=
    e <- consume verify (a_sig a) sig_dom ;;       (* ConsumeTypedEnvelope: PayloadType not compared *)
    let old := negb (Nat.eqb (length (e_payload e)) sig_size) in
    gen <- signature_payload a old ;;
    if negb (bytes_eqb gen (e_payload e)) then Err EInvalidSig else
    let signer := peer_id (e_key e) in
    match a_ext a with
    | None => Ok signer
    | Some x =>
      seen <- verify_eps strict a x signer (x_providers x) false ;;
      if negb seen && negb (is_nil (x_providers x)) then Err EMainMissing else Ok signer
    end.

  Definition verify_signature : ad -> res peerid := verify_gen true.
  Definition verify_signature_v0 : ad -> res peerid := verify_gen false.
End C05.

Arguments Provider {pubkey sigt} _ _ _ _.
Arguments p_id {pubkey sigt} _.
Arguments p_addrs {pubkey sigt} _.
Arguments p_md {pubkey sigt} _.
Arguments p_sig {pubkey sigt} _.
Arguments Ext {pubkey sigt} _ _.
Arguments x_providers {pubkey sigt} _.
Arguments x_override {pubkey sigt} _.
Arguments Ad {pubkey sigt} _ _ _ _ _ _ _ _ _.
Arguments a_prev {pubkey sigt} _.
Arguments a_provider {pubkey sigt} _.
Arguments a_addrs {pubkey sigt} _.
Arguments a_sig {pubkey sigt} _.
Arguments a_entries {pubkey sigt} _.
Arguments a_ctx {pubkey sigt} _.
Arguments a_md {pubkey sigt} _.
Arguments a_rm {pubkey sigt} _.
Arguments a_ext {pubkey sigt} _.
Arguments set_sig {pubkey sigt} a w.
Arguments set_ext {pubkey sigt} a x.
Arguments set_psig {pubkey sigt} p w.
Arguments ad_raw {pubkey sigt} a ent.
Arguments ep_raw {pubkey sigt} a x p ent.
Arguments signature_payload {pubkey sigt} H a old.
Arguments ep_payload {pubkey sigt} H a x p.
Arguments is_main {pubkey sigt} a p.
Arguments sign_ad {privkey pubkey sigt} pub sign H k a.
Arguments sign_plain {privkey pubkey sigt} pub sign H a k.
Arguments sign_eps {privkey pubkey sigt} pub sign H a x k fetch ps.
Arguments sign_with_eps {privkey pubkey sigt} pub sign H a k fetch.
Arguments ep_check {pubkey sigt peerid} verify peer_id peerid_eqb H decode_pid strict a x signer p.
Arguments verify_eps {pubkey sigt peerid} verify peer_id peerid_eqb H decode_pid strict a x signer ps seen.
Arguments verify_gen {pubkey sigt peerid} verify peer_id peerid_eqb H decode_pid strict a.
Arguments verify_signature {pubkey sigt peerid} verify peer_id peerid_eqb H decode_pid a.
Arguments verify_signature_v0 {pubkey sigt peerid} verify peer_id peerid_eqb H decode_pid a.

(* the hash as a total function (theorems) and as a lookup table (case files) *)
Definition ideal_H (Hf : bytes -> bytes) : bytes -> res bytes := fun x => Ok (Hf x).

Fixpoint assocb {V} (k : bytes) (t : list (bytes * V)) : option V :=
  match t with
  | [] => None
  | (k', v) :: r => if bytes_eqb k k' then Some v else assocb k r
  end.

Definition table_H (t : list (bytes * bytes)) : bytes -> res bytes :=
  fun x => match assocb x t with Some d => Ok d | None => Panic EMiss end.

(* named premises about the hash *)
Definition H_len32 (Hf : bytes -> bytes) : Prop := forall x, length (Hf x) = 32%nat.
Definition H_injective (Hf : bytes -> bytes) : Prop := forall x y, Hf x = Hf y -> x = y.

(* ------------------------------------------------------------------ *)
(* Case checkers: the model on the symbolic instance (SymCrypto.Sym) against what the real
   functions did.  The harness parses every signature field with libp2p's own
   UnmarshalEnvelope, names a public key by its index in the key pool, a peer-ID string
   by the index of the pool key it decodes to, and a signature by whether the real
   key.Verify accepts it for (domain "indexer", the envelope's own type and payload)
   under the envelope's own key. *)

Inductive sigd :=
| SdSelf (dom : bytes)   (* verifies under the envelope's key over (dom, its type, its payload) *)
| SdJunk (n : N).        (* does not *)

Record wenv := WEnv { w_key : N; w_ty : bytes; w_pl : bytes; w_sig : sigd }.

Definition sym_env (w : wenv) : envelope Sym.pubkey Sym.sigt :=
  Envelope (w_key w) (w_ty w) (w_pl w)
    match w_sig w with
    | SdSelf dom => Sym.Sig (w_key w) (unsigned dom (w_ty w) (w_pl w))
    | SdJunk n => Sym.Junk n
    end.

Definition sym_wire (w : option wenv) : option (envelope Sym.pubkey Sym.sigt) := option_map sym_env w.

Definition sad := ad Sym.pubkey Sym.sigt.
Definition sprov := provider Sym.pubkey Sym.sigt.

(* constructors used by the case files *)
Definition SP (id : bytes) (addrs : list bytes) (md : bytes) (sg : option wenv) : sprov :=
  Provider id addrs md (sym_wire sg).
Definition SX (ps : list sprov) (override : bool) : ext Sym.pubkey Sym.sigt := Ext ps override.
Definition SA (prev : option bytes) (prov : bytes) (addrs : list bytes) (sg : option wenv)
           (entries : option bytes) (ctx md : bytes) (rm : bool) (x : option (ext Sym.pubkey Sym.sigt)) : sad :=
  Ad prev prov addrs (sym_wire sg) entries ctx md rm x.

Definition ids_decode (t : list (bytes * N)) : bytes -> option N := fun s => assocb s t.

Definition res_matches {A} (eqb : A -> A -> bool) (m o : res A) : bool :=
  match m, o with
  | Ok a, Ok b => eqb a b
  | Err _, Err _ => true
  | Panic c, Panic _ => negb (c =? EMiss)
  | _, _ => false
  end.

(* VerifySignature *)
Record vcase := VC {
  vc_H : list (bytes * bytes);      (* sha256 of the payloads of the ad as presented *)
  vc_ids : list (bytes * N);        (* peer.Decode of the ID strings that decode *)
  vc_ad : sad;
  vc_obs : res N                    (* signer, as pool index *)
}.

Definition sym_verify (strict : bool) (c : vcase) : res N :=
  verify_gen Sym.verify Sym.peer_id Sym.peerid_eqb (table_H (vc_H c)) (ids_decode (vc_ids c)) strict (vc_ad c).

Definition verify_case_ok (c : vcase) : bool := res_matches N.eqb (sym_verify true c) (vc_obs c).

(* Sign / SignWithExtendedProviders: the envelopes produced, as (key, type, payload, the
   signature verifies for domain "indexer") for the ad and then each entry *)
Definition env_view := (N * bytes * bytes * bool)%type.

Definition view_env (e : envelope Sym.pubkey Sym.sigt) : env_view :=
  (e_key e, e_ty e, e_payload e, validate Sym.verify sig_dom e).

Definition view_wire (w : option (envelope Sym.pubkey Sym.sigt)) : list env_view :=
  match w with Some e => [view_env e] | None => [] end.

Definition view_ad (a : sad) : list env_view :=
  view_wire (a_sig a) ++
  match a_ext a with
  | None => []
  | Some x => flat_map (fun p : sprov => view_wire (p_sig p)) (x_providers x)
  end.

Definition env_view_eqb (a b : env_view) : bool :=
  let '(k1, t1, p1, v1) := a in
  let '(k2, t2, p2, v2) := b in
  (k1 =? k2) && bytes_eqb t1 t2 && bytes_eqb p1 p2 && Bool.eqb v1 v2.

Record scase := SC {
  sc_H : list (bytes * bytes);
  sc_ad : sad;                       (* unsigned *)
  sc_plain : bool;                   (* true: Sign; false: SignWithExtendedProviders *)
  sc_key : N;
  sc_fetch : list (bytes * N);       (* extendedProviderKeyFetcher: ID string -> key; absent = error *)
  sc_obs : res (list env_view)
}.

Definition sym_sign (c : scase) : res (list env_view) :=
  let fetch := fun s => match assocb s (sc_fetch c) with Some k => Ok k | None => Err EFetch end in
  a <- (if sc_plain c then sign_plain Sym.pub Sym.sign (table_H (sc_H c)) (sc_ad c) (sc_key c)
        else sign_with_eps Sym.pub Sym.sign (table_H (sc_H c)) (sc_ad c) (sc_key c) fetch) ;;
  Ok (view_ad a).

Definition sign_case_ok (c : scase) : bool :=
  res_matches (list_eqb env_view_eqb) (sym_sign c) (sc_obs c).

(* ------------------------------------------------------------------ *)
(* Signing histories: the same advertisement value signed, changed, signed again.
   Sign / SignWithExtendedProviders assign ad.Signature and every p.Signature
   unconditionally, so signatures already present never influence the result. *)

Definition erase_psig {pubkey sigt} (p : provider pubkey sigt) : provider pubkey sigt := set_psig p None.
Definition erase_sigs {pubkey sigt} (a : ad pubkey sigt) : ad pubkey sigt :=
  Ad (a_prev a) (a_provider a) (a_addrs a) None (a_entries a) (a_ctx a) (a_md a) (a_rm a)
     (option_map (fun x => Ext (map erase_psig (x_providers x)) (x_override x)) (a_ext a)).

(* new values, the signatures the struct carried so far kept position by position (what
   assigning fields of a Go struct, or of the entries of its list, leaves behind) *)
Fixpoint keep_psigs {pubkey sigt} (cur new : list (provider pubkey sigt)) : list (provider pubkey sigt) :=
  match new with
  | [] => []
  | n :: nr =>
    match cur with
    | c :: cr => set_psig n (p_sig c) :: keep_psigs cr nr
    | [] => n :: keep_psigs [] nr
    end
  end.

Definition with_values {pubkey sigt} (cur new : ad pubkey sigt) : ad pubkey sigt :=
  Ad (a_prev new) (a_provider new) (a_addrs new) (a_sig cur) (a_entries new) (a_ctx new) (a_md new) (a_rm new)
     match a_ext new with
     | None => None
     | Some xn => Some (Ext (keep_psigs (match a_ext cur with Some xc => x_providers xc | None => [] end) (x_providers xn))
                            (x_override xn))
     end.

Inductive hstep :=
| HValues (v : sad)                                  (* fields assigned; v carries no signatures *)
| HSign (plain : bool) (key : N) (fetch : list (bytes * N)) (obs : res (list env_view))
| HVerify (obs : res N).

Record hcase := HC {
  hc_H : list (bytes * bytes);
  hc_ids : list (bytes * N);
  hc_init : sad;
  hc_steps : list hstep
}.

Fixpoint run_history (Ht : list (bytes * bytes)) (ids : list (bytes * N)) (cur : sad) (steps : list hstep) : bool :=
  match steps with
  | [] => true
  | HValues v :: r => run_history Ht ids (with_values cur v) r
  | HSign plain key ft obs :: r =>
    let fetch := fun s => match assocb s ft with Some k => Ok k | None => Err EFetch end in
    let res := if plain then sign_plain Sym.pub Sym.sign (table_H Ht) cur key
               else sign_with_eps Sym.pub Sym.sign (table_H Ht) cur key fetch in
    res_matches (list_eqb env_view_eqb) (a <- res ;; Ok (view_ad a)) obs &&
    (* Sign refuses before touching the value; the histories contain no other failing signing *)
    run_history Ht ids (match res with Ok a => a | _ => cur end) r
  | HVerify obs :: r =>
    res_matches N.eqb (verify_gen Sym.verify Sym.peer_id Sym.peerid_eqb (table_H Ht) (ids_decode ids) true cur) obs &&
    run_history Ht ids cur r
  end.

Definition history_case_ok (c : hcase) : bool := run_history (hc_H c) (hc_ids c) (hc_init c) (hc_steps c).

(* ------------------------------------------------------------------ *)
(* Round trips: an advertisement as encoded and as decoded must have the same signed
   payload bytes (the peer-ID strings enter them as written, whichever spelling) *)

Definition signed_payloads {pubkey sigt} (a : ad pubkey sigt) : list bytes :=
  match a_entries a with
  | None => []
  | Some ent =>
    ad_raw a ent ::
    match a_ext a with
    | None => []
    | Some x => map (fun p => ep_raw a x p ent) (x_providers x)
    end
  end.

Definition rt_case_ok (c : sad * sad) : bool :=
  let '(before, after) := c in
  list_eqb bytes_eqb (signed_payloads before) (signed_payloads after).
