(* C10: announce/message (cbor_message.go, message.go) and the two senders
   (httpsender/sender.go, p2psender/sender.go): executable definitions only.

   - [msg] is message.Message.  Go distinguishes a nil slice from an empty one; the
     decoder only ever produces nil for "no bytes", so a slice is [option (list _)]
     with [None] = nil and [Some []] = empty-but-not-nil, and [norm] is what a
     round trip does to a message.
   - [enc] is Message.MarshalCBOR WITH pending/C10-fix-cid-cap.diff applied (the
     encoder refuses a CID the decoder's 512-byte cap would reject); [enc_v0] is the
     unrepaired encoder.
   - [dec_g] is Message.UnmarshalCBOR with a ghost allocation counter: every
     make()/string conversion whose size comes from the input adds to it, at the
     point where Go allocates (before the bytes are known to be present).
     [dec] drops the counter.  make() itself is [Cbor.gmake], which panics on an
     unreasonable length, so [dec_total] says every make is guarded by a cap.
   - the HTTP sender: addresses are abstract byte strings with a class supplied by
     the harness from the real go-multiaddr parser (known protocols / unknown
     protocol code / otherwise invalid); [add_id] is Sender.addIDToAddrs over
     Message.GetAddrs and peer.AddrInfoToP2pAddrs.
   - JSON (encoding/json over Message, cid.Cid's JSON form, base64) is NOT modelled;
     the harness round-trips it on the real code only. *)
From Lib Require Import Bytes Varint Cid Cbor.
Open Scope N_scope.

(* cbor-gen v0.2.0 gen.go: `const MaxLength = 8192`, `const ByteArrayMaxLen = 2 << 20`.
   astgen looks for them in utils.go and therefore does not emit cborgen_MaxLength /
   cborgen_ByteArrayMaxLen into Gen_Consts.v yet; until it does they are defined here
   and compared with the values of the linked cbor-gen on every run (family "consts"). *)
Definition MaxLength := 8192.
Definition ByteArrayMaxLen := 2097152.
(* size of a slice header: make([][]uint8, n) requests 24*n bytes on 64-bit *)
Definition SliceHeader := 24.

(* ------------------------------------------------------------------ *)
(* messages                                                            *)

Definition sl {A} (s : option (list A)) : list A := match s with None => [] | Some l => l end.
(* what `if extra > 0 { x = make(..., extra) }` followed by filling x leaves *)
Definition mk_sl {A} (l : list A) : option (list A) := match l with [] => None | _ => Some l end.

Record msg := Msg {
  m_cid : option cid;                       (* None = cid.Undef *)
  m_addrs : option (list (option bytes));
  m_extra : option bytes;
  m_orig : bytes                            (* OrigPeer, a Go string: any bytes *)
}.

Definition norm_b (a : option bytes) : option bytes := mk_sl (sl a).
Definition norm (m : msg) : msg :=
  Msg (m_cid m) (mk_sl (map norm_b (sl (m_addrs m)))) (norm_b (m_extra m)) (m_orig m).

Definition wf_msg (m : msg) : bool :=
  match m_cid m with Some c => cid_wf c | None => true end
  && forallb (fun a => wf_bytes (sl a)) (sl (m_addrs m))
  && wf_bytes (sl (m_extra m))
  && wf_bytes (m_orig m).

(* ------------------------------------------------------------------ *)
(* MarshalCBOR                                                         *)

Definition enc_addr (a : option bytes) : res bytes :=
  let x := sl a in
  if ByteArrayMaxLen <? blen x then Err ETooLarge else Ok (wr_bytes x).

Fixpoint enc_addrs (l : list (option bytes)) : res bytes :=
  match l with
  | [] => Ok []
  | a :: r => x <- enc_addr a ;; y <- enc_addrs r ;; Ok (x ++ y)
  end.

Definition enc_with (cidcap : bool) (m : msg) : res bytes :=
  match m_cid m with
  | None => Err ECid                                      (* "undefined cid" *)
  | Some c =>
    if cidcap && (CidMaxLen <? Cid.byte_len c + 1) then Err ETooLarge else
    let addrs := sl (m_addrs m) in
    if MaxLength <? N.of_nat (length addrs) then Err ETooLarge else
    a <- enc_addrs addrs ;;
    let x := sl (m_extra m) in
    if ByteArrayMaxLen <? blen x then Err ETooLarge else
    let body := wr_cid c ++ wr_head MajArray (N.of_nat (length addrs)) ++ a ++ wr_bytes x in
    match m_orig m with
    | [] => Ok (131 :: body)
    | o => if MaxLength <? blen o then Err ETooLarge else Ok (132 :: body ++ wr_text o)
    end
  end.

Definition enc := enc_with true.       (* repaired *)
Definition enc_v0 := enc_with false.   (* as found: no cap on the CID *)

(* ------------------------------------------------------------------ *)
(* UnmarshalCBOR                                                       *)

Fixpoint dec_addrs (n : nat) (b : bytes) : gres (list (option bytes) * bytes) :=
  match n with
  | O => gret ([], b)
  | S k =>
    '(maj, extra, r) <~ glift (rd_head b) ;;
    if ByteArrayMaxLen <? extra then gerr ETooLarge else
    if negb (maj =? MajByteString) then gerr EWrongMajor else
    _ <~ gmake_pos 1 extra ;;
    '(x, r') <~ glift (read_full extra r) ;;
    '(xs, r'') <~ dec_addrs k r' ;;
    gret (mk_sl x :: xs, r'')
  end.

Definition dec_g (b : bytes) : gres (msg * bytes) :=
  '(maj, nf, r1) <~ glift (rd_head b) ;;
  if negb (maj =? MajArray) then gerr EWrongMajor else
  if 4 <? nf then gerr EFieldCount else
  if nf <? 3 then gerr EFieldCount else
  '(c, r2) <~ rd_cid_g r1 ;;
  '(maj2, n, r3) <~ glift (rd_head r2) ;;
  if MaxLength <? n then gerr ETooLarge else
  if negb (maj2 =? MajArray) then gerr EWrongMajor else
  _ <~ gmake_pos SliceHeader n ;;
  '(addrs, r4) <~ dec_addrs (N.to_nat n) r3 ;;
  '(maj3, e, r5) <~ glift (rd_head r4) ;;
  if ByteArrayMaxLen <? e then gerr ETooLarge else
  if negb (maj3 =? MajByteString) then gerr EWrongMajor else
  _ <~ gmake_pos 1 e ;;
  '(x, r6) <~ glift (read_full e r5) ;;
  if nf =? 3 then gret (Msg (Some c) (mk_sl addrs) (mk_sl x) [], r6) else
  '(s, r7) <~ rd_text_g MaxLength r6 ;;
  gret (Msg (Some c) (mk_sl addrs) (mk_sl x) s, r7).

(* the decoded message and the unread rest of the input *)
Definition dec (b : bytes) : res (msg * bytes) := snd (dec_g b).
(* bytes requested from the allocator while decoding b *)
Definition dec_alloc (b : bytes) : N := fst (dec_g b).

(* the bound of the property: input length plus the fixed caps *)
Definition alloc_bound (b : bytes) : N := blen b + SliceHeader * MaxLength + ByteArrayMaxLen.

(* ------------------------------------------------------------------ *)
(* senders                                                             *)

Inductive aclass := AKnown | AUnknown | AInvalid.
Definition EAddr := 8.

(* message as handed to a sender: addresses carry the class the real multiaddr
   parser gives them *)
Record cmsg := CMsg {
  c_cid : option cid;
  c_addrs : list (bytes * aclass);
  c_extra : option bytes;
  c_orig : bytes
}.

Record scfg := SCfg {
  s_p2p : bytes;        (* bytes of the /p2p/<publisher id> component *)
  s_extra : bytes       (* WithExtraData; empty = not configured *)
}.

(* Message.GetAddrs: unknown protocol codes skipped, anything else invalid fails *)
Fixpoint get_addrs (l : list (bytes * aclass)) : res (list bytes) :=
  match l with
  | [] => Ok []
  | (a, AKnown) :: r => rest <- get_addrs r ;; Ok (a :: rest)
  | (_, AUnknown) :: r => get_addrs r
  | (_, AInvalid) :: _ => Err EAddr
  end.

(* Sender.addIDToAddrs; AddrInfoToP2pAddrs over no address yields the bare /p2p/id *)
Definition add_id (p2p : bytes) (l : list (bytes * aclass)) : res (list bytes) :=
  match l with
  | [] => Ok []
  | _ => known <- get_addrs l ;;
         match known with
         | [] => Ok [p2p]
         | _ => Ok (map (fun a => a ++ p2p) known)
         end
  end.

Definition override_extra (cfg : scfg) (x : option bytes) : option bytes :=
  match s_extra cfg with [] => x | e => Some e end.

(* body of the PUT request of httpsender.Send *)
Definition http_wire (cfg : scfg) (m : cmsg) : res bytes :=
  addrs <- add_id (s_p2p cfg) (c_addrs m) ;;
  enc (Msg (c_cid m) (Some (map Some addrs)) (override_extra cfg (c_extra m)) (c_orig m)).

(* announce.Send(ctx, c, addrs, httpSender) (announce/sender.go): nothing is sent for
   an undefined CID; otherwise a message with just the CID and the given multiaddrs
   (all of known protocols, they were parsed) goes to the sender *)
Definition announce_send (cfg : scfg) (c : option cid) (addrs : list bytes) : option (res bytes) :=
  match c with
  | None => None
  | Some _ => Some (http_wire cfg (CMsg c (map (fun a => (a, AKnown)) addrs) None []))
  end.

(* data published by p2psender.Send (addresses untouched) *)
Definition p2p_wire (cfg : scfg) (m : msg) : res bytes :=
  enc (Msg (m_cid m) (m_addrs m) (override_extra cfg (m_extra m)) (m_orig m)).

(* ------------------------------------------------------------------ *)
(* comparison                                                          *)

(* n copies of x: how the harness writes cap-boundary payloads *)
Definition nrep {A} (n : N) (x : A) : list A := N.iter n (cons x) [].
(* concatenation of segments (literal pieces and runs) *)
Definition bcat (l : list bytes) : bytes := List.concat l.

Definition cid_eqb (a b : cid) : bool :=
  match a, b with
  | CidV0 x, CidV0 y => bytes_eqb x y
  | CidV1 c1 h1 x, CidV1 c2 h2 y => (c1 =? c2) && (h1 =? h2) && bytes_eqb x y
  | _, _ => false
  end.

Definition obytes_eqb := option_eqb bytes_eqb.

Definition msg_eqb (a b : msg) : bool :=
  option_eqb cid_eqb (m_cid a) (m_cid b)
  && option_eqb (list_eqb obytes_eqb) (m_addrs a) (m_addrs b)
  && obytes_eqb (m_extra a) (m_extra b)
  && bytes_eqb (m_orig a) (m_orig b).

(* ------------------------------------------------------------------ *)
(* case checkers: one observed behaviour of the real code each          *)

(* what the implementation did *)
Inductive obs (A : Type) := OOk (a : A) | OErr (class : N) | OPanic.
Arguments OOk {A} a.
Arguments OErr {A} class.
Arguments OPanic {A}.

Definition agrees {A B} (eqb : A -> B -> bool) (model : res A) (o : obs B) : bool :=
  match model, o with
  | Ok a, OOk b => eqb a b
  | Err c, OErr d => c =? d
  | Panic _, OPanic => true
  | _, _ => false
  end.

(* MarshalCBOR on m gave these bytes / this error class *)
Definition enc_case_ok (c : msg * obs bytes) : bool :=
  let '(m, o) := c in agrees bytes_eqb (enc m) o.

(* the unrepaired encoder, for replays on the unfixed tree *)
Definition enc_v0_case_ok (c : msg * obs bytes) : bool :=
  let '(m, o) := c in agrees bytes_eqb (enc_v0 m) o.

(* UnmarshalCBOR on b gave message + number of unread bytes / error class, and the
   process allocated `alloc` bytes meanwhile (runtime.MemStats.TotalAlloc delta).
   The ghost counter must be a lower bound of the real allocation, and the real
   allocation must stay within twice the counter plus a fixed overhead (size-class
   rounding, error values, reader, cbor-gen's pooled string buffer). *)
Definition AllocOverhead := 49152.
Definition dec_case_ok (c : bytes * obs (msg * N) * N) : bool :=
  let '(b, o, alloc) := c in
  let '(a, r) := dec_g b in
  agrees (fun x y => msg_eqb (fst x) (fst y) && (blen (snd x) =? snd y)) r o
  && (a <=? alloc) && (alloc <=? 2 * a + AllocOverhead)
  && (a <=? alloc_bound b).

(* cid.CidFromBytes on b: version-tagged structured CID + bytes consumed / error *)
Definition cid_case_ok (c : bytes * obs (cid * N)) : bool :=
  let '(b, o) := c in
  match Cid.parse b, o with
  | Ok (x, r), OOk (y, n) => cid_eqb x y && (blen b - blen r =? n) && bytes_eqb (Cid.fmt x ++ r) b
  | Err _, OErr _ => true
  | _, _ => false
  end.

(* cbg.CborReadHeaderBuf on b: major, value, bytes consumed / error class *)
Definition rdhead_case_ok (c : bytes * obs (N * N * N)) : bool :=
  let '(b, o) := c in
  match rd_head b, o with
  | Ok (maj, v, r), OOk (maj', v', n) => (maj =? maj') && (v =? v') && (blen b - blen r =? n)
  | Err e, OErr e' => e =? e'
  | _, _ => false
  end.

(* cbg.CborEncodeMajorType(maj, v) gave these bytes *)
Definition wrhead_case_ok (c : N * N * bytes) : bool :=
  let '(maj, v, b) := c in bytes_eqb (wr_head maj v) b.

(* httpsender.Send posted this body / failed *)
Definition http_case_ok (c : scfg * cmsg * obs bytes) : bool :=
  let '(cfg, m, o) := c in
  match http_wire cfg m, o with
  | Ok x, OOk y => bytes_eqb x y
  | Err _, OErr _ => true
  | _, _ => false
  end.

(* p2psender.Send published this data / failed *)
Definition p2p_case_ok (c : scfg * msg * obs bytes) : bool :=
  let '(cfg, m, o) := c in
  match p2p_wire cfg m, o with
  | Ok x, OOk y => bytes_eqb x y
  | Err _, OErr _ => true
  | _, _ => false
  end.

(* announce.Send through an httpsender posted this body / failed / posted nothing *)
Definition asend_case_ok (c : scfg * option cid * list bytes * option (obs bytes)) : bool :=
  let '(cfg, oc, addrs, o) := c in
  match announce_send cfg oc addrs, o with
  | None, None => true
  | Some (Ok x), Some (OOk y) => bytes_eqb x y
  | Some (Err _), Some (OErr _) => true
  | _, _ => false
  end.

(* the caps of the linked cbor-gen *)
Definition consts_case_ok (c : N * N) : bool :=
  let '(ml, bl) := c in (ml =? MaxLength) && (bl =? ByteArrayMaxLen).
