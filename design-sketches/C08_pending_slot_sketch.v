From Coq Require Import List Arith Lia Bool.
Import ListNotations.

(* One publisher's announce path: watcher swaps the pending slot and spawns a
   goroutine only when the slot was empty; goroutines serialise on asyncMutex and
   take the slot after acquiring it. Any number of announcements, any schedule. *)
Inductive holder := Free | PreTake | Syncing (m : nat).
Record st := { pending : option nat; waiting : nat; hold : holder;
               lastRecv : option nat; lastTaken : option nat; nilTake : bool }.

Inductive lbl := Recv (m : nat) | Lock | Take | Done.

Definition stepf (s : st) (l : lbl) : option st :=
  match l with
  | Recv m =>
      Some {| pending := Some m;
              waiting := match pending s with None => S (waiting s) | Some _ => waiting s end;
              hold := hold s; lastRecv := Some m; lastTaken := lastTaken s; nilTake := nilTake s |}
  | Lock =>
      match hold s, waiting s with
      | Free, S w => Some {| pending := pending s; waiting := w; hold := PreTake;
                             lastRecv := lastRecv s; lastTaken := lastTaken s; nilTake := nilTake s |}
      | _, _ => None
      end
  | Take =>
      match hold s with
      | PreTake =>
          match pending s with
          | Some m => Some {| pending := None; waiting := waiting s; hold := Syncing m;
                              lastRecv := lastRecv s; lastTaken := Some m; nilTake := nilTake s |}
          | None => Some {| pending := None; waiting := waiting s; hold := Free;
                            lastRecv := lastRecv s; lastTaken := lastTaken s; nilTake := true |}
          end
      | _ => None
      end
  | Done =>
      match hold s with
      | Syncing _ => Some {| pending := pending s; waiting := waiting s; hold := Free;
                             lastRecv := lastRecv s; lastTaken := lastTaken s; nilTake := nilTake s |}
      | _ => None
      end
  end.

Definition init := {| pending := None; waiting := 0; hold := Free;
                      lastRecv := None; lastTaken := None; nilTake := false |}.

Fixpoint run (s : st) (ls : list lbl) : option st :=
  match ls with [] => Some s | l :: r => match stepf s l with Some s' => run s' r | None => None end end.

Definition pre (h : holder) := match h with PreTake => 1 | _ => 0 end.
Definition Inv (s : st) : Prop :=
  waiting s + pre (hold s) = (if pending s then 1 else 0) /\
  nilTake s = false /\
  (forall m, pending s = Some m -> lastRecv s = Some m) /\
  (pending s = None -> lastTaken s = lastRecv s).

Lemma inv_step s l s' : Inv s -> stepf s l = Some s' -> Inv s'.
Proof.
  intros (H1 & H2 & H3 & H4) E. destruct l; cbn in E.
  - inversion E; subst; clear E. unfold Inv; cbn. destruct (pending s); cbn in *; repeat split; auto; try lia; try congruence.
  - destruct (hold s) eqn:Hh; try discriminate. destruct (waiting s) eqn:Hw; try discriminate.
    inversion E; subst; clear E. unfold Inv; cbn in *. repeat split; auto. lia.
  - destruct (hold s) eqn:Hh; try discriminate. cbn in H1.
    destruct (pending s) eqn:Hp; inversion E; subst; clear E; unfold Inv; cbn; repeat split; auto; try lia; try congruence.
    intros _. symmetry. auto.
  - destruct (hold s) eqn:Hh; try discriminate. inversion E; subst; clear E. unfold Inv; cbn in *. repeat split; auto.
Qed.

Theorem inv_reachable ls s : run init ls = Some s -> Inv s.
Proof.
  assert (G : forall ls s0, Inv s0 -> run s0 ls = Some s -> Inv s).
  { induction ls0 as [|l r IH]; intros s0 H0 E; cbn in E. - inversion E; subst; auto.
    - destruct (stepf s0 l) eqn:El; [|discriminate]. eapply IH; [eapply inv_step; eauto|auto]. }
  apply G. unfold Inv, init; cbn. repeat split; auto; congruence.
Qed.

(* quiescence: nothing but a new announcement can happen *)
Definition quiescent s := stepf s Lock = None /\ stepf s Take = None /\ stepf s Done = None.

Theorem last_announcement_acted_on ls s :
  run init ls = Some s -> quiescent s -> pending s = None /\ lastTaken s = lastRecv s /\ nilTake s = false.
Proof.
  intros R (QL & QT & QD). destruct (inv_reachable _ _ R) as (H1 & H2 & H3 & H4).
  cbn in QL, QT, QD. destruct (hold s) eqn:Hh; try discriminate.
  - destruct (waiting s) eqn:Hw; try discriminate. cbn in H1.
    destruct (pending s) eqn:Hp; [lia|]. auto.
  - destruct (pending s); discriminate.
Qed.
Print Assumptions last_announcement_acted_on.
