From Coq Require Import List Arith Lia Bool.
Import ListNotations.

Definition is_stop (stop : option nat) (c : nat) : bool :=
  match stop with Some s => Nat.eqb s c | None => false end.

(* ipld-prime ExploreRecursive over a linear chain: root always loaded; an edge is
   followed unless the link is the stop link or the remaining depth is < 2 *)
Fixpoint walk (lim : option nat) (stop : option nat) (c : nat) (rest : list nat) : list nat :=
  c :: match rest with
       | [] => []
       | p :: rest' =>
         if is_stop stop p then []
         else match lim with
              | Some d => if d <? 2 then [] else walk (Some (d - 1)) stop p rest'
              | None => walk None stop p rest'
              end
       end.

Definition walkl lim stop (l : list nat) : list nat :=
  match l with [] => [] | c :: r => walk lim stop c r end.

(* specification *)
Fixpoint upto_stop (stop : option nat) (l : list nat) : list nat :=
  match l with [] => [] | c :: r => if is_stop stop c then [] else c :: upto_stop stop r end.
Definition segment (lim : option nat) stop (l : list nat) : list nat :=
  match l with
  | [] => []
  | c :: r => let s := c :: upto_stop stop r in
              match lim with Some d => firstn (Nat.max d 1) s | None => s end
  end.

Lemma walk_spec : forall r lim stop c, walk lim stop c r = segment lim stop (c :: r).
Proof.
  induction r as [|p r IH]; intros lim stop c; cbn [walk segment upto_stop].
  - destruct lim as [d|]; [|reflexivity]. destruct (Nat.max d 1) eqn:E; [lia|]. cbn. now rewrite firstn_nil.
  - destruct (is_stop stop p) eqn:Hs.
    + destruct lim as [d|]; [|reflexivity]. destruct (Nat.max d 1) eqn:E; [lia|]. cbn. now rewrite firstn_nil.
    + destruct lim as [d|].
      * destruct (d <? 2) eqn:Hd.
        -- apply Nat.ltb_lt in Hd. replace (Nat.max d 1) with 1 by lia. reflexivity.
        -- apply Nat.ltb_ge in Hd. rewrite IH. cbn [segment].
           replace (Nat.max d 1) with (S (Nat.max (d-1) 1)) by lia. reflexivity.
      * rewrite IH. reflexivity.
Qed.

(* the segmented loop of handler.handle, transcribed; [l] is the chain suffix whose
   head is the next CID to sync; the hook nominates the previous link of each block *)
Fixpoint seg_loop (fuel : nat) (orig : option nat) (segdl : nat) (stop : option nat)
         (nextDepth depthSoFar : nat) (l : list nat) : option (list nat) :=
  match fuel with
  | O => None
  | S f =>
    match l with
    | [] => Some []           (* unreachable: loop entered with a defined CID *)
    | _ =>
      let got := walkl (Some nextDepth) stop l in
      let l' := skipn (length got) l in
      let depthSoFar' := depthSoFar + nextDepth in
      match l' with
      | [] => Some got                                   (* hook set Undef *)
      | n :: _ =>
        if is_stop stop n then Some got                  (* next = stop *)
        else match orig with
             | None => option_map (app got) (seg_loop f orig segdl stop nextDepth depthSoFar' l')
             | Some D =>
               if D <=? depthSoFar' then Some got
               else let rem := D - depthSoFar' in
                    let nd := if rem <? segdl then rem else nextDepth in
                    option_map (app got) (seg_loop f orig segdl stop nd depthSoFar' l')
             end
      end
    end
  end.

Definition handle_seg orig segdl stop l :=
  seg_loop (S (length l)) orig segdl stop segdl 0 l.

(* ---------- equivalence proof ---------- *)
Definition segN stop (l : list nat) := segment None stop l.

Lemma segment_firstn lim stop l :
  segment lim stop l = match lim with Some d => firstn (Nat.max d 1) (segN stop l) | None => segN stop l end.
Proof. destruct l; destruct lim; cbn; try reflexivity. now rewrite firstn_nil. Qed.

Lemma upto_prefix stop r : exists t, r = upto_stop stop r ++ t /\
   match t with [] => True | x :: _ => is_stop stop x = true end.
Proof.
  induction r as [|a r [t [E H]]]; cbn.
  - exists []; auto.
  - destruct (is_stop stop a) eqn:Ha.
    + exists (a :: r). split; auto.
    + exists t. split; [cbn; congruence|auto].
Qed.

Lemma upto_skipn stop : forall k r, k < length (upto_stop stop r) ->
  exists x t, skipn k r = x :: t /\ is_stop stop x = false /\
              x :: upto_stop stop t = skipn k (upto_stop stop r).
Proof.
  induction k as [|k IH]; intros r Hk.
  - destruct r as [|a r]; cbn in *; [lia|]. destruct (is_stop stop a) eqn:Ha; cbn in *; [lia|].
    exists a, r. cbn. rewrite Ha. auto.
  - destruct r as [|a r]; cbn in *; [lia|]. destruct (is_stop stop a) eqn:Ha; cbn in *; [lia|].
    apply IH. lia.
Qed.

Lemma segN_skipn stop k l : 1 <= k -> k < length (segN stop l) ->
  exists x t, skipn k l = x :: t /\ is_stop stop x = false /\
              segN stop (x :: t) = skipn k (segN stop l).
Proof.
  intros H1 Hk. destruct l as [|c r]; cbn in *; [lia|].
  destruct k as [|k]; [lia|]. cbn. apply upto_skipn. lia.
Qed.

Lemma segN_prefix stop l : exists t, l = segN stop l ++ t /\
   match t with [] => True | x :: _ => is_stop stop x = true end.
Proof.
  destruct l as [|c r]; cbn. { exists []; auto. }
  destruct (upto_prefix stop r) as [t [E H]]. exists t. split; [congruence|auto].
Qed.

Lemma firstn_split {A} a b (l : list A) : firstn (a + b) l = firstn a l ++ firstn b (skipn a l).
Proof.
  revert l; induction a as [|a IH]; intros l; cbn; [reflexivity|].
  destruct l; cbn; [now rewrite firstn_nil|]. now rewrite IH.
Qed.

Lemma firstn_prefix {A} k (s t : list A) : k <= length s -> firstn k (s ++ t) = firstn k s.
Proof. intros. rewrite firstn_app. replace (k - length s) with 0 by lia. cbn. now rewrite app_nil_r. Qed.

Lemma skipn_prefix {A} k (s t : list A) : k <= length s -> skipn k (s ++ t) = skipn k s ++ t.
Proof. intros. rewrite skipn_app. replace (k - length s) with 0 by lia. reflexivity. Qed.

Definition remaining (orig : option nat) dsf := match orig with Some D => Some (D - dsf) | None => None end.

Lemma seg_loop_spec stop segdl orig : 1 <= segdl ->
  forall fuel l nd dsf,
    l <> [] -> length l < fuel -> 1 <= nd ->
    match orig with
    | Some D => dsf + nd <= D /\ nd = Nat.min segdl (D - dsf)
    | None => nd = segdl
    end ->
    seg_loop fuel orig segdl stop nd dsf l = Some (segment (remaining orig dsf) stop l).
Proof.
  intros Hseg. induction fuel as [|f IH]; intros l nd dsf Hl Hf Hnd Hinv; [lia|].
  cbn [seg_loop]. destruct l as [|c r] eqn:El; [congruence|]. rewrite <- El in *.
  assert (Hw : walkl (Some nd) stop l = firstn nd (segN stop l)).
  { subst l. cbn [walkl]. rewrite walk_spec, segment_firstn. now replace (Nat.max nd 1) with nd by lia. }
  rewrite Hw. set (s := segN stop l) in *.
  destruct (segN_prefix stop l) as [t [Et Ht]]. fold s in Et.
  assert (Hs1 : 1 <= length s) by (subst l; cbn; lia).
  destruct (Nat.le_gt_cases (length s) nd) as [Hle|Hgt].
  - (* whole remaining segment fits in this walk *)
    rewrite firstn_all2 by exact Hle.
    assert (Hfin : segment (remaining orig dsf) stop l = s).
    { rewrite segment_firstn. destruct orig as [D|]; cbn; [|reflexivity]. fold s.
      apply firstn_all2. lia. }
    rewrite Hfin.
    replace (skipn (length s) l) with t.
    2:{ transitivity (skipn (length s) (s ++ t)); [|now rewrite <- Et]. now rewrite skipn_app, skipn_all, Nat.sub_diag. }
    destruct t as [|x t']; [reflexivity|]. now rewrite Ht.
  - (* the walk is cut by the segment depth *)
    rewrite firstn_length_le by lia.
    destruct (segN_skipn stop nd l Hnd Hgt) as [x [t' [Esk [Hx Eseg]]]].
    rewrite Esk, Hx.
    assert (Hlen : length (x :: t') < f).
    { rewrite <- Esk, skipn_length. assert (1 <= length l) by (rewrite El; cbn; lia). lia. }
    destruct orig as [D|].
    + destruct Hinv as [Hle Hmin]. cbn [remaining].
      destruct (D <=? dsf + nd) eqn:HD.
      * apply Nat.leb_le in HD. rewrite segment_firstn. fold s.
        replace (Nat.max (D - dsf) 1) with nd by lia. reflexivity.
      * apply Nat.leb_gt in HD.
        rewrite IH; [|congruence|exact Hlen| |].
        -- cbn [option_map remaining]. f_equal.
           rewrite !segment_firstn. rewrite Eseg. fold s.
           replace (Nat.max (D - dsf) 1) with (nd + Nat.max (D - (dsf + nd)) 1) by lia.
           now rewrite firstn_split.
        -- destruct (D - (dsf + nd) <? segdl) eqn:E; [apply Nat.ltb_lt in E|apply Nat.ltb_ge in E]; lia.
        -- destruct (D - (dsf + nd) <? segdl) eqn:E; [apply Nat.ltb_lt in E|apply Nat.ltb_ge in E]; lia.
    + subst nd. cbn [remaining].
      rewrite IH; [|congruence|exact Hlen|lia|reflexivity].
      cbn [option_map remaining]. f_equal. rewrite !segment_firstn. rewrite Eseg. fold s.
      apply firstn_skipn.
Qed.

Theorem segmented_eq_unsegmented stop segdl orig l :
  1 <= segdl -> l <> [] ->
  match orig with Some D => segdl < D | None => True end ->
  handle_seg orig segdl stop l = Some (segment orig stop l).
Proof.
  intros Hs Hl Ho. unfold handle_seg.
  rewrite (seg_loop_spec stop segdl orig Hs); [| exact Hl | lia | exact Hs |].
  - destruct orig; cbn; [now rewrite Nat.sub_0_r|reflexivity].
  - destruct orig; [lia|reflexivity].
Qed.
Print Assumptions segmented_eq_unsegmented.
