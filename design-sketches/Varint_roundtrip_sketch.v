From Coq Require Import List NArith ZArith Lia ZifyN ZifyNat ZifyBool Bool.
Import ListNotations.
Ltac Zify.zify_post_hook ::= Z.div_mod_to_equations.
Open Scope N_scope.

Inductive res (A : Type) := Ok (a : A) | Overflow | NotMinimal | Underflow.
Arguments Ok {A} a. Arguments Overflow {A}. Arguments NotMinimal {A}. Arguments Underflow {A}.

(* binary.PutUvarint *)
Fixpoint enc_f (fuel : nat) (n : N) : list N :=
  match fuel with
  | O => []
  | S f => if n <? 128 then [n] else (n mod 128 + 128) :: enc_f f (n / 128)
  end.
Definition enc (n : N) : list N := enc_f 10 n.

(* varint.FromUvarint, arithmetic form; i = index of the byte being read *)
Fixpoint dec_f (i : nat) (bs : list N) : res (N * nat) :=
  match bs with
  | [] => Underflow
  | b :: r =>
    if ((Nat.eqb i 8 && (128 <=? b)) || Nat.leb 9 i)%bool then Overflow
    else if b <? 128 then
      (if (b =? 0) && negb (Nat.eqb i 0) then NotMinimal else Ok (b, 1%nat))
    else match dec_f (S i) r with
         | Ok (v, k) => Ok (b - 128 + 128 * v, S k)
         | e => e
         end
  end.
Definition dec := dec_f 0.

Lemma dec_enc_f : forall fuel i n r,
  (i + fuel >= 10)%nat -> (i <= 9)%nat ->
  n < 2 ^ (7 * N.of_nat (9 - i)) -> (i = 0%nat \/ 0 < n) ->
  dec_f i (enc_f fuel n ++ r) = Ok (n, length (enc_f fuel n)).
Proof.
  induction fuel as [|f IH]; intros i n r Hf Hi Hn Hz; [lia|].
  cbn [enc_f]. destruct (n <? 128) eqn:Hlt.
  - cbn [app dec_f length].
    assert (Hi9 : i <> 9%nat).
    { intro; subst i. cbn in Hn. lia. }
    replace (Nat.leb 9 i) with false by (symmetry; apply Nat.leb_gt; lia).
    replace (128 <=? n) with false by lia. rewrite andb_false_r. cbn [orb].
    rewrite Hlt.
    destruct ((n =? 0) && negb (Nat.eqb i 0)) eqn:E; [|reflexivity].
    apply andb_prop in E as [E1 E2]. apply N.eqb_eq in E1. apply negb_true_iff, Nat.eqb_neq in E2. lia.
  - cbn [app dec_f length].
    assert (Hi8 : (i < 8)%nat).
    { destruct (Nat.lt_ge_cases i 8) as [|H8]; [assumption|exfalso].
      assert (i = 8 \/ i = 9)%nat as [->| ->] by lia; cbn in Hn; lia. }
    replace (Nat.eqb i 8) with false by (symmetry; apply Nat.eqb_neq; lia).
    replace (Nat.leb 9 i) with false by (symmetry; apply Nat.leb_gt; lia).
    cbn [andb orb].
    replace (n mod 128 + 128 <? 128) with false by lia.
    rewrite IH; try lia.
    all: try (f_equal; f_equal; lia).
    all: try (right; apply N.div_str_pos; lia).
    replace (9 - i)%nat with (S (9 - S i)) in Hn by lia.
    rewrite Nat2N.inj_succ, N.mul_succ_r, N.pow_add_r in Hn.
    change (2 ^ 7) with 128 in Hn.
    apply N.div_lt_upper_bound; lia.
Qed.

Theorem dec_enc n r : n < 2 ^ 63 -> dec (enc n ++ r) = Ok (n, length (enc n)).
Proof. intros. apply dec_enc_f; try lia. exact H. Qed.
Print Assumptions dec_enc.
Eval vm_compute in (enc 300, dec (enc 300 ++ [7]), dec [128;0], dec [255;255;255;255;255;255;255;255;255;1]).
