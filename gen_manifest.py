#!/usr/bin/env python3
"""Writes MANIFEST.json from props.py (so the two never drift)."""
import json, os, subprocess, sys
sys.path.insert(0, os.path.dirname(os.path.abspath(__file__)))
import props
hooks = subprocess.run(["git", "-C", "/repo", "log", "--format=%H %s"], stdout=subprocess.PIPE, text=True).stdout.strip().split("\n")
hook_commits = [l.split()[0] for l in hooks if " verif hook" in l]
# only properties the lead has integrated and seen pass are registered
enabled = [l.strip() for l in open(os.path.join(os.path.dirname(os.path.abspath(__file__)), "propcfg", "ENABLED")) if l.strip() and not l.startswith("#")]
checks = []
for pid in sorted(props.PROPS):
    if pid not in enabled:
        continue
    p = props.PROPS[pid]
    checks.append({
        "property_id": pid,
        "quick_cmd": "./check %s --tier quick" % pid,
        "thorough_cmd": "./check %s --tier thorough" % pid,
        "evidence_file": "/verif/evidence/%s.json" % pid,
        "replay_cmd_template": "./check %s --replay {path}" % pid,
        "engine": "coq-proof+correspondence",
        "level_claimed": {"category": "proof", "text": p["level_text"], "design_ref": "DESIGN.md section 4, " + pid},
        "level_note": p["level_note"],
        "technique": p["technique"],
    })
na = [{"property_id": k, "reason": "check not built yet (work in progress; see DESIGN.md section 4 for the plan)"} for k in props.ALL_IDS if k not in enabled]
m = {
    "version": 1,
    "setup_cmd": "./setup.sh",
    "hooks": {
        "guard": "verif",
        "enable": "go build -tags verif (harness module /verif/harness with replace github.com/ipni/go-libipni => /repo)",
        "baseline_off_cmd": "cd /repo && GOFLAGS=-mod=mod GOPROXY=off go test -json -vet=off -count=1 -timeout 25m ./...",
        "source_commits": hook_commits,
        "add_only": True,
    },
    "engines": [{"name": "coq-proof+correspondence", "path": "/verif/vcheck.py",
                 "serves_properties": enabled,
                 "kind_free_text": "Coq 8.16.1 theorems over hand-written executable Gallina models (coq/), tied to /repo on every run by (a) a Go harness that drives the real implementation and writes inputs+observed outputs as Coq case files evaluated with vm_compute against the model, and (b) Coq files regenerated from the Go source (coq/gen) that theorems depend on"}],
    "checks": checks,
    "not_applicable": na,
    "notes": "All checks rebuild from /repo's working tree (hooks enabled with -tags verif). See DESIGN.md.",
}
json.dump(m, open(os.path.join(os.path.dirname(os.path.abspath(__file__)), "MANIFEST.json"), "w"), indent=1)
print("MANIFEST.json: %d checks, %d not_applicable" % (len(checks), len(na)))
