// Package syncdrv is the shared driver for the dagsync checks (C01, C02, later C04): a
// publisher world of real advertisement / entry-chunk / generic blocks stored with
// schema.Linkproto, a real ipnisync.Publisher behind an httptest server that logs every
// request (optionally through a response-rewriting hook), and a runner for a real
// dagsync.Subscriber (nil libp2p host, memory datastore) that records the block-hook
// log, the return values, the latest-sync value, the SyncFinished events and the
// destination store.
//
// Blocks are named by small ranks (the Coq models use the rank as the CID).
package syncdrv

import (
	"bytes"
	"context"
	"errors"
	"fmt"
	"io"
	"net/http"
	"net/http/httptest"
	"net/url"
	"sort"
	"strings"
	"sync"
	"time"

	"github.com/ipfs/go-cid"
	"github.com/ipfs/go-datastore"
	"github.com/ipfs/go-datastore/query"
	dssync "github.com/ipfs/go-datastore/sync"
	"github.com/ipld/go-ipld-prime"
	"github.com/ipld/go-ipld-prime/codec/dagjson"
	_ "github.com/ipld/go-ipld-prime/codec/raw" // raw-codec blocks decode as bytes nodes
	"github.com/ipld/go-ipld-prime/datamodel"
	"github.com/ipld/go-ipld-prime/fluent"
	cidlink "github.com/ipld/go-ipld-prime/linking/cid"
	basicnode "github.com/ipld/go-ipld-prime/node/basic"
	"github.com/ipni/go-libipni/dagsync"
	"github.com/ipni/go-libipni/dagsync/ipnisync"
	"github.com/ipni/go-libipni/ingest/schema"
	"github.com/ipni/go-libipni/maurl"
	ic "github.com/libp2p/go-libp2p/core/crypto"
	"github.com/libp2p/go-libp2p/core/peer"
	"github.com/multiformats/go-multiaddr"
	"github.com/multiformats/go-multihash"
)

// ---------------------------------------------------------------------------
// Link systems over a datastore

func NewDS() datastore.Batching { return dssync.MutexWrap(datastore.NewMapDatastore()) }

func DSKey(c cid.Cid) datastore.Key { return datastore.NewKey(cidlink.Link{Cid: c}.String()) }

func MkLinkSystem(ds datastore.Batching) ipld.LinkSystem {
	lsys := cidlink.DefaultLinkSystem()
	lsys.StorageReadOpener = func(lctx ipld.LinkContext, lnk ipld.Link) (io.Reader, error) {
		val, err := ds.Get(context.Background(), datastore.NewKey(lnk.String()))
		if err != nil {
			return nil, err
		}
		return bytes.NewBuffer(val), nil
	}
	lsys.StorageWriteOpener = func(lctx ipld.LinkContext) (io.Writer, ipld.BlockWriteCommitter, error) {
		buf := bytes.NewBuffer(nil)
		return buf, func(lnk ipld.Link) error {
			return ds.Put(context.Background(), datastore.NewKey(lnk.String()), buf.Bytes())
		}, nil
	}
	return lsys
}

// ---------------------------------------------------------------------------
// The publisher's blocks

// Edge is one link of a block in the order a walk over the whole block meets it.
type Edge struct {
	Kind string // "prev" (field PreviousID), "next" (field Next), "other"
	To   int    // rank of the target; ForeignRank when the target is not a block of the world
}

const ForeignRank = 999

type Block struct {
	Rank  int
	Cid   cid.Cid
	Raw   []byte
	Edges []Edge
	// Direct: the test server answers requests for this block itself (the real Publisher
	// cannot serve it); Forged: Raw does NOT hash to Cid under the CID's own function
	Direct bool
	Forged bool
}

type World struct {
	DS     datastore.Batching
	Lsys   ipld.LinkSystem
	Blocks []*Block // rank i is Blocks[i-1]
	byCid  map[cid.Cid]*Block
	Proto  cidlink.LinkPrototype
	Tag    string
}

func NewWorld(tag string) *World {
	ds := NewDS()
	return &World{DS: ds, Lsys: MkLinkSystem(ds), byCid: map[cid.Cid]*Block{}, Proto: schema.Linkproto, Tag: tag}
}

// ForeignCid is a well-formed CID of no block of any world.
func ForeignCid() cid.Cid {
	mh, _ := multihash.Sum([]byte("syncdrv: not a block"), multihash.SHA2_256, -1)
	return cid.NewCidV1(cid.DagJSON, mh)
}

func (w *World) RankOf(c cid.Cid) int {
	if b, ok := w.byCid[c]; ok {
		return b.Rank
	}
	return ForeignRank
}

func (w *World) CidOf(rank int) cid.Cid {
	if rank == 0 {
		return cid.Undef
	}
	if rank == ForeignRank {
		return ForeignCid()
	}
	return w.Blocks[rank-1].Cid
}

func (w *World) store(n ipld.Node) cid.Cid {
	lnk, err := w.Lsys.Store(ipld.LinkContext{}, w.Proto, n)
	if err != nil {
		panic(err)
	}
	c := lnk.(cidlink.Link).Cid
	if _, dup := w.byCid[c]; dup {
		panic("syncdrv: duplicate block " + c.String())
	}
	raw, err := w.DS.Get(context.Background(), DSKey(c))
	if err != nil {
		panic(err)
	}
	b := &Block{Rank: len(w.Blocks) + 1, Cid: c, Raw: raw}
	w.Blocks = append(w.Blocks, b)
	w.byCid[c] = b
	// the links of the block as a walk over the stored (decoded) form meets them
	dec, err := w.Lsys.Load(ipld.LinkContext{}, lnk, basicnode.Prototype.Any)
	if err != nil {
		panic(err)
	}
	b.Edges = w.edgesOf(dec)
	return c
}

func (w *World) edgesOf(n datamodel.Node) []Edge {
	var out []Edge
	var rec func(n datamodel.Node, top string, depth int)
	rec = func(n datamodel.Node, top string, depth int) {
		switch n.Kind() {
		case datamodel.Kind_Link:
			l, _ := n.AsLink()
			kind := "other"
			if depth == 1 && top == "PreviousID" {
				kind = "prev"
			} else if depth == 1 && top == "Next" {
				kind = "next"
			}
			out = append(out, Edge{Kind: kind, To: w.RankOf(l.(cidlink.Link).Cid)})
		case datamodel.Kind_Map:
			for it := n.MapIterator(); !it.Done(); {
				k, v, err := it.Next()
				if err != nil {
					panic(err)
				}
				ks, _ := k.AsString()
				t := top
				if depth == 0 {
					t = ks
				}
				rec(v, t, depth+1)
			}
		case datamodel.Kind_List:
			for it := n.ListIterator(); !it.Done(); {
				_, v, err := it.Next()
				if err != nil {
					panic(err)
				}
				rec(v, top, depth+1)
			}
		}
	}
	rec(n, "", 0)
	return out
}

// AddAd stores a real (unsigned) advertisement; prev / entries may be cid.Undef (no
// PreviousID field / schema.NoEntries).
func (w *World) AddAd(prev, entries cid.Cid) cid.Cid {
	ad := schema.Advertisement{
		Provider:  "12D3KooWKRyzVWW6ChFjQjK4miCty85Niy48tpPV95XdKu1BcvMA",
		Addresses: []string{"/ip4/127.0.0.1/tcp/9999"},
		Entries:   schema.NoEntries,
		ContextID: []byte(fmt.Sprintf("%s-ad-%d", w.Tag, len(w.Blocks)+1)),
		Metadata:  []byte("md"),
	}
	if prev != cid.Undef {
		ad.PreviousID = cidlink.Link{Cid: prev}
	}
	if entries != cid.Undef {
		ad.Entries = cidlink.Link{Cid: entries}
	}
	n, err := ad.ToNode()
	if err != nil {
		panic(err)
	}
	return w.store(n)
}

// AddChunk stores a real entry chunk with one multihash; next may be cid.Undef.
func (w *World) AddChunk(next cid.Cid) cid.Cid {
	mh, _ := multihash.Sum([]byte(fmt.Sprintf("%s-chunk-%d", w.Tag, len(w.Blocks)+1)), multihash.SHA2_256, -1)
	ch := schema.EntryChunk{Entries: []multihash.Multihash{mh}}
	if next != cid.Undef {
		ch.Next = cidlink.Link{Cid: next}
	}
	n, err := ch.ToNode()
	if err != nil {
		panic(err)
	}
	return w.store(n)
}

// AddNode stores a generic map block {"id": .., "a": link, "b": [link, ..], ...}: direct
// links first (fields l0, l1, ...) then one list field "z" with the nested links.
func (w *World) AddNode(direct []cid.Cid, nested []cid.Cid) cid.Cid {
	id := fmt.Sprintf("%s-node-%d", w.Tag, len(w.Blocks)+1)
	n := fluent.MustBuildMap(basicnode.Prototype.Map, int64(len(direct)+2), func(ma fluent.MapAssembler) {
		ma.AssembleEntry("id").AssignString(id)
		for i, c := range direct {
			ma.AssembleEntry(fmt.Sprintf("l%d", i)).AssignLink(cidlink.Link{Cid: c})
		}
		if len(nested) > 0 {
			ma.AssembleEntry("z").CreateList(int64(len(nested)), func(la fluent.ListAssembler) {
				for _, c := range nested {
					la.AssembleValue().AssignLink(cidlink.Link{Cid: c})
				}
			})
		}
	})
	return w.store(n)
}

// AddPadded stores a dag-json map block {"id": .., "pad": "xxx.."} whose encoded form is
// exactly size bytes long.
func (w *World) AddPadded(size int) cid.Cid {
	id := fmt.Sprintf("%s-padded-%d", w.Tag, len(w.Blocks)+1)
	mk := func(pad int) ipld.Node {
		return fluent.MustBuildMap(basicnode.Prototype.Map, 2, func(ma fluent.MapAssembler) {
			ma.AssembleEntry("id").AssignString(id)
			ma.AssembleEntry("pad").AssignString(strings.Repeat("x", pad))
		})
	}
	var buf bytes.Buffer
	if err := dagjson.Encode(mk(0), &buf); err != nil {
		panic(err)
	}
	if buf.Len() > size {
		panic("syncdrv: padded block smaller than its frame")
	}
	c := w.store(mk(size - buf.Len()))
	if got := len(w.byCid[c].Raw); got != size {
		panic(fmt.Sprintf("syncdrv: padded block is %d bytes, wanted %d", got, size))
	}
	return c
}

// AddRaw stores data as a raw-codec block (CID: codec raw, the world's hash function).  The
// real Publisher re-encodes every block as dag-json and so cannot serve raw blocks; the
// Server answers requests for them with the stored bytes itself.
func (w *World) AddRaw(data []byte) cid.Cid {
	pf := w.Proto.Prefix
	pf.Codec = cid.Raw
	c, err := pf.Sum(data)
	if err != nil {
		panic(err)
	}
	if _, dup := w.byCid[c]; dup {
		panic("syncdrv: duplicate block " + c.String())
	}
	if err := w.DS.Put(context.Background(), DSKey(c), data); err != nil {
		panic(err)
	}
	b := &Block{Rank: len(w.Blocks) + 1, Cid: c, Raw: data, Direct: true}
	w.Blocks = append(w.Blocks, b)
	w.byCid[c] = b
	return c
}

// AdBytes encodes a real (unsigned) advertisement without storing it.
func (w *World) AdBytes(prev cid.Cid, tag string) []byte {
	ad := schema.Advertisement{
		Provider:  "12D3KooWKRyzVWW6ChFjQjK4miCty85Niy48tpPV95XdKu1BcvMA",
		Addresses: []string{"/ip4/127.0.0.1/tcp/9999"},
		Entries:   schema.NoEntries,
		ContextID: []byte(fmt.Sprintf("%s-forged-%s", w.Tag, tag)),
		Metadata:  []byte("md"),
	}
	if prev != cid.Undef {
		ad.PreviousID = cidlink.Link{Cid: prev}
	}
	n, err := ad.ToNode()
	if err != nil {
		panic(err)
	}
	var buf bytes.Buffer
	if err := dagjson.Encode(n, &buf); err != nil {
		panic(err)
	}
	return buf.Bytes()
}

// AddForged registers a block whose CID names the hash function `code` with a digest of
// `length` bytes that is NOT the digest of body under that function but `digest` (what a
// lying publisher announces); the test server answers requests for it with body.
func (w *World) AddForged(body []byte, codec, code uint64, digest []byte) cid.Cid {
	mh, err := multihash.Encode(digest, code)
	if err != nil {
		panic(err)
	}
	c := cid.NewCidV1(codec, mh)
	if _, dup := w.byCid[c]; dup {
		panic("syncdrv: duplicate block " + c.String())
	}
	b := &Block{Rank: len(w.Blocks) + 1, Cid: c, Raw: body, Direct: true, Forged: true}
	if codec == cid.DagJSON {
		if n, err := ipld.Decode(body, dagjson.Decode); err == nil {
			b.Edges = w.edgesOf(n)
		}
	}
	w.Blocks = append(w.Blocks, b)
	w.byCid[c] = b
	return c
}

// AdChain appends n advertisements (oldest first) on top of prev; returns them newest
// first.
func (w *World) AdChain(n int, prev cid.Cid) []cid.Cid {
	var out []cid.Cid
	for i := 0; i < n; i++ {
		prev = w.AddAd(prev, cid.Undef)
		out = append([]cid.Cid{prev}, out...)
	}
	return out
}

// ChunkChain stores n entry chunks; returns them first-to-last (traversal order).
func (w *World) ChunkChain(n int) []cid.Cid {
	var out []cid.Cid
	next := cid.Undef
	for i := 0; i < n; i++ {
		next = w.AddChunk(next)
		out = append([]cid.Cid{next}, out...)
	}
	return out
}

// ---------------------------------------------------------------------------
// A private key whose Sign can be made to wait: the publisher signs the head message for
// the root it has read, so a head request parked in Sign is known to have read the root, and
// it answers only when released.  Makes "a head request overlaps SetRoot" a deterministic
// schedule (no sleeps).  (Same device as cmd/c03's gatedKey.)

type GatedKey struct {
	ic.PrivKey
	mu      sync.Mutex
	armed   int
	entered chan chan struct{}
}

func NewGatedKey(k ic.PrivKey) *GatedKey {
	return &GatedKey{PrivKey: k, entered: make(chan chan struct{}, 16)}
}

func (k *GatedKey) Sign(data []byte) ([]byte, error) {
	k.mu.Lock()
	if k.armed > 0 {
		k.armed--
		latch := make(chan struct{})
		k.mu.Unlock()
		k.entered <- latch
		<-latch
	} else {
		k.mu.Unlock()
	}
	return k.PrivKey.Sign(data)
}

// HeadRequestAcross runs the schedule: SetRoot(during); a head request is started and parked
// in Sign (it has read `during`); SetRoot(after) returns; the request is released and
// answers.  Returns whether the request did park (a publisher that answers from a cache
// does not sign) and the status of its answer.
func (s *Server) HeadRequestAcross(k *GatedKey, during, after cid.Cid) (parked bool, status int) {
	s.Pub.SetRoot(during)
	k.mu.Lock()
	k.armed++
	k.mu.Unlock()
	done := make(chan int, 1)
	go func() {
		res, err := http.Get(s.TS.URL + ipniPrefix + "head")
		if err != nil {
			done <- -1
			return
		}
		_, _ = io.Copy(io.Discard, res.Body)
		res.Body.Close()
		done <- res.StatusCode
	}()
	var latch chan struct{}
	select {
	case latch = <-k.entered:
		parked = true
	case status = <-done:
		k.mu.Lock()
		if k.armed > 0 {
			k.armed--
		}
		k.mu.Unlock()
		s.Pub.SetRoot(after)
		return false, status
	case <-time.After(20 * time.Second):
		panic("syncdrv: head request neither signs nor answers")
	}
	s.Pub.SetRoot(after)
	close(latch)
	status = <-done
	return parked, status
}

// ---------------------------------------------------------------------------
// The publisher server

type Request struct {
	Path string
	Cid  cid.Cid // defined for block requests on the IPNI path
	Head bool
}

// Rewriter may replace the response to a block request (C02's fault injection).  idx is
// the index of this block request since the last Reset.
type Rewriter func(idx int, c cid.Cid, status int, body []byte) (int, []byte)

type Server struct {
	TS     *httptest.Server
	Pub    *ipnisync.Publisher
	Maddr  multiaddr.Multiaddr
	Key    ic.PrivKey
	PeerID peer.ID

	mu      sync.Mutex
	log     []Request
	nblock  int
	hidden  map[cid.Cid]bool // blocks the publisher pretends not to have
	rewrite Rewriter
	cutter  Cutter
	world   *World
}

// Cutter may cut a block response short IN MID-BODY: return k >= 0 to send the response
// head with the full Content-Length, k bytes of the body, and then close the connection
// (the client sees a 200 answer whose body ends with an unexpected EOF); return -1 to let
// the response through.  idx is the index of this block request since the last Reset.
type Cutter func(idx int, c cid.Cid) int

const ipniPrefix = "/ipni/v1/ad/"

func NewServer(w *World, key ic.PrivKey) *Server {
	pub, err := ipnisync.NewPublisher(w.Lsys, key, ipnisync.WithStartServer(false))
	if err != nil {
		panic(err)
	}
	pid, err := peer.IDFromPrivateKey(key)
	if err != nil {
		panic(err)
	}
	s := &Server{Pub: pub, Key: key, PeerID: pid, hidden: map[cid.Cid]bool{}, world: w}
	s.TS = httptest.NewServer(s)
	u, err := url.Parse(s.TS.URL)
	if err != nil {
		panic(err)
	}
	s.Maddr, err = maurl.FromURL(u)
	if err != nil {
		panic(err)
	}
	return s
}

func (s *Server) Close() { s.TS.Close() }

func (s *Server) AddrInfo() peer.AddrInfo {
	return peer.AddrInfo{ID: s.PeerID, Addrs: []multiaddr.Multiaddr{s.Maddr}}
}

func (s *Server) ServeHTTP(w http.ResponseWriter, r *http.Request) {
	p := r.URL.Path
	if strings.HasPrefix(p, "/.well-known/") {
		// not a libp2phttp server: the client falls back to plain HTTP
		http.NotFound(w, r)
		return
	}
	req := Request{Path: p}
	if p == ipniPrefix+"head" {
		req.Head = true
	} else if strings.HasPrefix(p, ipniPrefix) {
		if c, err := cid.Decode(strings.TrimPrefix(p, ipniPrefix)); err == nil {
			req.Cid = c
		}
	}
	s.mu.Lock()
	s.log = append(s.log, req)
	idx := -1
	if req.Cid != cid.Undef {
		idx = s.nblock
		s.nblock++
	}
	hidden := req.Cid != cid.Undef && s.hidden[req.Cid]
	rw := s.rewrite
	cut := s.cutter
	s.mu.Unlock()
	if hidden {
		http.Error(w, "cid not found", http.StatusNotFound)
		return
	}
	if req.Cid == cid.Undef {
		s.Pub.ServeHTTP(w, r)
		return
	}
	isRaw := req.Cid.Prefix().Codec == cid.Raw
	if b, ok := s.world.byCid[req.Cid]; ok && b.Direct {
		isRaw = true
	}
	if rw == nil && cut == nil && !isRaw {
		s.Pub.ServeHTTP(w, r)
		return
	}
	var status int
	var body []byte
	if isRaw {
		// the Publisher would re-encode the bytes node as dag-json: serve the block itself
		if b, ok := s.world.byCid[req.Cid]; ok {
			status, body = http.StatusOK, b.Raw
		} else {
			status, body = http.StatusNotFound, []byte("cid not found\n")
		}
	} else {
		rec := httptest.NewRecorder()
		s.Pub.ServeHTTP(rec, r)
		status, body = rec.Code, rec.Body.Bytes()
	}
	if rw != nil {
		status, body = rw(idx, req.Cid, status, body)
	}
	if cut != nil {
		if k := cut(idx, req.Cid); k >= 0 && k < len(body) {
			if hj, ok := w.(http.Hijacker); ok {
				conn, buf, err := hj.Hijack()
				if err == nil {
					fmt.Fprintf(buf, "HTTP/1.1 %d %s\r\nContent-Length: %d\r\nContent-Type: application/json\r\n\r\n", status, http.StatusText(status), len(body))
					_, _ = buf.Write(body[:k])
					_ = buf.Flush()
					_ = conn.Close()
					return
				}
			}
			panic("syncdrv: cannot hijack the connection")
		}
	}
	w.WriteHeader(status)
	_, _ = w.Write(body)
}

// Reset clears the request log and sets which blocks are hidden and the rewriter.
func (s *Server) Reset(hidden []cid.Cid, rw Rewriter) {
	s.mu.Lock()
	s.log = nil
	s.nblock = 0
	s.hidden = map[cid.Cid]bool{}
	for _, c := range hidden {
		s.hidden[c] = true
	}
	s.rewrite = rw
	s.cutter = nil
	s.mu.Unlock()
}

// SetCutter installs a Cutter until the next Reset.
func (s *Server) SetCutter(c Cutter) {
	s.mu.Lock()
	s.cutter = c
	s.mu.Unlock()
}

// TakeLog returns and clears the request log.
func (s *Server) TakeLog() []Request {
	s.mu.Lock()
	defer s.mu.Unlock()
	out := s.log
	s.log = nil
	return out
}

// BlockRequests: the CIDs asked for on the IPNI path, in order; the number of head
// queries; everything else (the legacy no-path retry after a 404, ...).
func BlockRequests(log []Request) (blocks []cid.Cid, heads int, other []string) {
	for _, r := range log {
		switch {
		case r.Head:
			heads++
		case r.Cid != cid.Undef:
			blocks = append(blocks, r.Cid)
		default:
			other = append(other, r.Path)
		}
	}
	return
}

// ---------------------------------------------------------------------------
// The subscriber side

type HookCall struct {
	Peer peer.ID
	Cid  cid.Cid
}

// Hook kinds: "general" = the library's own dagsync.MakeGeneralBlockHook (advertisement
// chains only); "nominate" = the hook the API prescribes for segmented syncs (nominates the
// block's own PreviousID / Next link, cid.Undef when it has none); "silent" = a hook that
// only records; "none" = no block hook at all.
type Sub struct {
	S      *dagsync.Subscriber
	DS     datastore.Batching
	Lsys   ipld.LinkSystem
	mu     sync.Mutex
	hooks  []HookCall
	events <-chan dagsync.SyncFinished
}

func chainLink(lsys ipld.LinkSystem, c cid.Cid) (cid.Cid, error) {
	n, err := lsys.Load(ipld.LinkContext{}, cidlink.Link{Cid: c}, basicnode.Prototype.Any)
	if err != nil {
		return cid.Undef, err
	}
	for _, f := range []string{"PreviousID", "Next"} {
		if v, err := n.LookupByString(f); err == nil && v.Kind() == datamodel.Kind_Link {
			l, _ := v.AsLink()
			return l.(cidlink.Link).Cid, nil
		}
	}
	return cid.Undef, nil
}

// MakeHook builds a block hook of the given kind that records into sub.
func (sub *Sub) MakeHook(kind string) dagsync.BlockHookFunc {
	if kind == "none" {
		return nil
	}
	var general dagsync.BlockHookFunc
	if kind == "general" {
		// the hook the library itself provides: dagsync.MakeGeneralBlockHook with a
		// prevAdCid callback that loads the advertisement from the local store
		general = dagsync.MakeGeneralBlockHook(func(adCid cid.Cid) (cid.Cid, error) {
			n, err := sub.Lsys.Load(ipld.LinkContext{}, cidlink.Link{Cid: adCid}, schema.AdvertisementPrototype)
			if err != nil {
				return cid.Undef, err
			}
			ad, err := schema.UnwrapAdvertisement(n)
			if err != nil {
				return cid.Undef, err
			}
			return ad.PreviousCid(), nil
		})
	}
	return func(p peer.ID, c cid.Cid, a dagsync.SegmentSyncActions) {
		sub.mu.Lock()
		sub.hooks = append(sub.hooks, HookCall{p, c})
		sub.mu.Unlock()
		switch kind {
		case "nominate":
			next, err := chainLink(sub.Lsys, c)
			if err != nil {
				a.FailSync(err)
				return
			}
			a.SetNextSyncCid(next)
		case "general":
			general(p, c, a)
		}
	}
}

// NewSub creates a Subscriber over a fresh memory datastore; hookKind is the general
// block hook ("none": no hook option).
func NewSub(hookKind string, opts ...dagsync.Option) *Sub {
	return NewSubTrusted(hookKind, false, opts...)
}

// NewSubTrusted: the destination link system has TrustedStorage set as given (the library's
// own tests use true; cidlink's default is false).
func NewSubTrusted(hookKind string, trusted bool, opts ...dagsync.Option) *Sub {
	ds := NewDS()
	sub := &Sub{DS: ds, Lsys: MkLinkSystem(ds)}
	sub.Lsys.TrustedStorage = trusted
	if h := sub.MakeHook(hookKind); h != nil {
		opts = append(opts, dagsync.BlockHook(h))
	}
	s, err := dagsync.NewSubscriber(nil, sub.Lsys, opts...)
	if err != nil {
		panic(err)
	}
	sub.S = s
	sub.events, _ = s.OnSyncFinished()
	return sub
}

// SyncWithSelector drives ipnisync's Syncer.Sync directly (the entry point that takes a
// caller-built selector) over the subscriber's link system; the Sync's own block hook
// records into sub.
func (sub *Sub) SyncWithSelector(ctx context.Context, srv *Server, root cid.Cid, sel ipld.Node) error {
	sy := ipnisync.NewSync(sub.Lsys, func(p peer.ID, c cid.Cid) {
		sub.mu.Lock()
		sub.hooks = append(sub.hooks, HookCall{p, c})
		sub.mu.Unlock()
	})
	defer sy.Close()
	syncer, err := sy.NewSyncer(srv.AddrInfo())
	if err != nil {
		return err
	}
	return syncer.Sync(ctx, root, sel)
}

// Prestore copies blocks of the world into the subscriber's datastore.
func (sub *Sub) Prestore(w *World, ranks []int) {
	for _, r := range ranks {
		b := w.Blocks[r-1]
		if err := sub.DS.Put(context.Background(), DSKey(b.Cid), b.Raw); err != nil {
			panic(err)
		}
	}
}

// TakeHooks returns and clears the hook log.
func (sub *Sub) TakeHooks() []HookCall {
	sub.mu.Lock()
	defer sub.mu.Unlock()
	out := sub.hooks
	sub.hooks = nil
	return out
}

// Close closes the Subscriber and returns every SyncFinished event it emitted (closing
// flushes the distributor, so no event can be missed and no waiting is involved).
func (sub *Sub) Close() []dagsync.SyncFinished {
	done := make(chan []dagsync.SyncFinished, 1)
	go func() {
		var evs []dagsync.SyncFinished
		for ev := range sub.events {
			evs = append(evs, ev)
		}
		done <- evs
	}()
	_ = sub.S.Close()
	select {
	case evs := <-done:
		return evs
	case <-time.After(10 * time.Second):
		panic("syncdrv: event channel not closed after Subscriber.Close")
	}
}

// StoreKeys: every key of the destination datastore with its value.
func (sub *Sub) StoreEntries() map[string][]byte {
	res, err := sub.DS.Query(context.Background(), query.Query{})
	if err != nil {
		panic(err)
	}
	defer res.Close()
	out := map[string][]byte{}
	for e := range res.Next() {
		if e.Error != nil {
			panic(e.Error)
		}
		out[e.Key] = e.Value
	}
	return out
}

// StoredRanks: the blocks of the world present in the destination store (sorted), and the
// keys that are not blocks of the world.
func (sub *Sub) StoredRanks(w *World) (ranks []int, unknown []string) {
	for k := range sub.StoreEntries() {
		found := false
		for _, b := range w.Blocks {
			if DSKey(b.Cid).String() == k {
				ranks = append(ranks, b.Rank)
				found = true
				break
			}
		}
		if !found {
			unknown = append(unknown, k)
		}
	}
	sort.Ints(ranks)
	sort.Strings(unknown)
	return
}

// Call runs f under recover with a timeout context.
func Call(f func(ctx context.Context) error) (err error, panicked string) {
	type out struct {
		err error
		pan string
	}
	done := make(chan out, 1)
	go func() {
		var o out
		defer func() {
			if r := recover(); r != nil {
				o.pan = fmt.Sprint(r)
			}
			done <- o
		}()
		ctx, cancel := context.WithTimeout(context.Background(), 20*time.Second)
		defer cancel()
		o.err = f(ctx)
	}()
	select {
	case o := <-done:
		return o.err, o.pan
	case <-time.After(CallBound):
		// the call ignores its context (e.g. it is busy computing): it is abandoned -- its
		// goroutine may go on -- and reported; the caller must not wait for the Subscriber
		return ErrCallTimeout, ""
	}
}

// CallBound is the wall-clock bound of Call (the context given to the call expires after
// 20 s; a call that has not returned 15 s later is abandoned).
var CallBound = 35 * time.Second

// ErrCallTimeout is returned by Call for a call that did not return within CallBound.
var ErrCallTimeout = errors.New("syncdrv: the call did not return within the bound")
