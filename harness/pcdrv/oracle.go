package pcdrv

import "fmt"

// Oracle checks an observed history directly against the text of property C06,
// independently of the Coq model.  It states necessary conditions only (exact equality of
// records is the Coq correspondence's business):
//
//   - a Refresh whose context was not cancelled returns nil and asks every source once; a
//     cancelled one returns an error and asks the sources up to the cancelling one;
//   - after a Refresh that returned nil, every provider reported by a responding source is
//     listed with an advertisement time >= every time reported now, >= the time listed
//     before (while it stayed cached), <= the newest time any source ever gave for it;
//   - a provider no responding source reports stays listed, unchanged, until a completed
//     refresh later than (first completed refresh that missed it) + ttl, and is then gone;
//   - a provider that was not listed and is not reported is not listed;
//   - a lookup of a listed provider returns the listed record and asks no source; a lookup
//     that asked every source returns the freshest record found (or none); a repeated
//     lookup of a provider found nowhere asks no source (within the time-to-live);
//   - a lookup changes nothing about other providers;
//   - every record handed out (Get, List) is, field for field, one of the records a source
//     reported for that provider (the harness identifies records by content: tag 0 = none).
//
// It returns a failure class ("" when the history is fine), the index of the failing step
// and a description.
func Oracle(nsrc int, steps []Step) (string, int, string) {
	type pst struct {
		visible   bool
		last      RecV
		missSince int64
		maxGiven  int64
		negAt     int64
		given     map[int]bool // versions (tags) the sources have reported for it
	}
	ps := map[int]*pst{}
	get := func(pid int) *pst {
		p := ps[pid]
		if p == nil {
			p = &pst{missSince: -1, negAt: -1, given: map[int]bool{}}
			ps[pid] = p
		}
		return p
	}
	eff := func(r RecV) int64 {
		if r.Time <= 0 {
			return 0
		}
		return r.Time
	}
	prev := map[int]RecV{}
	prevKnown := true
	prevKind := ""

	for si, st := range steps {
		if st.Panic != "" {
			return "panic", si, "the cache panicked: " + st.Panic
		}
		if st.Mutated != "" {
			return "held-record-mutated", si, "a record once handed to a caller must never change: " + st.Mutated
		}
		var list map[int]RecV
		if !st.NoView {
			list = map[int]RecV{}
			for i, r := range st.List {
				if i > 0 && st.List[i-1].Pid >= r.Pid {
					return "list-duplicates", si, "List returned a provider twice"
				}
				list[r.Pid] = r
			}
		}
		sum := func(a []int) int {
			t := 0
			for _, x := range a {
				t += x
			}
			return t
		}
		// what the responding sources reported in this pass
		reported := map[int]int64{}
		cancelled := false
		for _, fo := range st.Fetches {
			if fo.Kind == "found" {
				get(fo.Rec.Pid).given[fo.Rec.Tag] = true
			}
		}
		for _, so := range st.Srcs {
			if so.Kind == "cancelled" {
				cancelled = true
			}
			if so.Kind == "reports" {
				for _, r := range so.Reports {
					get(r.Pid).given[r.Tag] = true
					if t, ok := reported[r.Pid]; !ok || eff(r) > t {
						reported[r.Pid] = eff(r)
					}
				}
			}
		}

		// content: whatever is handed out is one of the reported records of that provider
		if list != nil {
			for pid, r := range list {
				if r.Tag == 0 || !get(pid).given[r.Tag] {
					return "record-not-as-reported", si, fmt.Sprintf("List returns for provider %d a record (time %d) that is not, field for field, any record a source reported for it", pid, r.Time)
				}
			}
		}
		if st.Kind == "get" && st.Got != nil && (st.Got.Tag == 0 || !get(st.Pid).given[st.Got.Tag]) {
			return "record-not-as-reported", si, fmt.Sprintf("Get returns for provider %d a record (time %d) that is not, field for field, any record a source reported for it", st.Pid, st.Got.Time)
		}
		switch st.Kind {
		case "refresh":
			for i, so := range st.Srcs {
				want := 1
				if so.Kind == "not-asked" {
					want = 0
				}
				if st.CallsAll[i] != want {
					return "refresh-calls", si, fmt.Sprintf("source %d was asked %d times by one Refresh, want %d", i, st.CallsAll[i], want)
				}
			}
			if sum(st.CallsFetch) != 0 {
				return "refresh-calls", si, "Refresh called Fetch"
			}
			if cancelled != st.Err {
				if cancelled {
					return "refresh-error", si, "Refresh with a cancelled context returned nil"
				}
				return "refresh-error", si, "Refresh returned an error although its context was live: " + st.ErrText
			}
			for pid, t := range reported {
				p := get(pid)
				if t > p.maxGiven {
					p.maxGiven = t
				}
				if cancelled {
					p.missSince = -1 // seen again
				}
			}
			if cancelled {
				// nothing is demanded of a cancelled pass; adopt what is listed now
				if list != nil {
					for pid, p := range ps {
						r, ok := list[pid]
						p.visible = ok
						if ok {
							p.last = r
						}
					}
					for pid, r := range list {
						p := get(pid)
						p.visible, p.last = true, r
					}
				}
				break
			}
			if list == nil {
				// not observable; the next observed step checks the outcome
				for pid := range reported {
					p := get(pid)
					p.visible, p.missSince, p.negAt = true, -1, -1
					p.last = RecV{Pid: pid, Time: -1}
				}
				break
			}
			for pid, t := range reported {
				p := get(pid)
				r, ok := list[pid]
				if !ok {
					return "refresh-missing-provider", si, fmt.Sprintf("Refresh returned nil, a responding source reports provider %d, but List does not have it", pid)
				}
				if eff(r) < t {
					return "refresh-stale-record", si, fmt.Sprintf("Refresh returned nil, a responding source reports provider %d with time %d, but List has the record of time %d", pid, t, eff(r))
				}
				if p.visible && p.last.Time >= 0 && eff(r) < eff(p.last) {
					return "refresh-went-back", si, fmt.Sprintf("provider %d was listed with time %d and is now listed with the older time %d", pid, eff(p.last), eff(r))
				}
				if eff(r) > p.maxGiven {
					return "refresh-unknown-time", si, fmt.Sprintf("provider %d is listed with time %d which no source ever reported", pid, eff(r))
				}
				p.visible, p.last, p.missSince, p.negAt = true, r, -1, -1
			}
			for pid, p := range ps {
				if _, rep := reported[pid]; rep {
					continue
				}
				r, ok := list[pid]
				if !p.visible {
					if ok {
						return "refresh-ghost-provider", si, fmt.Sprintf("provider %d is listed although it was not listed before and no responding source reports it", pid)
					}
					continue
				}
				if p.missSince < 0 {
					p.missSince = st.Now
				}
				if st.Now > p.missSince+VirtualTTL {
					if ok {
						return "ttl-not-removed", si, fmt.Sprintf("provider %d has not been reported since virtual time %d, the time-to-live has elapsed, and it is still listed after this refresh", pid, p.missSince)
					}
					p.visible, p.missSince = false, -1
					p.last = RecV{}
					continue
				}
				if !ok {
					return "ttl-removed-early", si, fmt.Sprintf("provider %d disappeared from List before its time-to-live elapsed (not reported since virtual time %d, now %d)", pid, p.missSince, st.Now)
				}
				if p.last.Time >= 0 && r != p.last {
					return "unreported-record-changed", si, fmt.Sprintf("provider %d is not reported by any responding source but its listed record changed", pid)
				}
				p.last = r
			}
			for pid := range list {
				if _, known := ps[pid]; !known {
					return "refresh-ghost-provider", si, fmt.Sprintf("provider %d is listed although no source ever reported it", pid)
				}
			}

		case "wait":
			if st.Err {
				return "wait-error", si, "a Refresh request with a live context returned an error: " + st.ErrText
			}
			if sum(st.CallsAll)+sum(st.CallsFetch) != 0 {
				return "wait-calls", si, "unexpected source calls"
			}
			if list == nil {
				break
			}
			// the request returned nil: "a refresh that completes without error"
			pre := "wait-"
			if prevKind == "get" {
				pre = "wait-during-miss-" // the writer was busy with a lookup miss, not a refresh
			}
			for pid, t := range reported {
				r, ok := list[pid]
				if !ok {
					return pre + "missing-provider", si, fmt.Sprintf("a Refresh request that found the writer busy returned nil, a responding source reports provider %d, but List does not have it", pid)
				}
				if eff(r) < t {
					return pre + "stale-record", si, fmt.Sprintf("a Refresh request that found the writer busy returned nil, a responding source reports provider %d with time %d, but List has the record of time %d", pid, t, eff(r))
				}
			}

		case "get":
			if st.Err {
				return "get-error", si, "Get with a live context returned an error: " + st.ErrText
			}
			if sum(st.CallsAll) != 0 {
				return "get-calls", si, "Get called FetchAll"
			}
			nf := sum(st.CallsFetch)
			for i, c := range st.CallsFetch {
				if c > 1 || (nf != 0 && c != 1) {
					return "get-calls", si, fmt.Sprintf("one lookup asked source %d %d times (total %d over %d sources)", i, c, nf, nsrc)
				}
			}
			p := get(st.Pid)
			switch {
			case p.visible:
				if nf != 0 {
					return "get-hit-asked-sources", si, fmt.Sprintf("lookup of the listed provider %d asked the sources", st.Pid)
				}
				if st.Got == nil {
					return "get-hit-no-record", si, fmt.Sprintf("lookup of the listed provider %d returned no record", st.Pid)
				}
				if p.last.Time >= 0 && *st.Got != p.last {
					return "get-hit-other-record", si, fmt.Sprintf("lookup of provider %d returned a record other than the listed one", st.Pid)
				}
			case p.negAt >= 0 && st.Now <= p.negAt+VirtualTTL:
				if nf != 0 {
					return "negative-not-cached", si, fmt.Sprintf("provider %d was found at no source by an earlier lookup, yet this lookup asked the sources again", st.Pid)
				}
				if st.Got != nil {
					return "negative-returned-record", si, fmt.Sprintf("lookup of provider %d returned a record without asking any source", st.Pid)
				}
			case nf == 0:
				// a stale negative marker (e.g. of an expired provider): allowed
				if st.Got != nil {
					return "get-record-from-nowhere", si, fmt.Sprintf("lookup of the unlisted provider %d returned a record without asking any source", st.Pid)
				}
			default:
				best, found := int64(-1), false
				for _, fo := range st.Fetches {
					if fo.Kind == "found" {
						found = true
						if eff(fo.Rec) > best {
							best = eff(fo.Rec)
						}
						if eff(fo.Rec) > p.maxGiven {
							p.maxGiven = eff(fo.Rec)
						}
					}
				}
				if !found {
					if st.Got != nil {
						return "get-record-from-nowhere", si, fmt.Sprintf("lookup of provider %d returned a record no source has", st.Pid)
					}
					p.negAt = st.Now
					break
				}
				if st.Got == nil {
					return "get-miss-no-record", si, fmt.Sprintf("lookup of provider %d asked the sources, one has it, but no record was returned", st.Pid)
				}
				if eff(*st.Got) != best {
					return "get-miss-not-freshest", si, fmt.Sprintf("lookup of provider %d returned time %d, the freshest record found has %d", st.Pid, eff(*st.Got), best)
				}
				p.visible, p.last, p.missSince, p.negAt = true, *st.Got, -1, -1
				if list != nil {
					if r, ok := list[st.Pid]; !ok || r != *st.Got {
						return "get-miss-not-listed", si, fmt.Sprintf("lookup of provider %d returned a record that List does not show afterwards", st.Pid)
					}
				}
			}
			if list != nil && prevKnown {
				for pid, r := range prev {
					if pid == st.Pid {
						continue
					}
					if r2, ok := list[pid]; !ok || r2 != r {
						return "get-changed-others", si, fmt.Sprintf("a lookup of provider %d changed what is listed for provider %d", st.Pid, pid)
					}
				}
				for pid := range list {
					if _, ok := prev[pid]; !ok && pid != st.Pid {
						return "get-changed-others", si, fmt.Sprintf("a lookup of provider %d made provider %d appear", st.Pid, pid)
					}
				}
			}
		}
		if list != nil {
			prev, prevKnown = list, true
		} else {
			prevKnown = false
		}
		prevKind = st.Kind
	}
	return "", -1, ""
}
