package pcdrv

import (
	"context"
	"encoding/json"
	"errors"
	"fmt"
	"net/http"
	"net/http/httptest"
	"path"
	"sort"
	"strings"
	"sync"
	"sync/atomic"
	"time"

	"github.com/ipfs/go-cid"
	"github.com/ipni/go-libipni/find/model"
	"github.com/ipni/go-libipni/pcache"
	"github.com/libp2p/go-libp2p/core/peer"
	"github.com/multiformats/go-multihash"

	"verif/harness/vlib"
)

// ---------------------------------------------------------------------------
// Histories

// Op is one step of a history.  "set" changes what a source reports (no cache call);
// "refresh", "get" are calls on the real cache; "expire" lets more than the time-to-live
// pass.
type Op struct {
	Kind string `json:"k"` // set | refresh | get | expire

	// set: source Src reports provider Pid with advertisement time Time
	// (Time > 0), with no time at all (Time == 0), or no longer (Time < 0)
	Src  int   `json:"src,omitempty"`
	Pid  int   `json:"pid,omitempty"`
	Time int64 `json:"t,omitempty"`

	// refresh: sources in Fail return an error; the context is cancelled during the call
	// to source CancelAt (-1: never); Overlap further Refresh requests arrive while this
	// one is in progress
	Fail     []int `json:"fail,omitempty"`
	CancelAt int   `json:"cancel_at"`
	Overlap  int   `json:"overlap,omitempty"`
	// refresh: while the pass is held inside source 0's FetchAll, a lookup of this provider
	// (> 0) starts; it can only proceed once the pass has released the write slot
	MissDuring int `json:"miss_during,omitempty"`

	// get: lookup of Pid; sources in Fail return an error from Fetch.  DuringMiss: a
	// Refresh request arrives while the miss is being fetched.
	DuringMiss bool `json:"during_miss,omitempty"`
	// with DuringMiss: while the miss's Fetch is held open (its answer already taken) and
	// before the Refresh request arrives, source DSrc starts reporting Pid with time DTime
	DSet  bool  `json:"dset,omitempty"`
	DSrc  int   `json:"dsrc,omitempty"`
	DTime int64 `json:"dtime,omitempty"`
}

func Set(src, pid int, t int64) Op { return Op{Kind: "set", Src: src, Pid: pid, Time: t, CancelAt: -1} }
func Refresh() Op                  { return Op{Kind: "refresh", CancelAt: -1} }
func RefreshFail(f ...int) Op      { return Op{Kind: "refresh", CancelAt: -1, Fail: f} }
func RefreshCancel(i int) Op       { return Op{Kind: "refresh", CancelAt: i} }
func Get(pid int) Op               { return Op{Kind: "get", Pid: pid, CancelAt: -1} }
func Expire() Op                   { return Op{Kind: "expire", CancelAt: -1} }

func (o Op) String() string {
	switch o.Kind {
	case "set":
		if o.Time < 0 {
			return fmt.Sprintf("drop(s%d,p%d)", o.Src, o.Pid)
		}
		return fmt.Sprintf("set(s%d,p%d,t%d)", o.Src, o.Pid, o.Time)
	case "refresh":
		s := "refresh"
		var a []string
		if len(o.Fail) > 0 {
			a = append(a, "fail="+strings.ReplaceAll(fmt.Sprint(o.Fail), " ", ","))
		}
		if o.CancelAt >= 0 {
			a = append(a, fmt.Sprintf("cancel@%d", o.CancelAt))
		}
		if o.Overlap > 0 {
			a = append(a, fmt.Sprintf("overlap=%d", o.Overlap))
		}
		if o.MissDuring > 0 {
			a = append(a, fmt.Sprintf("get(p%d)-arrives-during", o.MissDuring))
		}
		if len(a) > 0 {
			s += "(" + strings.Join(a, ",") + ")"
		}
		return s
	case "get":
		s := fmt.Sprintf("get(p%d", o.Pid)
		if len(o.Fail) > 0 {
			s += ",fail=" + strings.ReplaceAll(fmt.Sprint(o.Fail), " ", ",")
		}
		if o.DuringMiss {
			s += ",refresh-during-miss"
		}
		if o.DSet {
			s += fmt.Sprintf(",set(s%d,t%d)-during", o.DSrc, o.DTime)
		}
		return s + ")"
	}
	return o.Kind
}

func OpsString(ops []Op) string {
	p := make([]string, len(ops))
	for i, o := range ops {
		p[i] = o.String()
	}
	return strings.Join(p, ";")
}

type History struct {
	NSrc int  `json:"nsrc"`
	Ops  []Op `json:"ops"`
	// HTTP: the scripted sources are served by an HTTP server and reach the cache through
	// pcache's own HTTP source (pcache.NewHTTPSource): JSON listing at /providers, one
	// record at /providers/<id>
	HTTP bool `json:"http,omitempty"`
	// Opts: how the cache is configured besides WithTTL(ttl).  0: WithRefreshInterval(0)
	// (automatic refresh off); 1 / 2: the default interval (2 minutes), WithTTL given first /
	// last; 3 / 4: WithRefreshInterval(1h) given before / after WithTTL.  The configured
	// time-to-live is the one that counts in every case; refreshes are requested explicitly.
	Opts int `json:"opts,omitempty"`
}

// ---------------------------------------------------------------------------
// Observations

// RecV is a record as the model sees it: advertisement time (0 = missing) and a tag that
// identifies the version.
type RecV struct {
	Pid  int   `json:"pid"`
	Time int64 `json:"t"`
	Tag  int   `json:"tag"`
}

// SrcOut is what one source did in one Refresh pass.
type SrcOut struct {
	Kind    string `json:"k"` // reports | fails | cancelled | not-asked
	Reports []RecV `json:"reports,omitempty"`
}

// FetchOut is what one source answers (or would answer) to Fetch.
type FetchOut struct {
	Kind string `json:"k"` // found | notfound | fails
	Rec  RecV   `json:"rec,omitempty"`
}

// Step is one cache call with everything observed about it.
type Step struct {
	OpIndex int        `json:"op"`  // index in History.Ops
	Kind    string     `json:"k"`   // refresh | get | wait
	Now     int64      `json:"now"` // virtual time handed to the model
	Pid     int        `json:"pid,omitempty"`
	Srcs    []SrcOut   `json:"srcs,omitempty"`
	Fetches []FetchOut `json:"fetches,omitempty"`

	Err        bool   `json:"err"` // Refresh returned an error
	ErrText    string `json:"err_text,omitempty"`
	Got        *RecV  `json:"got,omitempty"` // Get result (nil: no record)
	CallsAll   []int  `json:"calls_all"`     // FetchAll calls per source during this step
	CallsFetch []int  `json:"calls_fetch"`   // Fetch calls per source during this step
	List       []RecV `json:"list"`          // List() after the step, sorted by provider
	Len        int    `json:"len"`           // Len() after the step
	Panic      string `json:"panic,omitempty"`
	Mutated    string `json:"mutated,omitempty"` // a record handed out earlier no longer has the content it had
	NoView     bool   `json:"no_view,omitempty"` // List/Len could not be observed right after this step
}

const (
	VirtualTTL   = 500  // case_ttl of the Coq model
	VirtualEpoch = 1000 // virtual time between two epochs
)

// ---------------------------------------------------------------------------
// Scripted source

type source struct {
	idx     int
	mu      sync.Mutex
	content map[int]*model.ProviderInfo
	recs    map[int]RecV

	nextAll   string // "" | fail | cancel
	cancel    context.CancelFunc
	failFetch bool
	gateAll   chan struct{} // when non-nil the next FetchAll waits for it
	gateFetch chan struct{}
	entered   chan struct{}

	callsAll, callsFetch atomic.Int32
}

var errScripted = errors.New("scripted source failure")

func (s *source) FetchAll(ctx context.Context) ([]*model.ProviderInfo, error) {
	s.callsAll.Add(1)
	s.mu.Lock()
	gate, entered := s.gateAll, s.entered
	s.gateAll = nil
	s.mu.Unlock()
	if gate != nil {
		close(entered)
		<-gate
	}
	s.mu.Lock()
	defer s.mu.Unlock()
	switch s.nextAll {
	case "fail":
		s.nextAll = ""
		return nil, errScripted
	case "cancel":
		s.nextAll = ""
		s.cancel()
		// (over HTTP ctx is the request's: wait until the client has dropped the call)
		select {
		case <-ctx.Done():
		case <-time.After(2 * time.Second):
		}
		return nil, context.Canceled
	}
	pids := make([]int, 0, len(s.content))
	for p := range s.content {
		pids = append(pids, p)
	}
	sort.Ints(pids)
	out := make([]*model.ProviderInfo, 0, len(pids))
	for _, p := range pids {
		out = append(out, cloneInfo(s.content[p])) // a decoding source allocates fresh records
	}
	return out, nil
}

func (s *source) Fetch(ctx context.Context, pid peer.ID) (*model.ProviderInfo, error) {
	s.callsFetch.Add(1)
	// the answer is what the source has when the call ARRIVES; it may then take a while
	// to be delivered (gate)
	s.mu.Lock()
	gate, entered := s.gateFetch, s.entered
	s.gateFetch = nil
	fail := s.failFetch
	answer := cloneInfo(s.content[PeerIndex(pid)])
	s.mu.Unlock()
	if gate != nil {
		close(entered)
		<-gate
	}
	if fail {
		return nil, errScripted
	}
	return answer, nil
}

func (s *source) String() string { return fmt.Sprintf("scripted-%d", s.idx) }

const timeBase = 1_700_000_000

func timeString(t int64) string {
	if t <= 0 {
		return ""
	}
	return time.Unix(timeBase+t, 0).UTC().Format(time.RFC3339)
}

func timeOf(s string) int64 {
	if s == "" {
		return 0
	}
	t, err := time.Parse(time.RFC3339, s)
	if err != nil {
		return 0
	}
	return t.Unix() - timeBase
}

// versionInfo builds the record of version `tag` of provider pid: every version differs
// from every other in content (addresses; extended providers present, absent, present with
// other content; metadata), so that a record assembled from two versions is none of them.
func versionInfo(pid int, t int64, tag int) *model.ProviderInfo {
	pi := &model.ProviderInfo{AddrInfo: AddrInfo(pid, tag), LastAdvertisementTime: timeString(t), LastAdvertisement: VersionCid(tag)}
	switch tag % 3 {
	case 1:
		pi.ExtendedProviders = &model.ExtendedProviders{
			Providers: []peer.AddrInfo{AddrInfo(50, tag)},
			Metadatas: [][]byte{{byte(tag), 1}},
			Contextual: []model.ContextualExtendedProviders{{ContextID: "c", Override: tag%2 == 0,
				Providers: []peer.AddrInfo{AddrInfo(51, tag)}, Metadatas: [][]byte{{byte(tag), 2}}}},
		}
	case 2:
		pi.ExtendedProviders = &model.ExtendedProviders{
			Providers: []peer.AddrInfo{AddrInfo(52, tag), AddrInfo(pid, tag+1<<20)},
			Metadatas: [][]byte{nil, {byte(tag), 3}},
		}
	}
	return pi
}

// VersionCid is the head advertisement CID of version `tag`: different for every version
func VersionCid(tag int) cid.Cid {
	h, err := multihash.Sum([]byte(fmt.Sprintf("verif-ad-%d", tag)), multihash.SHA2_256, -1)
	if err != nil {
		panic(err)
	}
	return cid.NewCidV1(cid.Raw, h)
}

func cloneInfo(pi *model.ProviderInfo) *model.ProviderInfo {
	if pi == nil {
		return nil
	}
	c := *pi
	c.AddrInfo.Addrs = append(c.AddrInfo.Addrs[:0:0], pi.AddrInfo.Addrs...)
	if xp := pi.ExtendedProviders; xp != nil {
		x := *xp
		x.Providers = append(x.Providers[:0:0], xp.Providers...)
		x.Metadatas = append(x.Metadatas[:0:0], xp.Metadatas...)
		x.Contextual = append(x.Contextual[:0:0], xp.Contextual...)
		c.ExtendedProviders = &x
	}
	return &c
}

// contentKey is the whole content of a record
func contentKey(pi *model.ProviderInfo) string {
	b, err := json.Marshal(pi)
	if err != nil {
		panic(err)
	}
	return string(b)
}

// registry of the records the scripted sources report: content -> version
type registry map[string]RecV

// recOf identifies a record the cache handed out BY ITS CONTENT.  A record that is not,
// field for field, one of the reported records gets tag 0 (no reported version has it).
func (g registry) recOf(pi *model.ProviderInfo) RecV {
	if r, ok := g[contentKey(pi)]; ok {
		return r
	}
	return RecV{Pid: PeerIndex(pi.AddrInfo.ID), Time: timeOf(pi.LastAdvertisementTime), Tag: 0}
}

// ---------------------------------------------------------------------------
// Delivery through pcache's own HTTP source

type httpHub struct {
	once sync.Once
	srv  *httptest.Server
	mu   sync.Mutex
	srcs map[string]*source
	next int
}

var hub httpHub

func (h *httpHub) start() {
	h.once.Do(func() {
		h.srcs = map[string]*source{}
		h.srv = httptest.NewServer(http.HandlerFunc(func(w http.ResponseWriter, r *http.Request) {
			h.mu.Lock()
			s := h.srcs[r.Header.Get("X-Verif-Source")]
			h.mu.Unlock()
			if s == nil {
				http.Error(w, "no such source", http.StatusBadGateway)
				return
			}
			w.Header().Set("Content-Type", "application/json")
			if strings.HasSuffix(r.URL.Path, "/providers") {
				infos, err := s.FetchAll(r.Context())
				if err != nil {
					http.Error(w, err.Error(), http.StatusInternalServerError)
					return
				}
				if infos == nil {
					infos = []*model.ProviderInfo{}
				}
				json.NewEncoder(w).Encode(infos)
				return
			}
			pid, err := peer.Decode(path.Base(r.URL.Path))
			if err != nil {
				http.Error(w, err.Error(), http.StatusBadRequest)
				return
			}
			info, err := s.Fetch(r.Context(), pid)
			if err != nil {
				http.Error(w, err.Error(), http.StatusInternalServerError)
				return
			}
			if info == nil {
				http.Error(w, "not found", http.StatusNotFound)
				return
			}
			json.NewEncoder(w).Encode(info)
		}))
	})
}

// register serves the scripted source and returns pcache's HTTP source for it
func (h *httpHub) register(s *source) (pcache.ProviderSource, func()) {
	h.start()
	h.mu.Lock()
	h.next++
	key := fmt.Sprint(h.next)
	h.srcs[key] = s
	h.mu.Unlock()
	hs, err := pcache.NewHTTPSource(h.srv.URL, nil)
	if err != nil {
		panic(err)
	}
	hs.(interface{ AddHeader(string, string) }).AddHeader("X-Verif-Source", key)
	return hs, func() {
		h.mu.Lock()
		delete(h.srcs, key)
		h.mu.Unlock()
	}
}

// ---------------------------------------------------------------------------
// Runner

type RunResult struct {
	Steps    []Step
	TimingOK bool   // every real-time margin held; otherwise the run must be repeated
	Note     string // why timing was not OK
}

// Run executes the history on a fresh real cache.
func Run(h History, ttl time.Duration, settle time.Duration) (res RunResult) {
	res.TimingOK = true
	srcs := make([]*source, h.NSrc)
	psrcs := make([]pcache.ProviderSource, h.NSrc)
	for i := range srcs {
		srcs[i] = &source{idx: i, content: map[int]*model.ProviderInfo{}, recs: map[int]RecV{}}
		psrcs[i] = srcs[i]
		if h.HTTP {
			hs, unregister := hub.register(srcs[i])
			defer unregister()
			psrcs[i] = hs
		}
	}
	opts := []pcache.Option{pcache.WithSource(psrcs...), pcache.WithPreload(false)}
	switch h.Opts {
	case 0:
		opts = append(opts, pcache.WithRefreshInterval(0), pcache.WithTTL(ttl))
	case 1:
		opts = append([]pcache.Option{pcache.WithTTL(ttl)}, opts...)
	case 2:
		opts = append(opts, pcache.WithTTL(ttl))
	case 3:
		opts = append(opts, pcache.WithRefreshInterval(time.Hour), pcache.WithTTL(ttl))
	case 4:
		opts = append(opts, pcache.WithTTL(ttl), pcache.WithRefreshInterval(time.Hour))
	}
	pc, err := pcache.New(opts...)
	if err != nil {
		panic(err)
	}
	tag := 0
	reg := registry{}
	epoch := int64(0)
	var epochStart time.Time
	epochOpen := false

	counts := func() ([]int, []int) {
		a, f := make([]int, h.NSrc), make([]int, h.NSrc)
		for i, s := range srcs {
			a[i], f[i] = int(s.callsAll.Load()), int(s.callsFetch.Load())
		}
		return a, f
	}
	delta := func(a0, a1 []int) []int {
		d := make([]int, len(a0))
		for i := range a0 {
			d[i] = a1[i] - a0[i]
		}
		return d
	}
	lastStep := false
	type heldRec struct {
		pi  *model.ProviderInfo
		key string
	}
	var held []heldRec
	hold := func(pi *model.ProviderInfo) {
		if len(held) < 4096 {
			held = append(held, heldRec{pi, contentKey(pi)})
		}
	}
	observe := func(st *Step) {
		// a record once handed to a caller never changes
		from := 0
		if len(held) > 48 && !lastStep {
			from = len(held) - 48 // the whole list is re-read at the end of the history
		}
		for _, hr := range held[from:] {
			if now := contentKey(hr.pi); now != hr.key && st.Mutated == "" {
				st.Mutated = fmt.Sprintf("a record handed out earlier (%s) now reads %s", short(hr.key), short(now))
			}
		}
		for _, pi := range pc.List() {
			st.List = append(st.List, reg.recOf(pi))
			hold(pi)
		}
		sort.Slice(st.List, func(i, j int) bool { return st.List[i].Pid < st.List[j].Pid })
		st.Len = pc.Len()
	}
	begin := func() {
		if !epochOpen {
			epochStart = time.Now()
			epochOpen = true
		}
	}
	end := func() {
		// every call of one epoch must lie within less than one ttl of real time, so
		// that nothing stamped in the epoch can expire inside it
		if time.Since(epochStart) >= ttl*9/10 {
			res.TimingOK = false
			res.Note = "an epoch took longer than the time-to-live"
		}
	}

	applySet := func(src, pid int, t int64) {
		s := srcs[src]
		s.mu.Lock()
		defer s.mu.Unlock()
		if t < 0 {
			delete(s.content, pid)
			delete(s.recs, pid)
			return
		}
		tag++
		s.content[pid] = versionInfo(pid, t, tag)
		reg[contentKey(s.content[pid])] = RecV{Pid: pid, Time: t, Tag: tag}
		s.recs[pid] = RecV{Pid: pid, Time: t, Tag: tag}
	}
	lastCall := -1
	for oi, op := range h.Ops {
		if op.Kind == "refresh" || op.Kind == "get" {
			lastCall = oi
		}
	}
	for oi, op := range h.Ops {
		lastStep = oi == lastCall
		vnow := epoch*VirtualEpoch + int64(oi)
		switch op.Kind {
		case "set":
			applySet(op.Src, op.Pid, op.Time)

		case "expire":
			// more than one ttl after the last call of the epoch
			time.Sleep(ttl + ttl/10 + time.Millisecond)
			epoch++
			epochOpen = false

		case "refresh":
			begin()
			st := Step{OpIndex: oi, Kind: "refresh", Now: vnow}
			ctx, cancel := context.WithCancel(context.Background())
			cancelled := false
			for i, s := range srcs {
				so := SrcOut{Kind: "reports"}
				s.mu.Lock()
				s.nextAll = ""
				for _, f := range op.Fail {
					if f == i {
						s.nextAll = "fail"
						so.Kind = "fails"
					}
				}
				if op.CancelAt == i {
					s.nextAll = "cancel"
					s.cancel = cancel
					so.Kind = "cancelled"
				}
				if cancelled {
					so.Kind = "not-asked"
					s.nextAll = ""
				}
				if so.Kind == "cancelled" {
					cancelled = true
				}
				if so.Kind == "reports" {
					pids := make([]int, 0, len(s.recs))
					for p := range s.recs {
						pids = append(pids, p)
					}
					sort.Ints(pids)
					for _, p := range pids {
						so.Reports = append(so.Reports, s.recs[p])
					}
				}
				s.mu.Unlock()
				st.Srcs = append(st.Srcs, so)
			}
			a0, f0 := counts()
			var waits []Step
			var missStep *Step
			func() {
				defer func() {
					if r := recover(); r != nil {
						st.Panic = fmt.Sprint(r)
					}
				}()
				if op.Overlap == 0 && op.MissDuring > 0 {
					// a lookup arrives while the pass is inside source 0's FetchAll
					gate, entered := make(chan struct{}), make(chan struct{})
					srcs[0].mu.Lock()
					srcs[0].gateAll, srcs[0].entered = gate, entered
					srcs[0].mu.Unlock()
					done := make(chan error, 1)
					go func() { done <- pc.Refresh(ctx) }()
					<-entered
					gs := Step{OpIndex: oi, Kind: "get", Now: vnow, Pid: op.MissDuring}
					type gr struct {
						pi *model.ProviderInfo
						e  error
					}
					gdone := make(chan gr, 1)
					go func() {
						pi, e := pc.Get(context.Background(), Peer(op.MissDuring))
						gdone <- gr{pi, e}
					}()
					time.Sleep(settle) // the lookup has loaded its snapshot and waits for the slot (or hit)
					close(gate)
					e := <-done
					st.Err = e != nil
					if e != nil {
						st.ErrText = e.Error()
					}
					g := <-gdone
					if g.e != nil {
						gs.Err, gs.ErrText = true, g.e.Error()
					}
					if g.pi != nil {
						hold(g.pi)
						r := reg.recOf(g.pi)
						gs.Got = &r
					}
					for _, s := range srcs {
						s.mu.Lock()
						fo := FetchOut{Kind: "notfound"}
						if r, ok := s.recs[op.MissDuring]; ok {
							fo = FetchOut{Kind: "found", Rec: r}
						}
						s.mu.Unlock()
						gs.Fetches = append(gs.Fetches, fo)
					}
					missStep = &gs
					return
				}
				if op.Overlap == 0 {
					e := pc.Refresh(ctx)
					st.Err = e != nil
					if e != nil {
						st.ErrText = e.Error()
					}
					return
				}
				// overlapping requests: hold the pass inside source 0's FetchAll
				gate, entered := make(chan struct{}), make(chan struct{})
				srcs[0].mu.Lock()
				srcs[0].gateAll, srcs[0].entered = gate, entered
				srcs[0].mu.Unlock()
				done := make(chan error, 1)
				go func() { done <- pc.Refresh(ctx) }()
				<-entered
				started := make(chan struct{}, op.Overlap)
				bdone := make(chan error, op.Overlap)
				for k := 0; k < op.Overlap; k++ {
					go func() {
						started <- struct{}{}
						bdone <- pc.Refresh(context.Background())
					}()
				}
				for k := 0; k < op.Overlap; k++ {
					<-started
				}
				time.Sleep(settle) // let the waiters reach the writer slot
				close(gate)
				e := <-done
				st.Err = e != nil
				if e != nil {
					st.ErrText = e.Error()
				}
				for k := 0; k < op.Overlap; k++ {
					be := <-bdone
					w := Step{OpIndex: oi, Kind: "wait", Now: vnow, Err: be != nil}
					if be != nil {
						w.ErrText = be.Error()
					}
					waits = append(waits, w)
				}
			}()
			cancel()
			a1, f1 := counts()
			st.CallsAll, st.CallsFetch = delta(a0, a1), delta(f0, f1)
			observe(&st)
			if missStep != nil {
				// sequentially: the pass, then the lookup (it needed the slot, or it hit
				// in the snapshot it had loaded and changed nothing)
				missStep.CallsAll, missStep.CallsFetch = make([]int, h.NSrc), st.CallsFetch
				missStep.List, missStep.Len, missStep.Mutated = st.List, st.Len, st.Mutated
				st.CallsFetch = make([]int, h.NSrc)
				st.NoView, st.List, st.Len = true, nil, 0
				waits = append(waits, *missStep)
			}
			if op.Overlap > 0 && st.Panic == "" {
				// What the pass itself asked: every source, or those up to the cancelling one.
				expect := make([]int, h.NSrc)
				for i := range expect {
					if op.CancelAt < 0 || i <= op.CancelAt {
						expect[i] = 1
					}
				}
				extra, shape := 0, true
				for i, c := range st.CallsAll {
					extra += c - expect[i]
					if c-expect[i] != 0 && c-expect[i] != 1 {
						shape = false
					}
				}
				switch {
				case extra == 0:
					// all waiters returned without a pass of their own
				case extra == h.NSrc && shape && op.CancelAt >= 0:
					// one waiter ran a full pass after the cancelled one: the history is
					// [cancelled pass; full pass; remaining waiters]
					full := Step{OpIndex: oi, Kind: "refresh", Now: vnow, Err: waits[0].Err, ErrText: waits[0].ErrText,
						CallsAll: make([]int, h.NSrc), CallsFetch: make([]int, h.NSrc), List: st.List, Len: st.Len}
					for i, s := range srcs {
						so := SrcOut{Kind: "reports"}
						s.mu.Lock()
						pids := make([]int, 0, len(s.recs))
						for p := range s.recs {
							pids = append(pids, p)
						}
						sort.Ints(pids)
						for _, p := range pids {
							so.Reports = append(so.Reports, s.recs[p])
						}
						s.mu.Unlock()
						full.Srcs = append(full.Srcs, so)
						full.CallsAll[i] = 1
					}
					st.CallsAll = expect
					st.NoView, st.List, st.Len = true, nil, 0
					waits = append([]Step{full}, waits[1:]...)
				default:
					res.TimingOK = false
					res.Note = "an overlapping request arrived after the pass had finished"
				}
			}
			res.Steps = append(res.Steps, st)
			for _, w := range waits {
				if w.Kind == "wait" {
					w.Srcs = st.Srcs // the pass it waited for
					w.CallsAll, w.CallsFetch = make([]int, h.NSrc), make([]int, h.NSrc)
					w.List, w.Len = res.Steps[len(res.Steps)-1].List, res.Steps[len(res.Steps)-1].Len
					if res.Steps[len(res.Steps)-1].NoView {
						w.NoView = true
					}
				}
				res.Steps = append(res.Steps, w)
			}
			end()
			if st.Panic != "" {
				return
			}

		case "get":
			begin()
			st := Step{OpIndex: oi, Kind: "get", Now: vnow, Pid: op.Pid}
			for i, s := range srcs {
				s.mu.Lock()
				s.failFetch = false
				for _, f := range op.Fail {
					if f == i {
						s.failFetch = true
					}
				}
				fo := FetchOut{Kind: "notfound"}
				if s.failFetch {
					fo.Kind = "fails"
				} else if r, ok := s.recs[op.Pid]; ok {
					fo = FetchOut{Kind: "found", Rec: r}
				}
				s.mu.Unlock()
				st.Fetches = append(st.Fetches, fo)
			}
			a0, f0 := counts()
			var wait *Step
			func() {
				defer func() {
					if r := recover(); r != nil {
						st.Panic = fmt.Sprint(r)
					}
				}()
				if !op.DuringMiss {
					pi, e := pc.Get(context.Background(), Peer(op.Pid))
					if e != nil {
						st.Err, st.ErrText = true, e.Error()
					}
					if pi != nil {
						hold(pi)
						r := reg.recOf(pi)
						st.Got = &r
					}
					return
				}
				// a Refresh request arrives while the miss is inside source 0's Fetch
				gate, entered := make(chan struct{}), make(chan struct{})
				srcs[0].mu.Lock()
				srcs[0].gateFetch, srcs[0].entered = gate, entered
				srcs[0].mu.Unlock()
				type gr struct {
					pi *model.ProviderInfo
					e  error
				}
				done := make(chan gr, 1)
				go func() {
					pi, e := pc.Get(context.Background(), Peer(op.Pid))
					done <- gr{pi, e}
				}()
				select {
				case <-entered:
				case g := <-done:
					// a hit: no source was asked, nothing to overlap with
					srcs[0].mu.Lock()
					srcs[0].gateFetch = nil
					srcs[0].mu.Unlock()
					if g.e != nil {
						st.Err, st.ErrText = true, g.e.Error()
					}
					if g.pi != nil {
						hold(g.pi)
						r := reg.recOf(g.pi)
						st.Got = &r
					}
					return
				}
				if op.DSet {
					applySet(op.DSrc, op.Pid, op.DTime) // the source learns of the provider now
				}
				started := make(chan struct{}, 1)
				bdone := make(chan error, 1)
				go func() {
					started <- struct{}{}
					bdone <- pc.Refresh(context.Background())
				}()
				<-started
				time.Sleep(settle)
				close(gate)
				g := <-done
				if g.e != nil {
					st.Err, st.ErrText = true, g.e.Error()
				}
				if g.pi != nil {
					r := reg.recOf(g.pi)
					st.Got = &r
				}
				be := <-bdone
				w := Step{OpIndex: oi, Kind: "wait", Now: vnow, Err: be != nil}
				if be != nil {
					w.ErrText = be.Error()
				}
				wait = &w
			}()
			a1, f1 := counts()
			st.CallsAll, st.CallsFetch = delta(a0, a1), delta(f0, f1)
			observe(&st)
			if wait != nil && st.Panic == "" {
				total := 0
				for _, c := range st.CallsAll {
					total += c
				}
				switch {
				case total == 0:
					// the request returned without any pass
					wait.CallsAll, wait.CallsFetch = make([]int, h.NSrc), make([]int, h.NSrc)
					wait.List, wait.Len = st.List, st.Len
					for _, s := range srcs {
						so := SrcOut{Kind: "reports"}
						s.mu.Lock()
						pids := make([]int, 0, len(s.recs))
						for p := range s.recs {
							pids = append(pids, p)
						}
						sort.Ints(pids)
						for _, p := range pids {
							so.Reports = append(so.Reports, s.recs[p])
						}
						s.mu.Unlock()
						wait.Srcs = append(wait.Srcs, so)
					}
				case total == h.NSrc:
					// the request ran a full pass once the miss had finished
					wait.Kind = "refresh"
					wait.CallsAll, wait.CallsFetch = st.CallsAll, make([]int, h.NSrc)
					wait.List, wait.Len = st.List, st.Len
					for _, s := range srcs {
						so := SrcOut{Kind: "reports"}
						s.mu.Lock()
						pids := make([]int, 0, len(s.recs))
						for p := range s.recs {
							pids = append(pids, p)
						}
						sort.Ints(pids)
						for _, p := range pids {
							so.Reports = append(so.Reports, s.recs[p])
						}
						s.mu.Unlock()
						wait.Srcs = append(wait.Srcs, so)
					}
					st.CallsAll = make([]int, h.NSrc)
					st.NoView, st.List, st.Len = true, nil, 0
				default:
					res.TimingOK = false
					res.Note = "unexpected FetchAll calls during a lookup"
				}
			}
			res.Steps = append(res.Steps, st)
			if wait != nil {
				res.Steps = append(res.Steps, *wait)
			}
			end()
			if st.Panic != "" {
				return
			}
		}
	}
	return res
}

func short(js string) string {
	var pi model.ProviderInfo
	if json.Unmarshal([]byte(js), &pi) != nil {
		return js
	}
	x := "none"
	if pi.ExtendedProviders != nil {
		x = fmt.Sprintf("%d chain-level/%d contextual", len(pi.ExtendedProviders.Providers), len(pi.ExtendedProviders.Contextual))
	}
	return fmt.Sprintf("{provider %d, address tag %d, time %d, extended providers: %s}", PeerIndex(pi.AddrInfo.ID), AddrTag(pi.AddrInfo.Addrs), timeOf(pi.LastAdvertisementTime), x)
}

// RunStable repeats Run until the timing margins held (at most tries times).
func RunStable(h History, ttl time.Duration, tries int) RunResult {
	settle := 2 * time.Millisecond
	var r RunResult
	for i := 0; i < tries; i++ {
		r = Run(h, ttl, settle)
		if r.TimingOK {
			return r
		}
		ttl = ttl * 2
		settle = settle * 3
	}
	return r
}

// ---------------------------------------------------------------------------
// Coq printing

func coqRec(r RecV) string {
	t := "None"
	if r.Time > 0 {
		t = "(Some " + vlib.CoqZ(r.Time) + ")"
	}
	return fmt.Sprintf("(Rec %s %d)", t, r.Tag)
}

func coqPidRecs(l []RecV) string {
	it := make([]string, len(l))
	for i, r := range l {
		it[i] = fmt.Sprintf("(%d, %s)", r.Pid, coqRec(r))
	}
	return vlib.CoqList(it)
}

// CoqStep prints one step as an obs_step of model/C06_PCache.v.
func CoqStep(st Step) string {
	var op, res string
	calls := 0
	switch st.Kind {
	case "refresh":
		outs := []string{}
		for _, so := range st.Srcs {
			switch so.Kind {
			case "reports":
				outs = append(outs, "Reports "+coqPidRecs(so.Reports))
			case "fails":
				outs = append(outs, "Fails")
			case "cancelled":
				outs = append(outs, "CancelledHere")
			case "not-asked":
				// the model stops at CancelledHere; what the remaining sources would
				// have said is irrelevant
				outs = append(outs, "Fails")
			}
		}
		for _, c := range st.CallsAll {
			calls += c
		}
		op = fmt.Sprintf("ORefresh %s %s", vlib.CoqZ(st.Now), vlib.CoqList(outs))
		res = fmt.Sprintf("RRefresh %s %s", vlib.CoqBool(st.Err), vlib.CoqNat(calls))
	case "wait":
		for _, c := range st.CallsAll {
			calls += c
		}
		op = "OWait"
		res = fmt.Sprintf("RRefresh %s %s", vlib.CoqBool(st.Err), vlib.CoqNat(calls))
	case "get":
		outs := []string{}
		for _, fo := range st.Fetches {
			switch fo.Kind {
			case "found":
				outs = append(outs, "Found "+coqRec(fo.Rec))
			case "notfound":
				outs = append(outs, "NotFound")
			default:
				outs = append(outs, "FetchFails")
			}
		}
		for _, c := range st.CallsFetch {
			calls += c
		}
		got := "None"
		if st.Got != nil {
			got = "(Some " + coqRec(*st.Got) + ")"
		}
		op = fmt.Sprintf("OGet %s %d %s", vlib.CoqZ(st.Now), st.Pid, vlib.CoqList(outs))
		res = fmt.Sprintf("RGet %s %s", got, vlib.CoqNat(calls))
	}
	if st.NoView {
		return fmt.Sprintf("OBSR (%s) (%s)", op, res)
	}
	return fmt.Sprintf("OBS (%s) (%s) %s %s", op, res, coqPidRecs(st.List), vlib.CoqNat(st.Len))
}

func CoqHistory(steps []Step) string {
	it := make([]string, len(steps))
	for i, s := range steps {
		it[i] = CoqStep(s)
	}
	return vlib.CoqList(it)
}
