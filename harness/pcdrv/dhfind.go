package pcdrv

import (
	"context"
	"sync"

	"github.com/ipni/go-libipni/dhash"
	"github.com/ipni/go-libipni/find/client"
	"github.com/ipni/go-libipni/find/model"
	"github.com/libp2p/go-libp2p/core/peer"
	"github.com/multiformats/go-multihash"
)

// MemDH is an in-memory dhstore (client.DHStoreAPI) populated through the dhash functions:
// what a double-hashed indexer would hold for the advertised (multihash, provider, context
// ID, metadata) tuples.
type MemDH struct {
	mu   sync.Mutex
	evks map[string][][]byte // second multihash -> encrypted value keys, in insertion order
	mds  map[string][]byte   // hash of value key -> encrypted metadata
}

func NewMemDH() *MemDH { return &MemDH{evks: map[string][][]byte{}, mds: map[string][]byte{}} }

// Put records that provider pid advertises mh under context ID ctxID with metadata md.
func (d *MemDH) Put(mh multihash.Multihash, pid peer.ID, ctxID, md []byte) {
	vk := dhash.CreateValueKey(pid, ctxID)
	evk, err := dhash.EncryptValueKey(vk, mh)
	if err != nil {
		panic(err)
	}
	emd, err := dhash.EncryptMetadata(md, vk)
	if err != nil {
		panic(err)
	}
	d.mu.Lock()
	defer d.mu.Unlock()
	k := string(dhash.SecondMultihash(mh))
	d.evks[k] = append(d.evks[k], evk)
	d.mds[string(dhash.SHA256(vk, nil))] = emd
}

func (d *MemDH) FindMultihash(ctx context.Context, dhmh multihash.Multihash) ([]model.EncryptedMultihashResult, error) {
	d.mu.Lock()
	defer d.mu.Unlock()
	evks := d.evks[string(dhmh)]
	if len(evks) == 0 {
		return nil, nil
	}
	r := model.EncryptedMultihashResult{Multihash: dhmh}
	for _, e := range evks {
		r.EncryptedValueKeys = append(r.EncryptedValueKeys, e)
	}
	return []model.EncryptedMultihashResult{r}, nil
}

func (d *MemDH) FindMetadata(ctx context.Context, hvk []byte) ([]byte, error) {
	d.mu.Lock()
	defer d.mu.Unlock()
	return d.mds[string(hvk)], nil
}

// NewFindClient is the real find client over this dhstore and a provider cache fed from
// the /providers endpoint at providersURL.
func NewFindClient(d *MemDH, providersURL string) *client.DHashClient {
	c, err := client.NewDHashClient(client.WithDHStoreAPI(d), client.WithProvidersURL(providersURL), client.WithPcachePreload(true))
	if err != nil {
		panic(err)
	}
	return c
}

// TestMultihash is a deterministic multihash for content number n.
func TestMultihash(n int) multihash.Multihash {
	h, err := multihash.Sum([]byte{byte(n), byte(n >> 8), 0x5a}, multihash.SHA2_256, -1)
	if err != nil {
		panic(err)
	}
	return h
}
