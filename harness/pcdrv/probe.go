package pcdrv

import (
	"fmt"
	"sort"
	"sync"
	"time"
)

// Probe measures, while a run is in progress, how late the Go scheduler wakes a goroutine
// that sleeps for one millisecond.  On a quiet machine the overshoot is well below a
// millisecond; on a machine whose cores are taken by other processes it reaches tens of
// milliseconds.  The checks use it to tell "the machine was busy" from "the code got slow
// or blocked" before they judge anything that depends on real time.
type Probe struct {
	mu   sync.Mutex
	over []time.Duration
	stop chan struct{}
	done chan struct{}
}

func StartProbe() *Probe {
	p := &Probe{stop: make(chan struct{}), done: make(chan struct{})}
	go func() {
		defer close(p.done)
		for {
			select {
			case <-p.stop:
				return
			default:
			}
			a := time.Now()
			time.Sleep(time.Millisecond)
			o := time.Since(a) - time.Millisecond
			p.mu.Lock()
			p.over = append(p.over, o)
			p.mu.Unlock()
		}
	}()
	return p
}

type ProbeStats struct {
	Samples int   `json:"samples"`
	P50us   int64 `json:"p50_us"`
	P99us   int64 `json:"p99_us"`
	MaxUs   int64 `json:"max_us"`
}

// Snapshot returns the overshoot figures so far (the probe keeps running).
func (p *Probe) Snapshot() ProbeStats {
	p.mu.Lock()
	o := append([]time.Duration{}, p.over...)
	p.mu.Unlock()
	if len(o) == 0 {
		return ProbeStats{}
	}
	sort.Slice(o, func(i, j int) bool { return o[i] < o[j] })
	return ProbeStats{Samples: len(o), P50us: o[len(o)/2].Microseconds(), P99us: o[len(o)*99/100].Microseconds(), MaxUs: o[len(o)-1].Microseconds()}
}

func (p *Probe) Stop() ProbeStats {
	close(p.stop)
	<-p.done
	return p.Snapshot()
}

// Busy says whether the machine, not the code under test, explains real-time overruns of
// the order of `margin`: the scheduler itself was late by a comparable amount.
func (s ProbeStats) Busy(margin time.Duration) bool {
	return time.Duration(s.P99us)*time.Microsecond >= margin/10 || time.Duration(s.MaxUs)*time.Microsecond >= margin/2
}

func (s ProbeStats) String() string {
	return fmt.Sprintf("scheduler wake-up overshoot of a 1 ms sleep: p50 %dus, p99 %dus, max %dus over %d samples", s.P50us, s.P99us, s.MaxUs, s.Samples)
}
