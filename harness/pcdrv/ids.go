// Package pcdrv drives the real pcache.ProviderCache with scripted provider sources,
// for the C06 and C17 correspondence checks.
package pcdrv

import (
	"fmt"
	"strconv"
	"strings"

	"github.com/libp2p/go-libp2p/core/peer"
	"github.com/multiformats/go-multiaddr"
	"github.com/multiformats/go-multihash"
)

// Peer returns the peer ID standing for provider index i (identity multihash, so it
// survives JSON encoding).
func Peer(i int) peer.ID {
	h, err := multihash.Sum([]byte(fmt.Sprintf("verif-prov-%d", i)), multihash.IDENTITY, -1)
	if err != nil {
		panic(err)
	}
	return peer.ID(h)
}

var peerIdx = map[peer.ID]int{}

func init() {
	for i := 0; i < 64; i++ {
		peerIdx[Peer(i)] = i
	}
}

// PeerIndex is the inverse of Peer (-1 when unknown).
func PeerIndex(p peer.ID) int {
	if i, ok := peerIdx[p]; ok {
		return i
	}
	return -1
}

// Addr returns the single-address list standing for tag t.
func Addr(t int) []multiaddr.Multiaddr {
	m, err := multiaddr.NewMultiaddr(fmt.Sprintf("/ip4/10.%d.%d.%d/tcp/3000", (t>>16)&255, (t>>8)&255, t&255))
	if err != nil {
		panic(err)
	}
	return []multiaddr.Multiaddr{m}
}

// AddrTag is the inverse of Addr (-1 when the list is not of that form).
func AddrTag(a []multiaddr.Multiaddr) int {
	if len(a) < 1 {
		return -1 // (a list with several addresses is named by its first)
	}
	parts := strings.Split(a[0].String(), "/")
	if len(parts) < 3 || parts[1] != "ip4" {
		return -1
	}
	q := strings.Split(parts[2], ".")
	if len(q) != 4 || q[0] != "10" {
		return -1
	}
	x, _ := strconv.Atoi(q[1])
	y, _ := strconv.Atoi(q[2])
	z, _ := strconv.Atoi(q[3])
	return x<<16 | y<<8 | z
}

// AddrInfo for provider index i with address tag t.
func AddrInfo(i, t int) peer.AddrInfo { return peer.AddrInfo{ID: Peer(i), Addrs: Addr(t)} }
