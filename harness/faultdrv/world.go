package faultdrv

import (
	"bytes"
	"context"
	"errors"
	"fmt"
	"io"
	"net/http"
	"net/http/httptest"
	"net/url"
	"sort"
	"strings"
	"sync"
	"sync/atomic"
	"time"

	"github.com/ipfs/go-cid"
	"github.com/ipfs/go-datastore"
	dsq "github.com/ipfs/go-datastore/query"
	dssync "github.com/ipfs/go-datastore/sync"
	"github.com/ipld/go-ipld-prime"
	_ "github.com/ipld/go-ipld-prime/codec/dagjson"
	"github.com/ipld/go-ipld-prime/fluent"
	cidlink "github.com/ipld/go-ipld-prime/linking/cid"
	basicnode "github.com/ipld/go-ipld-prime/node/basic"
	"github.com/ipni/go-libipni/announce"
	"github.com/ipni/go-libipni/dagsync"
	"github.com/ipni/go-libipni/dagsync/ipnisync"
	"github.com/ipni/go-libipni/maurl"
	"github.com/libp2p/go-libp2p"
	ic "github.com/libp2p/go-libp2p/core/crypto"
	"github.com/libp2p/go-libp2p/core/host"
	"github.com/libp2p/go-libp2p/core/network"
	"github.com/libp2p/go-libp2p/core/peer"
	"github.com/multiformats/go-multiaddr"
	"github.com/multiformats/go-multicodec"
	"github.com/multiformats/go-multihash"
)

const Topic = "/verif/c04"

// Wall-clock knobs.  Every bound that decides "this did NOT happen" (no event, nothing
// started) or that the code under test can trip over (the client timeout) is scaled up when a
// history is run again because its timing was suspicious; none of them turns into a failure
// on the first attempt.
var (
	// ClientTimeout is the subscriber's HTTP client timeout: what a stalled response costs.
	ClientTimeout = 200 * time.Millisecond
	// WaitScale multiplies the waits below (1 on the first attempt).
	WaitScale = 1
)

func scaled(d time.Duration) time.Duration { return d * time.Duration(WaitScale) }

func init() {
	// The subscriber's HTTP clients (plain and libp2phttp) use http.DefaultTransport.
	// net/http silently repeats an idempotent request that fails on a REUSED connection
	// (e.g. one left in the idle pool by a dial made for a cancelled discovery request);
	// the fault would then never reach Syncer.fetch.  Without pooled connections every
	// injected fault is seen by the code under test.
	if tr, ok := http.DefaultTransport.(*http.Transport); ok {
		tr.DisableKeepAlives = true
	}
}

func MkLinkSystem(ds datastore.Batching) ipld.LinkSystem {
	lsys := cidlink.DefaultLinkSystem()
	lsys.StorageReadOpener = func(lctx ipld.LinkContext, lnk ipld.Link) (io.Reader, error) {
		val, err := ds.Get(context.Background(), datastore.NewKey(lnk.String()))
		if err != nil {
			return nil, err
		}
		return bytes.NewBuffer(val), nil
	}
	lsys.StorageWriteOpener = func(lctx ipld.LinkContext) (io.Writer, ipld.BlockWriteCommitter, error) {
		buf := bytes.NewBuffer(nil)
		return buf, func(lnk ipld.Link) error {
			return ds.Put(context.Background(), datastore.NewKey(lnk.String()), buf.Bytes())
		}, nil
	}
	return lsys
}

var chainProto = cidlink.LinkPrototype{Prefix: cid.Prefix{Version: 1, Codec: uint64(multicodec.DagJson), MhType: multihash.SHA2_256, MhLength: 32}}

// mkChain stores n linked nodes {"PreviousID": link, "Seq": i, "World": nonce}; CIDs oldest
// first (position 1 = oldest = index 0).
func mkChain(lsys ipld.LinkSystem, n int, nonce string) []cid.Cid {
	var out []cid.Cid
	var prev ipld.Link
	for i := 0; i < n; i++ {
		node := fluent.MustBuildMap(basicnode.Prototype.Map, 3, func(ma fluent.MapAssembler) {
			if prev != nil {
				ma.AssembleEntry("PreviousID").AssignLink(prev)
			}
			ma.AssembleEntry("Seq").AssignInt(int64(i))
			ma.AssembleEntry("World").AssignString(nonce)
		})
		lnk, err := lsys.Store(ipld.LinkContext{}, chainProto, node)
		if err != nil {
			panic(err)
		}
		prev = lnk
		out = append(out, lnk.(cidlink.Link).Cid)
	}
	return out
}

// World is one publisher behind a fault layer.
type World struct {
	Kind   string // plain | p2phttp | stream
	S      *Script
	Key    ic.PrivKey
	ID     peer.ID
	Pub    *ipnisync.Publisher
	PubDS  datastore.Batching
	Chain  []cid.Cid // oldest first; position p (1-based) = Chain[p-1]
	pos    map[cid.Cid]int
	Addrs  []multiaddr.Multiaddr // address ids in multiaddr byte order
	hosts  []string              // host:port of each address id
	alive  []atomic.Bool
	closer []func()

	// MustExit: a subscriber is stuck for good in this process (set by History)
	MustExit bool

	// stream worlds
	pubHost host.Host
}

func (w *World) Pos(c cid.Cid) int { return w.pos[c] }

func (w *World) SetAlive(a []bool) {
	for i := range w.alive {
		v := true
		if i < len(a) {
			v = a[i]
		}
		w.alive[i].Store(v)
	}
}

func (w *World) Close() {
	for i := len(w.closer) - 1; i >= 0; i-- {
		w.closer[i]()
	}
}

func genKey(seed []byte) (ic.PrivKey, peer.ID) {
	k, _, err := ic.GenerateEd25519Key(bytes.NewReader(append(seed, make([]byte, 64)...)))
	if err != nil {
		panic(err)
	}
	id, err := peer.IDFromPrivateKey(k)
	if err != nil {
		panic(err)
	}
	return k, id
}

func newScript() *Script {
	return &Script{MaxStall: 5 * time.Second}
}

// aliveHandler consults the alive flag on every request.
func (w *World) handler(id int, discovery string, up Upstream) http.Handler {
	ha := w.S.Handler(id, true, discovery, up)
	hd := w.S.Handler(id, false, discovery, up)
	return http.HandlerFunc(func(rw http.ResponseWriter, r *http.Request) {
		if w.alive[id].Load() {
			ha.ServeHTTP(rw, r)
		} else {
			hd.ServeHTTP(rw, r)
		}
	})
}

// startServers starts n fault servers sharing one upstream and orders them by multiaddr bytes.
func (w *World) startServers(n int, discovery string, up Upstream) {
	type srv struct {
		ts *httptest.Server
		ma multiaddr.Multiaddr
		h  *http.Handler
	}
	srvs := make([]srv, n)
	for i := range srvs {
		var h http.Handler
		hp := &h
		ts := NewServer(http.HandlerFunc(func(rw http.ResponseWriter, r *http.Request) { (*hp).ServeHTTP(rw, r) }))
		u, _ := url.Parse(ts.URL)
		ma, err := maurl.FromURL(u)
		if err != nil {
			panic(err)
		}
		srvs[i] = srv{ts, ma, hp}
		w.closer = append(w.closer, ts.Close)
	}
	sort.Slice(srvs, func(i, j int) bool { return bytes.Compare(srvs[i].ma.Bytes(), srvs[j].ma.Bytes()) < 0 })
	w.alive = make([]atomic.Bool, n)
	for i, s := range srvs {
		w.alive[i].Store(true)
		*s.h = w.handler(i, discovery, up)
		w.Addrs = append(w.Addrs, s.ma)
		u, _ := url.Parse(s.ts.URL)
		w.hosts = append(w.hosts, u.Host)
	}
}

// NewWorld builds a publisher of the given kind with a chain of n blocks.
func NewWorld(kind string, n int, seed []byte) *World {
	w := &World{Kind: kind, S: newScript(), pos: map[cid.Cid]int{}}
	w.Key, w.ID = genKey(seed)
	w.PubDS = dssync.MutexWrap(datastore.NewMapDatastore())
	lsys := MkLinkSystem(w.PubDS)
	w.Chain = mkChain(lsys, n, fmt.Sprintf("%x", seed))
	for i, c := range w.Chain {
		w.pos[c] = i + 1
	}
	var err error
	switch kind {
	case "plain":
		w.Pub, err = ipnisync.NewPublisher(lsys, w.Key, ipnisync.WithStartServer(false), ipnisync.WithHeadTopic(Topic))
		if err != nil {
			panic(err)
		}
		w.startServers(3, "notfound", RecorderUpstream(w.Pub))
	case "legacy":
		// a publisher that serves "/head" and "/<cid>" only (no IPNI path)
		w.Pub, err = ipnisync.NewPublisher(lsys, w.Key, ipnisync.WithStartServer(false), ipnisync.WithHeadTopic(Topic))
		if err != nil {
			panic(err)
		}
		modern := RecorderUpstream(w.Pub)
		w.startServers(3, "notfound", func(r *http.Request) (int, []byte, error) {
			if strings.HasPrefix(r.URL.Path, "/ipni/") || strings.Count(r.URL.Path, "/") != 1 {
				return http.StatusNotFound, []byte("404 page not found\n"), nil
			}
			r2 := r.Clone(context.Background())
			r2.URL.Path = "/ipni/v1/ad" + r.URL.Path
			return modern(r2)
		})
	case "p2phttp":
		w.Pub, err = ipnisync.NewPublisher(lsys, w.Key, ipnisync.WithHTTPListenAddrs("127.0.0.1:0"), ipnisync.WithHeadTopic(Topic))
		if err != nil {
			panic(err)
		}
		w.closer = append(w.closer, func() { w.Pub.Close() })
		pu, err := maurl.ToURL(w.Pub.Addrs()[0])
		if err != nil {
			panic(err)
		}
		cl := &http.Client{Transport: &http.Transport{DisableKeepAlives: true}, Timeout: 5 * time.Second}
		w.startServers(2, "forward", ProxyUpstream(pu.String(), cl))
	case "stream":
		h, err := libp2p.New(libp2p.Identity(w.Key), libp2p.ListenAddrStrings("/ip4/127.0.0.1/tcp/0", "/ip4/127.0.0.1/tcp/0"),
			libp2p.ResourceManager(&network.NullResourceManager{}), libp2p.DisableRelay())
		if err != nil {
			panic(err)
		}
		w.pubHost = h
		w.closer = append(w.closer, func() { h.Close() })
		w.Pub, err = ipnisync.NewPublisher(lsys, w.Key, ipnisync.WithStreamHost(h), ipnisync.WithHeadTopic(Topic))
		if err != nil {
			panic(err)
		}
		w.closer = append(w.closer, func() { w.Pub.Close() })
		addrs := append([]multiaddr.Multiaddr(nil), h.Addrs()...)
		sort.Slice(addrs, func(i, j int) bool { return bytes.Compare(addrs[i].Bytes(), addrs[j].Bytes()) < 0 })
		w.Addrs = addrs
		for _, a := range addrs {
			u, err := maurl.ToURL(a)
			if err != nil {
				panic(err)
			}
			w.hosts = append(w.hosts, u.Host)
		}
		w.alive = make([]atomic.Bool, len(addrs))
		for i := range w.alive {
			w.alive[i].Store(true)
		}
	default:
		panic("faultdrv: unknown world kind " + kind)
	}
	return w
}

// ---------------------------------------------------------------------------
// Subscriber side

type Config struct {
	Seg     int `json:"seg"`      // segment depth limit; 0 = segmentation off
	Latest0 int `json:"latest0"`  // latest-synced position preset before the history (0 = none)
	Pre     []int `json:"pre,omitempty"` // positions stored locally before the history
	// Subscriber options that change the control flow around failures
	MaxAsync  int  `json:"max_async,omitempty"`  // MaxAsyncConcurrency (0 = option not given)
	NoHook    bool `json:"no_hook,omitempty"`    // no BlockHook option (no segmentation, no FailSync; hook calls cannot be seen)
	NonStrict bool `json:"non_strict,omitempty"` // StrictAdsSelector(false)
	FilterIPs bool `json:"filter_ips,omitempty"` // RecvAnnounce(.., announce.WithFilterIPs(true)): loopback addresses are dropped from announcements
	Trusted   bool `json:"trusted,omitempty"`    // the subscriber's link system has TrustedStorage = true (no hashing on load)
	// GeneralHook: the block hook is the library's own dagsync.MakeGeneralBlockHook (its
	// prevAdCid callback fails at the hook call that is to fail) instead of the harness's
	GeneralHook bool `json:"general_hook,omitempty"`
}

// Op is one sync of a history.
type Op struct {
	Mode     string  `json:"mode"`  // explicit | announce
	Addrs    []int   `json:"addrs"` // address ids in the order handed to the subscriber
	Alive    []bool  `json:"alive"` // per address id
	Head     int     `json:"head"`  // position published as root / announced
	// Head2 (mode announce2): a second, newer head announced while the sync of Head is still
	// running (its first request is being stalled), so that it is the handler's pending
	// message when the first sync ends.  The fault script runs across both syncs.
	Head2 int `json:"head2,omitempty"`
	Faults   []Fault `json:"faults,omitempty"`
	DiscFail bool    `json:"disc_fail,omitempty"`
	HookFail int     `json:"hook_fail"` // index of the hook call (within this op) that calls FailSync; -1 = none
	// HookCancelAt k > 0: hook call k-1 (within this op) cancels the caller's context (explicit syncs)
	HookCancelAt int `json:"hook_cancel_at,omitempty"`
	// PreCancel: the caller's context is cancelled before the sync is called (explicit syncs)
	PreCancel bool `json:"pre_cancel,omitempty"`
}

type Ev struct {
	Err   bool   `json:"err"`
	Cid   int    `json:"cid"`
	Count int    `json:"count"`
	Msg   string `json:"msg,omitempty"`
}

// LogEnt is a request as the model sees it.
type LogEnt struct {
	Addr   int    `json:"addr"`
	NoPath bool   `json:"nopath"`
	Rsrc   int    `json:"rsrc"` // 0 = head, p > 0 = block at position p, -1 = something else
	F      string `json:"fault"`
	Raw    string `json:"raw,omitempty"`
}

type Obs struct {
	Result   string   `json:"result"` // ok | err | noevent | event
	Cid      int      `json:"cid"`    // position returned by an explicit sync (0 = undef)
	Err      string   `json:"err,omitempty"`
	Events   []Ev     `json:"events"`
	Latest0  int      `json:"latest_before"`
	Latest   int      `json:"latest_after"`
	Store    []int    `json:"store"`
	BadStore []string `json:"bad_store,omitempty"` // stored blocks that do not hash to their key
	Log      []LogEnt `json:"log"`
	Consumed int      `json:"consumed"`
	Disc     int      `json:"disc"`
	Hooks    []int    `json:"hooks"`
	Slow     bool     `json:"slow,omitempty"`
	Millis   int      `json:"ms"`
	Panic    string   `json:"panic,omitempty"`
	// Partial: latest-sync and store were not observed after this sync (the next one was
	// already queued and started at once); the values given are what the events imply.
	Partial bool `json:"partial,omitempty"`
}

type Run struct {
	W     *World
	Cfg   Config
	Sub   *dagsync.Subscriber
	DS    datastore.Batching
	lsys  ipld.LinkSystem
	evCh  <-chan dagsync.SyncFinished
	evCan context.CancelFunc
	cliHost host.Host

	annOK map[int]bool // heads whose announce-triggered sync succeeded on this subscriber
	Hung  bool         // an explicit sync never returned: the subscriber cannot be used (or closed) any more

	hookMu   sync.Mutex
	hookLog  []int
	hookFail int
	hookN    int
	hookCancelAt int
	cancelOp     func()
}

func (w *World) logEnt(r Req) LogEnt {
	e := LogEnt{Addr: r.Addr, F: r.F.String(), Rsrc: -1}
	p := strings.TrimPrefix(r.Path, "/")
	const pre = "ipni/v1/ad/"
	if strings.HasPrefix(p, pre) {
		p = p[len(pre):]
	} else {
		e.NoPath = true
	}
	if p == "head" {
		e.Rsrc = 0
	} else if c, err := cid.Decode(p); err == nil {
		if q, ok := w.pos[c]; ok {
			e.Rsrc = q
		}
	}
	if e.Rsrc < 0 {
		e.Raw = r.Path
	}
	return e
}

// NewRun makes a fresh subscriber (fresh store, fresh syncers, fresh duplicate filter).
func (w *World) NewRun(cfg Config) *Run {
	r := &Run{W: w, Cfg: cfg, hookFail: -1, annOK: map[int]bool{}}
	r.DS = dssync.MutexWrap(datastore.NewMapDatastore())
	r.lsys = MkLinkSystem(r.DS)
	r.lsys.TrustedStorage = cfg.Trusted
	// cancellation "between the answer to a request and the next request": when the block
	// brought by an okcancel request has been committed
	inner := r.lsys.StorageWriteOpener
	r.lsys.StorageWriteOpener = func(lctx ipld.LinkContext) (io.Writer, ipld.BlockWriteCommitter, error) {
		wr, commit, err := inner(lctx)
		if err != nil {
			return wr, commit, err
		}
		return wr, func(lnk ipld.Link) error {
			err := commit(lnk)
			if c := w.S.TakeCancelOnCommit(); c != nil {
				c()
			}
			return err
		}, nil
	}
	hook := func(p peer.ID, c cid.Cid, act dagsync.SegmentSyncActions) {
		r.hookMu.Lock()
		k := r.hookN
		r.hookN++
		r.hookLog = append(r.hookLog, w.pos[c])
		fail := r.hookFail == k
		var cancelNow func()
		if r.hookCancelAt == k+1 {
			cancelNow = r.cancelOp
		}
		r.hookMu.Unlock()
		if cancelNow != nil {
			cancelNow()
		}
		prev := cid.Undef
		if q := w.pos[c]; q > 1 {
			prev = w.Chain[q-2]
		}
		if cfg.GeneralHook {
			// the library's own hook decides what to tell the sync: its callback "loads the
			// advertisement" and reports its previous one, or fails
			dagsync.MakeGeneralBlockHook(func(cid.Cid) (cid.Cid, error) {
				if fail {
					return cid.Undef, errors.New("cannot load the advertisement")
				}
				return prev, nil
			})(p, c, act)
			return
		}
		// nominate the previous advertisement, as MakeGeneralBlockHook does
		act.SetNextSyncCid(prev)
		if fail {
			act.FailSync(errors.New("hook says no"))
		}
	}
	opts := []dagsync.Option{dagsync.HttpTimeout(ClientTimeout)}
	if !cfg.NoHook {
		opts = append(opts, dagsync.BlockHook(hook))
	}
	if cfg.MaxAsync != 0 {
		opts = append(opts, dagsync.MaxAsyncConcurrency(cfg.MaxAsync))
	}
	if cfg.NonStrict {
		opts = append(opts, dagsync.StrictAdsSelector(false))
	}
	var ropts []announce.Option
	if cfg.FilterIPs {
		ropts = append(ropts, announce.WithFilterIPs(true))
	}
	if cfg.Seg > 0 {
		opts = append(opts, dagsync.SegmentDepthLimit(int64(cfg.Seg)))
	}
	var h host.Host
	if w.Kind == "stream" {
		ch, err := libp2p.New(libp2p.NoListenAddrs, libp2p.ResourceManager(&network.NullResourceManager{}), libp2p.DisableRelay())
		if err != nil {
			panic(err)
		}
		r.cliHost = ch
		h = &FaultHost{Host: ch, S: w.S, AddrOf: func(hp string) int {
			for i, x := range w.hosts {
				if x == hp {
					return i
				}
			}
			return -1
		}}
		opts = append(opts, dagsync.RecvAnnounce(Topic, ropts...))
	} else {
		opts = append(opts, dagsync.RecvAnnounce("", ropts...))
	}
	sub, err := dagsync.NewSubscriber(h, r.lsys, opts...)
	if err != nil {
		panic(err)
	}
	r.Sub = sub
	r.evCh, r.evCan = sub.OnSyncFinished()
	if cfg.Latest0 > 0 {
		if err := sub.SetLatestSync(w.ID, w.Chain[cfg.Latest0-1]); err != nil {
			panic(err)
		}
	}
	for _, p := range cfg.Pre {
		c := w.Chain[p-1]
		v, err := w.PubDS.Get(context.Background(), datastore.NewKey(cidlink.Link{Cid: c}.String()))
		if err != nil {
			panic(err)
		}
		if err := r.DS.Put(context.Background(), datastore.NewKey(cidlink.Link{Cid: c}.String()), v); err != nil {
			panic(err)
		}
	}
	return r
}

// Close shuts the subscriber down and returns events nobody collected.
func (r *Run) Close() []Ev {
	_ = r.Sub.Close()
	var late []Ev
	for ev := range r.evCh {
		late = append(late, r.ev(ev))
	}
	if r.cliHost != nil {
		_ = r.cliHost.Close()
	}
	return late
}

func (r *Run) ev(e dagsync.SyncFinished) Ev {
	ev := Ev{Err: e.Err != nil, Cid: r.W.pos[e.Cid], Count: e.Count}
	if e.Err != nil {
		ev.Msg = e.Err.Error()
	}
	return ev
}

func (r *Run) latest() int {
	l := r.Sub.GetLatestSync(r.W.ID)
	if l == nil {
		return 0
	}
	p := r.W.pos[l.(cidlink.Link).Cid]
	if p == 0 {
		return -1
	}
	return p
}

// store lists the chain positions present and audits every stored block.
func (r *Run) store() (ps []int, bad []string) {
	res, err := r.DS.Query(context.Background(), dsq.Query{})
	if err != nil {
		panic(err)
	}
	ents, err := res.Rest()
	if err != nil {
		panic(err)
	}
	for _, e := range ents {
		k := strings.TrimPrefix(e.Key, "/")
		c, err := cid.Decode(k)
		if err != nil {
			bad = append(bad, "key:"+k)
			continue
		}
		sum, err := multihash.Sum(e.Value, c.Prefix().MhType, c.Prefix().MhLength)
		if err != nil || !bytes.Equal(sum, c.Hash()) {
			bad = append(bad, "hash:"+k)
		}
		if p, ok := r.W.pos[c]; ok {
			ps = append(ps, p)
		} else {
			bad = append(bad, "foreign:"+k)
		}
	}
	sort.Ints(ps)
	return
}

// IdleWait: an announce-triggered sync that shows no activity at the fault layer for this
// long (longer than the client timeout) and has produced no event is taken to have ended
// without one.
// HungAfter: how long an explicit sync is given to return (it normally takes milliseconds,
// a few client timeouts with stalls).
var HungAfter = 8 * time.Second

func IdleWait() time.Duration { return scaled(ClientTimeout + 600*time.Millisecond) }

func (r *Run) collect(n int, wait time.Duration) []Ev {
	var out []Ev
	deadline := time.After(scaled(wait))
	tick := time.NewTicker(5 * time.Millisecond)
	defer tick.Stop()
	act, since := r.W.S.Activity(), time.Now()
	for len(out) < n {
		select {
		case e, ok := <-r.evCh:
			if !ok {
				return out
			}
			out = append(out, r.ev(e))
		case <-tick.C:
			if a := r.W.S.Activity(); a != act {
				act, since = a, time.Now()
			} else if time.Since(since) > IdleWait() {
				return out
			}
		case <-deadline:
			return out
		}
	}
	// grace: a duplicate would follow at once
	time.Sleep(time.Millisecond)
	for {
		select {
		case e, ok := <-r.evCh:
			if !ok {
				return out
			}
			out = append(out, r.ev(e))
		default:
			return out
		}
	}
}

// EventWait is how long an announce-triggered sync may take to produce its event.
var EventWait = 4 * time.Second

// Do runs one op and records what happened.
func (r *Run) Do(op Op) (o Obs) {
	w := r.W
	t0 := time.Now()
	w.SetAlive(op.Alive)
	w.Pub.SetRoot(w.Chain[op.Head-1])
	ctx, cancel := context.WithTimeout(context.Background(), scaled(30*time.Second))
	defer cancel()
	w.S.Set(op.Faults, cancel, op.DiscFail)
	r.hookMu.Lock()
	r.hookLog, r.hookN, r.hookFail, r.hookCancelAt, r.cancelOp = nil, 0, op.HookFail, op.HookCancelAt, cancel
	r.hookMu.Unlock()
	o.Latest0 = r.latest()
	addrs := make([]multiaddr.Multiaddr, len(op.Addrs))
	for i, a := range op.Addrs {
		addrs[i] = w.Addrs[a]
	}
	ai := peer.AddrInfo{ID: w.ID, Addrs: addrs}
	func() {
		defer func() {
			if x := recover(); x != nil {
				o.Panic = fmt.Sprint(x)
				o.Result = "panic"
			}
		}()
		switch op.Mode {
		case "explicit":
			// SyncAdChain takes locks that do not know about the context: a watchdog tells
			// "never returns" from "fails"
			type ret struct {
				c   cid.Cid
				err error
			}
			if op.PreCancel {
				cancel()
			}
			rc := make(chan ret, 1)
			go func() {
				defer func() {
					if x := recover(); x != nil {
						rc <- ret{cid.Undef, fmt.Errorf("panic: %v", x)}
					}
				}()
				c, err := r.Sub.SyncAdChain(ctx, ai)
				rc <- ret{c, err}
			}()
			var c cid.Cid
			var err error
			select {
			case x := <-rc:
				c, err = x.c, x.err
			case <-time.After(scaled(HungAfter)):
				o.Result, o.Err = "hung", "SyncAdChain did not return"
				r.Hung = true
			}
			if r.Hung {
				break
			}
			if err != nil && strings.HasPrefix(err.Error(), "panic: ") {
				panic(strings.TrimPrefix(err.Error(), "panic: "))
			}
			if err != nil {
				o.Result, o.Err = "err", err.Error()
				o.Events = r.collect(0, 0)
			} else {
				o.Result, o.Cid = "ok", w.pos[c]
				n := 1
				if o.Cid == o.Latest0 {
					n = 0
				}
				o.Events = r.collect(n, EventWait)
			}
		case "announce":
			if err := r.Sub.Announce(ctx, w.Chain[op.Head-1], ai); err != nil {
				o.Result, o.Err = "err", err.Error()
				break
			}
			if o.Latest0 == op.Head || r.annOK[op.Head] {
				// already synced (or an announce-triggered sync of this CID succeeded before: the
				// duplicate filter drops it): the announcement must not start anything; a short
				// look suffices
				o.Events = r.collect(1, 30*time.Millisecond)
			} else {
				o.Events = r.collect(1, EventWait)
			}
			if len(o.Events) == 0 {
				o.Result = "noevent"
			} else {
				o.Result = "event"
			}
		case "announce2":
			act := w.S.Activity()
			if err := r.Sub.Announce(ctx, w.Chain[op.Head-1], ai); err != nil {
				o.Result, o.Err = "err", err.Error()
				break
			}
			// wait until the first request of that sync has reached the fault layer (it is
			// being stalled there), then announce the newer head
			for t0 := time.Now(); w.S.Activity() == act && time.Since(t0) < scaled(3*time.Second); {
				time.Sleep(time.Millisecond)
			}
			if err := r.Sub.Announce(ctx, w.Chain[op.Head2-1], ai); err != nil {
				o.Result, o.Err = "err", err.Error()
				break
			}
			o.Events = r.collect(2, EventWait)
			if len(o.Events) == 0 {
				o.Result = "noevent"
			} else {
				o.Result = "event"
			}
		default:
			panic("faultdrv: unknown mode " + op.Mode)
		}
	}()
	if op.Mode != "explicit" {
		for _, e := range o.Events {
			if !e.Err {
				r.annOK[e.Cid] = true
			}
		}
	}
	o.Latest = r.latest()
	o.Store, o.BadStore = r.store()
	log, consumed, disc, slow := w.S.Take()
	for _, q := range log {
		e := w.logEnt(q)
		o.Log = append(o.Log, e)
	}
	o.Consumed, o.Disc, o.Slow = consumed, disc, slow
	r.hookMu.Lock()
	o.Hooks = append([]int(nil), r.hookLog...)
	r.hookMu.Unlock()
	o.Millis = int(time.Since(t0) / time.Millisecond)
	return o
}

// Split turns the observation of an announce2 op into the two syncs that happened: the
// sync of Head (everything before the first request / hook call for Head2) and the sync of
// Head2.  What lies between them was not observed (Partial).
func (w *World) Split(op Op, o Obs, prevStore []int) (opX, opY Op, oX, oY Obs) {
	iY := len(o.Log)
	for i, e := range o.Log {
		if e.Rsrc == op.Head2 {
			iY = i
			break
		}
	}
	hY := len(o.Hooks)
	for i, p := range o.Hooks {
		if p == op.Head2 {
			hY = i
			break
		}
	}
	consumed := 0
	have := map[int]bool{}
	for _, p := range prevStore {
		have[p] = true
	}
	for _, e := range o.Log[:iY] {
		if e.F != "dead" {
			consumed++
		}
		if e.F == "ok" && e.Rsrc > 0 && e.NoPath == (w.Kind == "legacy") {
			have[e.Rsrc] = true
		}
	}
	if consumed > len(op.Faults) {
		consumed = len(op.Faults)
	}
	opX = Op{Mode: "announce", Addrs: op.Addrs, Alive: op.Alive, Head: op.Head, Faults: op.Faults[:consumed], DiscFail: op.DiscFail, HookFail: -1}
	opY = Op{Mode: "announce", Addrs: op.Addrs, Alive: op.Alive, Head: op.Head2, Faults: op.Faults[consumed:], HookFail: -1}
	oX = Obs{Result: "noevent", Latest0: o.Latest0, Latest: o.Latest0, Log: o.Log[:iY], Hooks: o.Hooks[:hY], Partial: true, Millis: o.Millis, Slow: o.Slow, Panic: o.Panic}
	oY = Obs{Result: "noevent", Latest: o.Latest, Store: o.Store, BadStore: o.BadStore, Log: o.Log[iY:], Hooks: o.Hooks[hY:], Consumed: o.Consumed - consumed, Err: o.Err}
	if o.Result == "panic" {
		oX.Result = "panic"
	}
	if len(o.Events) > 0 {
		oX.Result, oX.Events = "event", o.Events[:1]
		if !o.Events[0].Err {
			oX.Latest = op.Head
		}
	}
	if len(o.Events) > 1 {
		oY.Result, oY.Events = "event", o.Events[1:]
	}
	for p := range have {
		oX.Store = append(oX.Store, p)
	}
	sort.Ints(oX.Store)
	oY.Latest0 = oX.Latest
	return
}

// History runs the ops on one fresh subscriber.  eff is the list of syncs that happened (an
// announce2 op is two), obs what was observed of each.
func (w *World) History(cfg Config, ops []Op) (eff []Op, obs []Obs, late []Ev) {
	r := w.NewRun(cfg)
	prev := append([]int(nil), cfg.Pre...)
	sort.Ints(prev)
	for _, op := range ops {
		if r.Hung {
			break
		}
		o := r.Do(op)
		if op.Mode == "announce2" {
			opX, opY, oX, oY := w.Split(op, o, prev)
			eff = append(eff, opX, opY)
			obs = append(obs, oX, oY)
		} else {
			eff = append(eff, op)
			obs = append(obs, o)
		}
		prev = o.Store
	}
	if r.Hung {
		// Close would wait for the sync that never returns; the process must be replaced
		w.MustExit = true
		return
	}
	late = r.Close()
	return
}
