// Package faultdrv puts a fault-injecting layer between a real dagsync.Subscriber and real
// ipnisync publishers, for the C04 check ("a failed sync changes nothing durable and does
// not impair later syncs").
//
// Three kinds of publisher ("worlds"):
//
//	plain    ipnisync.NewPublisher(WithStartServer(false)) mounted on an external HTTP server
//	         (no libp2p-HTTP discovery: the client falls back to plain HTTP); 1 or 2 addresses,
//	         each alive or dead (accepts and drops every connection)
//	p2phttp  ipnisync.NewPublisher(WithHTTPListenAddrs) = a libp2phttp.Host serving HTTP,
//	         reached through a reverse proxy that applies the faults; discovery
//	         (.well-known/libp2p/protocols) goes through the proxy too
//	stream   ipnisync.NewPublisher(WithStreamHost) reached over libp2p streams between two
//	         loopback hosts; the faults are applied by a wrapper around the subscriber's
//	         host (NewStream returns a stream that tampers with the HTTP response)
//
// Every request of a sync consumes one element of the fault script of the world and is
// logged (address index, URL path, fault applied).
package faultdrv

import (
	"bufio"
	"bytes"
	"context"
	"fmt"
	"io"
	"net"
	"net/http"
	"net/http/httptest"
	"os"
	"strings"
	"sync"
	"time"

	"github.com/libp2p/go-libp2p/core/host"
	"github.com/libp2p/go-libp2p/core/network"
	"github.com/libp2p/go-libp2p/core/peer"
	"github.com/libp2p/go-libp2p/core/protocol"
)

// Fault is what happens to one request.
type Fault struct {
	// ok | status | notfound | forbidden | transport | tcpreset | reset | corrupt |
	// truncated | stallhdr | stallbody | cancel
	K string `json:"k"`
	N int    `json:"n,omitempty"` // status code for K == "status"
}

func (f Fault) String() string {
	if f.K == "status" {
		return fmt.Sprintf("status%d", f.N)
	}
	return f.K
}

// Req is one logged request.
type Req struct {
	Addr  int    `json:"addr"`
	Path  string `json:"path"`
	F     Fault  `json:"fault"`
	SlowMs int   `json:"slow_ms,omitempty"` // time the upstream took when that is suspicious
}

// Script is the per-world fault script and request log.
type Script struct {
	mu        sync.Mutex
	faults    []Fault
	pos       int
	log       []Req
	cancel    func() // called by a "cancel" fault
	onCommit  bool   // an "okcancel" request was answered: cancel when its block has been committed
	discFail  bool   // discovery requests fail
	discCount int
	slow      bool // some un-faulted request was slow enough to risk a client timeout
	MaxStall  time.Duration
	SlowLimit time.Duration
}

func (s *Script) Set(faults []Fault, cancel func(), discFail bool) {
	s.mu.Lock()
	s.faults, s.pos, s.log, s.cancel, s.discFail, s.discCount, s.slow, s.onCommit = faults, 0, nil, cancel, discFail, 0, false, false
	s.mu.Unlock()
}

// Take returns the log and clears it.
func (s *Script) Take() (log []Req, consumed int, disc int, slow bool) {
	s.mu.Lock()
	defer s.mu.Unlock()
	log, consumed, disc, slow = s.log, s.pos, s.discCount, s.slow
	s.log = nil
	return
}

func (s *Script) next(addr int, path string) (Fault, func()) {
	s.mu.Lock()
	defer s.mu.Unlock()
	f := Fault{K: "ok"}
	if s.pos < len(s.faults) {
		f = s.faults[s.pos]
	}
	s.pos++
	s.log = append(s.log, Req{Addr: addr, Path: path, F: f})
	if f.K == "okcancel" {
		s.onCommit = true
	}
	return f, s.cancel
}

// Activity grows whenever a request (of any kind) reaches the fault layer.
func (s *Script) Activity() int {
	s.mu.Lock()
	defer s.mu.Unlock()
	return s.pos + s.discCount + len(s.log)
}

// TakeCancelOnCommit: called by the subscriber's store after a block was committed; returns
// the cancel function when the request that brought the block was an "okcancel" one.
func (s *Script) TakeCancelOnCommit() func() {
	s.mu.Lock()
	defer s.mu.Unlock()
	if !s.onCommit {
		return nil
	}
	s.onCommit = false
	return s.cancel
}

func (s *Script) dead(addr int, path string) {
	s.mu.Lock()
	s.log = append(s.log, Req{Addr: addr, Path: path, F: Fault{K: "dead"}})
	s.mu.Unlock()
}

func (s *Script) discovery() bool {
	s.mu.Lock()
	defer s.mu.Unlock()
	s.discCount++
	return s.discFail
}

func (s *Script) noteSlow(d time.Duration) {
	// an un-faulted answer that took a sizeable part of the client timeout: the timeout may
	// have fired (or nearly) for a reason that is not in the script
	if d > ClientTimeout/3 {
		s.mu.Lock()
		s.slow = true
		s.mu.Unlock()
	}
}

func isDiscovery(p string) bool { return strings.Contains(p, ".well-known/") }

// Upstream produces the publisher's genuine answer to a request.
type Upstream func(r *http.Request) (status int, body []byte, err error)

func hijackClose(w http.ResponseWriter, rst bool) {
	hj, ok := w.(http.Hijacker)
	if !ok {
		panic("faultdrv: response writer cannot be hijacked")
	}
	conn, _, err := hj.Hijack()
	if err != nil {
		return
	}
	if rst {
		if tc, ok := conn.(*net.TCPConn); ok {
			_ = tc.SetLinger(0)
		}
	}
	_ = conn.Close()
}

// CorruptBody returns a copy differing from b in one byte (or one more byte when empty).
func CorruptBody(b []byte) []byte {
	if len(b) == 0 {
		return []byte{'x'}
	}
	c := append([]byte(nil), b...)
	c[len(c)/2] ^= 0x55
	return c
}

// CorruptParseable changes the body so that it still decodes (dag-json): one character inside
// the value of the "World" string of a chain block.  Anything else gets CorruptBody.
func CorruptParseable(b []byte) []byte {
	key := []byte(`"World":"`)
	i := bytes.Index(b, key)
	if i < 0 || i+len(key) >= len(b) || b[i+len(key)] == '"' {
		return CorruptBody(b)
	}
	c := append([]byte(nil), b...)
	j := i + len(key)
	if c[j] == '0' {
		c[j] = '1'
	} else {
		c[j] = '0'
	}
	return c
}

func waitGone(r *http.Request, max time.Duration) {
	select {
	case <-r.Context().Done():
	case <-time.After(max):
	}
}

// Handler is the HTTP form of the fault layer for address index addr.
func (s *Script) Handler(addr int, alive bool, discovery string, up Upstream) http.Handler {
	return http.HandlerFunc(func(w http.ResponseWriter, r *http.Request) {
		p := r.URL.Path
		if isDiscovery(p) {
			fail := s.discovery()
			switch {
			case !alive || fail:
				hijackClose(w, false)
			case discovery == "forward":
				st, body, err := up(r)
				if err != nil {
					hijackClose(w, false)
					return
				}
				w.Header().Set("Content-Type", "application/json")
				w.WriteHeader(st)
				_, _ = w.Write(body)
			default:
				http.NotFound(w, r)
			}
			return
		}
		if !alive {
			s.dead(addr, p)
			hijackClose(w, false)
			return
		}
		f, cancel := s.next(addr, p)
		switch f.K {
		case "status":
			http.Error(w, "injected", f.N)
			return
		case "notfound":
			http.Error(w, "injected not found", http.StatusNotFound)
			return
		case "forbidden":
			http.Error(w, "injected forbidden", http.StatusForbidden)
			return
		case "transport", "reset":
			hijackClose(w, false)
			return
		case "tcpreset":
			hijackClose(w, true)
			return
		case "stallhdr":
			waitGone(r, s.MaxStall)
			hijackClose(w, false)
			return
		case "cancel":
			if cancel != nil {
				cancel()
			}
			waitGone(r, s.MaxStall)
			hijackClose(w, false)
			return
		}
		t0 := time.Now()
		st, body, err := up(r)
		s.noteSlow(time.Since(t0))
		if err != nil {
			hijackClose(w, false)
			return
		}
		switch f.K {
		case "ok", "okcancel":
			w.WriteHeader(st)
			_, _ = w.Write(body)
		case "corrupt":
			w.WriteHeader(st)
			_, _ = w.Write(CorruptBody(body))
		case "corruptp":
			w.WriteHeader(st)
			_, _ = w.Write(CorruptParseable(body))
		case "truncated":
			w.Header().Set("Content-Length", fmt.Sprint(len(body)+1))
			w.WriteHeader(st)
			_, _ = w.Write(body[:len(body)/2])
			if fl, ok := w.(http.Flusher); ok {
				fl.Flush()
			}
			hijackClose(w, false)
		case "stallbody":
			w.Header().Set("Content-Length", fmt.Sprint(len(body)+1))
			w.WriteHeader(st)
			_, _ = w.Write(body[:len(body)/2])
			if fl, ok := w.(http.Flusher); ok {
				fl.Flush()
			}
			waitGone(r, s.MaxStall)
			hijackClose(w, false)
		default:
			panic("faultdrv: unknown fault " + f.K)
		}
	})
}

// NewServer starts an HTTP server (keep-alives off, so that net/http never silently
// repeats a request on a reused connection) for the handler.
func NewServer(h http.Handler) *httptest.Server {
	ts := httptest.NewUnstartedServer(h)
	ts.Config.SetKeepAlivesEnabled(false)
	ts.Start()
	return ts
}

// RecorderUpstream answers from an in-process handler.
func RecorderUpstream(h http.Handler) Upstream {
	return func(r *http.Request) (int, []byte, error) {
		rec := httptest.NewRecorder()
		r2 := r.Clone(context.Background())
		h.ServeHTTP(rec, r2)
		return rec.Code, rec.Body.Bytes(), nil
	}
}

// ProxyUpstream forwards to a real server.
func ProxyUpstream(base string, client *http.Client) Upstream {
	return func(r *http.Request) (int, []byte, error) {
		req, err := http.NewRequest(r.Method, base+r.URL.Path, nil)
		if err != nil {
			return 0, nil, err
		}
		for k, v := range r.Header {
			req.Header[k] = v
		}
		resp, err := client.Do(req)
		if err != nil {
			return 0, nil, err
		}
		defer resp.Body.Close()
		b, err := io.ReadAll(resp.Body)
		return resp.StatusCode, b, err
	}
}

// ---------------------------------------------------------------------------
// libp2p stream form of the fault layer: wraps the CLIENT's host.

const httpStreamProto = protocol.ID("/http/1.1")

type FaultHost struct {
	host.Host
	S      *Script
	AddrOf func(hostport string) int // which address id a request's Host header names
}

func (h *FaultHost) NewStream(ctx context.Context, p peer.ID, pids ...protocol.ID) (network.Stream, error) {
	st, err := h.Host.NewStream(ctx, p, pids...)
	if err != nil {
		return nil, err
	}
	isHTTP := false
	for _, id := range pids {
		if id == httpStreamProto {
			isHTTP = true
		}
	}
	if !isHTTP {
		return st, nil
	}
	return &faultStream{Stream: st, s: h.S, reqReady: make(chan struct{}), addrOf: h.AddrOf}, nil
}

// faultStream sees the request written by libp2phttp's stream round tripper, decides the
// fault when the request line is known, and serves a tampered response to Read.
type faultStream struct {
	network.Stream
	s *Script

	wmu      sync.Mutex
	wbuf     bytes.Buffer
	path     string
	hostHdr  string
	addrOf   func(host string) int
	reqReady chan struct{}
	readyOnce sync.Once

	rmu      sync.Mutex
	prepared bool
	out      *bytes.Reader
	tailErr  error // returned after out is drained
	deadline time.Time
}

func (f *faultStream) Write(b []byte) (int, error) {
	f.wmu.Lock()
	if f.path == "" {
		f.wbuf.Write(b)
		if i := bytes.Index(f.wbuf.Bytes(), []byte("\r\n\r\n")); i >= 0 {
			lines := strings.Split(string(f.wbuf.Bytes()[:i]), "\r\n")
			parts := strings.Split(lines[0], " ")
			if len(parts) >= 2 {
				f.path = parts[1]
			} else {
				f.path = "?"
			}
			for _, l := range lines[1:] {
				if strings.HasPrefix(strings.ToLower(l), "host:") {
					f.hostHdr = strings.TrimSpace(l[5:])
				}
			}
			f.readyOnce.Do(func() { close(f.reqReady) })
		}
	}
	f.wmu.Unlock()
	return f.Stream.Write(b)
}

func (f *faultStream) SetReadDeadline(t time.Time) error {
	f.rmu.Lock()
	f.deadline = t
	f.rmu.Unlock()
	return f.Stream.SetReadDeadline(t)
}

func (f *faultStream) waitDeadline() error {
	f.rmu.Lock()
	d := f.deadline
	f.rmu.Unlock()
	max := f.s.MaxStall
	if !d.IsZero() {
		if until := time.Until(d); until < max {
			max = until
		}
	}
	if max > 0 {
		time.Sleep(max)
	}
	return os.ErrDeadlineExceeded
}

func (f *faultStream) prepare() {
	select {
	case <-f.reqReady:
	case <-time.After(5 * time.Second):
		f.s.noteSlow(time.Hour) // not a fault of the script: the history's timing is not to be trusted
		f.tailErr = fmt.Errorf("faultdrv: request never written")
		f.out = bytes.NewReader(nil)
		return
	}
	f.wmu.Lock()
	path := f.path
	addr := 0
	if f.addrOf != nil {
		addr = f.addrOf(f.hostHdr)
	}
	f.wmu.Unlock()
	if isDiscovery(path) {
		if f.s.discovery() {
			_ = f.Stream.Reset()
			f.out, f.tailErr = bytes.NewReader(nil), fmt.Errorf("faultdrv: injected discovery failure")
		}
		return // passthrough
	}
	flt, _ := f.s.next(addr, path)
	synth := func(code int) {
		_ = f.Stream.Reset()
		txt := fmt.Sprintf("HTTP/1.1 %d %s\r\nContent-Length: 9\r\nConnection: close\r\n\r\ninjected\n", code, http.StatusText(code))
		f.out = bytes.NewReader([]byte(txt))
		f.tailErr = io.EOF
	}
	switch flt.K {
	case "ok":
		return
	case "status":
		synth(flt.N)
		return
	case "notfound":
		synth(404)
		return
	case "forbidden":
		synth(403)
		return
	case "reset":
		_ = f.Stream.Reset()
		f.out, f.tailErr = bytes.NewReader(nil), network.ErrReset
		return
	case "transport", "tcpreset":
		_ = f.Stream.Reset()
		f.out, f.tailErr = bytes.NewReader(nil), fmt.Errorf("faultdrv: injected transport failure")
		return
	case "stallhdr":
		f.out, f.tailErr = bytes.NewReader(nil), nil // Read waits for the deadline
		return
	}
	// faults that need the genuine response
	t0 := time.Now()
	resp, err := http.ReadResponse(bufio.NewReader(f.Stream), nil)
	if err != nil {
		f.out, f.tailErr = bytes.NewReader(nil), err
		return
	}
	body, err := io.ReadAll(resp.Body)
	resp.Body.Close()
	_ = t0
	if err != nil {
		f.out, f.tailErr = bytes.NewReader(nil), err
		return
	}
	hdr := func(n int) string {
		return fmt.Sprintf("HTTP/1.1 %d %s\r\nContent-Length: %d\r\nConnection: close\r\n\r\n", resp.StatusCode, http.StatusText(resp.StatusCode), n)
	}
	switch flt.K {
	case "corrupt":
		c := CorruptBody(body)
		f.out, f.tailErr = bytes.NewReader(append([]byte(hdr(len(c))), c...)), io.EOF
	case "corruptp":
		c := CorruptParseable(body)
		f.out, f.tailErr = bytes.NewReader(append([]byte(hdr(len(c))), c...)), io.EOF
	case "truncated":
		f.out, f.tailErr = bytes.NewReader(append([]byte(hdr(len(body)+1)), body[:len(body)/2]...)), io.EOF
	case "stallbody":
		f.out, f.tailErr = bytes.NewReader(append([]byte(hdr(len(body)+1)), body[:len(body)/2]...)), nil
	default:
		panic("faultdrv: fault " + flt.K + " not available on a stream")
	}
}

func (f *faultStream) Read(b []byte) (int, error) {
	f.rmu.Lock()
	if !f.prepared {
		f.prepared = true
		f.rmu.Unlock()
		f.prepare()
		f.rmu.Lock()
	}
	out, tail := f.out, f.tailErr
	f.rmu.Unlock()
	if out == nil {
		return f.Stream.Read(b)
	}
	if out.Len() > 0 {
		return out.Read(b)
	}
	if tail == nil {
		return 0, f.waitDeadline()
	}
	return 0, tail
}
