package main

import (
	"bytes"
	"encoding/hex"
	"errors"
	"fmt"
	"io"
	"strings"

	"github.com/ipfs/go-cid"
	"github.com/ipni/go-libipni/announce/message"
	mh "github.com/multiformats/go-multihash"
	"github.com/multiformats/go-varint"

	"verif/harness/vlib"
)

// MsgDesc is the JSON form of a message.Message used in replays and case
// descriptions.  nil and empty slices are kept apart.
type MsgDesc struct {
	Cid      string    `json:"cid"` // hex of Cid.Bytes(); "" = cid.Undef
	AddrsNil bool      `json:"addrs_nil,omitempty"`
	Addrs    []*string `json:"addrs"` // hex; null = nil []byte
	Extra    *string   `json:"extra"` // hex; null = nil
	Orig     string    `json:"orig"`  // hex of the OrigPeer string
}

func hx(b []byte) string { return hex.EncodeToString(b) }

func hexPtr(b []byte) *string {
	if b == nil {
		return nil
	}
	s := hx(b)
	return &s
}

func unhexPtr(s *string) []byte {
	if s == nil {
		return nil
	}
	b, err := hex.DecodeString(*s)
	if err != nil {
		panic(err)
	}
	if b == nil {
		b = []byte{}
	}
	return b
}

func descOf(m message.Message) MsgDesc {
	d := MsgDesc{Orig: hx([]byte(m.OrigPeer)), Extra: hexPtr(m.ExtraData)}
	if m.Cid.Defined() {
		d.Cid = hx(m.Cid.Bytes())
	}
	if m.Addrs == nil {
		d.AddrsNil = true
	}
	d.Addrs = []*string{}
	for _, a := range m.Addrs {
		d.Addrs = append(d.Addrs, hexPtr(a))
	}
	return d
}

func (d MsgDesc) toGo() (message.Message, error) {
	var m message.Message
	if d.Cid != "" {
		b, err := hex.DecodeString(d.Cid)
		if err != nil {
			return m, err
		}
		c, err := cid.Cast(b)
		if err != nil {
			return m, err
		}
		m.Cid = c
	}
	if !d.AddrsNil {
		m.Addrs = [][]byte{}
		for _, a := range d.Addrs {
			m.Addrs = append(m.Addrs, unhexPtr(a))
		}
	}
	m.ExtraData = unhexPtr(d.Extra)
	o, err := hex.DecodeString(d.Orig)
	if err != nil {
		return m, err
	}
	m.OrigPeer = string(o)
	return m, nil
}

// ---------------------------------------------------------------------------
// Coq printers

// coqBytes prints runs of one byte compactly: literal segments as unhex strings,
// runs of >= 32 equal bytes as (nrep n v), joined by bcat.  coqc spends ~100 us per
// hex digit of a string literal, so large payloads are generated as short random
// head + run + short random tail (see patterned).
func coqBytes(b []byte) string {
	var segs []string
	lit := 0
	flush := func(end int) {
		if end > lit {
			segs = append(segs, "unhex "+vlib.Hex(b[lit:end]))
		}
	}
	for i := 0; i < len(b); {
		j := i
		for j < len(b) && b[j] == b[i] {
			j++
		}
		if j-i >= 32 {
			flush(i)
			segs = append(segs, fmt.Sprintf("nrep %d %d", j-i, b[i]))
			lit = j
		}
		i = j
	}
	flush(len(b))
	switch len(segs) {
	case 0:
		return "(unhex \"\")"
	case 1:
		return "(" + segs[0] + ")"
	}
	return "(bcat [" + strings.Join(segs, "; ") + "])"
}

func coqOptBytes(b []byte) string {
	if b == nil {
		return "None"
	}
	return "(Some " + coqBytes(b) + ")"
}

// cidParts returns version, codec, multihash code and digest through go-cid's and
// go-multihash's accessors (not through the byte layout the Coq model prints).
func cidParts(c cid.Cid) (uint64, uint64, uint64, []byte, error) {
	h := c.Hash()
	dm, err := mh.Decode(h)
	if err != nil {
		return 0, 0, 0, nil, err
	}
	return c.Version(), c.Type(), dm.Code, dm.Digest, nil
}

func coqCid(c cid.Cid) string {
	v, codec, code, dig, err := cidParts(c)
	if err != nil {
		panic(fmt.Sprintf("cid %x: %v", c.Bytes(), err))
	}
	if v == 0 {
		return "(CidV0 " + coqBytes(dig) + ")"
	}
	return fmt.Sprintf("(CidV1 %d %d %s)", codec, code, coqBytes(dig))
}

func coqOptCid(c cid.Cid) string {
	if !c.Defined() {
		return "None"
	}
	return "(Some " + coqCid(c) + ")"
}

func coqMsg(m message.Message) string {
	addrs := "None"
	if m.Addrs != nil {
		it := make([]string, len(m.Addrs))
		same := len(m.Addrs) > 64
		for i, a := range m.Addrs {
			it[i] = coqOptBytes(a)
			if it[i] != it[0] {
				same = false
			}
		}
		if same {
			addrs = fmt.Sprintf("(Some (nrep %d %s))", len(m.Addrs), it[0])
		} else {
			addrs = "(Some " + vlib.CoqList(it) + ")"
		}
	}
	return fmt.Sprintf("(Msg %s %s %s %s)", coqOptCid(m.Cid), addrs, coqOptBytes(m.ExtraData), coqBytes([]byte(m.OrigPeer)))
}

func obsErr(ty string, class uint64) string { return fmt.Sprintf("(OErr %d : obs %s)", class, ty) }
func obsPanic(ty string) string             { return fmt.Sprintf("(OPanic : obs %s)", ty) }
func obsOk(ty, v string) string             { return fmt.Sprintf("(OOk %s : obs %s)", v, ty) }

// ---------------------------------------------------------------------------
// error classes (the numbers of coq/lib/Cbor.v)

const (
	eEOF        = 1
	eNonCanon   = 2
	eBadHeader  = 3
	eWrongMajor = 4
	eTooLarge   = 5
	eFieldCount = 6
	eCid        = 7
	eOther      = 99
)

func errClass(err error) uint64 {
	s := err.Error()
	has := func(x string) bool { return strings.Contains(s, x) }
	switch {
	case errors.Is(err, cid.ErrInvalidCid{}), has("expected tag "), has("undefined cid"),
		has("at least two bytes"), has("binary multibase"):
		return eCid
	case errors.Is(err, io.EOF), errors.Is(err, io.ErrUnexpectedEOF):
		return eEOF
	case has("not canonical"):
		return eNonCanon
	case has("invalid header"):
		return eBadHeader
	case has("should be of type array"), has("expected cbor array"), has("expected byte array"),
		has("expected cbor type"), has("while reading string value"):
		return eWrongMajor
	case has("too many fields"), has("too few fields"):
		return eFieldCount
	case has("too large"), has("too long"):
		return eTooLarge
	}
	return eOther
}

// ---------------------------------------------------------------------------
// running the real code

type encOut struct {
	Bytes    []byte
	Err      error
	Panicked string
}

func runEnc(m *message.Message) (o encOut) {
	defer func() {
		if r := recover(); r != nil {
			o.Panicked = fmt.Sprint(r)
		}
	}()
	var buf bytes.Buffer
	o.Err = m.MarshalCBOR(&buf)
	o.Bytes = buf.Bytes()
	return
}

type decOut struct {
	Msg      message.Message
	Rest     int
	Err      error
	Panicked string
}

func runDec(b []byte) (o decOut) {
	defer func() {
		if r := recover(); r != nil {
			o.Panicked = fmt.Sprint(r)
		}
	}()
	r := bytes.NewReader(b)
	o.Err = o.Msg.UnmarshalCBOR(r)
	o.Rest = r.Len()
	return
}

// plainReader hides every method but Read, so cbor-gen wraps it in its own peeker
// (the path an http request body takes).
type plainReader struct{ r io.Reader }

func (p plainReader) Read(b []byte) (int, error) { return p.r.Read(b) }

func runDecPlain(b []byte) (o decOut) {
	defer func() {
		if r := recover(); r != nil {
			o.Panicked = fmt.Sprint(r)
		}
	}()
	r := bytes.NewReader(b)
	o.Err = o.Msg.UnmarshalCBOR(plainReader{r})
	o.Rest = r.Len()
	return
}

// sameMsg: equality of messages with nil == empty for slices (what the property
// calls "equal": Go's decoder cannot return an empty non-nil slice).
func sameMsg(a, b message.Message) bool {
	if a.Cid != b.Cid || a.OrigPeer != b.OrigPeer || !bytes.Equal(a.ExtraData, b.ExtraData) || len(a.Addrs) != len(b.Addrs) {
		return false
	}
	for i := range a.Addrs {
		if !bytes.Equal(a.Addrs[i], b.Addrs[i]) {
			return false
		}
	}
	return true
}

// exactMsg: equality including nil-ness (decoder results against the model).
func msgSummary(m message.Message) string {
	n := 0
	for _, a := range m.Addrs {
		n += len(a)
	}
	return fmt.Sprintf("cid-bytelen=%d,addrs=%d/%dB,extra=%d,orig=%d", m.Cid.ByteLen(), len(m.Addrs), n, len(m.ExtraData), len(m.OrigPeer))
}

// ---------------------------------------------------------------------------
// CID construction from parts (raw layout; validated by cid.Cast)

func rawCidV1(codec, code uint64, digest []byte) []byte {
	b := varint.ToUvarint(1)
	b = append(b, varint.ToUvarint(codec)...)
	b = append(b, varint.ToUvarint(code)...)
	b = append(b, varint.ToUvarint(uint64(len(digest)))...)
	return append(b, digest...)
}

func mustCast(b []byte) cid.Cid {
	c, err := cid.Cast(b)
	if err != nil {
		panic(fmt.Sprintf("cast %x: %v", b, err))
	}
	return c
}
