// c10: announce messages survive encoding, and decoding is total.
//
// Drives the real message.Message.{MarshalCBOR,UnmarshalCBOR}, encoding/json over
// Message, httpsender.Send/SendJson (against an httptest server) and p2psender.Send
// (loopback libp2p hosts), applies the direct oracles of the property text, and
// writes every observation as a Coq case for model/C10_AnnounceMsg.v (and for the
// shared libraries lib/Cbor.v, lib/Cid.v against cbor-gen and go-cid themselves).
package main

import (
	"bytes"
	"encoding/json"
	"fmt"
	"io"
	"os"
	"path/filepath"
	"reflect"
	"runtime"
	"runtime/debug"
	"strings"
	"testing/iotest"
	"time"
	"unicode/utf8"

	"github.com/ipfs/go-cid"
	"github.com/ipni/go-libipni/announce/message"
	cbg "github.com/whyrusleeping/cbor-gen"

	"verif/harness/vlib"
)

const reqModel = "From Model Require Import C10_AnnounceMsg."
const reqLibs = "From Lib Require Import Cid Cbor."

// allocation the property allows for input b: its length plus the fixed caps,
// plus a fixed overhead for what is not sized by the input (reader, error values,
// cbor-gen's pooled 8 KiB string buffer, size-class rounding of small objects)
const allocOverhead = 64 << 10

func allocBound(n int) uint64 {
	return uint64(n) + 24*cbg.MaxLength + cbg.ByteArrayMaxLen + allocOverhead
}

// measureDec runs the decoder and returns what it did and how many bytes the
// process allocated meanwhile.
func measureDec(b []byte) (decOut, uint64) {
	var ms runtime.MemStats
	runtime.ReadMemStats(&ms)
	a0 := ms.TotalAlloc
	o := runDec(b)
	runtime.ReadMemStats(&ms)
	return o, ms.TotalAlloc - a0
}

type replay struct {
	Kind  string    `json:"kind"` // roundtrip | json | decode | http | p2p
	Msg   *MsgDesc  `json:"msg,omitempty"`
	Input string    `json:"input,omitempty"` // hex, decoder input
	HTTP  *httpCase `json:"http,omitempty"`
}

type ctx struct {
	*vlib.Ctx
	fails map[string]int
}

var prevEnc, prevEncCopy []byte

func (c *ctx) failOnce(kind, sig, desc string, rp interface{}) {
	c.fails[kind]++
	if c.fails[kind] <= 2 {
		c.Fail(sig, desc, rp)
	}
}

// ---------------------------------------------------------------------------
// direct oracles on one structured message; returns "" or the failure kind

// withinCaps: the size caps the decoder applies (cbor-gen's constants and ReadCid's
// 512); a message within them must be accepted by the encoder.
func withinCaps(m message.Message) bool {
	if !m.Cid.Defined() || m.Cid.ByteLen()+1 > 512 || len(m.Addrs) > cbg.MaxLength ||
		len(m.ExtraData) > cbg.ByteArrayMaxLen || len(m.OrigPeer) > cbg.MaxLength {
		return false
	}
	for _, a := range m.Addrs {
		if len(a) > cbg.ByteArrayMaxLen {
			return false
		}
	}
	return true
}

func oracleRoundTrip(m message.Message) (string, string) {
	e := runEnc(&m)
	if e.Panicked != "" {
		return "encode-panic", e.Panicked
	}
	if e.Err != nil {
		if withinCaps(m) {
			return "encoder-refuses-message-within-caps", e.Err.Error()
		}
		return "", "" // outside the encoder's caps
	}
	d := runDec(e.Bytes)
	if d.Panicked != "" {
		return "decode-panic", d.Panicked
	}
	if d.Err != nil {
		return "decode-error", d.Err.Error()
	}
	if d.Rest != 0 {
		return "decode-left-bytes", fmt.Sprint(d.Rest)
	}
	if !sameMsg(m, d.Msg) {
		return "decode-differs", fmt.Sprintf("got %s", msgSummary(d.Msg))
	}
	return "", ""
}

func oracleJSON(m message.Message) (string, string) {
	if !utf8.ValidString(m.OrigPeer) {
		return "", "" // encoding/json replaces invalid UTF-8; OrigPeer is a peer ID string
	}
	js, err := json.Marshal(&m)
	if err != nil {
		return "json-encode-error", err.Error()
	}
	var d message.Message
	if err := json.Unmarshal(js, &d); err != nil {
		return "json-decode-error", err.Error()
	}
	if !sameMsg(m, d) {
		return "json-decode-differs", fmt.Sprintf("got %s", msgSummary(d))
	}
	return "", ""
}

// shrinkMsg simplifies m while `bad` keeps failing with the same kind.
func shrinkMsg(m message.Message, bad0 func(message.Message) string) message.Message {
	deadline := time.Now().Add(4 * time.Second)
	bad := func(x message.Message) string {
		if time.Now().After(deadline) {
			return ""
		}
		return bad0(x)
	}
	kind := bad(m)
	try := func(c message.Message) bool {
		if bad(c) == kind {
			m = c
			return true
		}
		return false
	}
	for changed := true; changed; {
		changed = false
		if len(m.OrigPeer) > 0 {
			c := m
			c.OrigPeer = ""
			changed = try(c) || changed
		}
		if m.ExtraData != nil {
			c := m
			c.ExtraData = nil
			changed = try(c) || changed
		}
		if m.Addrs != nil {
			c := m
			c.Addrs = nil
			changed = try(c) || changed
		}
		for i := 0; i < len(m.Addrs); i++ {
			c := m
			c.Addrs = append(append([][]byte{}, m.Addrs[:i]...), m.Addrs[i+1:]...)
			if try(c) {
				changed = true
				i--
			}
		}
		// a shorter / simpler CID: identity digest of decreasing length, zero bytes
		if m.Cid.Defined() {
			v, codec, code, dig, err := cidParts(m.Cid)
			if err == nil && v == 1 {
				lo, hi := 0, len(dig) // smallest failing length by bisection
				for lo < hi {
					mid := (lo + hi) / 2
					c := m
					c.Cid = mustCast(rawCidV1(codec, code, make([]byte, mid)))
					if bad(c) == kind {
						hi = mid
					} else {
						lo = mid + 1
					}
				}
				if lo < len(dig) {
					c := m
					c.Cid = mustCast(rawCidV1(codec, code, make([]byte, lo)))
					changed = try(c) || changed
				}
				if codec != 0x55 || code != 0 {
					c := m
					c.Cid = mustCast(rawCidV1(0x55, 0, make([]byte, len(dig))))
					changed = try(c) || changed
				}
			}
		}
	}
	return m
}

// shrinkBytes: ddmin-style removal of chunks while `bad` keeps its kind.
func shrinkBytes(b []byte, bad0 func([]byte) string) []byte {
	// a failing decode may be expensive (a hostile multi-GiB allocation): bound the search
	deadline := time.Now().Add(4 * time.Second)
	bad := func(x []byte) string {
		if time.Now().After(deadline) {
			return ""
		}
		return bad0(x)
	}
	kind := bad(b)
	for n := len(b) / 2; n >= 1; n /= 2 {
		for i := 0; i+n <= len(b); {
			c := append(append([]byte{}, b[:i]...), b[i+n:]...)
			if bad(c) == kind {
				b = c
			} else {
				i += n
			}
		}
	}
	return b
}

func (c *ctx) failMsg(kind, detail string, m message.Message, bad func(message.Message) string) {
	c.fails[kind]++
	if c.fails[kind] > 2 {
		return
	}
	s := shrinkMsg(m, bad)
	d := descOf(s)
	rk := "roundtrip"
	if len(kind) > 4 && kind[:4] == "json" {
		rk = "json"
	}
	c.Fail(kind+":"+msgSummary(s), fmt.Sprintf("%s (%s) on message %s", kind, detail, msgSummary(s)), replay{Kind: rk, Msg: &d})
}

// ---------------------------------------------------------------------------
// decoder oracles on arbitrary bytes

func decFailure(b []byte) string {
	o, alloc := measureDec(b)
	switch {
	case o.Panicked != "":
		return "decode-panic"
	case alloc > allocBound(len(b)):
		// measure again: a concurrent allocation would be a false alarm
		_, alloc2 := measureDec(b)
		if alloc2 > allocBound(len(b)) {
			return "decode-over-allocation"
		}
	}
	if o.Err == nil {
		m := o.Msg
		e := runEnc(&m)
		if e.Panicked != "" {
			return "reencode-panic"
		}
		if e.Err != nil {
			return "reencode-error"
		}
		d := runDec(e.Bytes)
		if d.Panicked != "" || d.Err != nil || !sameMsg(m, d.Msg) || d.Rest != 0 {
			return "reencode-differs"
		}
	}
	if f := decReuseFailure(b, o); f != "" {
		return f
	}
	if f := decFragmentedFailure(b, o); f != "" {
		return f
	}
	p := runDecPlain(b)
	if (p.Panicked != "") != (o.Panicked != "") || (p.Err == nil) != (o.Err == nil) ||
		(o.Err == nil && (!sameMsg(p.Msg, o.Msg) || p.Rest != o.Rest)) {
		return "reader-kind-dependent"
	}
	return ""
}

// usedEncodings: valid encodings decoded into a Message BEFORE the input under test is
// decoded into the same Message value.  The decoder's result must be a function of the
// bytes only (as the model's `dec` is): whatever the Message held before must not show.
// The first is a message with every field present; more are added from the structured
// stream (so that pairs (first, second) with the second lacking a field occur).
var usedEncodings [][]byte

func richEncoding() []byte {
	m := message.Message{
		Cid:       mustCast(rawCidV1(0x55, 0x12, bytes.Repeat([]byte{7}, 32))),
		Addrs:     [][]byte{{4, 127, 0, 0, 1, 6, 0x0a, 0x8d}, {1, 2, 3}},
		ExtraData: bytes.Repeat([]byte{0xee}, 600),
		OrigPeer:  samplePeers[0],
	}
	return runEnc(&m).Bytes
}

func decReuseFailure(b []byte, fresh decOut) (res string) {
	for k, prev := range usedEncodings {
		if k >= 2 && (len(b)+k)%3 != 0 { // the rich one and the latest always, the others in turn
			continue
		}
		var m message.Message
		if err := m.UnmarshalCBOR(bytes.NewReader(prev)); err != nil {
			continue
		}
		var err error
		rd := bytes.NewReader(b)
		panicked := false
		func() {
			defer func() {
				if recover() != nil {
					panicked = true
				}
			}()
			err = m.UnmarshalCBOR(rd)
		}()
		switch {
		case panicked != (fresh.Panicked != ""):
			return "decode-into-used-message-differs:panic"
		case panicked:
		case (err == nil) != (fresh.Err == nil):
			return "decode-into-used-message-differs:error"
		case err != nil:
			if errClass(err) != errClass(fresh.Err) {
				return "decode-into-used-message-differs:error-class"
			}
		case !reflect.DeepEqual(m, fresh.Msg) || rd.Len() != fresh.Rest:
			return "decode-into-used-message-differs:stale-fields"
		}
	}
	return ""
}

// chunkReader returns 1..k bytes per Read, the sizes drawn from a generator seeded by the
// input (deterministic per input, so that a replay sees the same fragmentation).
type chunkReader struct {
	r io.Reader
	s uint64
	k int
}

func (c *chunkReader) Read(p []byte) (int, error) {
	if len(p) == 0 {
		return 0, nil
	}
	c.s = c.s*6364136223846793005 + 1442695040888963407
	n := 1 + int((c.s>>33)%uint64(c.k))
	if n > len(p) {
		n = len(p)
	}
	return c.r.Read(p[:n])
}

// decFragmentedFailure: a reader may return fewer bytes than asked for at any time (a
// network stream, an HTTP body).  Decoding through fragmenting readers must give exactly
// what decoding from a bytes.Reader gives.
func decFragmentedFailure(b []byte, whole decOut) string {
	var seed uint64 = 1469598103934665603
	for _, x := range b {
		seed = (seed ^ uint64(x)) * 1099511628211
	}
	for _, fr := range []struct {
		name string
		wrap func(io.Reader) io.Reader
	}{
		{"one-byte-reader", iotest.OneByteReader},
		{"half-reader", iotest.HalfReader},
		{"random-chunks-1..3", func(r io.Reader) io.Reader { return &chunkReader{r: r, s: seed, k: 3} }},
		{"random-chunks-1..17", func(r io.Reader) io.Reader { return &chunkReader{r: r, s: seed, k: 17} }},
		{"data-err-reader", iotest.DataErrReader},
	} {
		var m message.Message
		var err error
		rd := bytes.NewReader(b)
		panicked := false
		func() {
			defer func() {
				if recover() != nil {
					panicked = true
				}
			}()
			err = m.UnmarshalCBOR(fr.wrap(rd))
		}()
		switch {
		case panicked != (whole.Panicked != ""):
			return "decode-through-" + fr.name + "-differs:panic"
		case panicked:
		case (err == nil) != (whole.Err == nil):
			return "decode-through-" + fr.name + "-differs:error"
		case err != nil:
			if errClass(err) != errClass(whole.Err) {
				return "decode-through-" + fr.name + "-differs:error-class"
			}
		case !reflect.DeepEqual(m, whole.Msg):
			return "decode-through-" + fr.name + "-differs:message"
		case fr.name != "data-err-reader" && rd.Len() != whole.Rest:
			return "decode-through-" + fr.name + "-differs:bytes-consumed"
		}
	}
	return ""
}

func (c *ctx) decCase(kind string, b []byte, sample bool) {
	c.Eval()
	c.Count("dec:" + kind)
	o, alloc := measureDec(b)
	var obs string
	ty := "(msg * N)"
	switch {
	case o.Panicked != "":
		obs = obsPanic(ty)
		c.Count("dec-outcome:panic")
	case o.Err != nil:
		cl := errClass(o.Err)
		obs = obsErr(ty, cl)
		c.Count(fmt.Sprintf("dec-outcome:err-class-%d", cl))
		if cl == eOther {
			c.Note("unclassified decoder error: " + o.Err.Error())
		}
	default:
		obs = obsOk(ty, fmt.Sprintf("(%s, %d)", coqMsg(o.Msg), o.Rest))
		c.Count("dec-outcome:ok")
		if kind != "valid" {
			c.Nontrivial("dec-ok-malformed:" + hx(b))
		}
	}
	if o.Err != nil && kind != "valid" {
		c.Nontrivial(fmt.Sprintf("dec-err:%s:%d:%d", kind, errClass(o.Err), len(b)))
	}
	desc := replay{Kind: "decode", Input: hx(b)}
	c.Case("dec", fmt.Sprintf("(%s, %s, %d)", coqBytes(b), obs, alloc), desc)
	if sample {
		c.Sample(map[string]interface{}{"kind": "decode:" + kind, "input": hx(b), "observed": obs, "alloc": alloc})
	}
	if f := decFailure(b); f != "" {
		c.fails[f]++
		if c.fails[f] <= 2 {
			s := shrinkBytes(b, decFailure)
			sig := fmt.Sprintf("%s:%s", f, hx(s))
			if strings.HasPrefix(f, "decode-into-used-message") || strings.HasPrefix(f, "decode-through-") {
				// the input is a valid message; name its shape, not its (random) bytes
				if d := runDec(s); d.Err == nil && d.Panicked == "" {
					sig = fmt.Sprintf("%s:%s", f, msgSummary(d.Msg))
				} else {
					sig = fmt.Sprintf("%s:invalid-input-of-%d-bytes", f, len(s))
				}
			}
			c.Fail(sig, fmt.Sprintf("%s on %d input bytes %s (the same bytes decoded from a bytes.Reader into a fresh Message give a different result)", f, len(s), hx(s)), replay{Kind: "decode", Input: hx(s)})
		}
	}
}

// ---------------------------------------------------------------------------

func (c *ctx) encCase(m message.Message, kind string, sample bool) []byte {
	c.Eval()
	c.Count("enc:cid-" + kind)
	if m.OrigPeer == "" {
		c.Count("enc:3-fields")
	} else {
		c.Count("enc:4-fields")
	}
	c.Count(fmt.Sprintf("enc:addrs-%s", bucket(len(m.Addrs))))
	e := runEnc(&m)
	if prevEnc != nil && !bytes.Equal(prevEnc, prevEncCopy) {
		c.failOnce("encoder-aliasing", "encoder-aliasing:previous-encoding-overwritten", "the bytes MarshalCBOR returned for one message changed when the next message was encoded", replay{Kind: "roundtrip", Msg: ptr(descOf(m))})
	}
	if e.Err == nil && e.Panicked == "" {
		prevEnc, prevEncCopy = e.Bytes, append([]byte{}, e.Bytes...)
	}
	var obs string
	switch {
	case e.Panicked != "":
		obs = obsPanic("bytes")
		c.Fail("encode-panic:"+msgSummary(m), e.Panicked, replay{Kind: "roundtrip", Msg: ptr(descOf(m))})
	case e.Err != nil:
		obs = obsErr("bytes", errClass(e.Err))
		c.Count("enc-outcome:err")
		c.Nontrivial("enc-err:" + msgSummary(m))
	default:
		obs = obsOk("bytes", coqBytes(e.Bytes))
		c.Count("enc-outcome:ok")
		if len(m.Addrs) > 0 || len(m.ExtraData) > 0 || m.OrigPeer != "" {
			c.Nontrivial("enc:" + msgSummary(m) + hx(e.Bytes[:min(len(e.Bytes), 48)]))
		}
	}
	d := descOf(m)
	c.Case("enc", fmt.Sprintf("(%s, %s)", coqMsg(m), obs), replay{Kind: "roundtrip", Msg: &d})
	if sample {
		c.Sample(map[string]interface{}{"kind": "encode", "msg": d, "observed": obs})
	}
	rtOK := true
	if k, detail := oracleRoundTrip(m); k != "" {
		rtOK = false
		c.failMsg("cbor-roundtrip:"+k, detail, m, func(x message.Message) string { k, _ := oracleRoundTrip(x); return k })
	}
	if k, detail := oracleJSON(m); k != "" {
		c.failMsg(k, detail, m, func(x message.Message) string { k, _ := oracleJSON(x); return k })
	} else if utf8.ValidString(m.OrigPeer) {
		c.Count("json-roundtrip:ok")
	} else {
		c.Count("json-roundtrip:skipped-orig-not-utf8")
	}
	if e.Err != nil || e.Panicked != "" || !rtOK {
		return nil
	}
	return e.Bytes
}

func bucket(n int) string {
	switch {
	case n == 0:
		return "0"
	case n <= 4:
		return "1-4"
	case n <= 40:
		return "5-40"
	}
	return ">40"
}

func ptr[T any](x T) *T { return &x }

// ---------------------------------------------------------------------------
// library cases: cbor-gen heads and go-cid parsing themselves

func (c *ctx) libCases() {
	r := c.Rng.Fork("lib")
	c.Family("consts", []string{reqModel}, "consts_case_ok", 10)
	c.Case("consts", fmt.Sprintf("(%d, %d)", cbg.MaxLength, cbg.ByteArrayMaxLen), "cbor-gen caps")
	c.Eval()

	c.Family("wrhead", []string{reqLibs, reqModel}, "wrhead_case_ok", 1000)
	c.Family("rdhead", []string{reqLibs, reqModel}, "rdhead_case_ok", 1000)
	var vals []uint64
	for _, k := range []uint{0, 1, 4, 5, 8, 16, 32, 63} {
		for d := -2; d <= 2; d++ {
			vals = append(vals, (uint64(1)<<k)+uint64(d))
		}
	}
	vals = append(vals, 23, 24, 25, 255, 256, 257, 65535, 65536, 1<<32-1, 1<<32, 1<<64-1, cbg.MaxLength, cbg.ByteArrayMaxLen)
	for i := 0; i < c.Pick(60, 600); i++ {
		vals = append(vals, r.Uint64()>>uint(r.Intn(64)))
	}
	rd := func(b []byte) {
		c.Eval()
		c.Count("lib:rdhead")
		br := bytes.NewReader(b)
		maj, v, err := cbg.CborReadHeaderBuf(br, make([]byte, 8))
		ty := "(N * N * N)"
		if err != nil {
			c.Case("rdhead", fmt.Sprintf("(%s, %s)", coqBytes(b), obsErr(ty, errClass(err))), hx(b))
		} else {
			c.Case("rdhead", fmt.Sprintf("(%s, %s)", coqBytes(b), obsOk(ty, fmt.Sprintf("(%d, %d, %d)", maj, v, len(b)-br.Len()))), hx(b))
		}
		// the non-Buf variant (used by ReadCid / ReadString) must behave alike
		maj2, v2, err2 := cbg.CborReadHeader(bytes.NewReader(b))
		if (err == nil) != (err2 == nil) || maj != maj2 || v != v2 {
			c.Fail("cborgen-readheader-variants-differ:"+hx(b), "CborReadHeader and CborReadHeaderBuf disagree", hx(b))
		}
	}
	for _, v := range vals {
		for maj := byte(0); maj < 8; maj++ {
			if maj > 1 && maj != 4 && maj != 6 && v%3 != 0 {
				continue
			}
			b := cbg.CborEncodeMajorType(maj, v)
			c.Eval()
			c.Count("lib:wrhead")
			c.Case("wrhead", fmt.Sprintf("(%d, %d, %s)", maj, v, coqBytes(b)), hx(b))
			var w bytes.Buffer
			_ = cbg.WriteMajorTypeHeaderBuf(make([]byte, 9), &w, maj, v)
			if !bytes.Equal(w.Bytes(), b) {
				c.Fail("cborgen-writeheader-variants-differ", "", hx(b))
			}
			rd(append(append([]byte{}, b...), 0xaa))
			// every longer form of the same value, and every truncation
			for info := byte(24); info <= 27; info++ {
				if l := longHead(maj, info, v); len(l) > len(b) && (info == 27 || v < 1<<(8*(1<<(info-24)))) {
					rd(l)
				}
			}
			for i := 0; i < len(b); i++ {
				rd(b[:i])
			}
		}
	}
	for i := 0; i < 256; i++ { // every first byte, with 8 argument bytes available
		rd(append([]byte{byte(i)}, r.Bytes(8)...))
		rd([]byte{byte(i)})
	}

	// go-cid
	c.Family("cid", []string{reqLibs, reqModel}, "cid_case_ok", 400)
	cidCase := func(b []byte, kind string) {
		c.Eval()
		c.Count("lib:cid-" + kind)
		ty := "(cid * N)"
		var n int
		var x cid.Cid
		var err error
		func() {
			defer func() {
				if r := recover(); r != nil {
					err = fmt.Errorf("panic: %v", r)
					c.Fail("cid-parse-panic:"+hx(b), fmt.Sprint(r), hx(b))
				}
			}()
			n, x, err = cid.CidFromBytes(b)
		}()
		if err != nil {
			c.Case("cid", fmt.Sprintf("(%s, %s)", coqBytes(b), obsErr(ty, eCid)), hx(b))
			return
		}
		c.Case("cid", fmt.Sprintf("(%s, %s)", coqBytes(b), obsOk(ty, fmt.Sprintf("(%s, %d)", coqCid(x), n))), hx(b))
	}
	for i := 0; i < c.Pick(150, 1500); i++ {
		x, _ := genCid(r)
		b := x.Bytes()
		cidCase(append(append([]byte{}, b...), r.Bytes(r.Intn(3))...), "valid")
		for k := 0; k < 3; k++ {
			y := append([]byte{}, b...)
			y[r.Intn(min(len(y), 8))] ^= 1 << uint(r.Intn(8))
			cidCase(y, "bitflip")
		}
		cidCase(b[:r.Intn(len(b))], "truncated")
	}
	for _, b := range [][]byte{nil, {0x12}, {0x12, 0x20}, {0x12, 0x20, 0}, {1}, {1, 0x55}, {1, 0x55, 0}, {1, 0x55, 0, 0}, {1, 0x55, 0x12, 0},
		{0x81, 0x00, 0x55, 0, 0}, {1, 0x80, 0x00, 0, 0}, {1, 0x55, 0x80, 0x00, 0}, {1, 0x55, 0, 0x80, 0x00}, {2, 0x55, 0, 0}, {0, 0x55, 0, 0},
		{1, 0x55, 0, 0xff, 0xff, 0xff, 0xff, 0x07}, {1, 0x55, 0, 0x80, 0x80, 0x80, 0x80, 0x08},
		{1, 0xff, 0xff, 0xff, 0xff, 0xff, 0xff, 0xff, 0xff, 0x7f, 0, 0}, {1, 0xff, 0xff, 0xff, 0xff, 0xff, 0xff, 0xff, 0xff, 0xff, 0x01, 0, 0}} {
		cidCase(b, "handmade")
	}
}

// ---------------------------------------------------------------------------

func main() {
	c := &ctx{Ctx: vlib.Init("C10"), fails: map[string]int{}}
	defer c.Finish()
	debug.SetMemoryLimit(3 << 30)
	c.Family("enc", []string{reqLibs, reqModel}, "enc_case_ok", 120)
	c.Family("dec", []string{reqLibs, reqModel}, "dec_case_ok", 250)
	c.Family("http", []string{reqLibs, reqModel}, "http_case_ok", 110)
	c.Family("p2p", []string{reqLibs, reqModel}, "p2p_case_ok", 200)
	c.Res.Exhaustive = false
	c.Res.Rule = "structured messages (CIDv0/v1 over 8 hash/codec shapes incl. identity digests across the decoder's 512-byte CID cap; nil/empty/0..40 addresses of 0..300 B; extra data nil/empty/0..5000 B; origin absent / peer ID / arbitrary bytes; every cap at n-1,n,n+1) are encoded by the real MarshalCBOR (byte-exact against the model) and round-tripped through CBOR and JSON; each valid encoding seeds a malformed stream (every truncation for small messages, truncation at/inside every head, bit flips, per head: hostile values 2^32, 2^63, 2^64-1, cap, cap+1; every longer non-canonical form; reserved info 28..31; every other major type; field counts; tag values; CID prefix/length damage; trailing bytes; 3<->4 fields) decoded by the real UnmarshalCBOR under recover with a TotalAlloc delta; both senders are run end to end. Non-trivial = an encoding with at least one non-empty field, a malformed input (by kind, error class and length), or a malformed input the decoder accepts."

	if c.Replay != "" {
		// the driver runs us in /verif/harness; accept a path relative to /verif too
		if _, err := os.Stat(c.Replay); err != nil && !filepath.IsAbs(c.Replay) {
			if _, err2 := os.Stat(filepath.Join("..", c.Replay)); err2 == nil {
				c.Replay = filepath.Join("..", c.Replay)
			}
		}
		c.runReplay()
		return
	}

	c.libCases()

	// ---- structured messages: encode direction + round trips ----
	rs := c.Rng.Fork("structured")
	var valid [][]byte
	nMsgs := c.Pick(420, 6000)
	for i := 0; i < nMsgs; i++ {
		m, kind := genMsg(rs)
		if b := c.encCase(m, kind, i < 2); b != nil {
			valid = append(valid, b)
		}
	}
	for _, m := range boundaryMsgs(rs, c.Thorough()) {
		c.Count("enc:boundary")
		c.encCase(m, "boundary", false)
	}

	// ---- decode direction ----
	usedEncodings = [][]byte{richEncoding()}
	for _, b := range valid {
		if len(usedEncodings) < 8 && len(b) < 400 && (b[0] == 0x84 || len(usedEncodings)%2 == 0) {
			usedEncodings = append(usedEncodings, b)
		}
	}
	rd := c.Rng.Fork("decode")
	nValid := 0
	budget := c.Pick(2600, 60000) // malformed cases
	for i, b := range valid {
		if len(b) < 2500 || i%8 == 0 {
			c.decCase("valid", b, nValid == 0)
			nValid++
		}
	}
	nm := 0
	for i, b := range valid {
		if nm >= budget {
			break
		}
		small := len(b) <= 120
		if !small && len(b) > 700 && i%6 != 0 {
			continue
		}
		ms := mutants(rd, b, small && i%4 == 0)
		for j, mu := range ms {
			// long inputs: keep a sample of the mutants
			if len(mu.B) > 400 && rd.Intn(4) != 0 {
				continue
			}
			c.decCase(mu.Kind, mu.B, nm == 7 || (mu.Kind == "four-fields-empty-origin" && j%50 == 0 && nm < 400))
			nm++
		}
	}
	for _, mu := range fixedMalformed(rd) {
		c.decCase(mu.Kind, mu.B, mu.Kind == "hostile-alloc" && len(mu.B) > 48 && len(mu.B) < 56)
	}

	// ---- senders ----
	c.httpCases()
	c.p2pCases()
	c.cornerCases()
}

func (c *ctx) runReplay() {
	usedEncodings = [][]byte{richEncoding()}
	var rp replay
	if err := c.LoadReplay(&rp); err != nil {
		panic(err)
	}
	fmt.Printf("replay kind=%s\n", rp.Kind)
	switch rp.Kind {
	case "roundtrip", "json":
		m, err := rp.Msg.toGo()
		if err != nil {
			panic(err)
		}
		fmt.Printf("  message: %s\n", msgSummary(m))
		e := runEnc(&m)
		fmt.Printf("  MarshalCBOR: err=%v panic=%q bytes=%d\n", e.Err, e.Panicked, len(e.Bytes))
		if e.Err == nil && e.Panicked == "" {
			d := runDec(e.Bytes)
			fmt.Printf("  UnmarshalCBOR: err=%v panic=%q equal=%v\n", d.Err, d.Panicked, d.Err == nil && sameMsg(m, d.Msg))
		}
		c.encCase(m, "replay", true)
		if e.Err == nil && e.Panicked == "" {
			c.decCase("valid", e.Bytes, true)
		}
	case "decode":
		b := unhexPtr(&rp.Input)
		o, alloc := measureDec(b)
		fmt.Printf("  UnmarshalCBOR(%d bytes): err=%v panic=%q alloc=%d bound=%d\n", len(b), o.Err, o.Panicked, alloc, allocBound(len(b)))
		c.decCase("replay", b, true)
	case "http":
		c.httpReplay(rp.HTTP)
	case "burst":
		c.httpCases()
		c.p2pCases()
	case "corners":
		c.cornerCases()
	default:
		panic("unknown replay kind " + rp.Kind)
	}
	for _, f := range c.Res.OracleFailures {
		fmt.Println("ORACLE-FAIL:", f.Signature, "--", f.Desc)
	}
}
