package main

import (
	"bytes"
	"context"
	"encoding/json"
	"errors"
	"fmt"
	"io"
	"net"
	"net/http"
	"net/http/httptest"
	"net/url"
	"strings"
	"sync"
	"sync/atomic"
	"time"

	"github.com/ipfs/go-cid"
	"github.com/ipni/go-libipni/announce"
	"github.com/ipni/go-libipni/announce/gossiptopic"
	"github.com/ipni/go-libipni/announce/httpsender"
	"github.com/ipni/go-libipni/announce/message"
	"github.com/ipni/go-libipni/announce/p2psender"
	"github.com/libp2p/go-libp2p/core/peer"
	"github.com/multiformats/go-multiaddr"

	"verif/harness/vlib"
)

// Corners of the senders and of the encoder that the message-level families do not reach
// (found with the statement-coverage map): constructor arguments and options, error
// paths of the writer and of the transport, Close, several URLs / several senders with one
// failing.  Oracle everywhere: whatever reaches a sink is exactly the encoding of what
// was sent, failures are errors (never panics), and a failing sink does not change what
// the healthy ones get.

func noPanic(c *ctx, what string, f func()) (ok bool) {
	defer func() {
		if r := recover(); r != nil {
			ok = false
			c.failOnce("corner-panic:"+what, "panic:"+what, fmt.Sprintf("%s panicked: %v", what, r), cornerReplay)
		}
	}()
	f()
	return true
}

var cornerReplay = replay{Kind: "corners"}

// limitWriter accepts n bytes in all, then fails.
type limitWriter struct {
	buf bytes.Buffer
	n   int
}

func (w *limitWriter) Write(p []byte) (int, error) {
	if w.n >= len(p) {
		w.n -= len(p)
		return w.buf.Write(p)
	}
	k := w.n
	w.buf.Write(p[:k])
	w.n = 0
	return k, io.ErrShortWrite
}

func (c *ctx) encoderWriterErrors(r *vlib.Rand) {
	// a nil *Message encodes as CBOR null
	noPanic(c, "MarshalCBOR(nil)", func() {
		var buf bytes.Buffer
		err := (*message.Message)(nil).MarshalCBOR(&buf)
		c.Eval()
		if err != nil || !bytes.Equal(buf.Bytes(), []byte{0xf6}) {
			c.failOnce("nil-message", "encoder:nil-message", fmt.Sprintf("(*Message)(nil).MarshalCBOR wrote %x, err %v; want CBOR null", buf.Bytes(), err), cornerReplay)
		}
	})
	// a writer that fails after n bytes, for every n: an error, and exactly the first n bytes
	for i := 0; i < c.Pick(12, 100); i++ {
		m, _ := genMsg(r)
		full := runEnc(&m)
		if full.Err != nil || len(full.Bytes) > 700 {
			continue
		}
		for n := 0; n < len(full.Bytes); n++ {
			w := &limitWriter{n: n}
			var err error
			if !noPanic(c, "MarshalCBOR into a failing writer", func() { err = m.MarshalCBOR(w) }) {
				return
			}
			c.Eval()
			if err == nil || !bytes.Equal(w.buf.Bytes(), full.Bytes[:n]) {
				d := descOf(m)
				c.failOnce("writer-error", fmt.Sprintf("encoder:writer-fails-after-%d-of-%d-bytes", n, len(full.Bytes)),
					fmt.Sprintf("writer accepting %d bytes: MarshalCBOR returned %v after writing %x (want an error and the first %d bytes of the encoding)", n, err, w.buf.Bytes(), n), replay{Kind: "roundtrip", Msg: &d})
				break
			}
		}
		c.Count("corner:encoder-writer-failing-at-every-offset")
	}
}

type sink struct {
	mu     sync.Mutex
	bodies [][]byte
	uas    []string
	paths  []string
	ctypes []string
	status int
	reply  string
	delay  time.Duration
}

func (s *sink) handler(w http.ResponseWriter, rq *http.Request) {
	time.Sleep(s.delay)
	b, _ := io.ReadAll(rq.Body)
	s.mu.Lock()
	s.bodies = append(s.bodies, b)
	s.uas = append(s.uas, rq.UserAgent())
	s.paths = append(s.paths, rq.URL.Path)
	s.ctypes = append(s.ctypes, rq.Header.Get("Content-Type"))
	st, rep := s.status, s.reply
	s.mu.Unlock()
	if st == 0 {
		st = http.StatusNoContent
	}
	w.WriteHeader(st)
	io.WriteString(w, rep)
}

func (s *sink) take() ([][]byte, []string, []string) {
	s.mu.Lock()
	defer s.mu.Unlock()
	b, u, p := s.bodies, s.uas, s.paths
	s.bodies, s.uas, s.paths, s.ctypes = nil, nil, nil, nil
	return b, u, p
}

type countingTransport struct{ n int32 }

func (t *countingTransport) RoundTrip(rq *http.Request) (*http.Response, error) {
	atomic.AddInt32(&t.n, 1)
	return http.DefaultTransport.RoundTrip(rq)
}

func (c *ctx) httpCorners(r *vlib.Rand) {
	id := genPeer(r)
	p2p := p2pComponent(id)
	bad := func(kind, desc string) { c.failOnce("http-corner:"+kind, "http-corner:"+kind, desc, cornerReplay) }
	mkMsg := func() (message.Message, []byte) {
		a := genKnownAddr(r, id)
		m := message.Message{Cid: mustCast(rawCidV1(0x55, 0x12, r.Bytes(32))), Addrs: [][]byte{a.B}, ExtraData: r.Bytes(r.Intn(20))}
		w := message.Message{Cid: m.Cid, Addrs: [][]byte{append(append([]byte{}, a.B...), p2p...)}, ExtraData: m.ExtraData}
		return m, runEnc(&w).Bytes
	}
	sk := &sink{}
	srv := httptest.NewServer(http.HandlerFunc(sk.handler))
	defer srv.Close()
	u := func(path string) *url.URL { x, _ := url.Parse(srv.URL + path); return x }
	bg := context.Background()

	// constructor arguments
	c.Eval()
	if _, err := httpsender.New(nil, id); err == nil {
		bad("new-without-urls", "httpsender.New with no URL returned no error")
	}
	if _, err := httpsender.New([]*url.URL{u("/a")}, peer.ID("")); err == nil {
		bad("new-with-empty-peer-id", "httpsender.New with an empty peer ID returned no error")
	}
	// default path, duplicate URLs, default and custom user agent, custom client
	{
		s, err := httpsender.New([]*url.URL{u(""), u("/announce"), u("")}, id)
		if err != nil {
			panic(err)
		}
		m, want := mkMsg()
		err = s.Send(bg, m)
		b, uas, paths := sk.take()
		c.Eval()
		c.Count("corner:http-default-path-and-duplicate-urls")
		if err != nil || len(b) != 1 || !bytes.Equal(b[0], want) || paths[0] != httpsender.DefaultAnnouncePath || !strings.HasPrefix(uas[0], "go-libipni/") {
			bad("duplicate-urls-default-path", fmt.Sprintf("three URLs naming one endpoint: err %v, %d posts, paths %v, user agents %v, body intact %v", err, len(b), paths, uas, len(b) > 0 && bytes.Equal(b[0], want)))
		}
		s.Close()
	}
	{
		tr := &countingTransport{}
		s, err := httpsender.New([]*url.URL{u("/c")}, id, httpsender.WithClient(&http.Client{Transport: tr}), httpsender.WithUserAgent("verif-agent/1"), httpsender.WithTimeout(time.Nanosecond))
		if err != nil {
			panic(err)
		}
		m, want := mkMsg()
		err = s.Send(bg, m) // the timeout option does not apply to a supplied client
		b, uas, _ := sk.take()
		c.Eval()
		c.Count("corner:http-with-client-and-user-agent")
		if err != nil || len(b) != 1 || !bytes.Equal(b[0], want) || uas[0] != "verif-agent/1" || atomic.LoadInt32(&tr.n) != 1 {
			bad("with-client-user-agent", fmt.Sprintf("WithClient+WithUserAgent: err %v, %d posts, user agent %v, supplied client used %d times", err, len(b), uas, tr.n))
		}
		s.Close()
	}
	// status codes: 200 and 204 are success, anything else an error carrying the reply
	for _, st := range []int{200, 204, 201, 400, 404, 500} {
		sk.mu.Lock()
		sk.status, sk.reply = st, " try later \n"
		sk.mu.Unlock()
		s, _ := httpsender.New([]*url.URL{u("/s")}, id)
		m, want := mkMsg()
		var err error
		noPanic(c, "httpsender.Send", func() { err = s.Send(bg, m) })
		b, _, _ := sk.take()
		c.Eval()
		c.Count("corner:http-status")
		okWanted := st == 200 || st == 204
		if (err == nil) != okWanted || len(b) != 1 || !bytes.Equal(b[0], want) {
			bad(fmt.Sprintf("status-%d", st), fmt.Sprintf("server replied %d: Send returned %v (posted %d, intact %v)", st, err, len(b), len(b) == 1 && bytes.Equal(b[0], want)))
		}
		if !okWanted && err != nil && (!strings.Contains(err.Error(), fmt.Sprint(st)) || !strings.Contains(err.Error(), "try later")) {
			bad("status-error-text", "error for a refused announce does not carry status and reply: "+err.Error())
		}
		s.Close()
	}
	sk.mu.Lock()
	sk.status, sk.reply = 0, ""
	sk.mu.Unlock()
	// timeout option against a slow server, cancelled context
	{
		sk.mu.Lock()
		sk.delay = 300 * time.Millisecond
		sk.mu.Unlock()
		s, _ := httpsender.New([]*url.URL{u("/slow")}, id, httpsender.WithTimeout(40*time.Millisecond))
		m, _ := mkMsg()
		var err error
		t0 := time.Now()
		noPanic(c, "httpsender.Send", func() { err = s.Send(bg, m) })
		c.Eval()
		c.Count("corner:http-timeout")
		if err == nil || time.Since(t0) > 250*time.Millisecond {
			bad("timeout", fmt.Sprintf("WithTimeout(40ms) against a server answering after 300ms: err %v after %v", err, time.Since(t0)))
		}
		s.Close()
		time.Sleep(320 * time.Millisecond)
		sk.mu.Lock()
		sk.delay = 0
		sk.mu.Unlock()
		sk.take()
		cctx, cancel := context.WithCancel(bg)
		cancel()
		s2, _ := httpsender.New([]*url.URL{u("/x")}, id)
		err = s2.Send(cctx, m)
		if err == nil || !errors.Is(err, context.Canceled) {
			bad("cancelled-context", fmt.Sprintf("Send with a cancelled context returned %v", err))
		}
		s2.Close()
		sk.take()
		// a nil context is a programming error of the caller: an error, not a panic
		s3, _ := httpsender.New([]*url.URL{u("/nilctx")}, id)
		noPanic(c, "httpsender.Send(nil context)", func() {
			//lint:ignore SA1012 deliberately nil
			if err := s3.Send(nil, m); err == nil { //nolint:staticcheck
				bad("nil-context", "Send with a nil context returned nil")
			}
		})
		s3.Close()
		sk.take()
	}
	// a reply whose body breaks off
	{
		ln, err := net.Listen("tcp", "127.0.0.1:0")
		if err != nil {
			panic(err)
		}
		go func() {
			for {
				cn, err := ln.Accept()
				if err != nil {
					return
				}
				go func() {
					buf := make([]byte, 4096)
					cn.SetReadDeadline(time.Now().Add(200 * time.Millisecond))
					cn.Read(buf)
					io.WriteString(cn, "HTTP/1.1 200 OK\r\nContent-Length: 50\r\n\r\nabc")
					cn.Close()
				}()
			}
		}()
		ub, _ := url.Parse("http://" + ln.Addr().String() + "/broken")
		s, _ := httpsender.New([]*url.URL{ub}, id)
		m, _ := mkMsg()
		var serr error
		noPanic(c, "httpsender.Send", func() { serr = s.Send(bg, m) })
		c.Eval()
		c.Count("corner:http-broken-reply")
		if serr == nil {
			bad("broken-reply", "the server's reply broke off in the body and Send returned nil")
		}
		s.Close()
		ln.Close()
	}
	// several URLs, one failing: the healthy ones get the announcement, the error names the other
	{
		dead := httptest.NewServer(http.HandlerFunc(func(http.ResponseWriter, *http.Request) {}))
		deadURL, _ := url.Parse(dead.URL + "/dead")
		dead.Close()
		refusing := &sink{status: 503, reply: "overloaded"}
		rsrv := httptest.NewServer(http.HandlerFunc(refusing.handler))
		ru, _ := url.Parse(rsrv.URL + "/refusing")
		for _, js := range []bool{false, true} {
			s, _ := httpsender.New([]*url.URL{u("/ok1"), deadURL, ru, u("/ok2")}, id)
			m, want := mkMsg()
			var err error
			noPanic(c, "httpsender.Send", func() {
				if js {
					err = s.SendJson(bg, m)
				} else {
					err = s.Send(bg, m)
				}
			})
			b, _, paths := sk.take()
			rb, _, _ := refusing.take()
			c.Eval()
			c.Count("corner:http-several-urls-one-failing")
			intact := len(b) == 2 && len(rb) == 1
			if intact && !js {
				intact = bytes.Equal(b[0], want) && bytes.Equal(b[1], want) && bytes.Equal(rb[0], want)
			}
			if intact && js {
				var d message.Message
				w := runDec(want).Msg
				for _, x := range b {
					if jerr := jsonUnmarshal(x, &d); jerr != nil || !sameMsg(d, w) {
						intact = false
					}
				}
			}
			if err == nil || !intact || !strings.Contains(err.Error(), "/dead") || !strings.Contains(err.Error(), "/refusing") || strings.Contains(err.Error(), "/ok1") {
				bad("several-urls-one-failing", fmt.Sprintf("4 URLs, one unreachable, one answering 503 (json=%v): err %v; healthy endpoints got %d posts (paths %v), all intact: %v", js, err, len(b), paths, intact))
			}
			s.Close()
		}
		rsrv.Close()
	}
}

type fakeSender struct {
	calls []message.Message
	err   error
}

func (f *fakeSender) Close() error { return nil }
func (f *fakeSender) Send(_ context.Context, m message.Message) error {
	f.calls = append(f.calls, m)
	return f.err
}

func (c *ctx) fanOutCorners(r *vlib.Rand) {
	bad := func(kind, desc string) {
		c.failOnce("fanout-corner:"+kind, "announce-send:"+kind, desc, cornerReplay)
	}
	x := mustCast(rawCidV1(0x55, 0x12, r.Bytes(32)))
	id := genPeer(r)
	a := genKnownAddr(r, id)
	ma, _ := multiaddr.NewMultiaddrBytes(a.B)
	addrs := []multiaddr.Multiaddr{ma}
	bg := context.Background()
	c.Eval()
	c.Count("corner:announce.Send")
	// nothing to announce / nobody to tell
	f1 := &fakeSender{}
	if err := announce.Send(bg, cid.Undef, addrs, f1); err != nil || len(f1.calls) != 0 {
		bad("undefined-cid", fmt.Sprintf("announce.Send with an undefined CID: err %v, sender called %d times", err, len(f1.calls)))
	}
	if err := announce.Send(bg, x, addrs); err != nil {
		bad("no-senders", "announce.Send without senders returned "+err.Error())
	}
	// one failing sender in the middle: the others still get exactly the announcement, the
	// error reports the failure
	f1, f2, f3 := &fakeSender{}, &fakeSender{err: errors.New("sink two is down")}, &fakeSender{}
	err := announce.Send(bg, x, addrs, f1, nil, f2, f3)
	want := message.Message{Cid: x, Addrs: [][]byte{a.B}}
	if err == nil || !strings.Contains(err.Error(), "sink two is down") || len(f1.calls) != 1 || len(f2.calls) != 1 || len(f3.calls) != 1 ||
		!sameMsg(f1.calls[0], want) || !sameMsg(f3.calls[0], want) {
		bad("one-failing-sender", fmt.Sprintf("three senders, the second failing: err %v, calls %d/%d/%d", err, len(f1.calls), len(f2.calls), len(f3.calls)))
	}
	// two failing: both reported
	f1, f2, f3 = &fakeSender{err: errors.New("first down")}, &fakeSender{}, &fakeSender{err: errors.New("third down")}
	err = announce.Send(bg, x, addrs, f1, f2, f3)
	if err == nil || !strings.Contains(err.Error(), "first down") || !strings.Contains(err.Error(), "third down") || len(f2.calls) != 1 {
		bad("two-failing-senders", fmt.Sprintf("err %v", err))
	}
	// a cancelled context ends the fan-out: later senders are not called
	f1, f2, f3 = &fakeSender{}, &fakeSender{err: fmt.Errorf("wrapped: %w", context.Canceled)}, &fakeSender{}
	err = announce.Send(bg, x, addrs, f1, f2, f3)
	if !errors.Is(err, context.Canceled) || len(f3.calls) != 0 || len(f1.calls) != 1 {
		bad("cancelled", fmt.Sprintf("sender 2 reports context.Canceled: err %v, sender 3 called %d times", err, len(f3.calls)))
	}
}

// p2pCorners: a sender that owns its topic vs one that is given a topic; extra data;
// TopicName; Close, Close again, Send after Close; a message outside the caps.
func (c *ctx) p2pCorners(r *vlib.Rand) {
	bad := func(kind, desc string) { c.failOnce("p2p-corner:"+kind, "p2p-corner:"+kind, desc, cornerReplay) }
	ctx, cancel := context.WithTimeout(context.Background(), 40*time.Second)
	defer cancel()
	topicName := "/verif/c10/own-topic"
	hS, hR := newHost(), newHost()
	defer hS.Close()
	defer hR.Close()
	tR, cancelR, err := gossiptopic.MakeTopic(hR, topicName)
	if err != nil {
		panic(err)
	}
	defer cancelR()
	sub, err := tR.Subscribe()
	if err != nil {
		panic(err)
	}
	exd := r.Bytes(11)
	var s *p2psender.Sender
	if !noPanic(c, "p2psender.New(host, topic)", func() { s, err = p2psender.New(hS, topicName, p2psender.WithExtraData(exd)) }) || err != nil {
		bad("new-own-topic", fmt.Sprint(err))
		return
	}
	c.Eval()
	c.Count("corner:p2psender-own-topic")
	if s.TopicName() != topicName { // not part of the property: exercised, counted
		c.Count("obs-p2psender-topicname-differs")
	}
	if err := hS.Connect(ctx, peer.AddrInfo{ID: hR.ID(), Addrs: hR.Addrs()}); err != nil {
		panic(err)
	}
	// wait for the mesh with probes
	recv := func(d time.Duration) []byte {
		rctx, rcancel := context.WithTimeout(ctx, d)
		defer rcancel()
		pm, err := sub.Next(rctx)
		if err != nil {
			return nil
		}
		return pm.Data
	}
	met := false
	for i := 0; i < 100 && !met; i++ {
		_ = s.Send(ctx, message.Message{Cid: mustCast(rawCidV1(0x55, 0x12, r.Bytes(32)))})
		met = recv(100*time.Millisecond) != nil
	}
	if !met {
		c.Note("p2p corners skipped: mesh did not form")
		return
	}
	for recv(150*time.Millisecond) != nil {
	}
	// what the owner sends decodes to the message with the configured extra data
	m, _ := genMsg(r)
	if m.Cid.ByteLen() > 400 {
		m.Cid = mustCast(rawCidV1(0x55, 0x12, r.Bytes(32)))
	}
	if err := s.Send(ctx, m); err != nil {
		bad("own-topic-send", err.Error())
	}
	want := m
	want.ExtraData = exd
	if data := recv(3 * time.Second); data == nil || !bytes.Equal(data, runEnc(&want).Bytes) {
		bad("own-topic-wire", fmt.Sprintf("a p2psender owning its topic, with extra data: the subscriber got %x", data))
	}
	// outside the caps: an error, nothing published
	if err := s.Send(ctx, message.Message{}); err == nil {
		bad("undefined-cid-sent", "Send of a message with an undefined CID returned nil")
	}
	m2 := message.Message{Cid: mustCast(rawCidV1(0x55, 0x12, r.Bytes(32)))}
	_ = s.Send(ctx, m2)
	w2 := m2
	w2.ExtraData = exd
	if data := recv(3 * time.Second); data == nil || !bytes.Equal(data, runEnc(&w2).Bytes) {
		bad("after-refused-message", fmt.Sprintf("after a refused message the next one arrived as %x", data))
	}
	// Close, Close again, Send after Close: errors, not panics
	noPanic(c, "p2psender.Close", func() {
		if err := s.Close(); err != nil {
			bad("close", err.Error())
		}
		if err := s.Close(); err != nil {
			bad("close-twice", err.Error())
		}
	})
	noPanic(c, "p2psender.Send after Close", func() {
		if err := s.Send(ctx, m2); err == nil {
			bad("send-after-close", "Send on a closed sender that owned its topic returned nil")
		}
		_ = s.TopicName()
	})
	c.Eval()
	c.Count("corner:p2psender-close")
	// a supplied topic is not the sender's to close
	hT := newHost()
	defer hT.Close()
	tT, cancelT, err := gossiptopic.MakeTopic(hT, topicName)
	if err != nil {
		panic(err)
	}
	defer cancelT()
	if err := hT.Connect(ctx, peer.AddrInfo{ID: hR.ID(), Addrs: hR.Addrs()}); err != nil {
		panic(err)
	}
	st, err := p2psender.New(nil, "ignored-name", p2psender.WithTopic(tT))
	if err != nil {
		panic(err)
	}
	if st.TopicName() != topicName {
		c.Count("obs-p2psender-topicname-differs")
	}
	noPanic(c, "p2psender (supplied topic) Close then Send", func() {
		if err := st.Close(); err != nil {
			bad("supplied-topic-close", err.Error())
		}
		met := false
		for i := 0; i < 100 && !met; i++ {
			m3 := message.Message{Cid: mustCast(rawCidV1(0x55, 0x12, r.Bytes(32)))}
			if err := st.Send(ctx, m3); err != nil {
				bad("supplied-topic-send-after-close", "a sender that was given its topic must leave it usable: "+err.Error())
				return
			}
			if data := recv(100 * time.Millisecond); data != nil {
				met = bytes.Equal(data, runEnc(&m3).Bytes)
				if !met {
					bad("supplied-topic-wire", fmt.Sprintf("subscriber got %x", data))
					return
				}
			}
		}
		if !met {
			bad("supplied-topic-wire", "nothing arrived from the sender with a supplied topic")
		}
	})
	c.Eval()
	c.Count("corner:p2psender-supplied-topic")
	// neither a host/topic name nor a topic: there is nothing to publish to
	var sn *p2psender.Sender
	var nerr error
	noPanic(c, "p2psender.New without any topic", func() { sn, nerr = p2psender.New(nil, "") })
	c.Eval()
	c.Count("corner:p2psender-without-topic")
	if nerr == nil && sn != nil {
		panicked := false
		func() {
			defer func() {
				if recover() != nil {
					panicked = true
				}
			}()
			_ = sn.Send(ctx, m2)
		}()
		if panicked {
			// a mis-configuration the property does not quantify over: counted, not reported
			c.Count("obs-p2psender-new-without-topic-send-panics")
		}
	}
}

func (c *ctx) cornerCases() {
	r := c.Rng.Fork("corners")
	c.encoderWriterErrors(r)
	c.httpCorners(r)
	c.fanOutCorners(r)
	c.p2pCorners(r)
}

func jsonUnmarshal(b []byte, m *message.Message) error { return json.Unmarshal(b, m) }
